#!/usr/bin/env python3-vt
import json, glob, sys, jsonschema
ok = True
def check(path, schema):
    global ok
    try:
        jsonschema.validate(json.load(open(path)), json.load(open(schema)))
    except Exception as e:
        ok = False
        print("INVALID", path, str(e)[:300])
check('/verif/MANIFEST.json', '/root/.vp/MANIFEST.schema.json')
for f in sorted(glob.glob('/verif/evidence/*.json')):
    check(f, '/root/.vp/EVIDENCE.schema.json')
m = json.load(open('/verif/MANIFEST.json'))
claimed = {c['property_id'] for c in m['checks']}
na = {c['property_id'] for c in m.get('not_applicable', [])}
allp = {json.loads(l)['id'] for l in open('/verif/properties.jsonl')}
if claimed & na or (claimed | na) != allp:
    ok = False
    print("claimed/not_applicable do not partition the properties", sorted(allp - claimed - na), sorted(claimed & na))
print("valid" if ok else "PROBLEMS")
sys.exit(0 if ok else 1)
