#!/bin/bash
# tools/matrix_all.sh [out]: run every seeded change against the check of its own property (quick tier) in private
# copies, one line per change. Slow (about 1 min per change); meant for the background.
out=${1:-/tmp/matrix.txt}
: > "$out"
for d in /verif/seeded/C*/; do
  id=$(basename "$d"); prop=${id%%-*}
  /verif/tools/matrix.sh "$id" "$prop" >> "$out" 2>&1
done
echo DONE >> "$out"
