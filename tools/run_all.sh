#!/bin/bash
# tools/run_all.sh [quick|thorough] [ID...]: run the checks one after another on /repo as it is and print one
# summary line each (exit status, counts, wall time, any VIOLATION / INCONCLUSIVE / KNOWN-FINDING lines).
tier=${1:-quick}; shift || true
ids=("$@"); if [ ${#ids[@]} -eq 0 ]; then ids=($(seq -f 'C%02g' 1 19)); fi
root=$(cd "$(dirname "$0")/.." && pwd)
cd "$root" || exit 2
export VERIF_ROOT=$root
for id in "${ids[@]}"; do
  s=$(date +%s)
  out=$(./check "$id" "$tier" 2>&1); rc=$?
  e=$(( $(date +%s) - s ))
  echo "$id $tier rc=$rc ${e}s $(echo "$out" | grep -E "^$id $tier:" | cut -c1-120)"
  echo "$out" | grep -E '^(VIOLATION|INCONCLUSIVE|KNOWN-FINDING)' | cut -c1-160 | sed 's/^/    /'
done
