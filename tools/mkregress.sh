#!/bin/bash
# tools/mkregress.sh [<finding-id-prefix>...]: for every repaired finding of known-findings.json (or those named),
# undo its fix: commit in a scratch copy of /repo's HEAD, run the quick check of its property there, and keep the
# first failing input as /verif/regress/<property>/<finding>.json - provided that input passes on the real HEAD.
# Findings whose commit no longer reverse-applies, or whose check does not fail in the quick tier, are reported
# and skipped. Scratch copies live under /tmp/work and are removed.
set -u
export GOFLAGS=-mod=mod GOPROXY=off GOSUMDB=off GOTOOLCHAIN=local
want=("$@")
python3 - <<'EOF' > /tmp/mkregress.list
import json
d=json.load(open('/verif/known-findings.json'))
for f in d['findings']:
    if f['status']=='fixed' and f.get('commit'):
        print(f['id'], f['property'], f['commit'].replace(',',' ').split()[-1])
EOF
while read -r fid prop commit; do
  if [ ${#want[@]} -gt 0 ]; then keep=0; for w in "${want[@]}"; do case "$fid" in "$w"*) keep=1;; esac; done; [ $keep = 1 ] || continue; fi
  out=/verif/regress/$prop/$fid.json
  [ -f "$out" ] && { echo "$fid $prop: already there"; continue; }
  d=/tmp/work/rg-$fid-$prop
  rm -rf "$d"; /verif/tools/mkscratch.sh "$d" >/dev/null || { echo "$fid: scratch failed"; continue; }
  if ! git -C /repo diff "$commit~1" "$commit" | (cd "$d/repo" && patch -R -p1 -s --no-backup-if-mismatch) >/dev/null 2>&1; then
    echo "$fid $prop: fix $commit no longer reverse-applies"; rm -rf "$d"; continue
  fi
  if ! (cd "$d/repo" && go build ./... ) >/dev/null 2>&1; then echo "$fid $prop: tree without the fix does not build"; rm -rf "$d"; continue; fi
  res=$(cd "$d" && VERIF_ROOT=$d VERIF_REPO=$d/repo VERIF_SEED=${VERIF_SEED:-1} ./check "$prop" quick 2>&1 | grep -m1 '^VIOLATION' | sed 's/.*replay=//')
  if [ -z "$res" ] || [ ! -f "$res" ]; then echo "$fid $prop: quick check does not fail without the fix"; rm -rf "$d"; continue; fi
  mkdir -p "$(dirname "$out")"; cp "$res" "$out"
  rm -rf "$d"
  if (cd /verif && ./check "$prop" --replay "$out" 2>&1 | grep -q "no violation"); then echo "$fid $prop: kept $(basename "$out")"; else echo "$fid $prop: input fails on HEAD too - dropped"; rm -f "$out"; fi
done < /tmp/mkregress.list
