#!/bin/bash
# tools/mkscratch.sh <dir>: a private copy of the harness and of /repo's HEAD
# under <dir>, for developing a check or trying a mutant without touching
# /verif or /repo. Use with:  VERIF_ROOT=<dir> VERIF_REPO=<dir>/repo <dir>/check <ID> quick
set -eu
d=$1
mkdir -p "$d/repo"
git -C /repo archive HEAD | tar -x -C "$d/repo"
rsync -a --exclude .build --exclude .git /verif/harness /verif/corpus /verif/check /verif/known-findings.json /verif/tools "$d/"
sed -i "s#=> /repo#=> $d/repo#" "$d/harness/go.mod"
mkdir -p "$d/evidence" "$d/replays"
echo "export VERIF_ROOT=$d VERIF_REPO=$d/repo GOFLAGS=-mod=mod GOPROXY=off GOSUMDB=off GOTOOLCHAIN=local"
