#!/usr/bin/env python3
"""Regenerates /verif/MANIFEST.json from the table below (kept in one place so
that the manifest stays valid while checks are added)."""
import json, sys

ALL = ["C%02d" % i for i in range(1, 20)]

# id -> (level category, technique, level text, level note, design ref)
CHECKS = {
    "C08": ("exploration",
            "generated-input search (exhaustive prefix sweep of repository patches, token mutation, template-grammar ill-typed patches, random bytes) against a crash/hang oracle; thorough adds coverage-guided go test -fuzz",
            "Every prefix of every repository patch plus thousands (quick) to millions (thorough) of generated malformed, truncated, token-mutated and ill-typed patches are run through patch.Parse/Apply behind recover and a watchdog, a sample through the CLI; any panic, hang or silent failure is a violation. Sampling cannot show absence, hence exploration.",
            "Trusts go test's process isolation and a 10 s watchdog as the definition of 'hang' on inputs of a few KB.",
            "DESIGN.md §4 C08"),
}

NOT_YET = "check not built yet (work in progress in this session; see DESIGN.md §8 build order)"

def main():
    checks = []
    for pid in ALL:
        if pid not in CHECKS:
            continue
        cat, tech, text, note, ref = CHECKS[pid]
        checks.append({
            "property_id": pid,
            "quick_cmd": "./check %s quick" % pid,
            "thorough_cmd": "./check %s thorough" % pid,
            "evidence_file": "/verif/evidence/%s.json" % pid,
            "replay_cmd_template": "./check %s --replay {path}" % pid,
            "engine": "harness",
            "level_claimed": {"category": cat, "text": text, "design_ref": ref},
            "level_note": note,
            "technique": tech,
        })
    na = [{"property_id": pid, "reason": NOT_YET} for pid in ALL if pid not in CHECKS]
    m = {
        "version": 1,
        "setup_cmd": "cd /verif/harness && export GOFLAGS=-mod=mod GOPROXY=off GOSUMDB=off GOTOOLCHAIN=local && go build ./... && go build -o /dev/null github.com/uber-go/gopatch && go test -c -vet=off -tags verif -o /dev/null ./props",
        "hooks": {
            "guard": "verif",
            "enable": "go build -tags verif (no hook is currently needed: the checks observe gopatch only through the patch package and the CLI binary)",
            "baseline_off_cmd": "cd /repo && GOFLAGS=-mod=mod GOPROXY=off GOSUMDB=off GOTOOLCHAIN=local go test -json -vet=off -count=1 -timeout 25m ./...",
            "source_commits": [],
            "add_only": True,
        },
        "engines": [{
            "name": "harness",
            "path": "/verif/harness",
            "serves_properties": sorted(CHECKS),
            "kind_free_text": "Go module: rapid-driven generators, reference models and oracles (props/), runners (run/), driver cmd/vcheck that rebuilds gopatch from /repo, shards the run and merges evidence",
        }],
        "checks": checks,
        "not_applicable": na,
        "notes": "Technique family: property-based testing and fuzzing (pgregory.net/rapid v1.3.0 + native go fuzzing). Exit 2 = inconclusive (build failure, time budget), never a violation. Known findings: /verif/known-findings.json.",
    }
    json.dump(m, open("/verif/MANIFEST.json", "w"), indent=1)
    print("wrote MANIFEST.json with", len(checks), "checks,", len(na), "not_applicable")

if __name__ == "__main__":
    main()
