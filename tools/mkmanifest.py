#!/usr/bin/env python3
"""Regenerates /verif/MANIFEST.json from the table below (kept in one place so
that the manifest stays valid while checks are added)."""
import json, sys

ALL = ["C%02d" % i for i in range(1, 20)]

MODEL_NOTE = "Trusts go/parser, go/printer and reflection over go/ast as the definition of 'syntax tree'; the reference model (harness/ref) is an independent backtracking matcher/rewriter over canonical trees written from the property statements and docs/PatchesInDepth.md. Outcomes the property leaves open are not judged."

# id -> (level category, technique, level text, level note, design ref)
CHECKS = {
    "C08": ("exploration",
            "generated-input search (exhaustive prefix sweep of repository patches, token mutation, template-grammar ill-typed patches incl. targets with absent optional parts and a damaging first change, stress cases: deep nesting, many elisions on long lists, one path imported many times on both sides; random bytes) against a crash/hang oracle; thorough adds coverage-guided go test -fuzz",
            "Every prefix of every repository patch plus thousands (quick) to millions (thorough) of generated malformed, truncated, token-mutated and ill-typed patches are run through patch.Parse/Apply behind recover and a watchdog, a sample through the CLI; any panic, hang or silent failure is a violation. Sampling cannot show absence, hence exploration.",
            "Trusts go test's process isolation and a 10 s watchdog as the definition of 'hang' on inputs of a few KB.",
            "DESIGN.md §4 C08"),
    "C01": ("exploration",
            "generated-input search (patterns mined from real code, planted instances and single-field near-miss mutants, incl. respelled literals and children moved to another optional slot) against an independent reference matcher/rewriter over canonical syntax trees",
            "Thousands (quick) to hundreds of thousands (thorough) of (patch, file) pairs: every reference site must be rewritten and nothing that is not an instance may be; discrepancies are classified and only those contradicting C01 fail this check. Sampling over an unbounded space: exploration.",
            MODEL_NOTE, "DESIGN.md §4 C01"),
    "C02": ("exploration",
            "generated-input search biased to repeated and identifier metavariables with consistency/kind near-misses, against the reference matcher (strict vs metavariable-relaxed matching attributes failures); plus generated files for a metavariable that the import section binds",
            "Same machinery as C01 with patterns in which a metavariable occurs several times or is an identifier hole, and files holding consistent instances next to almost-consistent and wrong-kind near-misses; a near-miss that is rewritten, a consistent instance that is not, or a filler of another site appearing in a site fails the check.",
            MODEL_NOTE, "DESIGN.md §4 C02"),
    "C03": ("exploration",
            "generated-input search (several sites with different bindings; plus sides that rename, wrap, swap, drop and duplicate metavariables) against reference instantiation of the '+' tree",
            "At every reference site the output must equal the '+' pattern instantiated with that site's bindings (compared as canonical trees, with a print/parse round trip of the expected tree as tie-breaker); inadmissible replacements must leave the site alone.",
            MODEL_NOTE, "DESIGN.md §4 C03"),
    "C04": ("exploration",
            "exhaustive small-scope enumeration (all patterns over {atom, atom, metavariable, metavariable, elision} up to a length bound x all lists up to length 5, per list kind) against a 30-line backtracking list model, plus generated elision-heavy mined patterns against the reference matcher",
            "Within the stated bound every (pattern, list) pair of every list kind is executed through patch.Parse/Apply and compared with the list model (match iff some choice of runs exists; shortest-first runs; elided elements reproduced in place) - exhaustive inside the bound, sampled (part b) outside it. Parts (c) and (d) add generated statement patches whose calls stand on removed / context / added lines (an elision on a context line must reproduce its own arguments) and lists of 40-130 elements against a string-atom version of the list model. Claimed as exploration because the bound is small.",
            MODEL_NOTE + " The list model is 30 lines (c04Model).", "DESIGN.md §4 C04"),
    "C05": ("exploration",
            "generated-input search on large real hosts; whole-file canonical-tree comparison of gopatch's output with the reference rewrite, imports as multiset",
            "Whole output files (up to 400 lines of real standard-library code around 1..n sites) are compared with the reference rewrite; any difference outside the rewritten fragments fails the check.",
            MODEL_NOTE, "DESIGN.md §4 C05"),
    "C06": ("exploration",
            "generated-input search: patch sets whose non-application to a file is decided without gopatch (reference matcher finds no site / unique callee name absent / guard that cannot hold) x files deformed into non-canonical layouts x modes x flags; validity predicate on the file-system snapshot, stdout, stderr, exit status and the Apply result",
            "Thousands (quick) to hundreds of thousands (thorough) of runs over 1-5 files in the default mode, with --diff and with --print-only plus the library: a file to which no change applies must keep bytes, mode, mtime and inode, get no diff, description or error, be echoed byte for byte by --print-only and be returned unchanged by Apply; a run in which nothing applies anywhere must exit 0 with empty stderr and (but for --print-only / -v log lines) empty stdout. Sampling: exploration.",
            "Trusts the reference matcher (harness/ref) for 'no site' and the file-system snapshot; a file whose only matches are inadmissible (the '+' side cannot be built there) is judged as 'nothing applies'.", "DESIGN.md §4 C06, §10.7"),
    "C12": ("exploration",
            "generated-input search with a differential oracle between the four output channels (bytes written in place, --print-only stdout, original + --diff hunks applied by a byte-exact applier, patch.File.Apply) and a snapshot invariant for dry runs (complete tree digest before/after, incl. patch files and $TMPDIR)",
            "Hundreds (quick) to tens of thousands (thorough) of invocations over 1-6 files (matching, not matching, failing, generated, non-canonical layouts) x flag subsets x argument spellings, each run in four modes on identical trees: a dry run may not change any entry; the four channels must carry identical bytes per file and the same exit status; descriptions only on stderr as 'path:text' for files the described change applied to. Two listed known findings (final newline, misordered hunks) are reported as KNOWN-FINDING and do not hide other differences.",
            "Differential between gopatch's own modes (that is the stated relation); which change applied to a file is decided by folding single-change library runs and confirmed by a -v solo run before a report.", "DESIGN.md §4 C12, §10.7"),
    "C07": ("exploration",
            "generated-input search (templates that put captured code where it does not fit, ill-typed grammar, mined patterns) through the API and 8 CLI mode x flag combinations; validity predicate: go/parser on every emitted content",
            "Every content gopatch emits with exit 0 (in place, --print-only, --diff applied by a small applier, Apply result) is parsed; a reported error must name the file and leave it untouched.",
            "Trusts go/parser as the definition of 'parses as a Go source file' and the harness's unified-diff applier.", "DESIGN.md §4 C07"),
    "C09": ("exploration",
            "generated change sequences (chains where change k+1 matches only code introduced by change k, failing steps, independent changes, lists emptied by an elision, steps whose result cannot be printed, package names shadowed by locals, result lists and operands whose printed form differs from the tree an earlier change leaves, a patch file named twice) delivered over -p / -P / stdin; differential oracle: combined run vs chain of single-change runs",
            "The combined CLI run over 2-5 changes split into 1..n patch files must equal, as canonical trees with parentheses looked through, the result of running the changes one at a time on each other's output; a failing step must make the combined run fail and leave the file untouched.",
            "Differential: both sides are gopatch; the single-change behaviour is judged by C01-C05. -p flags are given before -P.", "DESIGN.md §4 C09"),
    "C10": ("exploration",
            "complete enumeration of the import/package guard table (17k cells) plus generated cells with extra imports; oracle = the table in the property statement",
            "Every cell of patch-side import form x file-side forms (incl. a path imported twice) x file layout x package clause x guard line kind x second guard is executed through patch.Parse/Apply; 'no effect' is checked as byte-identical output.",
            "The table part is a complete enumeration of a finite space written from the property text; claimed as exploration because file layouts beyond the 8 enumerated ones are only sampled.", "DESIGN.md §4 C10"),
    "C11": ("exploration",
            "generated files with bystander imports of every form and patches that add / delete / replace / rename / match imports, oracle on the (name, path) multiset; plus mined patterns with '+import' lines on real hosts",
            "Bystander imports must survive unchanged, nothing unmentioned may appear, '+' imports appear once under the right name, '-' imports disappear exactly when nothing refers to their package name any more (plain, nested-selector, call-selector, index-selector, func-literal and type-position uses are generated).",
            "Package names are taken as the last path element / the explicit name; no shadowing locals (see C12 for that).", "DESIGN.md §4 C11"),
    "C13": ("exploration",
            "metamorphic: a base patch vs a drawn composition of meaning-preserving layout transformations of it; results compared as canonical trees; CLI sample for descriptions",
            "Comment lines, blank lines, naming, description lines, metavariable renaming / regrouping / reordering, re-spacing, wrapping after commas, joining context lines, context line <-> identical -/+ pair, common tail of a -/+ pair as a context line (also on changes with several elisions on the changed line): base and variant must both be rejected or give syntactically identical results.",
            "Metamorphic relation between two runs of gopatch; the base behaviour itself is judged by C01-C05.", "DESIGN.md §4 C13"),
    "C14": ("exploration",
            "generated file sets and argument orders (solo vs grouped CLI runs), stateful Apply histories on one parsed patch vs fresh Parse+Apply, barrier-released concurrent Apply batches in a child process built with -race, and runs over hundreds of files under a descriptor limit",
            "Per-file results of a grouped run must equal the solo runs (bytes, stdout pieces, descriptions, error texts); every Apply on a shared patch.File must equal a fresh Parse + single Apply; concurrent batches must give the same results and the race detector must stay silent.",
            "The harness does not own the Go scheduler: interleavings are sampled by stress under the race detector, not enumerated. Differential against gopatch itself.", "DESIGN.md §4 C14"),
    "C15": ("exploration",
            "complete table of tree shapes x argument spellings plus generated directory trees and argument lists, against a reference walk; a non-idempotent patch makes double processing visible",
            "A fixed 39-entry tree crossed with every target, spelling and working directory (about 1470 cases) plus generated trees/argument lists through the CLI; the set of changed files, the number of applications per file and the -v listing must equal the reference walk written from the property text.",
            "Trusts the file-system snapshot (type, mode, size, mtime, inode, sha256) and a reference walk over the tree model; corners the statement leaves open (roots inside excluded directories, a directory named through a symlink) are 'either'; a file named through a symlinked directory must be processed, once.", "DESIGN.md §4 C15"),
    "C16": ("fault_enumeration",
            "fault enumeration at system-call granularity (own ptrace injector cross-checked against strace; prlimit --fsize) over generated trees and patches, plus a complete table of per-file failure kinds at every position, and runs over hundreds of files interrupted by SIGINT / SIGTERM / SIGHUP",
            "For every recorded file-system call touching a target (open, write, chmod, rename, close, read) the call is failed with ENOSPC/EIO/EACCES and, separately, the process is killed on entry to it; size limits cut writes short; unparseable sources, rewrite errors, unparseable results, unreadable targets, missing paths and unloadable patches are placed at every position. Afterwards every Go file must hold its original or its complete patched bytes, failures must be reported with path and cause and a non-zero exit status, and other files must be unaffected.",
            "Trusts ptrace/strace injection and prlimit; torn writes inside one write system call and power loss after rename are out of reach.", "DESIGN.md §4 C16"),
    "C17": ("exploration",
            "real hosts decorated by a comment injector (unique tokens) and patches of 1-3 changes (hosts with //line directives among them), generated import sections with tokens on every spec, the package line and the cgo preamble under patches that delete / replace / add an import, and runs of up to 170 rewritten declarations around an untouched one; validity predicates on comment multisets, per-declaration comment lists and per-token attachment",
            "No comment may appear more often in the output than in the input; every top-level declaration whose code is unchanged keeps its doc, inner and trailing comments in order; header/package comments and free-standing comments between untouched declarations survive.",
            "Comments are compared by whitespace-normalised text on gofmt-stable inputs; 'nothing was rewritten' is decided by exact equality of the declaration's syntax tree before and after.", "DESIGN.md §4 C17"),
    "C18": ("exploration",
            "enumerated table of about 4500 header shapes (incl. headers of 7 KB and 70 KB) x flag x modes, generated compositions, and generated runs over 2-7 files of which several are generated and adjacent in path order, against a three-valued reference predicate computed by a hand-written lexer",
            "Every header shape (marker spelling, comment style, placement) is run through the CLI with and without --skip-generated in several modes; must-skip files must be untouched and silent, must-process files must behave exactly as without the flag, the flag-off run must ignore markers.",
            "Trusts the reference predicate written from the README wording; well-formed text in block comments / indented, and @generated outside the package doc are not judged.", "DESIGN.md §4 C18"),
    "C19": ("exploration",
            "generated multi-change patches with exactly one injected header/metavariable fault whose line:column the generator knows; oracle = position in the diagnostic (API and CLI)",
            "Tens of thousands of patches with one injected fault each: patch.Parse must fail naming file:line:col of the offending token; a sample through the CLI must exit non-zero, name the patch path with the same position and leave the tree unchanged; every rejected patch must name the patch file.",
            "Trusts the generator's own byte-accurate rendering of the patch; the fault-free twin of each case must be accepted or the case is not judged.", "DESIGN.md §4 C19"),
}

MODEL_NOTE = "Trusts go/parser, go/printer and reflection over go/ast as the definition of 'syntax tree'; the reference model (harness/ref) is an independent backtracking matcher/rewriter over canonical trees written from the property statements and docs/PatchesInDepth.md. Outcomes the property leaves open are not judged."

NOT_YET = "check not built yet (work in progress in this session; see DESIGN.md §8 build order)"

def main():
    checks = []
    for pid in ALL:
        if pid not in CHECKS:
            continue
        cat, tech, text, note, ref = CHECKS[pid]
        checks.append({
            "property_id": pid,
            "quick_cmd": "./check %s quick" % pid,
            "thorough_cmd": "./check %s thorough" % pid,
            "evidence_file": "/verif/evidence/%s.json" % pid,
            "replay_cmd_template": "./check %s --replay {path}" % pid,
            "engine": "harness",
            "level_claimed": {"category": cat, "text": text, "design_ref": ref},
            "level_note": note,
            "technique": tech,
        })
    na = [{"property_id": pid, "reason": NOT_YET} for pid in ALL if pid not in CHECKS]
    m = {
        "version": 1,
        "setup_cmd": "cd /verif/harness && export GOFLAGS=-mod=mod GOPROXY=off GOSUMDB=off GOTOOLCHAIN=local && go build ./... && go build -o /dev/null github.com/uber-go/gopatch && go test -c -vet=off -tags verif -o /dev/null ./props",
        "hooks": {
            "guard": "verif",
            "enable": "go build -tags verif (no hook is currently needed: the checks observe gopatch only through the patch package and the CLI binary)",
            "baseline_off_cmd": "cd /repo && GOFLAGS=-mod=mod GOPROXY=off GOSUMDB=off GOTOOLCHAIN=local go test -json -vet=off -count=1 -timeout 25m ./...",
            "source_commits": [],
            "add_only": True,
        },
        "engines": [{
            "name": "harness",
            "path": "/verif/harness",
            "serves_properties": sorted(CHECKS),
            "kind_free_text": "Go module: rapid-driven generators, reference models and oracles (props/), runners (run/), driver cmd/vcheck that rebuilds gopatch from /repo, shards the run and merges evidence",
        }],
        "checks": checks,
        "not_applicable": na,
        "notes": "Technique family: property-based testing and fuzzing (pgregory.net/rapid v1.3.0 + native go fuzzing). Exit 2 = inconclusive (build failure, time budget), never a violation. Known findings: /verif/known-findings.json.",
    }
    json.dump(m, open("/verif/MANIFEST.json", "w"), indent=1)
    print("wrote MANIFEST.json with", len(checks), "checks,", len(na), "not_applicable")

if __name__ == "__main__":
    main()
