#!/usr/bin/env python3
"""tools/mkmatrix.py <matrix-output>...: writes seeded/MATRIX.md from the one-line-per-run output of
tools/matrix.sh / tools/matrix_all.sh (later files override earlier ones for the same (change, check))."""
import sys, os, json, glob, re
runs = {}
for f in sys.argv[1:]:
    for line in open(f):
        m = re.match(r'^(C\d\d-m\d+) (C\d\d) rc=(\d+)', line)
        if m:
            runs[(m.group(1), m.group(2))] = int(m.group(3))
ids = sorted(os.path.basename(d.rstrip('/')) for d in glob.glob('/verif/seeded/C*-m*/'))
out = ["# Seeded changes and the checks that catch them", "",
       "Quick tier, VERIF_SEED=1, each change applied to a private copy of /repo's HEAD (tools/matrix.sh).",
       "`caught` = the check exits 1 with a VIOLATION line; `missed` = exit 0; `-` = not run.", "",
       "| change | breaks | title | own check | other checks run |", "|---|---|---|---|---|"]
for i in ids:
    prop = i.split('-')[0]
    title = open(f'/verif/seeded/{i}/README.md').readline().strip().lstrip('# ').replace('|', '/')
    own = runs.get((i, prop))
    owns = {None: '-', 1: 'caught', 0: 'missed'}.get(own, f'rc={own}')
    others = ', '.join(f"{c}: {'caught' if rc == 1 else 'missed' if rc == 0 else 'rc=%d' % rc}" for (ch, c), rc in sorted(runs.items()) if ch == i and c != prop)
    out.append(f"| {i} | {prop} | {title[:110]} | {owns} | {others} |")
    meta = f'/verif/seeded/{i}/meta.json'
    try:
        m = json.load(open(meta))
        m['detected_by'] = {c: ('caught' if rc == 1 else 'missed' if rc == 0 else f'rc={rc}') for (ch, c), rc in sorted(runs.items()) if ch == i}
        json.dump(m, open(meta, 'w'), indent=1)
    except Exception:
        pass
open('/verif/seeded/MATRIX.md', 'w').write('\n'.join(out) + '\n')
print("wrote seeded/MATRIX.md for", len(ids), "changes")
