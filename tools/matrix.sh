#!/bin/bash
# tools/matrix.sh <seeded-id> <ID> [<ID>...]: run quick checks against one seeded change in a private copy
# (scratch copy of the harness and of /repo's HEAD with the change applied), print one line per check.
set -u
id=$1; shift
d=/tmp/work/mx-$id
rm -rf "$d"
/verif/tools/mkscratch.sh "$d" >/dev/null || exit 2
if ! (cd "$d/repo" && patch -p1 -s < /verif/seeded/$id/patch.diff); then echo "$id APPLY-FAILED"; rm -rf "$d"; exit 3; fi
for p in "$@"; do
  out=$(cd "$d" && VERIF_ROOT=$d VERIF_REPO=$d/repo VERIF_SEED=${VERIF_SEED:-1} ./check "$p" ${TIER:-quick} 2>&1); rc=$?
  echo "$id $p rc=$rc $(echo "$out" | grep -E '^(VIOLATION|INCONCLUSIVE)' | head -1 | cut -c1-120)"
done
rm -rf "$d"
