#!/bin/bash
# tools/repo_commit.sh <message-file>: commit the working-tree change of /repo only if it builds, vets and the
# whole existing suite passes.
set -eu
export GOFLAGS=-mod=mod GOPROXY=off GOSUMDB=off GOTOOLCHAIN=local
cd /repo
test -z "$(gofmt -l . 2>/dev/null)" || { echo "gofmt:"; gofmt -l .; exit 1; }
go build ./...
go vet ./...
out=$(go test -count=1 ./... 2>&1) || { echo "$out" | tail -20; exit 1; }
git add -A
git commit -q -F "$1"
git log --oneline | head -1
