#!/bin/bash
# tools/trymutant.sh <patch.diff> <ID> [<ID>...]: apply a seeded change to /repo, run the quick checks, undo.
set -u
diff=$1; shift
cd /repo || exit 2
if ! git diff --quiet; then echo "/repo has uncommitted changes" >&2; exit 2; fi
if ! git apply --3way "$diff" 2>/tmp/apply.err && ! git apply "$diff" 2>>/tmp/apply.err; then
  echo "APPLY-FAILED $(head -3 /tmp/apply.err)"; git reset -q --hard HEAD; exit 3
fi
git reset -q
for id in "$@"; do
  out=$(cd /verif && VERIF_EVIDENCE_DIR=/tmp/trymutant-evidence VERIF_SEED=${VERIF_SEED:-1} ./check "$id" ${TIER:-quick} 2>&1)
  rc=$?
  echo "$id rc=$rc $(echo "$out" | grep -E "^(VIOLATION|INCONCLUSIVE)" | head -2 | tr '\n' ' ')"
  if [ -n "${VERBOSE:-}" ]; then echo "$out" | tail -15; fi
done
git checkout -q -- .
git clean -fdq
git status --short | grep -v '^??' | head
