#!/bin/bash
# tools/reconfirm_seeded.sh [<seeded-id>...]: re-confirm stored seeded changes against /repo's HEAD in a scratch
# worktree under /tmp: patch applies, tree builds and vets, the existing suite passes, the demonstration fails
# with the change and passes without it. One line per change.
set -u
export GOFLAGS=-mod=mod GOPROXY=off GOSUMDB=off GOTOOLCHAIN=local
ids=("$@"); if [ ${#ids[@]} -eq 0 ]; then ids=($(ls /verif/seeded | grep -E '^C[0-9]+-')); fi
wt=/tmp/reconfirm-wt
git -C /repo worktree remove --force "$wt" 2>/dev/null; rm -rf "$wt"
git -C /repo worktree add -q --detach "$wt" HEAD || exit 2
trap 'git -C /repo worktree remove --force "$wt" 2>/dev/null; rm -rf "$wt"' EXIT
cd "$wt"
for id in "${ids[@]}"; do
  d=/verif/seeded/$id
  git reset -q --hard HEAD; git clean -qfd
  if ! git apply "$d/patch.diff" 2>/dev/null; then echo "$id APPLY-FAILED"; continue; fi
  if ! (go build ./... && go vet ./...) >/dev/null 2>&1; then echo "$id BUILD/VET-FAILED"; continue; fi
  suite=$(go test -count=1 ./... 2>&1 | grep -v "no test files" | grep -v "^ok" | head -3)
  if [ -n "$suite" ]; then echo "$id SUITE-FAILS: $suite"; continue; fi
  demo=$d/demo_test.go.txt
  pkgline=$(grep -m1 '^package ' "$demo" | awk '{print $2}')
  tags=$(grep -m1 '^//go:build ' "$demo" | awk '{print $2}')
  case "$pkgline" in main) dest=. ;; patch_test|patch) dest=patch ;; *) dest=$(python3 -c "import json;print(json.load(open('$d/meta.json'))['confirmed']['demo']['copied_to'])" 2>/dev/null) ;; esac
  cp "$demo" "$dest/zz_demo_test.go"
  tests=$(grep -o '^func Test[A-Za-z0-9_]*' "$demo" | awk '{print $2}' | paste -sd'|')
  tagarg=""; [ -n "$tags" ] && tagarg="-tags $tags"
  go test -count=1 $tagarg -run "^($tests)\$" ./$dest >/tmp/reconfirm.with 2>&1; with=$?
  git checkout -q -- . ; git clean -fdq -e zz_demo_test.go
  go test -count=1 $tagarg -run "^($tests)\$" ./$dest >/tmp/reconfirm.without 2>&1; without=$?
  rm -f "$dest/zz_demo_test.go"
  if [ $with -ne 0 ] && [ $without -eq 0 ]; then echo "$id CONFIRMED"; else echo "$id NOT-CONFIRMED (with rc=$with, without rc=$without)"; fi
done
