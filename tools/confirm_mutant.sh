#!/bin/bash
# tools/confirm_mutant.sh <mutant-dir> <seeded-id> <property>
# Confirms a seeded change in a scratch worktree of /repo (outside /repo and
# /verif): it applies, builds, vets, passes the existing suite, and its
# demonstration fails with the change and passes without it. On success the
# change is stored as /verif/seeded/<seeded-id>/.
set -u
src=$1; id=$2; prop=$3
export GOFLAGS=-mod=mod GOPROXY=off GOSUMDB=off GOTOOLCHAIN=local
wt=/tmp/confirm/$id
rm -rf "$wt"; mkdir -p /tmp/confirm
git -C /repo worktree add -q --detach "$wt" HEAD || exit 2
cleanup() { git -C /repo worktree remove --force "$wt" 2>/dev/null; rm -rf "$wt"; }
trap cleanup EXIT
cd "$wt"
if ! git apply --3way "$src/patch.diff" 2>/tmp/confirm/$id.apply && ! git apply "$src/patch.diff" 2>>/tmp/confirm/$id.apply; then
  echo "$id: APPLY FAILED: $(head -2 /tmp/confirm/$id.apply)"; exit 1
fi
git add -A
git diff --cached > /tmp/confirm/$id.rebased.diff
git reset -q
build=$( (go build ./... && go vet ./...) 2>&1 | tail -3); brc=$?
suite=$(go test -count=1 ./... 2>&1 | grep -v "no test files" | grep -v "^ok" | head -5)
if [ -n "$build" ] || [ -n "$suite" ]; then echo "$id: BUILD/SUITE PROBLEM: $build $suite"; exit 1; fi
demo=$src/demo_test.go
pkgline=$(grep -m1 '^package ' "$demo" | awk '{print $2}')
tags=$(grep -m1 '^//go:build ' "$demo" | awk '{print $2}')
case "$pkgline" in
  main) dest=. ;;
  patch_test|patch) dest=patch ;;
  *) echo "$id: unknown demo package $pkgline"; exit 1 ;;
esac
cp "$demo" "$dest/zz_demo_${id//-/_}_test.go"
tests=$(grep -o '^func Test[A-Za-z0-9_]*' "$demo" | awk '{print $2}' | paste -sd'|')
tagarg=""; [ -n "$tags" ] && tagarg="-tags $tags"
with=$(go test -count=1 $tagarg -run "^($tests)\$" ./$dest 2>&1 | tail -3); echo "$with" | grep -q "^FAIL" ; withfail=$?
git checkout -q -- .; git clean -fdq -e "zz_demo_*" .
without=$(go test -count=1 $tagarg -run "^($tests)\$" ./$dest 2>&1 | tail -3); echo "$without" | grep -q "^ok" ; withoutok=$?
if [ $withfail -ne 0 ] || [ $withoutok -ne 0 ]; then
  echo "$id: DEMO NOT CONFIRMED (with: $(echo $with | tail -c 200)) (without: $(echo $without | tail -c 200))"; exit 1
fi
out=/verif/seeded/$id
mkdir -p "$out"
cp /tmp/confirm/$id.rebased.diff "$out/patch.diff"
cp "$demo" "$out/demo_test.go.txt"
cp "$src/README.md" "$out/README.md" 2>/dev/null
python3 - "$out" "$prop" "$dest" "$tests" "$tagarg" <<'PY' 2>/dev/null
import json,sys,subprocess
out,prop,dest,tests,tagarg=sys.argv[1:6]
readme=open(out+'/README.md').read() if __import__('os').path.exists(out+'/README.md') else ''
meta={
 "property": prop,
 "base_commit": subprocess.check_output(['git','-C','/repo','rev-parse','HEAD']).decode().strip(),
 "origin": "written by an independent sub-agent that saw only the property text and its own scratch worktree",
 "needs_to_manifest": "see README.md (section on what is needed / trigger)",
 "confirmed": {
   "how": "tools/confirm_mutant.sh in a scratch worktree under /tmp/confirm (removed afterwards)",
   "applies_builds_vets": True,
   "existing_suite_passes_with_change": True,
   "demo": {"file": "demo_test.go.txt", "copied_to": dest, "run": "go test -count=1 %s -run '^(%s)$' ./%s" % (tagarg,tests,dest), "fails_with_change": True, "passes_without_change": True},
 },
 "detected_by": {},
}
json.dump(meta,open(out+'/meta.json','w'),indent=1)
PY
echo "$id: CONFIRMED -> $out"
