// Command dbgcl prints the changed intervals gopatch computes (development aid).
package main

import (
	"fmt"
	"go/ast"
	"go/parser"
	"go/token"
	"os"

	"github.com/uber-go/gopatch/internal/astdiff"
	"github.com/uber-go/gopatch/internal/engine"
	"github.com/uber-go/gopatch/internal/parse"
)

func main() {
	psrc, _ := os.ReadFile(os.Args[1])
	src, _ := os.ReadFile(os.Args[2])
	fset := token.NewFileSet()
	ap, err := parse.Parse(fset, "p.patch", psrc)
	if err != nil {
		panic(err)
	}
	prog, err := engine.Compile(fset, ap)
	if err != nil {
		panic(err)
	}
	f, err := parser.ParseFile(fset, "t.go", src, parser.ParseComments)
	if err != nil {
		panic(err)
	}
	snap := astdiff.Before(f, ast.NewCommentMap(fset, f, f.Comments))
	for _, c := range prog.Changes {
		d, ok := c.Match(f)
		if !ok {
			continue
		}
		cl := engine.NewChangelog()
		fout, err := c.Replace(d, cl)
		if err != nil {
			panic(err)
		}
		fmt.Println("after replace:")
		for _, iv := range cl.ChangedIntervals() {
			fmt.Printf("  changed [%v, %v)\n", fset.Position(iv.Start), fset.Position(iv.End))
		}
		snap = snap.Diff(fout, cl)
		fmt.Println("after diff:")
		for _, iv := range cl.ChangedIntervals() {
			fmt.Printf("  changed [%v, %v)\n", fset.Position(iv.Start), fset.Position(iv.End))
		}
	}
}
