// Command vcheck is the driver behind /verif/check: it rebuilds gopatch and
// the property tests from /repo's working tree, runs one property's check in
// shard processes, merges their evidence into /verif/evidence/<ID>.json and
// turns the outcome into the exit status the interface asks for:
//
//	0  the property held on everything explored (known findings are listed)
//	1  "VIOLATION property=<ID> replay=<path>" printed for an unlisted violation
//	2  inconclusive: build failure, worker death, time budget
package main

import (
	"bytes"
	"context"
	"encoding/json"
	"fmt"
	"io"
	"os"
	"os/exec"
	"path/filepath"
	"regexp"
	"runtime"
	"sort"
	"strconv"
	"strings"
	"sync"
	"time"

	"github.com/uber-go/gopatch/verif/evid"
)

// verifRoot is /verif unless VERIF_ROOT points at a scratch copy (used while
// developing a check against a scratch copy of the repository).
var verifRoot = func() string {
	if r := os.Getenv("VERIF_ROOT"); r != "" {
		return r
	}
	return "/verif"
}()

type tierCfg struct {
	Shards  int
	Checks  int           // -rapid.checks per shard
	Timeout time.Duration // per shard
	Env     []string      // extra knobs, NAME=value
}

type propCfg struct {
	Level       string // evidence level
	Race        bool
	Quick       tierCfg
	Thorough    tierCfg
	Rule        string
	Assumptions []string
	MinNontriv  int // floor on distinct non-trivial cases; below it the run is inconclusive
}

func main() {
	if len(os.Args) < 3 {
		fmt.Fprintln(os.Stderr, "usage: vcheck <ID> quick|thorough | vcheck <ID> --replay <file>")
		os.Exit(2)
	}
	id := os.Args[1]
	cfg, ok := props[id]
	if !ok {
		fmt.Fprintf(os.Stderr, "unknown property %q\n", id)
		os.Exit(2)
	}
	if os.Args[2] == "--replay" {
		if len(os.Args) < 4 {
			fmt.Fprintln(os.Stderr, "--replay needs a file")
			os.Exit(2)
		}
		os.Exit(replay(id, cfg, os.Args[3]))
	}
	tier := os.Args[2]
	if t := os.Getenv("VERIF_TIER"); t != "" && len(os.Args) == 2 {
		tier = t
	}
	if tier != "quick" && tier != "thorough" {
		fmt.Fprintln(os.Stderr, "tier must be quick or thorough")
		os.Exit(2)
	}
	os.Exit(run(id, cfg, tier))
}

func seed() int64 {
	if s := os.Getenv("VERIF_SEED"); s != "" {
		if v, err := strconv.ParseInt(s, 10, 64); err == nil {
			if v < 0 {
				v = -v
			}
			return v
		}
	}
	return 1
}

// build compiles the CLI and the property tests from /repo's working tree
// into dir. Everything is built from the harness module so /repo is never
// written to.
func build(dir string, race bool) (gopatch, testbin string, err error) {
	gopatch = filepath.Join(dir, "gopatch")
	testbin = filepath.Join(dir, "props.test")
	harness := filepath.Join(verifRoot, "harness")
	var wg sync.WaitGroup
	var e1, e2 error
	var o1, o2 []byte
	wg.Add(2)
	go func() {
		defer wg.Done()
		cmd := exec.Command("go", "build", "-tags", "verif", "-o", gopatch, "github.com/uber-go/gopatch")
		cmd.Dir = harness
		o1, e1 = cmd.CombinedOutput()
	}()
	go func() {
		defer wg.Done()
		args := []string{"test", "-c", "-tags", "verif", "-vet=off", "-o", testbin}
		if race {
			args = append(args, "-race")
		}
		args = append(args, "./props")
		cmd := exec.Command("go", args...)
		cmd.Dir = harness
		o2, e2 = cmd.CombinedOutput()
	}()
	wg.Wait()
	if e1 != nil {
		return "", "", fmt.Errorf("building gopatch: %v\n%s", e1, o1)
	}
	if e2 != nil {
		return "", "", fmt.Errorf("building property tests: %v\n%s", e2, o2)
	}
	return gopatch, testbin, nil
}

func goEnv() []string {
	env := os.Environ()
	set := func(k, v string) {
		for i, e := range env {
			if strings.HasPrefix(e, k+"=") {
				env[i] = k + "=" + v
				return
			}
		}
		env = append(env, k+"="+v)
	}
	set("GOFLAGS", "-mod=mod")
	set("GOPROXY", "off")
	set("GOSUMDB", "off")
	set("GOTOOLCHAIN", "local")
	return env
}

func mkBuildDir(id, tier string) (string, error) {
	base := filepath.Join(verifRoot, ".build")
	if err := os.MkdirAll(base, 0o755); err != nil {
		return "", err
	}
	return os.MkdirTemp(base, id+"-"+tier+"-")
}

type shardResult struct {
	k        int
	exit     int
	out      []byte
	timedOut bool
	shard    *evid.Shard
	err      error
}

func run(id string, cfg propCfg, tier string) int {
	start := time.Now()
	os.Setenv("GOFLAGS", "-mod=mod")
	for _, kv := range goEnv() {
		if i := strings.Index(kv, "="); i > 0 {
			os.Setenv(kv[:i], kv[i+1:])
		}
	}
	dir, err := mkBuildDir(id, tier)
	if err != nil {
		fmt.Fprintln(os.Stderr, "vcheck:", err)
		return 2
	}
	defer os.RemoveAll(dir)

	gopatch, testbin, err := build(dir, cfg.Race)
	if err != nil {
		fmt.Fprintln(os.Stderr, "vcheck: INCONCLUSIVE:", err)
		return 2
	}
	tc := cfg.Quick
	if tier == "thorough" {
		tc = cfg.Thorough
	}
	if v := os.Getenv("VERIF_SHARDS_OVERRIDE"); v != "" {
		if n, err := strconv.Atoi(v); err == nil && n > 0 {
			tc.Shards = n
		}
	}
	if v := os.Getenv("VERIF_CHECKS_OVERRIDE"); v != "" {
		if n, err := strconv.Atoi(v); err == nil && n > 0 {
			tc.Checks = n
		}
	}
	if tc.Shards > runtime.NumCPU() {
		tc.Shards = runtime.NumCPU()
	}
	sd := seed()

	// Regression tier: the saved inputs of repaired defects (regress/<ID>/)
	// are replayed first, each through the property's replay test.
	regN, regViol, regKnown, regInc := runRegress(id, dir, gopatch, testbin)

	results := make([]shardResult, tc.Shards)
	var wg sync.WaitGroup
	for k := 0; k < tc.Shards; k++ {
		wg.Add(1)
		go func(k int) {
			defer wg.Done()
			results[k] = runShard(id, tier, dir, gopatch, testbin, tc, sd, k)
		}(k)
	}
	wg.Wait()

	// Merge.
	merged := evid.Shard{Property: id, Classes: map[string]int{}, Known: map[string]int{}, Foreign: map[string]int{}, Notes: map[string]int{}}
	distinct := map[uint64]struct{}{}
	inconclusive := ""
	exhaustive := true
	var violations []evid.Violation
	for _, r := range results {
		if r.err != nil {
			inconclusive = fmt.Sprintf("shard %d: %v", r.k, r.err)
		}
		if r.shard == nil {
			if inconclusive == "" {
				inconclusive = fmt.Sprintf("shard %d produced no evidence (exit %d)", r.k, r.exit)
			}
			fmt.Fprintf(os.Stderr, "---- shard %d output ----\n%s\n", r.k, tail(r.out, 4000))
			continue
		}
		s := r.shard
		merged.Evaluations += s.Evaluations
		for _, h := range s.Nontrivial {
			distinct[h] = struct{}{}
		}
		for k, v := range s.Classes {
			merged.Classes[k] += v
		}
		for k, v := range s.Known {
			merged.Known[k] += v
		}
		for k, v := range s.Foreign {
			merged.Foreign[k] += v
		}
		for k, v := range s.Notes {
			merged.Notes[k] += v
		}
		if len(merged.Samples) < 8 {
			n := 8 - len(merged.Samples)
			if tc.Shards > 1 && n > 2 {
				n = 2
			}
			if n > len(s.Samples) {
				n = len(s.Samples)
			}
			merged.Samples = append(merged.Samples, s.Samples[:n]...)
		}
		if !s.Exhaustive {
			exhaustive = false
		}
		if s.Inconclusive != "" && inconclusive == "" {
			inconclusive = fmt.Sprintf("shard %d: %s", r.k, s.Inconclusive)
		}
		violations = append(violations, s.Violations...)
		if r.exit != 0 && len(s.Violations) == 0 {
			if inconclusive == "" {
				why := "test process failed without recording a violation"
				if r.timedOut {
					why = "time budget exhausted"
				}
				inconclusive = fmt.Sprintf("shard %d: %s (exit %d)", r.k, why, r.exit)
			}
			fmt.Fprintf(os.Stderr, "---- shard %d output ----\n%s\n", r.k, tail(r.out, 4000))
		}
		if r.exit == 0 && len(s.Violations) > 0 {
			// A violation was recorded but the test passed: treat as violation anyway.
			fmt.Fprintf(os.Stderr, "shard %d recorded a violation but exited 0\n", r.k)
		}
	}

	for k, v := range regKnown {
		merged.Known[k] += v
	}
	if regInc != "" && inconclusive == "" {
		inconclusive = regInc
	}
	merged.Notes[fmt.Sprintf("regression-inputs-replayed:%d", regN)] = 1

	// Persist replays (stale ones of an earlier run with the same id, tier
	// and seed are removed first).
	replayDir := filepath.Join(verifRoot, "replays")
	_ = os.MkdirAll(replayDir, 0o755)
	if old, _ := filepath.Glob(filepath.Join(replayDir, fmt.Sprintf("%s-%s-seed%d-*.json", id, tier, sd))); len(old) > 0 {
		for _, o := range old {
			_ = os.Remove(o)
		}
	}
	var kept []string
	for i, v := range violations {
		dst := filepath.Join(replayDir, fmt.Sprintf("%s-%s-seed%d-%d.json", id, tier, sd, i))
		if b, err := os.ReadFile(v.Replay); err == nil {
			_ = os.WriteFile(dst, b, 0o644)
			kept = append(kept, dst)
		} else {
			kept = append(kept, v.Replay)
		}
	}

	// C08 thorough: a bounded coverage-guided campaign with the native fuzzer.
	var fuzzInfo map[string]any
	if id == "C08" && tier == "thorough" && len(violations) == 0 && inconclusive == "" {
		v, info := fuzzCampaign(dir, gopatch, testbin, sd)
		fuzzInfo = info
		if v != nil {
			violations = append(violations, *v)
			kept = append(kept, v.Replay)
		}
	}

	level := cfg.Level
	if level == "" {
		level = "exploration"
	}
	wall := time.Since(start).Seconds()
	cov := map[string]any{
		"evaluations":         merged.Evaluations,
		"distinct_nontrivial": len(distinct),
		"rule":                cfg.Rule,
		"samples":             merged.Samples,
		"classes":             sortedMap(merged.Classes),
		"shards":              tc.Shards,
		"checks_per_shard":    tc.Checks,
	}
	if len(merged.Samples) == 0 {
		cov["samples"] = []any{}
	}
	if exhaustive && merged.Evaluations > 0 {
		cov["exhaustive"] = true
	}
	if len(merged.Known) > 0 {
		cov["known_finding_hits"] = sortedMap(merged.Known)
	}
	if len(merged.Foreign) > 0 {
		cov["foreign_discrepancies"] = sortedMap(merged.Foreign)
	}
	if len(merged.Notes) > 0 {
		cov["notes"] = sortedMap(merged.Notes)
	}
	if inconclusive != "" {
		cov["inconclusive"] = inconclusive
	}
	if fuzzInfo != nil {
		cov["native_fuzz"] = fuzzInfo
	}
	ev := map[string]any{
		"property_id": id,
		"tier":        tier,
		"seed":        sd,
		"level":       level,
		"coverage":    cov,
		"assumptions": cfg.Assumptions,
		"wall_s":      float64(int(wall*10)) / 10,
		"violations":  len(violations) + len(regViol),
	}
	evb, _ := json.MarshalIndent(ev, "", " ")
	evPath := filepath.Join(verifRoot, "evidence", id+".json")
	if d := os.Getenv("VERIF_EVIDENCE_DIR"); d != "" {
		// trial runs against seeded changes must not overwrite the evidence of record
		evPath = filepath.Join(d, id+".json")
	}
	_ = os.MkdirAll(filepath.Dir(evPath), 0o755)
	if err := os.WriteFile(evPath, append(evb, '\n'), 0o644); err != nil {
		fmt.Fprintln(os.Stderr, "vcheck: writing evidence:", err)
		return 2
	}

	fmt.Printf("%s %s: %d evaluations, %d distinct non-trivial, %d shards, %.1fs\n",
		id, tier, merged.Evaluations, len(distinct), tc.Shards, wall)
	for _, k := range sortedKeys(merged.Foreign) {
		fmt.Printf("NOTE: %d discrepancies observed that contradict another property: %s\n", merged.Foreign[k], k)
	}
	for _, kid := range sortedKeys(merged.Known) {
		fmt.Printf("KNOWN-FINDING: property=%s %s (%d hits)\n", id, describeKnown(id, kid), merged.Known[kid])
	}
	for _, rv := range regViol {
		fmt.Printf("VIOLATION property=%s replay=%s\n", id, rv)
		fmt.Printf("  the saved input of a repaired defect fails again\n")
	}
	if len(violations) > 0 {
		for i, v := range violations {
			fmt.Printf("VIOLATION property=%s replay=%s\n", id, kept[i])
			fmt.Printf("  %s\n", strings.ReplaceAll(tail([]byte(v.Message), 1500), "\n", "\n  "))
		}
		return 1
	}
	if len(regViol) > 0 {
		return 1
	}
	if inconclusive != "" {
		fmt.Printf("INCONCLUSIVE: %s\n", inconclusive)
		return 2
	}
	if cfg.MinNontriv > 0 && len(distinct) < cfg.MinNontriv {
		fmt.Printf("INCONCLUSIVE: only %d distinct non-trivial cases (floor %d)\n", len(distinct), cfg.MinNontriv)
		return 2
	}
	return 0
}

func runShard(id, tier, dir, gopatch, testbin string, tc tierCfg, sd int64, k int) shardResult {
	res := shardResult{k: k}
	shardOut := filepath.Join(dir, fmt.Sprintf("shard-%d.json", k))
	replayOut := filepath.Join(dir, fmt.Sprintf("replay-%d.json", k))
	tmp := filepath.Join(dir, fmt.Sprintf("tmp-%d", k))
	_ = os.MkdirAll(tmp, 0o755)
	rseed := uint64(sd)*1_000_003 + uint64(k) + 1
	args := []string{
		"-test.run", "^Test" + id + "$",
		"-test.count", "1",
		"-test.timeout", (tc.Timeout + 30*time.Second).String(),
		"-rapid.checks", strconv.Itoa(tc.Checks),
		"-rapid.seed", strconv.FormatUint(rseed, 10),
		"-rapid.nofailfile",
		"-rapid.shrinktime", "20s",
	}
	cmd := exec.Command(testbin, args...)
	cmd.Dir = filepath.Join(verifRoot, "harness", "props")
	cmd.Env = append(goEnv(),
		"VERIF_SHARD_OUT="+shardOut,
		"VERIF_REPLAY_OUT="+replayOut,
		"VERIF_GOPATCH="+gopatch,
		"VERIF_TIER="+tier,
		"VERIF_TMP="+tmp,
		"TMPDIR="+tmp,
		"VERIF_SHARD="+strconv.Itoa(k),
		"VERIF_SHARDS="+strconv.Itoa(tc.Shards),
		"VERIF_CHECKS="+strconv.Itoa(tc.Checks),
		"VERIF_RSEED="+strconv.FormatUint(rseed, 10),
		"VERIF_BUILD_DIR="+dir,
		"VERIF_TESTBIN="+testbin,
		"VERIF_ROOT="+verifRoot,
	)
	cmd.Env = append(cmd.Env, tc.Env...)
	var buf bytes.Buffer
	cmd.Stdout, cmd.Stderr = &buf, &buf
	if err := cmd.Start(); err != nil {
		res.err = err
		return res
	}
	done := make(chan error, 1)
	go func() { done <- cmd.Wait() }()
	select {
	case err := <-done:
		if err != nil {
			if ee, ok := err.(*exec.ExitError); ok {
				res.exit = ee.ExitCode()
			} else {
				res.err = err
			}
		}
	case <-time.After(tc.Timeout + 60*time.Second):
		_ = cmd.Process.Kill()
		<-done
		res.exit = -1
		res.timedOut = true
	}
	res.out = buf.Bytes()
	if strings.Contains(buf.String(), "panic: test timed out") {
		res.timedOut = true
	}
	if b, err := os.ReadFile(shardOut); err == nil {
		var s evid.Shard
		if err := json.Unmarshal(b, &s); err == nil {
			res.shard = &s
		} else {
			res.err = fmt.Errorf("decoding shard evidence: %v", err)
		}
	}
	// rapid prints "OK, passed N tests"; fewer than requested means the
	// deadline cut the run short.
	return res
}

// runRegress replays every file of regress/<id>/ and reports the files that
// violate the property again.
func runRegress(id, dir, gopatch, testbin string) (n int, violating []string, known map[string]int, inconclusive string) {
	known = map[string]int{}
	files, _ := filepath.Glob(filepath.Join(verifRoot, "regress", id, "*.json"))
	sort.Strings(files)
	tmp := filepath.Join(dir, "tmp-regress")
	_ = os.MkdirAll(tmp, 0o755)
	type res struct {
		viol  bool
		known map[string]int
		bad   string
	}
	out := make([]res, len(files))
	sem := make(chan struct{}, runtime.NumCPU())
	var wg sync.WaitGroup
	for i, f := range files {
		wg.Add(1)
		go func(i int, f string) {
			defer wg.Done()
			sem <- struct{}{}
			defer func() { <-sem }()
			shardOut := filepath.Join(dir, fmt.Sprintf("regress-%d.json", i))
			ctx, cancel := context.WithTimeout(context.Background(), 5*time.Minute)
			defer cancel()
			cmd := exec.CommandContext(ctx, testbin, "-test.run", "^TestReplay"+id+"$", "-test.count", "1")
			cmd.Dir = filepath.Join(verifRoot, "harness", "props")
			cmd.Env = append(goEnv(), "VERIF_REPLAY="+f, "VERIF_GOPATCH="+gopatch, "VERIF_TMP="+tmp, "TMPDIR="+tmp,
				"VERIF_SHARD_OUT="+shardOut, "VERIF_REPLAY_OUT="+filepath.Join(dir, fmt.Sprintf("regress-replay-%d.json", i)), "VERIF_TIER=quick",
				"VERIF_BUILD_DIR="+dir, "VERIF_TESTBIN="+testbin, "VERIF_ROOT="+verifRoot)
			b, err := cmd.CombinedOutput()
			var s evid.Shard
			if sb, rerr := os.ReadFile(shardOut); rerr == nil {
				_ = json.Unmarshal(sb, &s)
			}
			out[i].known = s.Known
			switch {
			case len(s.Violations) > 0:
				out[i].viol = true
			case err != nil:
				out[i].bad = fmt.Sprintf("regression input %s: replay failed without recording a violation: %v\n%s", filepath.Base(f), err, tail(b, 800))
			}
		}(i, f)
	}
	wg.Wait()
	for i, f := range files {
		if out[i].viol {
			violating = append(violating, f)
		}
		for k, v := range out[i].known {
			known[k] += v
		}
		if out[i].bad != "" && inconclusive == "" {
			inconclusive = out[i].bad
		}
	}
	return len(files), violating, known, inconclusive
}

func replay(id string, cfg propCfg, file string) int {
	for _, kv := range goEnv() {
		if i := strings.Index(kv, "="); i > 0 {
			os.Setenv(kv[:i], kv[i+1:])
		}
	}
	abs, err := filepath.Abs(file)
	if err != nil {
		fmt.Fprintln(os.Stderr, err)
		return 2
	}
	dir, err := mkBuildDir(id, "replay")
	if err != nil {
		fmt.Fprintln(os.Stderr, "vcheck:", err)
		return 2
	}
	defer os.RemoveAll(dir)
	gopatch, testbin, err := build(dir, cfg.Race)
	if err != nil {
		fmt.Fprintln(os.Stderr, "vcheck: INCONCLUSIVE:", err)
		return 2
	}
	tmp := filepath.Join(dir, "tmp")
	_ = os.MkdirAll(tmp, 0o755)
	shardOut := filepath.Join(dir, "shard.json")
	cmd := exec.Command(testbin, "-test.run", "^TestReplay"+id+"$", "-test.count", "1", "-test.v")
	cmd.Dir = filepath.Join(verifRoot, "harness", "props")
	cmd.Env = append(goEnv(), "VERIF_REPLAY="+abs, "VERIF_GOPATCH="+gopatch, "VERIF_TMP="+tmp, "TMPDIR="+tmp,
		"VERIF_SHARD_OUT="+shardOut, "VERIF_REPLAY_OUT="+filepath.Join(dir, "replay-out.json"), "VERIF_TIER=quick",
		"VERIF_BUILD_DIR="+dir, "VERIF_TESTBIN="+testbin, "VERIF_ROOT="+verifRoot)
	var buf bytes.Buffer
	cmd.Stdout, cmd.Stderr = io.MultiWriter(&buf, os.Stdout), io.MultiWriter(&buf, os.Stderr)
	err = cmd.Run()
	var s evid.Shard
	if b, rerr := os.ReadFile(shardOut); rerr == nil {
		_ = json.Unmarshal(b, &s)
	}
	for kid, n := range s.Known {
		fmt.Printf("KNOWN-FINDING: property=%s %s (%d hits)\n", id, describeKnown(id, kid), n)
	}
	if len(s.Violations) > 0 {
		fmt.Printf("VIOLATION property=%s replay=%s\n", id, abs)
		return 1
	}
	if err != nil {
		fmt.Println("INCONCLUSIVE: replay test failed without recording a violation")
		return 2
	}
	fmt.Printf("%s replay: no violation\n", id)
	return 0
}

func describeKnown(prop, kid string) string {
	b, err := os.ReadFile(filepath.Join(verifRoot, "known-findings.json"))
	if err != nil {
		return kid
	}
	var doc struct {
		Findings []struct {
			Property, ID, Description string
		} `json:"findings"`
	}
	if json.Unmarshal(b, &doc) != nil {
		return kid
	}
	for _, f := range doc.Findings {
		if f.Property == prop && f.ID == kid {
			return kid + ": " + f.Description
		}
	}
	return kid
}

func tail(b []byte, n int) string {
	if len(b) <= n {
		return string(b)
	}
	return "…" + string(b[len(b)-n:])
}

func sortedKeys(m map[string]int) []string {
	ks := make([]string, 0, len(m))
	for k := range m {
		ks = append(ks, k)
	}
	sort.Strings(ks)
	return ks
}

// sortedMap renders a counter map deterministically (encoding/json sorts map
// keys already; this keeps the type explicit).
func sortedMap(m map[string]int) map[string]int { return m }

var fuzzExecsRe = regexp.MustCompile(`execs: (\d+)`)

// fuzzCampaign runs `-test.fuzz ^FuzzC08$` for a bounded time on all cores.
// A crasher is converted into a replay file.
func fuzzCampaign(dir, gopatch, testbin string, sd int64) (*evid.Violation, map[string]any) {
	dur := os.Getenv("VERIF_C08_FUZZTIME")
	if dur == "" {
		dur = "180s"
	}
	wd := filepath.Join(dir, "fuzzwd")
	_ = os.MkdirAll(wd, 0o755)
	tmp := filepath.Join(dir, "fuzztmp")
	_ = os.MkdirAll(tmp, 0o755)
	cmd := exec.Command(testbin, "-test.run", "^$", "-test.fuzz", "^FuzzC08$", "-test.fuzztime", dur,
		"-test.fuzzcachedir", filepath.Join(dir, "fuzzcache"), "-test.timeout", "0")
	cmd.Dir = wd
	cmd.Env = append(goEnv(), "VERIF_GOPATCH="+gopatch, "VERIF_TMP="+tmp, "TMPDIR="+tmp, "VERIF_ROOT="+verifRoot, "VERIF_TIER=thorough")
	start := time.Now()
	out, err := cmd.CombinedOutput()
	info := map[string]any{"fuzztime": dur, "wall_s": int(time.Since(start).Seconds())}
	if m := fuzzExecsRe.FindAllSubmatch(out, -1); len(m) > 0 {
		n, _ := strconv.Atoi(string(m[len(m)-1][1]))
		info["execs"] = n
	}
	if err == nil {
		return nil, info
	}
	crashers, _ := filepath.Glob(filepath.Join(wd, "testdata", "fuzz", "FuzzC08", "*"))
	if len(crashers) == 0 {
		info["error"] = "fuzz run failed without a crasher: " + tail(out, 600)
		return nil, info
	}
	b, _ := os.ReadFile(crashers[0])
	patch, target := parseFuzzCorpus(b)
	// The target index is resolved by the test itself on replay: store the
	// raw pair in the case.
	cs := map[string]any{"mode": "fuzz", "patch": patch, "target_index": target}
	csb, _ := json.Marshal(cs)
	doc, _ := json.MarshalIndent(map[string]any{"property": "C08", "message": tail(out, 3000), "case": json.RawMessage(csb)}, "", " ")
	rp := filepath.Join(verifRoot, "replays", fmt.Sprintf("C08-thorough-seed%d-fuzz.json", sd))
	_ = os.WriteFile(rp, doc, 0o644)
	info["crasher"] = filepath.Base(crashers[0])
	return &evid.Violation{Message: "native fuzzing found a failing input:\n" + tail(out, 2500), Replay: rp}, info
}

// parseFuzzCorpus reads a "go test fuzz v1" file with a []byte and a byte.
func parseFuzzCorpus(b []byte) ([]byte, int) {
	var patch []byte
	idx := 0
	for _, l := range strings.Split(string(b), "\n") {
		l = strings.TrimSpace(l)
		switch {
		case strings.HasPrefix(l, "[]byte(") && strings.HasSuffix(l, ")"):
			if s, err := strconv.Unquote(l[len("[]byte(") : len(l)-1]); err == nil {
				patch = []byte(s)
			}
		case strings.HasPrefix(l, "byte(") && strings.HasSuffix(l, ")"):
			inner := l[len("byte(") : len(l)-1]
			if len(inner) >= 2 && inner[0] == '\'' {
				if r, _, _, err := strconv.UnquoteChar(inner[1:len(inner)-1], '\''); err == nil {
					idx = int(r)
				}
			} else if n, err := strconv.Atoi(inner); err == nil {
				idx = n
			}
		}
	}
	return patch, idx
}
