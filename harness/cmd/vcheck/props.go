package main

import "time"

// props is the per-property configuration of the driver: how many shard
// processes, how many generated cases per shard, and what the evidence says
// about the rule for non-trivial cases.
var props = map[string]propCfg{
	"C08": {
		Quick:    tierCfg{Shards: 8, Checks: 30000, Timeout: 4 * time.Minute},
		Thorough: tierCfg{Shards: 16, Checks: 250000, Timeout: 40 * time.Minute, Env: []string{"VERIF_C08_CLI_EVERY=200"}},
		Rule: "patch bytes: every prefix of every repository patch (exhaustive sweep), hostile constants in 7 frames, and generated inputs " +
			"(random bytes, structured text, 1-3 token mutations of repository patches, template-grammar ill-typed patches) crossed with repository test inputs " +
			"and generated targets in which the minus side occurs; run through patch.Parse+Apply behind recover and a 10 s watchdog, a sample also through the CLI. " +
			"The template grammar also plants targets in which an optional part that the pattern fills with a metavariable is absent (plain break / continue / return, a[:], no receiver, no result, no initialiser, embedded field, switch without tag ...; 40 templates) and uses elisions in lists that must not be empty (x := ..., ... = f(), var x = ..., case ...:, go ..., x[...]). " +
			"Non-trivial = the patch got past sectioning and metavariable parsing (reached pgo/engine, or crashed); distinct by sha256(patch, target). Mode 'many-elisions': valid patches with a dozen or more elisions, among them in parameter lists of nested func literals and a leading '...'. Stress mode 'import-combinations': one path listed 1-9 times by the change under metavariable names against a file that imports it 1-9 times. One CLI case in three gives the target a name of 249 bytes (no room for a temporary sibling: the failure to write has to be reported, not crash). Hostile constants include line directives ('//line f.go:1', '/*line f.go:1:1*/' between the tokens of a declaration) in every frame, the metavariable section among them. The import-combination stress mode may end the list with an import the file lacks or whose name is bound otherwise. One CLI case in three names the patch through a -P list whose text is drawn from 23 (blank lines, lines of blanks or tabs, CR LF, '#', NUL, 5000 blanks, no final line feed).",
		Assumptions: []string{
			"a hang is 'no return within 10 s' for inputs of at most a few KB (normal run time is below 5 ms)",
			"native go test -fuzz campaigns cannot be seed-pinned; they are run separately (thorough) and their crashers are replayed here",
		},
		MinNontriv: 50,
	},
	"C01": {
		Quick:    tierCfg{Shards: 8, Checks: 2000, Timeout: 4 * time.Minute},
		Thorough: tierCfg{Shards: 16, Checks: 20000, Timeout: 40 * time.Minute},
		Rule: "a pattern (expression, statement run, func/type/value declaration) is mined from a drawn place of a real Go file (standard-library sample, repository test inputs, hand-written exotic file) by replacing drawn sub-expressions/identifiers with metavariables and drawn list runs with elisions; the plus side is a drawn edit carrying a marker; 0-3 fresh instances and 1-5 single-field mutants of instances (operator, literal, name, arity, variadic '...', alias '=', channel direction, optional child, metavariable kind/consistency) are planted at drawn statement/declaration positions in drawn syntactic contexts. Oracle: reference matcher/rewriter over canonical syntax trees. " +
			"Non-trivial = the reference finds >= 1 site and confirms >= 1 planted mutant as a non-instance; distinct by sha256(patch, file). Output comparison counts parentheses one way: more than expected is tolerated, an expected parenthesis that is absent is a difference. An Apply error is a discrepancy when the reference finds admissible sites and its result is valid Go. One case in 12 is a synthetic nested-choice case ('-hq(fq(..., x, ...), x)': the reference searches completely, sites that only a complete search finds are a listed finding). Outside reference sites parentheses must be exactly the expected ones. Near-miss kinds added: a string literal respelled (first character as an escape, or as a raw string: the same value, another token), and the same children moved to another optional slot (s[i:] / s[:i], for init; ; / for ; ; post).",
		Assumptions: modelAssumptions,
		MinNontriv:  50,
	},
	"C02": {
		Quick:    tierCfg{Shards: 8, Checks: 2000, Timeout: 4 * time.Minute},
		Thorough: tierCfg{Shards: 16, Checks: 20000, Timeout: 40 * time.Minute},
		Rule: "as C01 with generalisation biased to repeated metavariables (same hole for tree-equal subterms, and a forced second occurrence that makes the original code a near-miss) and identifier holes; mutants include 'one occurrence differs / is parenthesised' and 'identifier hole filled with a.b, (a), f(), 5, *p'. " +
			"Non-trivial = a repeated or identifier metavariable, >= 1 site and >= 1 confirmed near-miss in the same file. One case in 12 is a synthetic nested-choice case (see C01). One case in 15 is of the import part: an identifier metavariable names an import of the change and qualifies its code ('import pk \"example.com/bound/pkg\"', '-pk.Send(m)'); the file imports the path under a drawn name or none and calls Send through 2-6 drawn qualifiers; only calls through the bound name are instances. The file may import the path a second time, under a name that stands first; calls through the other of the two names are not judged. One case in 20 is a 'failed-attempts' case: 0-6 context statements and 0-9 metavariable-named imports in front of '...', a declaration that binds two metavariables, '...', and a return that uses one of them, on a function with 1-3 decoy declarations (each tried and given up).",
		Assumptions: modelAssumptions,
		MinNontriv:  50,
	},
	"C03": {
		Quick:    tierCfg{Shards: 8, Checks: 2000, Timeout: 4 * time.Minute},
		Thorough: tierCfg{Shards: 16, Checks: 20000, Timeout: 40 * time.Minute},
		Rule: "as C01 without elisions, 2-5 planted instances with independently drawn fillers (identifiers, calls, binary/unary expressions, composite and func literals, type expressions), plus sides that rename, wrap, swap, drop, duplicate holes and add statements/arguments. " +
			"Fillers draw one identifier in six from the pattern's own metavariable names and include generic instantiations, slice expressions, keyed composite literals of composite types, method calls, conversions and func literals with results; one plus side in about ten is a bare metavariable of the minus side ('-traced(x)' / '+x', no marker), with call instances also planted as the operand of defer / go and as a statement (slots whose static type is *ast.CallExpr). Copies of a metavariable must be the code as it was matched: instances nested inside the captured code are not rewritten in the copies. " +
			"Non-trivial = >= 2 reference sites with pairwise different bindings. Output comparison counts parentheses one way (a '(x)' of the '+' pattern has to come out parenthesised). One case in 25 each: a metavariable standing for a type placed below a type constructor ('make(chan x)' with x = '<-chan int'), and a bare name replaced by a non-name in every position a name can occur.",
		Assumptions: modelAssumptions,
		MinNontriv:  50,
	},
	"C05": {
		Quick:    tierCfg{Shards: 8, Checks: 1500, Timeout: 4 * time.Minute},
		Thorough: tierCfg{Shards: 16, Checks: 12000, Timeout: 40 * time.Minute},
		Rule: "as C01 on hosts of up to 400 lines (real standard-library files with generics, labels, struct tags, raw strings, build constraints, closures); the whole output file is compared with the reference rewrite as canonical trees, imports as a multiset. " +
			"Non-trivial = >= 1 reference site (so the file is re-printed) ; distinct by sha256(patch, file). Parentheses outside the rewritten fragments must be exactly those of the input. One case in 20 each: a pattern that is a fully keyed composite literal, on a file with literals of the same keys in another order inside declarations without a site; a function declaration pattern that adds an import, on files whose import section is absent, \"C\" alone, one group or several declarations.",
		Assumptions: modelAssumptions,
		MinNontriv:  50,
	},
	"C15": {
		Quick:    tierCfg{Shards: 8, Checks: 400, Timeout: 3 * time.Minute},
		Thorough: tierCfg{Shards: 16, Checks: 8000, Timeout: 20 * time.Minute},
		Rule: "a fixed tree holding every shape the statement names x every target x every argument spelling x 3 working directories, alone, beside the root and repeated (complete table), " +
			"then generated trees (<= 8 directories of depth <= 4 named normally / vendor / testdata / .x / _x / like a file 'x.go' / near misses such as vendor2; <= 12 files *.go, *_test.go, .h.go, _u.go, '.go', x.go.bak, x.txt, a.GO; " +
			"<= 3 symlinks to files, directories, ancestors (cycle), themselves, nothing) with 1-5 arguments (relative, ./, absolute, trailing /, /..., bare ..., glued 'dir...', unclean a/./b a//, dir/../dir; " +
			"explicit files inside excluded directories, explicit excluded directories, explicit non-.go files and symlinks, repeats in the same or another spelling) and a working directory that is the root or a subdirectory. " +
			"Every file holds one cnt(0) and the patch is -cnt(x)/+cnt(x + 1), so the number of applications is read off the bytes; the oracle is a reference walk over the tree model (must / either / must-not per file), " +
			"all other entries must be identical in type, mode, size, mtime, inode and sha256, and with -v the patched/skipped lines must be exactly the reference set in ascending absolute-path order. " +
			"Non-trivial = the tree has at least one .go file below an excluded directory and two arguments overlap or repeat; distinct by sha256(tree, cwd, args, -v). Arguments may pass through a symbolic link to a directory of the tree (a file named that way is processed, once, however else it is named; a directory named that way is left open). Trees may hold hard links of Go files (same base name, other directory) and names with '[', '?', '*'. One tree in six holds a named pipe called like a Go file in a walked directory; a run that does not come back within the time limit is then a finding of this check.",
		Assumptions: []string{
			"'a fixed path order' is taken to be ascending byte order of the absolute paths, as the anchors say (sorting in findFiles)",
			"a named directory whose own path (below the tree root) has an excluded component (explicit sub/vendor, sub/vendor/pkg, '.' inside vendor) is left open by the statement: the files below it that are not behind a further excluded directory may be processed once or not at all",
			"not generated because the statement does not decide them: arguments that do not exist, that pass through a symlinked directory, 'link/' or 'file.go/' spellings, hard links, a tree root or harness directory with an excluded-looking base name",
			"a crash or time-out of the CLI is counted as a foreign (C08) discrepancy and the case is not judged",
		},
		MinNontriv: 100,
	},
	"C18": {
		Quick:    tierCfg{Shards: 8, Checks: 200, Timeout: 3 * time.Minute},
		Thorough: tierCfg{Shards: 16, Checks: 2500, Timeout: 20 * time.Minute},
		Rule: "gen.go = header shape x marker x comment style x placement, always with a site (cnt(0)) of a described change; run through the CLI with --skip-generated on/off in the modes in-place, -d, --print-only (with and without -v, alone or between two marker-free sibling files, directory or explicit file arguments). " +
			"Part 1 enumerates the table (43 shapes x 32 markers x 3 styles: well-formed '// Code generated <text> DO NOT EDIT.', 4 well-formed and 17 near-miss spellings, 4 @generated forms and 5 near-misses, both on one line, an ordinary remark; 4067 entries; detached header / package doc / indented / after another comment / same line as package / after the clause / declaration doc / function body / end of file; with licence, //go:build and package-doc blocks around it): quick = every entry in place with the flag, plus one other mode with the flag and one mode without it for every entry that is not must-process and for half of the others; thorough = full cross product (24 configurations per entry). " +
			"Part 2 draws random compositions (0-5 header blocks, several markers, drawn <text>, one-character edits of a well-formed marker, @generated in context). " +
			"Oracle: three-valued reference predicate computed from the file bytes by a hand-written lexer (README wording + property statement): must-skip -> gen.go bytes/mtime/inode identical, nothing about it on stdout/stderr, exit 0, siblings exactly as in a run without the flag where gen.go is absent; must-process -> exit/stdout/stderr/files identical to the run without the flag; either -> one of the two, nothing in between; flag off -> identical (modulo the letters of the marker line) to the same file with the marker replaced by an innocuous comment. " +
			"Header shapes include licence blocks of 7 KB and 70 KB before the marker or between marker and package clause, and a long block comment after the clause (nothing may depend on a fixed-size read-ahead). " +
			"Non-trivial = the file carries at least one marker or near-miss (anything but an ordinary remark); distinct by sha256(file, configuration). Shape added: marker below the package clause and, further down, a raw string with a line that reads like a package clause. Markers on directive-shaped lines ('//lint:file-ignore U1000 @generated by x').",
		Assumptions: []string{
			"'package doc comment' = the comment group ending on the line directly above the package keyword; '@generated' counts as must-skip only as a word of its own",
			"well-formed text in a /* */ comment, indented or after other text on its line, and @generated outside the package doc are not judged (either outcome is accepted, but nothing in between)",
			"files are processed independently: the expected output for the siblings of a skipped file is the output of a run on the tree without that file",
		},
		MinNontriv: 1000,
	},
	"C19": {
		Quick:    tierCfg{Shards: 8, Checks: 3000, Timeout: 3 * time.Minute},
		Thorough: tierCfg{Shards: 16, Checks: 30000, Timeout: 20 * time.Minute, Env: []string{"VERIF_C19_CLI_EVERY=12", "VERIF_C19_REJECT_EVERY=12"}},
		Rule: "generated patches of 1-4 changes (named/unnamed headers, metavariable declarations in every accepted layout, '#' and blank lines wherever they are accepted) " +
			"with exactly one header or metavariable-section fault injected at a drawn change/line/column; patch.Parse must fail with a diagnostic 'name:line:col:' for the byte position of the " +
			"offending token known to the generator (a sample also through the CLI: exit != 0, stderr has path:line:col, directory tree unchanged); plus rejected patches of other kinds " +
			"(body syntax errors, truncations, token mutations of repository patches) through the CLI, judged only for 'stderr names the patch path, nothing rewritten'. " +
			"Non-trivial = a judged header/metavariable fault on line > 1 with at least one comment/blank line or a whole change before it; distinct by sha256(name, patch, position, route). Go comments (also '/*line f.go:1:1*/') between the tokens of a metavariable declaration; patch file names with '%', ':' and blanks. Comment lines ending in a carriage return. Every case is preceded, in the same process, by a parse of the same patch three lines further down under another name. One case in ten is parsed once more behind a UTF-8 byte order mark (the diagnostic is then at 1:1 or at the fault, three bytes to the right on line 1). CLI vias 'p+P' / 'P+p': the rejected patch with -p next to a good one in a -P list.",
		Assumptions: []string{
			"the fault-free twin of every generated patch is parsed first; a case whose twin is rejected is not judged (status:base-rejected in the class histogram, expected 0)",
			"faults whose offending token is the end of the metavariable section (e.g. 'var x,' directly before '@@') are not generated: there is no token in the file to point at",
			"for a non-header line with leading white space where a header is expected, column 1 and the column of the first non-blank byte are both accepted",
			"crashes and hangs are property C08's business and are recorded as status:foreign, not judged here",
		},
		MinNontriv: 500,
	},
	"C04": {
		Quick:    tierCfg{Shards: 8, Checks: 800, Timeout: 5 * time.Minute, Env: []string{"VERIF_C04_MAXLIST=4"}},
		Thorough: tierCfg{Shards: 16, Checks: 12000, Timeout: 40 * time.Minute, Env: []string{"VERIF_C04_MAXPAT=5", "VERIF_C04_MAXPAT_ARGS=6"}},
		Rule: "part (a), exhaustive: every pattern over {atom a, atom b, metavariable x, metavariable y, elision} up to a length bound with at most 3 elisions, against all lists of length 0..5 (thorough; 364 lists) or 0..4 (quick; 121 lists) over {a,b,c} planted as sites of one file, per list kind (call arguments, composite elements, return results, unnamed and named parameters, results, struct fields, interface methods, block statements inside 'if tgt {', block statements with the implicit leading/trailing elision); oracle = a 30-line backtracking list model (shortest run first, left to right, consistent metavariables) giving match/no-match and the exact output list; quick = call arguments (length <= 5), struct fields and both statement forms (length <= 4), thorough = all kinds with length <= 5 (call arguments <= 6). " +
			"part (b), generated: mined patterns with 1-3 elisions (lists up to 12 elements, for-headers) in real hosts against the reference matcher. " +
			"Non-trivial = (a) a (pattern, kind) pair with an elision for which at least one list has a non-empty elided run or is a non-match of length >= 2; (b) a pattern with an elision, >= 1 site and >= 1 elided element. Distinct by (kind, pattern) resp. sha256(patch, file). Part 'pair': '-tgt(P)' '+tgq(P)' with 1-3 elisions in P on the changed line pair (the k-th elision of one side stands for the k-th of the other). Parts 'orphan' (an elision on the '+' side only must not be carried out silently) and 'grouped' (field lists with grouped names). Kind 'results-gofmt' (quick and thorough): the result-list patterns against result lists written the way gofmt leaves them (no parentheses around a single unnamed result, nothing for no result).",
		Assumptions: append([]string{
			"part (a): elisions stand on context lines of the patch (one element per line), the form the documentation recommends; a pattern of the fixed family that gopatch rejects counts as a violation because every member is accepted on the unchanged tree",
			"statement patterns with an explicit elision directly next to the implicit leading/trailing one are skipped (the split of elements between the two is not determined by the property)",
		}, modelAssumptions...),
		MinNontriv: 50,
	},
	"C10": {
		Quick:    tierCfg{Shards: 8, Checks: 1500, Timeout: 3 * time.Minute},
		Thorough: tierCfg{Shards: 16, Checks: 40000, Timeout: 20 * time.Minute},
		Rule: "complete table: patch-side import form {absent, unnamed, literally named, metavariable-named, dot, blank} x file-side imports of the guarded path {none, unnamed, same name, other name, dot, blank, spelled like the metavariable, and 8 two-spec combinations in both orders} x file layout {single imports, one group, group among unrelated imports incl. paths that are a prefix/suffix of the guarded path, two blocks, ...: 8 layouts} x package clause {absent, same, different} x guard line kind {context, '-'} x second guarded import {none, satisfied, missing, present in another form} = 17k cells, in every one of which the code pattern does occur in the file; then generated cells with 0-5 extra unrelated imports in drawn forms. Oracle: the table in the property statement decides applies / no effect; 'no effect' is checked as byte-identical Apply result. " +
			"Package clause cases: absent, same, different, and the near-misses file foo_test / guard foo, guard foo_test / file foo, both foo_test, guard a prefix of the name, guard longer than the name, other capitalisation. Body shapes: expression -> expression (full cross product), and expression -> several statements, statements -> statement, whole function declaration (crossed with two layouts and two second-guard cases). " +
			"Non-trivial = every cell (each carries at least one guard); distinct by the cell's coordinates. Variants: a metavariable declared with the name of the guarding package clause; an earlier, never-applying change of the same patch file with the same import clause under the other reading of its name (metavariable vs. literal). Body 'uses-mv' (the code refers to the package through the metavariable that names the import; the file uses the name of the last of its imports of the path). 'uses-mv' is also crossed with a satisfied second import guard. Variant 'rename_to' ('-' package clause): the change renames the package, to the file's name or another; the '-' clause remains the guard. File-side spelling 'upper' (the path with one letter in the other case: another path). The random part puts 60-400 unrelated imports in front in one case in ten. Second guards 'repeat' (the first guard written twice) and 'meta-too' (the guarded path once more under another metavariable): one import of the file may answer for several lines of the patch.",
		Assumptions: []string{
			"a file that imports the guarded path twice satisfies a guard if any of the two specs has the stated form",
			"the random part shares the oracle of the table; the table part alone is a complete enumeration of the stated cross product",
		},
		MinNontriv: 1000,
	},
	"C11": {
		Quick:    tierCfg{Shards: 8, Checks: 4000, Timeout: 3 * time.Minute},
		Thorough: tierCfg{Shards: 16, Checks: 60000, Timeout: 30 * time.Minute},
		Rule: "part (a): generated files with 0-8 bystander imports (unnamed, named, blank, dot; one group, single declarations, two blocks, with doc and trailing comments; paths that extend or are extended by the subject path) around a subject import, and patches that replace it, change its path keeping its name, delete it, add another import or merely match it, naming it literally, not at all or by an identifier metavariable, optionally with a second deleted or added import; the file still refers to the subject package not at all, plainly, or only through pkg.A.B / pkg.F().B / pkg.T[0].B / a nested func literal / type positions. Oracle on the (name, path) multiset: bystanders unchanged, nothing unmentioned added, '+' imports present once (under the captured name), '-' imports gone iff nothing refers to their package name any more (or a '+' import supplies the same name). " +
			"Subject paths are plain, gopkg.in/yaml.v2 -> v3 or example.com/codec/v2 -> v3 (the package name is not the last path element); remaining uses include a parameter, a local variable and a receiver named like the package (not references to the package). " +
			"part (b): mined patterns with '+import' lines on real hosts (host imports must survive as a multiset, the added import appears once). " +
			"Non-trivial = (a) the change applies, >= 2 bystanders of >= 2 different forms, and the patch adds or deletes an import; (b) >= 1 site and a '+import' line. Kind 'rename-name-keep-path'; part (c) shape 'import added by an earlier change'. Part (c) shapes added: imports of a change that rewrites nothing (its code occurs only where the '+' code cannot stand) next to a change that does; a blank or dot import on a context line (literal or through a metavariable) stays; a change without import lines whose code pattern is a string or a bare name that also occurs in the import declaration. 'file_case': the file imports the subject path with one letter in the other case (nothing applies). Part (c) shape: the '+' side asks for the very import the file has while the '-' side matches it through a metavariable. 'expr_meta': the metavariable that names the import is declared 'expression' (file import named).",
		Assumptions: append([]string{
			"the package name of an unnamed import is the last element of its path, and a metavariable import name is spelled like the package (the documented best practice); bystanders never share a package name with a subject import and no local identifier shadows a package name",
			"an import matched on a context line that is no longer referred to is not judged (the property is silent)",
		}, modelAssumptions...),
		MinNontriv: 200,
	},
	"C13": {
		Quick:    tierCfg{Shards: 8, Checks: 1500, Timeout: 3 * time.Minute},
		Thorough: tierCfg{Shards: 16, Checks: 20000, Timeout: 30 * time.Minute},
		Rule: "a base patch of one or two changes (mined pattern on a real host, see C01; optionally followed by a change that matches code the first one introduces) is rendered plainly and re-rendered under a drawn composition of layout transformations: '#' lines (above the patch, detached from the header, inside the metavariable section, inside the diff, trailing), blank lines (before the first header, inside the diff, trailing), naming the change, new description lines, consistent renaming of all metavariables to fresh identifiers, regrouping / reordering / ';'-joining the declarations, extra indentation, wrapping after every comma on all lines, joining context lines that end in ',' or '(' with the next context line, writing elision-free context lines as identical -/+ pairs and identical -/+ pairs as context lines. Oracle (metamorphic): base and variant are both rejected, or both results are equal as canonical syntax trees; a sample through the CLI checks that stderr carries exactly the '#' lines directly above a change's header. " +
			"Non-trivial = the base patch changes the file and the variant differs from it in >= 2 transformation classes; distinct by sha256(base, variant, file). One case in six is a hand-written change with several elisions on a changed line (call arguments, result lists, composite literals); layout transformation 'common tail as context' ('-foo(REST' '+bar(REST' written as '-foo(' '+bar(' ' REST'). Layout transformation 'indent-description' (seen through the CLI sample). A hand-written two-change base: nested blocks on unchanged lines of the first change, a statement change that applies in both blocks.",
		Assumptions: append([]string{
			"metavariables that name an import are not renamed (documented exception); generated base patches do not contain any",
			"wrapping is done only after commas (never where a semicolon would be inserted) and identically on every line of both sides",
		}, modelAssumptions[:2]...),
		MinNontriv: 100,
	},
	"C09": {
		Quick:    tierCfg{Shards: 8, Checks: 500, Timeout: 4 * time.Minute},
		Thorough: tierCfg{Shards: 16, Checks: 2500, Timeout: 40 * time.Minute},
		Rule: "sequences of 2-5 changes: (a) a mined change on a real host followed by changes that match only the marker code it introduces (bare identifier, empty call, one/two-argument call, call with elision, selector forms), independent changes mined from the same host, and steps that fail at rewrite time (plus side uses an unbound metavariable); (b) synthetic call-rewriting chains fK(...) -> fK+1(...) over a small file (argument permutation, dropping, duplication, wrapping of arguments, elisions that match zero arguments, changes on names that never occur, a later change on a wrapper introduced earlier). The sequence is cut into 1..n patch files and given as one file, several -p, a -P list, -p plus -P, or stdin. (c) guard sequences: 2-5 changes drawn from a pool that renames the package, replaces / adds / deletes / renames imports, or is guarded by a package clause or an import that an earlier change may have introduced or taken away; (d) focused histories on the same calls fK(<nested argument>, <tail>): steps that bind a metavariable to the nested argument and then fail to match, rewrite something strictly inside it, or reproduce it under a new callee (one patch file in a third of the cases, so that whatever a compiled program remembers is shared). Oracle (differential): the combined CLI run vs the chain of single-change runs, each on the bytes the previous one wrote, compared as canonical trees with parentheses looked through; if a single step fails, the combined run must exit non-zero and leave the file byte-identical. " +
			"Non-trivial = at least two changes applied and one of them does not apply to the original file on its own, or a failing step after at least one applied change; distinct by sha256(changes, file, channel, split). Families added: 'synthetic-emptied' (an elision that stands for nothing empties a result / argument / field list, a later change is about the form without it; optionally a literal not in gofmt's form), 'synthetic-unprintable' (a step whose result cannot be printed, repaired by a later step), 'synthetic-shadowed-package' (a later change names an imported package, the file has a local of that name inside code an earlier change rebuilds). Family 'synthetic-generated-declarations' (an earlier change writes declarations, a later one binds an identifier metavariable at one of them and at an old use). Families 'synthetic-signatures' (an earlier change writes a result list - none, one unnamed, one named, several, or what an elision leaves - and a later one has the signature on context lines in a drawn spelling), 'synthetic-precedence' (an earlier change puts a sum where the printer must parenthesise it - operand of a product, a selector, a call, a unary operator, an index - or leaves one type argument of a list; the later change is written against the printed text). 'Repeat': in one case in six with several patch files the first file is named again at the end (same path), the chain runs its changes again. A -P list may lack its final line feed. Shapes added to 'synthetic-precedence': a function type as the operand of a conversion. Family 'synthetic-unplaceable': a change with a package rename and / or imports whose code occurs only where its '+' code cannot stand, before or after changes that do rewrite the file.",
		Assumptions: []string{
			"-p files are given before the -P list (gopatch loads all -p patches first; the only unambiguous 'given order')",
			"a failing step is one whose own single-change run exits non-zero; steps after it are not run in the chain",
		},
		MinNontriv: 30,
	},
	"C07": {
		Quick:    tierCfg{Shards: 8, Checks: 400, Timeout: 4 * time.Minute},
		Thorough: tierCfg{Shards: 16, Checks: 2500, Timeout: 40 * time.Minute},
		Rule: "compiling patches that put captured code where it may not fit (38 templates: expression holes reproduced in if/for/switch headers, selectors, index and composite positions, type positions, labels, statements <-> expressions; fillers include composite literals, key:value pairs, variadic x..., type expressions, func literals), template-grammar ill-typed patches, and mined patterns on real hosts; every case is run through the library API and through the CLI in 8 mode x flag combinations (in place, --print-only, --diff, each with and without --skip-import-processing, plus --skip-generated and -v). Oracle: every content emitted with exit status 0 (file bytes after an in-place run, --print-only stdout, original + applied --diff, Apply result) must parse with go/parser; when an error is reported instead, stderr must name the file, the file must be byte-identical and no new content may have been printed for it (an unchanged echo under --print-only is not an emission). " +
			"One case in six uses a 239-byte file name (no temporary sibling can be created next to it); four templates make the file shorter. " +
			"Non-trivial = some mode emitted content that differs from the input or reported a 'would not parse' error; distinct by sha256(patch, file). One case in four names 1-2 sibling files on the same command line in the writing modes (every file that changed must parse, whatever the exit status); three in ten append a 70 000-byte line and/or use CRLF line ends. Three template cases in eight carry a companion change in the same patch that always applies and cannot break anything (a plain rename before or after, a call rewrite after). One template case in six has a //line directive (gen.y:9000, gen.y:1, a block form, ':5000') in front of the functions.",
		Assumptions: []string{
			"patches gopatch rejects at load time are not judged (nothing is emitted)",
			"the unified diff printed by --diff is applied by a 60-line applier in the harness; a diff that does not apply is counted as unjudged here (C12 judges agreement of the modes)",
		},
		MinNontriv: 100,
	},
	"C17": {
		Quick:    tierCfg{Shards: 8, Checks: 1200, Timeout: 4 * time.Minute},
		Thorough: tierCfg{Shards: 16, Checks: 15000, Timeout: 40 * time.Minute},
		Rule: "real hosts (their own comments of every kind: licence headers, //go:build lines, package docs, declaration docs, end-of-line and free-standing comments) additionally decorated by a comment injector (unique tokens c17_<n>: end-of-line comments after statements, free-standing comment lines, doc comments and //go:generate directives above top-level declarations, /* */ comments after ',' and '(' inside expressions, a file header), gofmt-stable, with a mined change that rewrites 1..n places. Oracle: (1) the multiset of comment texts of the output is included in that of the input; (2) for every top-level declaration in which the reference rewrites nothing, the list of its doc, inner and trailing comments is unchanged, in order; (3) header and package comments unchanged; (4) free-standing comments between two untouched declarations unchanged. Judged only when the code of the output equals the reference rewrite. " +
			"Declarations of input and output correspond in order by exact code equality, so changes that remove a declaration, add one or turn one into another kind (func -> const, var -> func, ...; 9 such changes in the pool) are judged too. " +
			"Non-trivial = a rewritten declaration whose two neighbours are untouched and commented; distinct by sha256(patch, file). Families added: 'import-section' (tokens on the package line, on import specs and declarations, cgo preamble, free-standing comments, build constraints; a patch that deletes / replaces / adds an import or none; each token must stay, once, attached to what it was attached to) and declaration runs of up to 170 rewritten declarations on either side of an untouched commented function. A quarter of the import-section cases run through the command line with --skip-import-processing; files without imports; a comment on the line below the package clause. Import-section op 'rename-package-then-replace-first-declaration' (files without imports). The runs family puts a //line directive in front of everything in one case in four.",
		Assumptions: append([]string{
			"comments are compared by whitespace-normalised text; empty comments ('//') are ignored; inputs are gofmt-stable so that gofmt's own doc-comment reformatting cannot change them",
			"declarations correspond by index among non-import declarations (cases where a declaration pattern changes the number of declarations are judged by rule (1) only)",
		}, modelAssumptions[:1]...),
		MinNontriv: 50,
	},
	"C16": {
		Level:    "fault_enumeration",
		Quick:    tierCfg{Shards: 8, Checks: 6, Timeout: 4 * time.Minute},
		Thorough: tierCfg{Shards: 16, Checks: 45, Timeout: 30 * time.Minute},
		Rule: "mode faults: a tree of 2-4 Go files (names drawn so that the written files are first / middle / last in path order, in subdirectories, *_test.go; sizes from 70 B to 40 KB, sometimes ascending) and a patch (-cnt(x)/+cnt(x + 1), a generated patch + host from the shared model generator, or both, via -p or -P) that rewrites a drawn subset, passed as a directory, ./dir/..., dir/ or explicit files. " +
			"One fault case in eight gives a file a 239-byte base name, for which no temporary sibling can be created; such a case is judged when the fault-free run copes with the name. " +
			"A fault-free run defines the patched bytes; a fault-free run under a ptrace injector lists every system call (openat, read, write, close, rename*, chmod*, chown*, fsync, unlink*, link*, truncate* ...) that touches a file of the tree or a new entry below it (temporary files), across all threads, in order. " +
			"Every listed call is failed once with each of ENOSPC / EIO / EACCES (read side: EACCES / EIO) and, separately, the process is SIGKILLed on entry to it; the run is also repeated under RLIMIT_FSIZE = N for N in {0..16, a stride through each output size, size-1}. Two fixed trees are enumerated completely in every run (split between the shards), the others are drawn. " +
			"mode kinds (a complete table over a 3-file tree plus drawn compositions): unparseable source (6 fixed shapes, drawn cuts/insertions), a change whose + side uses an unbound metavariable, a change whose result does not parse, a target whose open fails with EACCES (alone and before/after another failing file), a missing path at each argument position, and a missing / unreadable / directory patch at each position of three patches given with -p or inside a -P list, and the -P list itself. " +
			"Oracle: every pre-existing file holds its original or its fault-free bytes; after a normal exit no new directory entry remains, after a kill a new entry whose name ends in .go holds the original or patched bytes of some file; if the process was not killed, files the fault does not concern hold the fault-free result; whatever could not be processed (faulted file left unpatched, unreadable target, failing file, missing path, bad patch) makes the exit status non-zero and is named on stderr together with its cause (the errno text, a go/parser message, the metavariable); exit 0 implies every file holds its fault-free bytes. " +
			"Non-trivial = (faults) the injector's log shows that exactly the intended call was tampered with and the file it belongs to is one the fault-free run rewrites, or the size limit is below the size of a rewritten file and demonstrably took effect; (kinds) at least one failure and at least one other file that the fault-free run rewrites. Distinct by sha256(case, file position, system call, ordinal, fault kind). Table additions: the same failure kind in two files at every pair of positions; an unparseable file that looks generated, with --skip-generated; patch lists that are a directory or hold a 70 000-byte line. Mode signal (one generated case in six): 200-600 files, SIGINT / SIGTERM / SIGHUP sent once the file at a drawn position has been rewritten; every file holds original or complete patched bytes and exit status 0 is possible only with every file patched. Non-trivial there = the run was stopped midway (some files patched, some not). Table: 255 / 256 / 257 / 512 unparseable files in one run. Kinds: a good file may be a hard link of another; a -P list may lack its final line feed; the fault-free run is itself checked against the library's result for every good file (exit 0 with a file left out is a finding). Unparseable sources include two with //line directives (the report must still name the path that was opened).",
		Assumptions: []string{
			"the ptrace injector (harness/props/c16_helpers_test.go, linux/amd64) and prlimit are trusted; every shard first checks that the injector and strace -f -y see the same calls on the two fixed trees (disagreement = inconclusive), and every fault run is only judged if the injector's log shows exactly the intended call tampered with",
			"fully patched = the bytes a fault-free run of the same command leaves in the file; in mode kinds the fault-free twin is the run over the tree without the failing files (files are processed independently)",
			"death by signal (the injected SIGKILL) counts as killed: stderr is not judged, every file must hold original or patched bytes, new entries not ending in .go are allowed; Go ignores SIGXFSZ, so runs under RLIMIT_FSIZE end normally with EFBIG ('file too large') and are judged like injected errors, every rewritten file larger than the limit being concerned",
			"when a requested path is missing or a patch cannot be loaded the statement does not say whether the other files are still processed: each file may hold original or patched bytes, only exit status and the report (path as given or absolute + 'no such file or directory' / 'permission denied' / 'is a directory') are judged; per-file diagnostics are not demanded in such runs; at most one patch-level failure per case",
			"naming a file = its absolute path (or the argument as given) occurs on stderr; the cause must occur in the same line, in the stretch that is not closer to another known path",
			"an error injected into close() of the read descriptor, or any fault after which the file nevertheless holds its complete patched bytes, need not be reported",
		},
		MinNontriv: 300,
	},
	"C06": {
		Quick:    tierCfg{Shards: 8, Checks: 500, Timeout: 4 * time.Minute},
		Thorough: tierCfg{Shards: 16, Checks: 5000, Timeout: 40 * time.Minute},
		Rule: "1-3 changes (a pattern mined from real code with metavariables / elisions / '+import' lines; the same with a package or import guard line that no file satisfies: context / '-' / named / dot import of a unique path or name, 'package' of a unique name; hand-written changes around a callee name that occurs nowhere else), two thirds with a description, in 1-2 patch files or on stdin; 1-5 Go files (unrelated real files, the file a change was mined from - in which its code pattern occurs -, files with a generated-code header), three quarters of them deformed so that gofmt / the import sorter / a line-ending normaliser would alter them (CRLF on all or some lines, no final newline, extra final newlines, trailing blanks, space indentation, over-indentation, tight operators, semicolons, doubled blank lines, odd comments, legacy '// +build' lines, unsorted and duplicated imports, one-line import groups); drawn file / directory / '...' arguments in relative, absolute and mixed spellings with duplicates; drawn -v, --skip-generated, --skip-import-processing. " +
			"'No change applies to the file' is decided without gopatch, per change: reference matcher finds no site, no inadmissible match, no ambiguity (mined); the callee name is absent from the file (hand-written); the guard cannot hold (guarded; the pattern may be present). Only files for which every change is so decided are judged; matching files stay in the run. " +
			"Each case is run in the default mode, with --diff and with --print-only on an identically re-created tree with old mtimes, and through patch.Parse/Apply. Oracle per judged file: bytes, mode, mtime and inode unchanged in every mode; no 'path:description' line, no error, no '---/+++' header for it; --print-only stdout contains its original bytes; Apply returns the input bytes and no error. When nothing applies to any file of the run: exit 0, stderr empty, no entry created, stdout empty (default, --diff; only log lines with -v) or exactly the original bytes in path order (--print-only; plus '<path>: skipped' lines with -v; nothing for a skipped generated file). " +
			"Non-trivial = a judged file that gofmt would change, or one in which the pattern occurs and only the guard fails; distinct by sha256(case). Files whose only sites are inadmissible (the '+' side cannot be built there) are judged too: nothing applies. Scoping scenario: a change that declares x and y, then a change that uses x and y as plain names; files with near-misses only. Deformations 'long-line' (a line over 64 KiB) and 'many-lines' (300-700 repeated lines).",
		Assumptions: []string{
			"a file with a node that matches the pattern but whose replacement does not fit its slot is left unjudged (whether 'a change applies' there is not decided by the statement)",
			"the package / import guard table of property C10 is used only in its trivially false corner: a path, import name or package name that occurs in no file",
			"a crash or time-out of a run is property C08's business: the case is not judged",
		},
		MinNontriv: 60,
	},
	"C12": {
		Quick:    tierCfg{Shards: 8, Checks: 250, Timeout: 4 * time.Minute},
		Thorough: tierCfg{Shards: 16, Checks: 4000, Timeout: 40 * time.Minute},
		Rule: "a patch set of 1-3 changes (mined from real code; repository test patches with their inputs; hand-written changes whose rewrite fails / adds an import), two thirds of them with a 1-2 line description carrying a unique token, in 1-2 patch files or on stdin; a tree of 1-6 Go files (made for a change, variants, unrelated, planted instances, injected syntax error, generated header, byte-identical twins; a third of them deformed: CRLF, no final newline, odd indentation, unsorted imports, legacy build tags, odd comments) plus entries that are not gopatch's business (text, json, vendor/, testdata/, hidden directory, .go.orig); arguments = files, directories, '...', duplicates, relative / absolute / mixed spellings of the same file; a drawn subset of -v, --skip-generated, --skip-import-processing. " +
			"The invocation is run in the default mode, with --print-only, with --diff and with both, each on an identically re-created tree (old mtimes) whose complete snapshot (type, mode, size, mtime, inode, sha256 of every entry incl. patch files and an empty $TMPDIR) is compared before/after. " +
			"Oracles: (a) any difference after a dry run is a violation; (b) stdout of --print-only must be the concatenation in path order of the bytes the default mode leaves in the files (plus the -v log lines); the original with its --diff hunks applied by a small applier must equal the written bytes, no diff for a file outside the run or for one that failed; patch.File.Apply on the joined patch must return the written bytes (only without --skip-import-processing; generated files only without --skip-generated) and fail exactly when the command line fails for that file; exit status equal in all modes; (c) default-mode stdout empty (only log lines with -v), no description token on any stdout, every stderr line before the error text is 'reported-path:description' of a change that applied to that file (decided by folding the changes one by one through the library, confirmed by a -v solo run before a report). " +
			"Non-trivial = the run covers >= 1 file the patches change and >= 1 they leave alone; distinct by sha256(case). File names may be too long for a temporary sibling (the default mode then fails to write; only the dry runs are compared); deformations 'long-line' and 'many-lines'. Deformation 'line-directives' and special 'under-line-directives' (hosts with //line directives, rewritten calls spanning several lines).",
		Assumptions: []string{
			"the path a file is reported under is the argument's spelling: relative to the working directory for relative arguments, absolute for absolute ones; when both reach one file the last argument decides (observed; not part of the statement, used only to attribute diffs and descriptions to files)",
			"for a file that cannot be processed (syntax error, failing rewrite) no bytes are compared; --print-only may echo it unchanged or print nothing",
			"--diff together with --print-only is only held to 'writes nothing'",
			"which description is printed when several described changes apply to one file is not judged (the statement only says 'only')",
			"a crash or time-out of a run is property C08's business: the case is not judged",
		},
		MinNontriv: 60,
	},
	"C14": {
		Race:     true,
		Quick:    tierCfg{Shards: 8, Checks: 110, Timeout: 4 * time.Minute},
		Thorough: tierCfg{Shards: 16, Checks: 500, Timeout: 30 * time.Minute},
		Rule: "a patch set of 1-3 changes (mined from real code with metavariables and elisions, some with added import lines; repository test patches with their inputs; hand-written changes whose rewrite always fails / fails for some instances / adds an import) and 2-8 files (the file a change was made for, variants of it, unrelated files, files with planted instances, files with an injected syntax error, files with a generated-code header, byte-identical twins). " +
			"cli (about 35% of the cases): every file alone in a tree that holds nothing else vs all together (1-2 patch files; drawn order and spelling of file, directory and '...' arguments with duplicates and overlaps, relative or absolute; in place, -d or --print-only; -v, --skip-generated, --skip-import-processing), the grouped run done twice on an identically re-created tree and optionally in a second arrangement: per-file bytes, per-file stdout, description lines and error texts, exit status must be those of the solo runs; identical bytes give identical results. " +
			"seq (about 25%): one patch.File, 2-8 Apply calls over 2-6 inputs with repeats, each compared with a fresh Parse + single Apply (bytes, error text). " +
			"conc (about 40%): the same followed by 2-16 goroutines x 1-3 Apply calls on that patch.File released together, then the sequence again, in a child process of the -race test binary; a race report, a dead or stuck child, or any differing result is a violation. " +
			"Non-trivial = cli: the grouped run covers >= 2 files of which >= 1 is changed by the patches and >= 1 is not (unchanged, unparseable, failing rewrite, skipped), and the argument list is not the sorted list of those files; seq: >= 3 calls, >= 2 distinct inputs, an input repeated, >= 1 call that rewrites; conc: >= 2 goroutines, >= 2 distinct inputs in the batch, >= 1 rewritten. Distinct by sha256(case). CLI trees may hold names too long to be written back (outcome write-error, the same alone and together) and hard links (two names of one file). Module scenario: sub/go.mod as an extra file, a file of that module and one outside it importing the module next to other third-party packages. Specials 'captured-name-under-import' (a captured name is the package in one file and a parameter or local in another, under an import the change only mentions) and 'package-guard'; package scenario (cli): every change restricted to one package, directories holding files of that package next to files of others (foo / foo_test). Kind 'many' (one case in 25): 90-260 files (some without a site, some unparseable, optionally in subdirectories) in one run under prlimit --nofile=32..64, compared file by file with a run without the limit; the last file alone under the limit is the control.",
		Assumptions: []string{
			"the harness does not control the Go scheduler: interleavings of concurrent Apply calls are sampled by stress (goroutines released together on 16 cores), not enumerated; a race that needs a rare schedule can be missed, a reported race is real (the race detector has no false positives)",
			"'processed alone' = the CLI run on a tree that contains only that file at the same relative path, with the same flags and patch files",
			"stdout of a grouped run is compared with the solo outputs concatenated in ascending path order; another order of the same pieces is counted as a C15 discrepancy, not judged here; the order of the error texts on the last stderr line is not judged",
			"path arguments of one invocation are all relative or all absolute (the spelling of the name shown in -d/--print-only output follows the argument and is not part of the property)",
			"a crash or time-out of a single run on its own is property C08's business: the case is not judged",
		},
		MinNontriv: 100,
	},
}

var modelAssumptions = []string{
	"go/parser, go/printer and the reflection dump of go/ast faithfully represent 'syntax tree'; the reference shares go/ast's node definitions with gopatch",
	"output comparison ignores what gofmt itself changes: redundant parentheses, explicit empty statements, position validities other than call '...', alias '=', declaration parentheses; imports compared as a multiset",
	"instances nested inside another rewritten instance, later statement instances in the same block, and expression metavariables aligned with KeyValueExpr/Ellipsis are not judged (the property leaves them open)",
	"patches gopatch rejects are not judged (counted as rejected)",
}
