package main

import "time"

// props is the per-property configuration of the driver: how many shard
// processes, how many generated cases per shard, and what the evidence says
// about the rule for non-trivial cases.
var props = map[string]propCfg{
	"C08": {
		Quick:    tierCfg{Shards: 8, Checks: 40000, Timeout: 4 * time.Minute},
		Thorough: tierCfg{Shards: 16, Checks: 250000, Timeout: 40 * time.Minute, Env: []string{"VERIF_C08_CLI_EVERY=200"}},
		Rule: "patch bytes: every prefix of every repository patch (exhaustive sweep), hostile constants in 7 frames, and generated inputs " +
			"(random bytes, structured text, 1-3 token mutations of repository patches, template-grammar ill-typed patches) crossed with repository test inputs " +
			"and generated targets in which the minus side occurs; run through patch.Parse+Apply behind recover and a 10 s watchdog, a sample also through the CLI. " +
			"Non-trivial = the patch got past sectioning and metavariable parsing (reached pgo/engine, or crashed); distinct by sha256(patch, target).",
		Assumptions: []string{
			"a hang is 'no return within 10 s' for inputs of at most a few KB (normal run time is below 5 ms)",
			"native go test -fuzz campaigns cannot be seed-pinned; they are run separately (thorough) and their crashers are replayed here",
		},
		MinNontriv: 50,
	},
	"C01": {
		Quick:    tierCfg{Shards: 8, Checks: 700, Timeout: 4 * time.Minute},
		Thorough: tierCfg{Shards: 16, Checks: 20000, Timeout: 40 * time.Minute},
		Rule: "a pattern (expression, statement run, func/type/value declaration) is mined from a drawn place of a real Go file (standard-library sample, repository test inputs, hand-written exotic file) by replacing drawn sub-expressions/identifiers with metavariables and drawn list runs with elisions; the plus side is a drawn edit carrying a marker; 0-3 fresh instances and 1-5 single-field mutants of instances (operator, literal, name, arity, variadic '...', alias '=', channel direction, optional child, metavariable kind/consistency) are planted at drawn statement/declaration positions in drawn syntactic contexts. Oracle: reference matcher/rewriter over canonical syntax trees. " +
			"Non-trivial = the reference finds >= 1 site and confirms >= 1 planted mutant as a non-instance; distinct by sha256(patch, file).",
		Assumptions: modelAssumptions,
		MinNontriv:  50,
	},
	"C02": {
		Quick:    tierCfg{Shards: 8, Checks: 700, Timeout: 4 * time.Minute},
		Thorough: tierCfg{Shards: 16, Checks: 20000, Timeout: 40 * time.Minute},
		Rule: "as C01 with generalisation biased to repeated metavariables (same hole for tree-equal subterms, and a forced second occurrence that makes the original code a near-miss) and identifier holes; mutants include 'one occurrence differs / is parenthesised' and 'identifier hole filled with a.b, (a), f(), 5, *p'. " +
			"Non-trivial = a repeated or identifier metavariable, >= 1 site and >= 1 confirmed near-miss in the same file.",
		Assumptions: modelAssumptions,
		MinNontriv:  50,
	},
	"C03": {
		Quick:    tierCfg{Shards: 8, Checks: 700, Timeout: 4 * time.Minute},
		Thorough: tierCfg{Shards: 16, Checks: 20000, Timeout: 40 * time.Minute},
		Rule: "as C01 without elisions, 2-5 planted instances with independently drawn fillers (identifiers, calls, binary/unary expressions, composite and func literals, type expressions), plus sides that rename, wrap, swap, drop, duplicate holes and add statements/arguments. " +
			"Non-trivial = >= 2 reference sites with pairwise different bindings.",
		Assumptions: modelAssumptions,
		MinNontriv:  50,
	},
	"C05": {
		Quick:    tierCfg{Shards: 8, Checks: 500, Timeout: 4 * time.Minute},
		Thorough: tierCfg{Shards: 16, Checks: 12000, Timeout: 40 * time.Minute},
		Rule: "as C01 on hosts of up to 400 lines (real standard-library files with generics, labels, struct tags, raw strings, build constraints, closures); the whole output file is compared with the reference rewrite as canonical trees, imports as a multiset. " +
			"Non-trivial = >= 1 reference site (so the file is re-printed) ; distinct by sha256(patch, file).",
		Assumptions: modelAssumptions,
		MinNontriv:  50,
	},
}

var modelAssumptions = []string{
	"go/parser, go/printer and the reflection dump of go/ast faithfully represent 'syntax tree'; the reference shares go/ast's node definitions with gopatch",
	"output comparison ignores what gofmt itself changes: redundant parentheses, explicit empty statements, position validities other than call '...', alias '=', declaration parentheses; imports compared as a multiset",
	"instances nested inside another rewritten instance, later statement instances in the same block, and expression metavariables aligned with KeyValueExpr/Ellipsis are not judged (the property leaves them open)",
	"patches gopatch rejects are not judged (counted as rejected)",
}
