package main

import "time"

// props is the per-property configuration of the driver: how many shard
// processes, how many generated cases per shard, and what the evidence says
// about the rule for non-trivial cases.
var props = map[string]propCfg{
	"C08": {
		Quick:    tierCfg{Shards: 8, Checks: 40000, Timeout: 4 * time.Minute},
		Thorough: tierCfg{Shards: 16, Checks: 250000, Timeout: 40 * time.Minute, Env: []string{"VERIF_C08_CLI_EVERY=200"}},
		Rule: "patch bytes: every prefix of every repository patch (exhaustive sweep), hostile constants in 7 frames, and generated inputs " +
			"(random bytes, structured text, 1-3 token mutations of repository patches, template-grammar ill-typed patches) crossed with repository test inputs " +
			"and generated targets in which the minus side occurs; run through patch.Parse+Apply behind recover and a 10 s watchdog, a sample also through the CLI. " +
			"Non-trivial = the patch got past sectioning and metavariable parsing (reached pgo/engine, or crashed); distinct by sha256(patch, target).",
		Assumptions: []string{
			"a hang is 'no return within 10 s' for inputs of at most a few KB (normal run time is below 5 ms)",
			"native go test -fuzz campaigns cannot be seed-pinned; they are run separately (thorough) and their crashers are replayed here",
		},
		MinNontriv: 50,
	},
}
