package gen

import (
	"fmt"
	"strings"

	"pgregory.net/rapid"
)

// This file generates well-formed but frequently ill-typed patches from a
// template grammar, together with a target file in which the minus side of
// the patch is likely to match. It is used by C08 (no crash / hang) and C07
// (emitted text parses).

// Metavariable names used by the templates.
var illMetas = []string{"x", "y", "f", "T"}

// Template is a piece of pattern code of a certain syntactic kind.
type Template struct {
	Kind string // "expr", "stmt", "decl"
	Text string // uses x, y, f, T as placeholders; may contain "..."
}

var exprTemplates = []string{
	"foo(x)", "foo(x, y)", "x.y", "x.foo", "foo.x", "x + y", "x == y", "T{x}", "T{...}", "T{foo: x}", "T{x: y}",
	"func() { ... }", "func(...) { ... }", "func(x T) y { ... }", "[]T{...}", "[]T{x, ...}", "x[y]", "*x", "&x", "x.(T)", "x.(type)",
	"f(...)", "f(x...)", "f(x, ...)", "f(..., x)", "f(..., x, ...)", "x", "(x)", "-x", "<-x", "x[y:]", "map[T]x{...}", "T[x]", "T[x, y]{}",
	"func(x ...T) {}", "foo(func() { x })", "f(y)(x)", "x.y.f(...)", "chan T", "[]T", "*T", "struct{ x T }", "interface{ f() }",
	"foo(...)", "bar(x + ...)", "(...)", "x(...)[y]", "foo(x, x)", "foo(x)(x)",
	// elisions where a list must not be empty or where no list is
	"x[...]", "T{x: ...}", "[...]T{x}", "f(...)(...)", "func() T { return ... }", "x.(...)", "[]T{...}[x]", "f(x)[...]",
}

var stmtTemplates = []string{
	"x := y", "x = y", "x, y := f()", "x, err := f(...)", "var x T", "var x = y", "var x T = y", "const x = y",
	"if x { ... }", "if x := y; x != nil { ... }", "if x {\n ...\n} else {\n ...\n}", "for ... { ... }", "for x := range y { ... }",
	"for x := 0; x < y; x++ { ... }", "for { ... }", "return", "return x", "return ..., x", "return x, ...", "return ...",
	"go x()", "go f(...)", "defer x()", "defer f(x)", "defer x", "go x", "x++", "x <- y", "switch x { ... }", "switch x {\ncase y:\n ...\n}",
	"switch x := y.(type) {\ncase T:\n ...\n}", "select {\ncase x := <-y:\n ...\n}", "x: for { break x }", "break x", "goto x", "continue",
	"{ ... }", "{\n x\n}", "x", "f(x)", "x.f(...)", "foo(x)\n...\nbar(x)", "x := f()\n...\nuse(x)", "...\nfoo()", "foo()\n...",
	"type x T", "type x = T", "var (\n x = y\n)", "x += y", "*x = y", "x[y] = f", "_ = x",
	// elisions in lists that must not be empty
	"x := ...", "x = ...", "x, y := ...", "x, y = ...", "var x = ...", "var x T = ...", "const x = ...", "... := x", "... = f()",
	"switch x {\ncase ...:\n y\n}", "select {\ncase ...:\n}", "x <- ...", "go ...", "defer ...", "if ... { x }", "for x := range ... { y }",
	"continue x", "x:\n f()", "goto x\nx:\n f()",
}

var declTemplates = []string{
	"func f() { ... }", "func f(...) { ... }", "func f(x T) { ... }", "func f(x T, ...) y { ... }", "func f(..., x T) (y, ...) { ... }",
	"func (x T) f() { ... }", "func (x *T) f(...) (...) { ... }", "func (...) f() { ... }", "func f() (x T) { ... }", "func f(...) (..., error) { ... }",
	"func f[x any](y x) { ... }", "func f()", "func f(x ...T) { ... }", "func f(T) {}", "func f(T, ...) {}",
	"type x struct { ... }", "type x struct {\n ...\n y T\n ...\n}", "type x struct { y T }", "type x interface { ... }", "type x interface {\n ...\n f()\n}",
	"type x T", "type x = T", "type x[y any] T", "type x func(...) T", "type (\n x T\n)",
	"var x = y", "var x T", "var x T = y", "var x, y = f()", "var (\n x = y\n)", "const x = y", "const (\n x = iota\n y\n)", "const x T = y",
}

var prologTemplates = []string{
	"", "", "", "package foo", "package x", "import \"a/b\"", "import x \"a/b\"", "import . \"a/b\"", "import _ \"a/b\"",
	"import (\n \"a/b\"\n y \"c/d\"\n)", "package foo\n\nimport \"a/b\"", "import \"a/b\"\nimport \"c/d\"",
}

// absentVariants: target code of the same shape as a template in which an
// optional part, where the template has a metavariable, is missing (a label, a
// result, a receiver, an initialiser, a type, a tag, a key ...). A
// metavariable of the pattern then meets "nothing" in the file.
var absentVariants = map[string][]string{
	"break x":                         {"for {\n\tbreak\n}"},
	"continue x":                      {"for {\n\tcontinue\n}"},
	"x: for { break x }":              {"for {\n\tbreak\n}", "L1:\n\tfor {\n\t\tbreak\n\t}"},
	"return x":                        {"return"},
	"return ..., x":                   {"return"},
	"return x, ...":                   {"return"},
	"if x := y; x != nil { ... }":     {"if a != nil {\n}"},
	"if x {\n ...\n} else {\n ...\n}": {"if a {\n}"},
	"var x T = y":                     {"var a = 1", "var a int"},
	"var x T":                         {"var a = 2"},
	"var x = y":                       {"var a int"},
	"const x T = y":                   {"const a = 1"},
	"const x = y":                     {"const (\n\ta = iota\n\tb\n)"},
	"T{x}":                            {"[]T{{1}}", "map[string]T{\"k\": {1}}"},
	"T{...}":                          {"[]T{{1, 2}, {}}"},
	"x[y:]":                           {"a[:]", "a[:2]", "a[1:2:3]"},
	"switch x { ... }":                {"switch {\ndefault:\n}"},
	"switch x {\ncase y:\n ...\n}":    {"switch a {\ndefault:\n}", "switch {\ncase b:\n}"},
	"switch x := y.(type) {\ncase T:\n ...\n}": {"switch b.(type) {\ncase int:\n}", "switch v := b.(type) {\ndefault:\n\t_ = v\n}"},
	"for x := range y { ... }":                 {"for range ch {\n}", "for a, b := range m {\n}"},
	"for x := 0; x < y; x++ { ... }":           {"for ; a < 3; {\n}", "for {\n}", "for a < 3 {\n}"},
	"select {\ncase x := <-y:\n ...\n}":        {"select {\ncase <-ch:\n}", "select {\ndefault:\n}"},
	"func (x T) f() { ... }":                   {"func f() {\n}", "func (T) f() {\n}"},
	"func (x *T) f(...) (...) { ... }":         {"func f() {\n}", "func (*T) f() {\n}"},
	"func f() (x T) { ... }":                   {"func f() {\n}", "func f() T {\n\treturn 0\n}"},
	"func f(x T) { ... }":                      {"func f(T) {\n}", "func f() {\n}"},
	"func f(x T, ...) y { ... }":               {"func f(T) {\n}", "func f(a T) {\n}"},
	"func f[x any](y x) { ... }":               {"func f(y int) {\n}"},
	"func f()":                                 {"func f() {\n}"},
	"func f(x ...T) { ... }":                   {"func f(...T) {\n}"},
	"type x struct { y T }":                    {"type a struct{ T }", "type a struct {\n\tb T `tag`\n}"},
	"type x[y any] T":                          {"type a T"},
	"func(x T) y { ... }":                      {"func(a T) {\n}", "func(T) int {\n\treturn 0\n}"},
	"func(x ...T) {}":                          {"func(...T) {}"},
	"x.(T)":                                    {"a.(int)"},
	"struct{ x T }":                            {"struct{ T }"},
	"go x()":                                   {"go func() {}()"},
	"x, y := f()":                              {"a := f()"},
	"var x, y = f()":                           {"var a = f()"},
	"import x \"a/b\"":                         {"import \"a/b\""},
}

// IllTyped is a generated patch with the target file it is meant to hit.
type IllTyped struct {
	Patch  string
	Target string
	Shape  string // description for evidence classes
}

func pick(t *rapid.T, label string, xs []string) string {
	return xs[rapid.IntRange(0, len(xs)-1).Draw(t, label)]
}

func drawTemplate(t *rapid.T, label string) Template {
	switch rapid.IntRange(0, 9).Draw(t, label+"Kind") {
	case 0, 1, 2, 3:
		return Template{"expr", pick(t, label+"E", exprTemplates)}
	case 4, 5, 6, 7:
		return Template{"stmt", pick(t, label+"S", stmtTemplates)}
	default:
		return Template{"decl", pick(t, label+"D", declTemplates)}
	}
}

// instantiate replaces the placeholder names in a template by concrete code
// and elisions by concrete runs, giving code for the target file.
func instantiate(t *rapid.T, tpl string, fill map[string]string) string {
	out := tpl
	// Elisions first: replace each "..." by a drawn run appropriate for a
	// list; the exact syntactic fit is not important, an unparseable target
	// is discarded by the caller.
	for strings.Contains(out, "...") {
		i := strings.Index(out, "...")
		before := strings.TrimRight(out[:i], " \n")
		var run string
		n := rapid.IntRange(0, 2).Draw(t, "runLen")
		switch {
		case strings.HasSuffix(before, "(") || strings.HasSuffix(before, ","):
			parts := []string{}
			for k := 0; k < n; k++ {
				parts = append(parts, fmt.Sprintf("a%d", k))
			}
			run = strings.Join(parts, ", ")
			if run == "" {
				// remove a neighbouring comma
				rest := strings.TrimLeft(out[i+3:], " ")
				if strings.HasPrefix(rest, ",") {
					out = out[:i] + strings.TrimLeft(rest[1:], " ")
					continue
				}
				if strings.HasSuffix(before, ",") {
					out = before[:len(before)-1] + out[i+3:]
					continue
				}
			}
		case strings.HasSuffix(before, "for"):
			run = []string{"", "ok", "i := 0; i < 3; i++", "k, v := range m", "range ch"}[rapid.IntRange(0, 4).Draw(t, "forHdr")]
		case strings.HasSuffix(before, "return"):
			run = []string{"", "1", "1, 2"}[n]
			rest := strings.TrimLeft(out[i+3:], " ")
			if run == "" && strings.HasPrefix(rest, ",") {
				out = out[:i] + strings.TrimLeft(rest[1:], " ")
				continue
			}
		default:
			parts := []string{}
			for k := 0; k < n; k++ {
				parts = append(parts, fmt.Sprintf("s%d()", k))
			}
			run = strings.Join(parts, "; ")
		}
		out = out[:i] + run + out[i+3:]
	}
	return substituteNames(out, fill)
}

// substituteNames replaces whole-word occurrences of the keys.
func substituteNames(s string, fill map[string]string) string {
	var b strings.Builder
	i := 0
	for i < len(s) {
		c := s[i]
		if isIdentStart(c) {
			j := i + 1
			for j < len(s) && isIdentPart(s[j]) {
				j++
			}
			w := s[i:j]
			if r, ok := fill[w]; ok {
				b.WriteString(r)
			} else {
				b.WriteString(w)
			}
			i = j
			continue
		}
		b.WriteByte(c)
		i++
	}
	return b.String()
}

func isIdentStart(c byte) bool { return c == '_' || c >= 'a' && c <= 'z' || c >= 'A' && c <= 'Z' }
func isIdentPart(c byte) bool  { return isIdentStart(c) || c >= '0' && c <= '9' }

var concreteExprs = []string{"a", "b.c", "g()", "1", `"s"`, "p + q", "T{}", "func() {}", "*p", "a[0]", "a.b.c(1)", "(z)", "[]int{1}", "x1", "m[k]", "<-ch", "!ok", "v.(int)"}
var concreteIdents = []string{"a", "bb", "c1", "_", "Foo", "err", "ctx"}

// DrawIllTyped draws a patch and a target.
func DrawIllTyped(t *rapid.T) IllTyped {
	minus := drawTemplate(t, "minus")
	var plus Template
	switch rapid.IntRange(0, 5).Draw(t, "plusRel") {
	case 0, 1: // same kind, other template
		for tries := 0; ; tries++ {
			plus = drawTemplate(t, "plus")
			if plus.Kind == minus.Kind || tries > 6 {
				break
			}
		}
	case 2: // same template, small edit
		plus = Template{minus.Kind, strings.Replace(minus.Text, "foo", "bar", 1)}
		if plus.Text == minus.Text {
			plus.Text = "bar(" + minus.Text + ")"
		}
	default: // any kind
		plus = drawTemplate(t, "plus")
	}

	// Metavariable declarations: each placeholder is declared as identifier,
	// expression, or left undeclared.
	var meta []string
	kinds := map[string]string{}
	for _, m := range illMetas {
		switch rapid.IntRange(0, 4).Draw(t, "meta_"+m) {
		case 0, 1:
			kinds[m] = "expression"
		case 2, 3:
			kinds[m] = "identifier"
		}
		if k, ok := kinds[m]; ok {
			meta = append(meta, "var "+m+" "+k)
		}
	}

	prolog := pick(t, "prolog", prologTemplates)
	layout := rapid.IntRange(0, 5).Draw(t, "layout")

	var pb strings.Builder
	// A first change that damages what the prolog of the second one looks at:
	// the import path literal, the package name.
	if strings.Contains(prolog, "\"a/b\"") && rapid.IntRange(0, 4).Draw(t, "saboteur") == 0 {
		pb.WriteString(pick(t, "saboteurText", []string{
			"@@\n@@\n-\"a/b\"\n+1\n\n", "@@\n@@\n-\"a/b\"\n+x\n\n", "@@\n@@\n-\"a/b\"\n+\"a/b\" + \"c\"\n\n", "@@\n@@\n-\"a/b\"\n+foo()\n\n",
			"@@\n@@\n-\"a/b\"\n+`a/b`\n\n", "@@\n@@\n-\"a/b\"\n+\"\"\n\n", "@@\n@@\n-\"c/d\"\n+nil\n\n",
		}))
	}
	pb.WriteString("@@\n")
	for _, m := range meta {
		pb.WriteString(m + "\n")
	}
	pb.WriteString("@@\n")
	if prolog != "" {
		pfx := []string{" ", "-", "+"}[rapid.IntRange(0, 2).Draw(t, "prologPfx")]
		for _, l := range strings.Split(prolog, "\n") {
			pb.WriteString(pfx + l + "\n")
		}
		pb.WriteString("\n")
	}
	ml := strings.Split(minus.Text, "\n")
	pl := strings.Split(plus.Text, "\n")
	switch layout {
	case 0, 1, 2: // all minus, then all plus
		for _, l := range ml {
			pb.WriteString("-" + l + "\n")
		}
		for _, l := range pl {
			pb.WriteString("+" + l + "\n")
		}
	case 3: // plus first
		for _, l := range pl {
			pb.WriteString("+" + l + "\n")
		}
		for _, l := range ml {
			pb.WriteString("-" + l + "\n")
		}
	case 4: // shared lines as context (line diff, common prefix/suffix only)
		i := 0
		for i < len(ml) && i < len(pl) && ml[i] == pl[i] {
			pb.WriteString(" " + ml[i] + "\n")
			i++
		}
		j := 0
		for j < len(ml)-i && j < len(pl)-i && ml[len(ml)-1-j] == pl[len(pl)-1-j] {
			j++
		}
		for _, l := range ml[i : len(ml)-j] {
			pb.WriteString("-" + l + "\n")
		}
		for _, l := range pl[i : len(pl)-j] {
			pb.WriteString("+" + l + "\n")
		}
		for _, l := range ml[len(ml)-j:] {
			pb.WriteString(" " + l + "\n")
		}
	case 5: // unprefixed minus as context, plus lines appended
		for _, l := range ml {
			pb.WriteString(l + "\n")
		}
		for _, l := range pl {
			pb.WriteString("+" + l + "\n")
		}
	}

	// Target: instances of the minus template (and a few other templates)
	// with concrete fillers.
	fill := map[string]string{}
	for _, m := range illMetas {
		switch kinds[m] {
		case "expression":
			fill[m] = pick(t, "fillE_"+m, concreteExprs)
		case "identifier":
			fill[m] = pick(t, "fillI_"+m, concreteIdents)
		default:
			// undeclared: keep the literal name in the target so it can match
		}
	}
	var tb strings.Builder
	pkg := "foo"
	tb.WriteString("package " + pkg + "\n\n")
	if prolog != "" && strings.Contains(prolog, "import") {
		imp := prolog
		if i := strings.Index(imp, "import"); i >= 0 {
			imp = imp[i:]
		}
		imp = substituteNames(imp, fill)
		if rapid.IntRange(0, 3).Draw(t, "importDecor") == 0 {
			// the import section as real files have it: grouped with other
			// imports, blank lines, comments, and now and then a //line directive
			var specs []string
			for _, l := range strings.Split(imp, "\n") {
				l = strings.TrimSpace(l)
				l = strings.TrimPrefix(l, "import ")
				if l == "" || l == "(" || l == ")" || l == "import (" {
					continue
				}
				specs = append(specs, l)
			}
			decor := pick(t, "importDecorKind", []string{"//line x.go:1000\n", "// a comment\n", "\n", "//line x.go:1000\n\n\t// doc for the next import\n"})
			imp = "import (\n"
			for i, sp := range specs {
				imp += "\t" + sp + "\n"
				if i == 0 {
					imp += decor
				}
			}
			imp += "\t\"fmt\"\n)"
		}
		tb.WriteString(imp + "\n\n")
	}
	n := rapid.IntRange(1, 3).Draw(t, "nInst")
	for k := 0; k < n; k++ {
		tpl := minus
		if k > 0 && rapid.Bool().Draw(t, "otherTpl") {
			tpl = drawTemplate(t, "extra")
		}
		code := instantiate(t, tpl.Text, fill)
		if vs := absentVariants[tpl.Text]; len(vs) > 0 && rapid.IntRange(0, 2).Draw(t, "absent") == 0 {
			code = pick(t, "absentVariant", vs)
		}
		switch tpl.Kind {
		case "expr":
			where := rapid.IntRange(0, 3).Draw(t, "exprPos")
			switch where {
			case 0:
				fmt.Fprintf(&tb, "func h%d() {\n\t_ = %s\n}\n\n", k, code)
			case 1:
				fmt.Fprintf(&tb, "func h%d() {\n\tuse(1, %s)\n}\n\n", k, code)
			case 2:
				fmt.Fprintf(&tb, "var v%d = %s\n\n", k, code)
			default:
				fmt.Fprintf(&tb, "func h%d() {\n\t%s\n}\n\n", k, code)
			}
		case "stmt":
			fmt.Fprintf(&tb, "func h%d() {\n\tpre()\n\t%s\n\tpost()\n}\n\n", k, strings.ReplaceAll(code, "\n", "\n\t"))
		case "decl":
			tb.WriteString(code + "\n\n")
		}
	}
	return IllTyped{
		Patch:  pb.String(),
		Target: tb.String(),
		Shape:  fmt.Sprintf("%s->%s/layout%d", minus.Kind, plus.Kind, layout),
	}
}
