// Package gen holds the generators: Go fragments, patterns mined from real
// code, instances and near-misses, patch rendering, hosts.
package gen

import (
	"bytes"
	"fmt"
	"go/ast"
	"go/format"
	"go/parser"
	"go/printer"
	"go/token"
	"reflect"
)

var (
	commentGroupPtr = reflect.TypeOf((*ast.CommentGroup)(nil))
	objectPtr       = reflect.TypeOf((*ast.Object)(nil))
	scopePtr        = reflect.TypeOf((*ast.Scope)(nil))
	posType         = reflect.TypeOf(token.Pos(0))
	exprIface       = reflect.TypeOf((*ast.Expr)(nil)).Elem()
	stmtIface       = reflect.TypeOf((*ast.Stmt)(nil)).Elem()
	identPtr        = reflect.TypeOf((*ast.Ident)(nil))
	exprSlice       = reflect.TypeOf([]ast.Expr(nil))
	stmtSlice       = reflect.TypeOf([]ast.Stmt(nil))
	fieldSlice      = reflect.TypeOf([]*ast.Field(nil))
)

// Clone deep-copies an AST subtree. Comments, Ident.Obj and scopes are
// dropped. If keepPos is false every valid position becomes the constant 1
// and every invalid one stays invalid (so that token-bearing positions such
// as CallExpr.Ellipsis keep their meaning while layout information is gone).
func Clone(n ast.Node, keepPos bool) ast.Node {
	if n == nil {
		return nil
	}
	v := cloneValue(reflect.ValueOf(n), keepPos)
	return v.Interface().(ast.Node)
}

func cloneValue(v reflect.Value, keepPos bool) reflect.Value {
	switch v.Kind() {
	case reflect.Interface:
		if v.IsNil() {
			return reflect.Zero(v.Type())
		}
		c := cloneValue(v.Elem(), keepPos)
		out := reflect.New(v.Type()).Elem()
		out.Set(c)
		return out
	case reflect.Ptr:
		if v.IsNil() {
			return reflect.Zero(v.Type())
		}
		switch v.Type() {
		case commentGroupPtr, objectPtr, scopePtr:
			return reflect.Zero(v.Type())
		}
		if v.Elem().Kind() != reflect.Struct {
			out := reflect.New(v.Type().Elem())
			out.Elem().Set(v.Elem())
			return out
		}
		out := reflect.New(v.Type().Elem())
		st := v.Elem()
		for i := 0; i < st.NumField(); i++ {
			f := st.Type().Field(i)
			if !f.IsExported() {
				continue
			}
			if st.Type() == reflect.TypeOf(ast.File{}) {
				switch f.Name {
				case "Scope", "Imports", "Unresolved", "Comments":
					continue
				}
			}
			out.Elem().Field(i).Set(cloneValue(st.Field(i), keepPos))
		}
		return out
	case reflect.Slice:
		if v.IsNil() {
			return reflect.Zero(v.Type())
		}
		out := reflect.MakeSlice(v.Type(), v.Len(), v.Len())
		for i := 0; i < v.Len(); i++ {
			out.Index(i).Set(cloneValue(v.Index(i), keepPos))
		}
		return out
	default:
		if v.Type() == posType && !keepPos {
			if v.Interface().(token.Pos).IsValid() {
				return reflect.ValueOf(token.Pos(1))
			}
			return reflect.ValueOf(token.NoPos)
		}
		return v
	}
}

// Slot is a replaceable place in an AST: a struct field, or an element of a
// slice-typed struct field.
type Slot struct {
	Parent reflect.Value // addressable struct value
	PType  reflect.Type  // struct type
	Field  int
	Index  int // -1 when the field itself is the slot
	Depth  int
}

// Name is "CallExpr.Args" style.
func (s Slot) Name() string {
	return s.PType.Name() + "." + s.PType.Field(s.Field).Name
}

// Type is the static type of the slot.
func (s Slot) Type() reflect.Type {
	t := s.PType.Field(s.Field).Type
	if s.Index >= 0 {
		return t.Elem()
	}
	return t
}

// Get returns the current value.
func (s Slot) Get() reflect.Value {
	v := s.Parent.Field(s.Field)
	if s.Index >= 0 {
		return v.Index(s.Index)
	}
	return v
}

// Node returns the current value as an ast.Node (nil if none).
func (s Slot) Node() ast.Node {
	v := s.Get()
	if (v.Kind() == reflect.Interface || v.Kind() == reflect.Ptr) && v.IsNil() {
		return nil
	}
	n, _ := v.Interface().(ast.Node)
	return n
}

// Set stores a node.
func (s Slot) Set(n ast.Node) {
	v := s.Get()
	if n == nil {
		v.Set(reflect.Zero(v.Type()))
		return
	}
	v.Set(reflect.ValueOf(n))
}

// ListSlot is a slice-typed struct field.
type ListSlot struct {
	Parent reflect.Value
	PType  reflect.Type
	Field  int
	Depth  int
}

func (l ListSlot) Name() string           { return l.PType.Name() + "." + l.PType.Field(l.Field).Name }
func (l ListSlot) Value() reflect.Value   { return l.Parent.Field(l.Field) }
func (l ListSlot) ElemType() reflect.Type { return l.PType.Field(l.Field).Type.Elem() }

// WalkSlots visits every node slot and list slot below root (root's own
// fields included), pre-order. If visit returns false for a node slot the
// node stored there is not descended into.
func WalkSlots(root ast.Node, visit func(Slot) bool, visitList func(ListSlot)) {
	walkSlots(reflect.ValueOf(root), 0, visit, visitList)
}

func walkSlots(v reflect.Value, depth int, visit func(Slot) bool, visitList func(ListSlot)) {
	for v.Kind() == reflect.Interface || v.Kind() == reflect.Ptr {
		if v.IsNil() {
			return
		}
		v = v.Elem()
	}
	if v.Kind() != reflect.Struct {
		return
	}
	t := v.Type()
	for i := 0; i < t.NumField(); i++ {
		f := t.Field(i)
		if !f.IsExported() {
			continue
		}
		switch f.Type {
		case commentGroupPtr, objectPtr, scopePtr:
			continue
		}
		if t == reflect.TypeOf(ast.File{}) {
			switch f.Name {
			case "Scope", "Imports", "Unresolved", "Comments", "Doc":
				continue
			}
		}
		fv := v.Field(i)
		switch fv.Kind() {
		case reflect.Slice:
			if !isNodeType(f.Type.Elem()) {
				continue
			}
			if visitList != nil {
				visitList(ListSlot{Parent: v, PType: t, Field: i, Depth: depth})
			}
			for j := 0; j < fv.Len(); j++ {
				s := Slot{Parent: v, PType: t, Field: i, Index: j, Depth: depth}
				if visit == nil || visit(s) {
					walkSlots(fv.Index(j), depth+1, visit, visitList)
				}
			}
		case reflect.Interface, reflect.Ptr:
			if !isNodeType(f.Type) {
				continue
			}
			if fv.IsNil() {
				// nil slots are still reported: mutations may fill them.
				if visit != nil {
					visit(Slot{Parent: v, PType: t, Field: i, Index: -1, Depth: depth})
				}
				continue
			}
			s := Slot{Parent: v, PType: t, Field: i, Index: -1, Depth: depth}
			if visit == nil || visit(s) {
				walkSlots(fv, depth+1, visit, visitList)
			}
		}
	}
}

var nodeIface = reflect.TypeOf((*ast.Node)(nil)).Elem()

func isNodeType(t reflect.Type) bool {
	return t.Implements(nodeIface)
}

// Print renders a node with go/printer (gofmt style, no comments).
func Print(fset *token.FileSet, n any) (out string, err error) {
	defer func() {
		// go/printer panics on malformed trees (mutations can produce them).
		if p := recover(); p != nil {
			out, err = "", fmt.Errorf("printer panic: %v", p)
		}
	}()
	var buf bytes.Buffer
	cfg := printer.Config{Mode: printer.UseSpaces | printer.TabIndent, Tabwidth: 8}
	if fset == nil {
		fset = token.NewFileSet()
	}
	if err := cfg.Fprint(&buf, fset, n); err != nil {
		return "", err
	}
	return buf.String(), nil
}

// ParseFile parses Go source (with comments).
func ParseFile(src []byte) (*token.FileSet, *ast.File, error) {
	fset := token.NewFileSet()
	f, err := parser.ParseFile(fset, "host.go", src, parser.ParseComments|parser.SkipObjectResolution)
	return fset, f, err
}

// Gofmt formats source; it returns the input when formatting fails.
func Gofmt(src []byte) []byte {
	out, err := format.Source(src)
	if err != nil {
		return src
	}
	return out
}

// SameTree reports whether two AST subtrees are syntactically identical
// (positions by validity, comments ignored).
func SameTree(a, b ast.Node) bool {
	return sameValue(reflect.ValueOf(a), reflect.ValueOf(b))
}

func sameValue(a, b reflect.Value) bool {
	if a.Kind() == reflect.Interface || b.Kind() == reflect.Interface {
		if a.Kind() == reflect.Interface {
			if a.IsNil() {
				return b.Kind() == reflect.Interface && b.IsNil() || (b.Kind() == reflect.Ptr && b.IsNil())
			}
			a = a.Elem()
		}
		if b.Kind() == reflect.Interface {
			if b.IsNil() {
				return false
			}
			b = b.Elem()
		}
		return sameValue(a, b)
	}
	if a.Type() != b.Type() {
		return false
	}
	switch a.Kind() {
	case reflect.Ptr:
		switch a.Type() {
		case commentGroupPtr, objectPtr, scopePtr:
			return true
		}
		if a.IsNil() || b.IsNil() {
			return a.IsNil() == b.IsNil()
		}
		return sameValue(a.Elem(), b.Elem())
	case reflect.Struct:
		for i := 0; i < a.NumField(); i++ {
			if !a.Type().Field(i).IsExported() {
				continue
			}
			if !sameValue(a.Field(i), b.Field(i)) {
				return false
			}
		}
		return true
	case reflect.Slice:
		if a.Len() != b.Len() {
			return false
		}
		for i := 0; i < a.Len(); i++ {
			if !sameValue(a.Index(i), b.Index(i)) {
				return false
			}
		}
		return true
	default:
		if a.Type() == posType {
			return a.Interface().(token.Pos).IsValid() == b.Interface().(token.Pos).IsValid()
		}
		return a.Interface() == b.Interface()
	}
}
