package gen

import (
	"fmt"
	"go/ast"
	"go/parser"
	"go/token"
	"reflect"
	"sort"
	"strconv"
	"strings"

	"github.com/uber-go/gopatch/verif/ref"
	"pgregory.net/rapid"
)

// Fillers ------------------------------------------------------------------------

var fillerIdents = []string{"aa", "bb", "cc", "nn", "pq", "xs", "err2", "ctx2", "Val", "Typ"}

// patternNames holds, while an instance of a pattern is being built, the
// names of that pattern's metavariables. Code in a Go file may well contain
// identifiers spelled like a metavariable of the patch; there they are
// ordinary identifiers, so one filler identifier in six is drawn from them
// (a matcher that interprets captured code in the scope of the patch's
// metavariables is caught by this).
var patternNames []string

// DrawIdent draws an identifier filler.
func DrawIdent(t *rapid.T, label string) *ast.Ident {
	if len(patternNames) > 0 && rapid.IntRange(0, 5).Draw(t, label+"mv") == 0 {
		return &ast.Ident{Name: patternNames[rapid.IntRange(0, len(patternNames)-1).Draw(t, label+"mvn")]}
	}
	return &ast.Ident{Name: fillerIdents[rapid.IntRange(0, len(fillerIdents)-1).Draw(t, label)]}
}

// DrawValueExpr draws a small value expression.
func DrawValueExpr(t *rapid.T, label string, depth int) ast.Expr {
	max := 20
	if depth <= 0 {
		max = 3
	}
	switch rapid.IntRange(0, max).Draw(t, label) {
	case 0, 1:
		return DrawIdent(t, label+"i")
	case 2:
		return &ast.BasicLit{Kind: token.INT, Value: fmt.Sprint(rapid.IntRange(0, 9).Draw(t, label+"n"))}
	case 3:
		return &ast.BasicLit{Kind: token.STRING, Value: fmt.Sprintf("%q", fillerIdents[rapid.IntRange(0, 3).Draw(t, label+"s")])}
	case 4:
		return &ast.SelectorExpr{X: DrawValueExpr(t, label+"x", depth-1), Sel: DrawIdent(t, label+"sel")}
	case 5:
		n := rapid.IntRange(0, 2).Draw(t, label+"argc")
		c := &ast.CallExpr{Fun: DrawIdent(t, label+"f"), Lparen: 1, Rparen: 1}
		for i := 0; i < n; i++ {
			c.Args = append(c.Args, DrawValueExpr(t, fmt.Sprintf("%sa%d", label, i), depth-1))
		}
		if n > 0 && rapid.IntRange(0, 2).Draw(t, label+"variadic") == 0 {
			c.Args[n-1] = DrawIdent(t, label+"va")
			c.Ellipsis = 1
		}
		return c
	case 6:
		ops := []token.Token{token.ADD, token.SUB, token.MUL, token.EQL, token.LAND, token.LSS, token.OR, token.SHL}
		return &ast.BinaryExpr{X: DrawValueExpr(t, label+"l", depth-1), Op: ops[rapid.IntRange(0, len(ops)-1).Draw(t, label+"op")], Y: DrawValueExpr(t, label+"r", depth-1)}
	case 7:
		return &ast.IndexExpr{X: DrawIdent(t, label+"ix"), Index: DrawValueExpr(t, label+"ii", depth-1)}
	case 8:
		ops := []token.Token{token.SUB, token.NOT, token.AND, token.ARROW, token.XOR}
		return &ast.UnaryExpr{Op: ops[rapid.IntRange(0, len(ops)-1).Draw(t, label+"uop")], X: DrawValueExpr(t, label+"ux", depth-1)}
	case 9:
		return &ast.StarExpr{X: DrawIdent(t, label+"st")}
	case 10:
		return &ast.ParenExpr{X: DrawValueExpr(t, label+"p", depth-1)}
	case 11:
		cl := &ast.CompositeLit{Type: DrawIdent(t, label+"ct")}
		n := rapid.IntRange(0, 2).Draw(t, label+"eltc")
		for i := 0; i < n; i++ {
			cl.Elts = append(cl.Elts, DrawValueExpr(t, fmt.Sprintf("%se%d", label, i), depth-1))
		}
		return cl
	case 12:
		return &ast.FuncLit{Type: &ast.FuncType{Func: 1, Params: &ast.FieldList{Opening: 1, Closing: 1}}, Body: &ast.BlockStmt{Lbrace: 1, Rbrace: 1,
			List: []ast.Stmt{&ast.ExprStmt{X: &ast.CallExpr{Fun: DrawIdent(t, label+"fl"), Lparen: 1, Rparen: 1}}}}}
	case 13:
		return &ast.TypeAssertExpr{X: DrawIdent(t, label+"ta"), Type: DrawIdent(t, label+"tt"), Lparen: 1, Rparen: 1}
	case 14:
		// generic instantiation with several type arguments
		return &ast.IndexListExpr{X: DrawIdent(t, label+"gx"), Lbrack: 1, Rbrack: 1, Indices: []ast.Expr{DrawTypeExpr(t, label+"g0", 0), DrawTypeExpr(t, label+"g1", depth-1)}}
	case 15:
		se := &ast.SliceExpr{X: DrawIdent(t, label+"sx"), Lbrack: 1, Rbrack: 1}
		switch rapid.IntRange(0, 3).Draw(t, label+"sk") {
		case 0:
			se.Low = DrawValueExpr(t, label+"sl", 0)
		case 1:
			se.High = DrawValueExpr(t, label+"sh", 0)
		case 2:
			se.Low, se.High = DrawValueExpr(t, label+"sl", 0), DrawValueExpr(t, label+"sh", 0)
		default:
			se.High, se.Max, se.Slice3 = DrawValueExpr(t, label+"sh", 0), DrawValueExpr(t, label+"sm", 0), true
		}
		return se
	case 16:
		lits := []ast.BasicLit{{Kind: token.FLOAT, Value: "1.5"}, {Kind: token.CHAR, Value: "'c'"}, {Kind: token.IMAG, Value: "2i"}, {Kind: token.STRING, Value: "`raw`"}, {Kind: token.INT, Value: "0x1f"}}
		l := lits[rapid.IntRange(0, len(lits)-1).Draw(t, label+"lit")]
		return &l
	case 17:
		// keyed composite literal of a composite type
		var typ ast.Expr
		switch rapid.IntRange(0, 3).Draw(t, label+"ckt") {
		case 0:
			typ = &ast.ArrayType{Lbrack: 1, Elt: DrawIdent(t, label+"cke")}
		case 1:
			typ = &ast.MapType{Map: 1, Key: DrawIdent(t, label+"ckk"), Value: DrawIdent(t, label+"ckv")}
		case 2:
			typ = &ast.SelectorExpr{X: DrawIdent(t, label+"ckp"), Sel: DrawIdent(t, label+"cks")}
		default:
			typ = &ast.StructType{Struct: 1, Fields: &ast.FieldList{Opening: 1, Closing: 1}}
		}
		cl := &ast.CompositeLit{Type: typ, Lbrace: 1, Rbrace: 1}
		if _, isStruct := typ.(*ast.StructType); !isStruct {
			n := rapid.IntRange(0, 2).Draw(t, label+"ckn")
			for i := 0; i < n; i++ {
				cl.Elts = append(cl.Elts, &ast.KeyValueExpr{Key: DrawValueExpr(t, fmt.Sprintf("%skk%d", label, i), 0), Colon: 1, Value: DrawValueExpr(t, fmt.Sprintf("%skv%d", label, i), depth-1)})
			}
		}
		return cl
	case 18:
		// method call / conversion / call of a parenthesised or literal function
		var fun ast.Expr
		switch rapid.IntRange(0, 3).Draw(t, label+"cf") {
		case 0:
			fun = &ast.SelectorExpr{X: DrawValueExpr(t, label+"cfx", depth-1), Sel: DrawIdent(t, label+"cfs")}
		case 1:
			fun = &ast.ParenExpr{Lparen: 1, Rparen: 1, X: &ast.StarExpr{Star: 1, X: DrawIdent(t, label+"cfp")}}
		case 2:
			fun = &ast.ArrayType{Lbrack: 1, Elt: DrawIdent(t, label+"cfe")}
		default:
			fun = &ast.IndexExpr{X: DrawIdent(t, label+"cfg"), Lbrack: 1, Rbrack: 1, Index: DrawIdent(t, label+"cfi")}
		}
		return &ast.CallExpr{Fun: fun, Lparen: 1, Rparen: 1, Args: []ast.Expr{DrawValueExpr(t, label+"cfa", depth-1)}}
	case 19:
		return &ast.FuncLit{Type: &ast.FuncType{Func: 1, Params: &ast.FieldList{Opening: 1, Closing: 1, List: []*ast.Field{{Names: []*ast.Ident{DrawIdent(t, label+"fpn")}, Type: DrawTypeExpr(t, label+"fpt", 1)}}},
			Results: &ast.FieldList{List: []*ast.Field{{Type: DrawIdent(t, label+"frt")}}}},
			Body: &ast.BlockStmt{Lbrace: 1, Rbrace: 1, List: []ast.Stmt{&ast.ReturnStmt{Return: 1, Results: []ast.Expr{DrawValueExpr(t, label+"frv", depth-1)}}}}}
	default:
		return &ast.TypeAssertExpr{X: DrawValueExpr(t, label+"tax", depth-1), Type: DrawTypeExpr(t, label+"tat", 1), Lparen: 1, Rparen: 1}
	}
}

// DrawTypeExpr draws a small type expression.
func DrawTypeExpr(t *rapid.T, label string, depth int) ast.Expr {
	max := 6
	if depth <= 0 {
		max = 1
	}
	switch rapid.IntRange(0, max).Draw(t, label) {
	case 0:
		return DrawIdent(t, label+"i")
	case 1:
		return &ast.SelectorExpr{X: DrawIdent(t, label+"pk"), Sel: DrawIdent(t, label+"sel")}
	case 2:
		return &ast.StarExpr{X: DrawTypeExpr(t, label+"p", depth-1), Star: 1}
	case 3:
		return &ast.ArrayType{Lbrack: 1, Elt: DrawTypeExpr(t, label+"e", depth-1)}
	case 4:
		return &ast.MapType{Map: 1, Key: DrawIdent(t, label+"k"), Value: DrawTypeExpr(t, label+"v", depth-1)}
	case 5:
		dirs := []ast.ChanDir{ast.SEND | ast.RECV, ast.SEND, ast.RECV}
		d := dirs[rapid.IntRange(0, 2).Draw(t, label+"dir")]
		ct := &ast.ChanType{Begin: 1, Dir: d, Value: DrawIdent(t, label+"cv")}
		if d != ast.SEND|ast.RECV {
			ct.Arrow = 1
		}
		return ct
	default:
		return &ast.FuncType{Func: 1, Params: &ast.FieldList{Opening: 1, Closing: 1, List: []*ast.Field{{Type: DrawIdent(t, label+"fp")}}}}
	}
}

// Instantiation --------------------------------------------------------------------

// Instance is a concrete piece of code built from a pattern.
type Instance struct {
	Node    ast.Node            // PExpr: ast.Expr; PDecl: decl; PStmts: *ast.BlockStmt holding the run
	Fillers map[ast.Node]bool   // nodes that came from fillers or elided runs (not skeleton)
	Binding map[string]ast.Node // hole -> filler used
	Note    string
}

// Instantiate builds an instance of the minus pattern with drawn fillers.
func Instantiate(t *rapid.T, m *Mined, label string) *Instance {
	inst := &Instance{Fillers: map[ast.Node]bool{}, Binding: map[string]ast.Node{}}
	patternNames = m.SortedHoles()
	defer func() { patternNames = nil }()
	root := Clone(m.Minus, false)
	// holes
	for _, name := range m.SortedHoles() {
		var f ast.Node
		if m.Holes[name] == ref.IdentHole {
			f = DrawIdent(t, label+name)
		} else if typePosition(m.HoleAt[name]) {
			f = DrawTypeExpr(t, label+name, 2)
		} else if m.HoleAt[name] != "" && !valueSlot(m.HoleAt[name]) {
			f = DrawIdent(t, label+name)
		} else {
			f = DrawValueExpr(t, label+name, 2)
		}
		inst.Binding[name] = f
	}
	root = substitute(root, func(s Slot) (ast.Node, bool) {
		id, ok := s.Node().(*ast.Ident)
		if !ok {
			return nil, false
		}
		if f, isHole := inst.Binding[id.Name]; isHole {
			c := Clone(f, false)
			if s.Type() == identPtr {
				// only an identifier fits here
				if _, isIdent := c.(*ast.Ident); !isIdent {
					c = DrawIdent(t, label+"fit"+id.Name)
					inst.Binding[id.Name] = c
				}
			}
			inst.Fillers[c] = true
			return c, true
		}
		return nil, false
	})
	// elisions
	expandDots(t, m, root, inst, label)
	inst.Node = root
	return inst
}

// valueSlot: slots where an arbitrary value expression is syntactically fine.
func valueSlot(slot string) bool {
	switch slot {
	case "CallExpr.Args", "CallExpr.Fun", "BinaryExpr.X", "BinaryExpr.Y", "UnaryExpr.X", "ParenExpr.X", "IndexExpr.X", "IndexExpr.Index",
		"SliceExpr.X", "SliceExpr.Low", "SliceExpr.High", "SliceExpr.Max", "ReturnStmt.Results", "AssignStmt.Rhs", "IfStmt.Cond",
		"CompositeLit.Elts", "KeyValueExpr.Value", "KeyValueExpr.Key", "SelectorExpr.X", "SendStmt.Chan", "SendStmt.Value", "ExprStmt.X",
		"ValueSpec.Values", "SwitchStmt.Tag", "CaseClause.List", "RangeStmt.X", "ForStmt.Cond", "TypeAssertExpr.X", "IncDecStmt.X",
		"DeferStmt.Call", "GoStmt.Call", "StarExpr.X":
		return true
	}
	return false
}

// substitute replaces nodes below root (and root itself is never replaced).
func substitute(root ast.Node, f func(Slot) (ast.Node, bool)) ast.Node {
	WalkSlots(root, func(s Slot) bool {
		if s.Node() == nil {
			return true
		}
		if n, ok := f(s); ok {
			s.Set(n)
			return false
		}
		return true
	}, nil)
	return root
}

func expandDots(t *rapid.T, m *Mined, root ast.Node, inst *Instance, label string) {
	// for-elisions
	WalkSlots(root, func(s Slot) bool {
		fs, ok := s.Node().(*ast.ForStmt)
		if !ok {
			return true
		}
		id, ok := fs.Cond.(*ast.Ident)
		if !ok || !strings.HasPrefix(id.Name, ref.DotsPrefix) || fs.Init != nil || fs.Post != nil {
			return true
		}
		switch rapid.IntRange(0, 4).Draw(t, label+"forHdr"+id.Name) {
		case 0:
			fs.Cond = nil
		case 1:
			fs.Cond = DrawValueExpr(t, label+"forCond"+id.Name, 1)
			inst.Fillers[fs.Cond] = true
		case 2:
			fs.Init = &ast.AssignStmt{Lhs: []ast.Expr{&ast.Ident{Name: "ii"}}, Tok: token.DEFINE, Rhs: []ast.Expr{&ast.BasicLit{Kind: token.INT, Value: "0"}}}
			fs.Cond = &ast.BinaryExpr{X: &ast.Ident{Name: "ii"}, Op: token.LSS, Y: DrawIdent(t, label+"forN"+id.Name)}
			fs.Post = &ast.IncDecStmt{X: &ast.Ident{Name: "ii"}, Tok: token.INC}
		case 3:
			s.Set(&ast.RangeStmt{For: 1, Key: &ast.Ident{Name: "kk"}, Value: &ast.Ident{Name: "vv"}, Tok: token.DEFINE, TokPos: 1, Range: 1, X: DrawIdent(t, label+"forX"+id.Name), Body: fs.Body})
		default:
			s.Set(&ast.RangeStmt{For: 1, Range: 1, Tok: token.ILLEGAL, X: DrawIdent(t, label+"forX"+id.Name), Body: fs.Body})
		}
		return true
	}, nil)
	// list elisions (repeat until none is left: runs do not contain elisions)
	for guard := 0; guard < 20; guard++ {
		changed := false
		WalkSlots(root, nil, func(l ListSlot) {
			if changed {
				return
			}
			v := l.Value()
			for i := 0; i < v.Len(); i++ {
				n, _ := v.Index(i).Interface().(ast.Node)
				if !isDotsElem(n) {
					continue
				}
				id := dotsElemID(n)
				info := m.Dots[id]
				k := rapid.IntRange(0, 3).Draw(t, label+"run"+id)
				nv := reflect.MakeSlice(v.Type(), 0, v.Len()+k)
				nv = reflect.AppendSlice(nv, v.Slice(0, i))
				for j := 0; j < k; j++ {
					e := runElem(t, info, n, fmt.Sprintf("%s%s_%d", label, id, j), j)
					inst.Fillers[e] = true
					nv = reflect.Append(nv, reflect.ValueOf(e))
				}
				nv = reflect.AppendSlice(nv, v.Slice(i+1, v.Len()))
				v.Set(nv)
				changed = true
				return
			}
		})
		if !changed {
			break
		}
	}
}

func dotsElemID(n ast.Node) string {
	switch x := n.(type) {
	case *ast.Ident:
		return x.Name
	case *ast.ExprStmt:
		return dotsElemID(x.X)
	case *ast.Field:
		return dotsElemID(x.Type)
	}
	return ""
}

func runElem(t *rapid.T, info DotsInfo, placeholder ast.Node, label string, j int) ast.Node {
	switch info.Kind {
	case "expr":
		if info.Slot == "CompositeLit.Elts" {
			return DrawValueExpr(t, label, 0)
		}
		return DrawValueExpr(t, label, 1)
	case "stmt":
		switch rapid.IntRange(0, 3).Draw(t, label+"k") {
		case 0:
			return &ast.ExprStmt{X: &ast.CallExpr{Fun: DrawIdent(t, label+"f"), Lparen: 1, Rparen: 1}}
		case 1:
			return &ast.AssignStmt{Lhs: []ast.Expr{DrawIdent(t, label+"l")}, Tok: token.ASSIGN, TokPos: 1, Rhs: []ast.Expr{DrawValueExpr(t, label+"r", 1)}}
		case 2:
			return &ast.IfStmt{If: 1, Cond: DrawIdent(t, label+"c"), Body: &ast.BlockStmt{Lbrace: 1, Rbrace: 1, List: []ast.Stmt{
				&ast.ExprStmt{X: &ast.CallExpr{Fun: DrawIdent(t, label+"g"), Lparen: 1, Rparen: 1}}}}}
		default:
			return &ast.IncDecStmt{X: DrawIdent(t, label+"x"), Tok: token.INC, TokPos: 1}
		}
	case "param":
		f := placeholder.(*ast.Field)
		nf := &ast.Field{Type: DrawTypeExpr(t, label+"ty", 1)}
		if len(f.Names) > 0 {
			nf.Names = []*ast.Ident{{Name: fmt.Sprintf("p%s%d", sanitize(label), j)}}
		}
		return nf
	case "field":
		// struct field or interface method
		if info.Slot == "FieldList.List" && rapid.Bool().Draw(t, label+"emb") {
			return &ast.Field{Names: []*ast.Ident{{Name: fmt.Sprintf("F%s%d", sanitize(label), j)}}, Type: DrawTypeExpr(t, label+"ty", 1)}
		}
		return &ast.Field{Names: []*ast.Ident{{Name: fmt.Sprintf("M%s%d", sanitize(label), j)}}, Type: DrawIdent(t, label+"ft")}
	}
	return DrawIdent(t, label)
}

func sanitize(s string) string {
	var b strings.Builder
	for _, c := range s {
		if c >= 'a' && c <= 'z' || c >= 'A' && c <= 'Z' || c >= '0' && c <= '9' {
			b.WriteRune(c)
		}
	}
	return b.String()
}

// Mutation --------------------------------------------------------------------------

// Mutate changes exactly one skeleton cell of an instance (never inside a
// filler) and returns a tag naming the cell, or "" if nothing applicable was
// found.
func Mutate(t *rapid.T, m *Mined, inst *Instance, label string) string {
	type cell struct {
		tag   string
		apply func()
	}
	var cells []cell
	target := &cells
	skipFillers := true
	add := func(tag string, f func()) { *target = append(*target, cell{tag, f}) }

	var visit func(v reflect.Value, inFiller bool)
	visit = func(v reflect.Value, inFiller bool) {
		for v.Kind() == reflect.Interface || v.Kind() == reflect.Ptr {
			if v.IsNil() {
				return
			}
			if v.Kind() == reflect.Ptr {
				if n, ok := v.Interface().(ast.Node); ok && skipFillers && inst.Fillers[n] {
					return
				}
			}
			v = v.Elem()
		}
		if v.Kind() != reflect.Struct {
			return
		}
		tn := v.Type().Name()
		// the same children in another optional slot: s[i:] / s[:i],
		// for init; ; {} / for ; ; post {}
		switch tn {
		case "SliceExpr":
			lo, hi := v.FieldByName("Low"), v.FieldByName("High")
			if lo.IsNil() != hi.IsNil() && !v.FieldByName("Slice3").Bool() {
				add("SliceExpr.Low:shift", func() {
					l, h := reflect.ValueOf(lo.Interface()), reflect.ValueOf(hi.Interface())
					if lo.IsNil() {
						lo.Set(h)
						hi.Set(reflect.Zero(hi.Type()))
					} else {
						hi.Set(l)
						lo.Set(reflect.Zero(lo.Type()))
					}
				})
			}
		case "ForStmt":
			in, po := v.FieldByName("Init"), v.FieldByName("Post")
			if in.IsNil() != po.IsNil() {
				add("ForStmt.Init:shift", func() {
					if in.IsNil() {
						if _, isAssign := po.Interface().(*ast.AssignStmt); !isAssign || po.Interface().(*ast.AssignStmt).Tok != token.DEFINE {
							in.Set(reflect.ValueOf(po.Interface()))
							po.Set(reflect.Zero(po.Type()))
						}
					} else if a, isAssign := in.Interface().(*ast.AssignStmt); !isAssign || a.Tok != token.DEFINE {
						po.Set(reflect.ValueOf(in.Interface()))
						in.Set(reflect.Zero(in.Type()))
					}
				})
			}
		}
		for i := 0; i < v.NumField(); i++ {
			f := v.Type().Field(i)
			if !f.IsExported() {
				continue
			}
			fv := v.Field(i)
			tag := tn + "." + f.Name
			switch {
			case f.Type == posType:
				switch tag {
				case "CallExpr.Ellipsis":
					if v.FieldByName("Args").Len() > 0 {
						add(tag+":toggle", func() { togglePos(fv) })
					}
				case "TypeSpec.Assign":
					if tp := v.FieldByName("TypeParams"); tp.IsNil() {
						add(tag+":toggle", func() { togglePos(fv) })
					}
				case "GenDecl.Lparen":
					if v.FieldByName("Specs").Len() == 1 {
						rp := v.FieldByName("Rparen")
						add(tag+":toggle", func() { togglePos(fv); rp.Set(fv) })
					}
				}
			case f.Type == reflect.TypeOf(token.Token(0)):
				cur := fv.Interface().(token.Token)
				if alt, ok := altToken(tag, cur, i); ok {
					add(tag+":token", func() { fv.Set(reflect.ValueOf(alt)) })
				}
			case f.Type.Kind() == reflect.String:
				switch tag {
				case "Ident.Name":
					name := fv.String()
					if name != "_" && !strings.HasPrefix(name, ref.DotsPrefix) {
						add(tag+":rename", func() { fv.SetString(name + "Z") })
					}
				case "BasicLit.Value":
					val := fv.String()
					kind := v.FieldByName("Kind").Interface().(token.Token)
					switch kind {
					case token.INT:
						add(tag+":int", func() { fv.SetString(val + "7") })
						// the same number written another way: another token
						if n, err := strconv.ParseInt(val, 10, 64); err == nil && val == strconv.FormatInt(n, 10) {
							kf := v.FieldByName("Kind")
							add(tag+":same-number-as-float", func() { fv.SetString(val + ".0"); kf.Set(reflect.ValueOf(token.FLOAT)) })
							if n > 9 {
								add(tag+":same-number-in-hex", func() { fv.SetString(fmt.Sprintf("0x%x", n)) })
							}
						}
					case token.STRING:
						if strings.HasPrefix(val, "\"") {
							add(tag+":string", func() { fv.SetString("\"z" + val[1:]) })
						}
						// the same string in another spelling: another token
						if re := respell(val); re != "" {
							add(tag+":respell", func() { fv.SetString(re) })
						}
					case token.CHAR:
						add(tag+":char", func() { fv.SetString("'\\x7f'") })
					case token.FLOAT:
						add(tag+":float", func() { fv.SetString("9" + val) })
					}
				}
			case f.Type == reflect.TypeOf(ast.ChanDir(0)):
				cur := fv.Interface().(ast.ChanDir)
				arrow := v.FieldByName("Arrow")
				add(tag+":dir", func() {
					if cur == ast.SEND|ast.RECV {
						fv.Set(reflect.ValueOf(ast.SEND))
						arrow.Set(reflect.ValueOf(token.Pos(1)))
					} else {
						fv.Set(reflect.ValueOf(ast.SEND | ast.RECV))
						arrow.Set(reflect.ValueOf(token.NoPos))
					}
				})
			case fv.Kind() == reflect.Slice && isNodeType(f.Type.Elem()):
				n := fv.Len()
				fvc := fv
				if n > 0 && tag != "GenDecl.Specs" {
					add(tag+":delete", func() { removeAt(fvc, rapidIdx(t, label+tag+"del", n)) })
				}
				if n > 0 && tag != "File.Decls" {
					add(tag+":duplicate", func() {
						i := rapidIdx(t, label+tag+"dup", n)
						e := fvc.Index(i)
						if nd, ok := e.Interface().(ast.Node); ok {
							insertAt(fvc, i, reflect.ValueOf(Clone(nd, false)))
						}
					})
				}
				switch f.Type {
				case exprSlice:
					if tag == "CallExpr.Args" || tag == "CompositeLit.Elts" || tag == "ReturnStmt.Results" {
						add(tag+":insert", func() { insertAt(fvc, rapidIdx(t, label+tag+"ins", n+1), reflect.ValueOf(&ast.Ident{Name: "extraZ"})) })
					}
				case stmtSlice:
					add(tag+":insert", func() {
						insertAt(fvc, rapidIdx(t, label+tag+"ins", n+1), reflect.ValueOf(&ast.ExprStmt{X: &ast.CallExpr{Fun: &ast.Ident{Name: "extraZ"}, Lparen: 1, Rparen: 1}}))
					})
				}
				for j := 0; j < n; j++ {
					visit(fv.Index(j), inFiller)
				}
			case (fv.Kind() == reflect.Ptr || fv.Kind() == reflect.Interface) && isNodeType(f.Type):
				if f.Type == commentGroupPtr || f.Type == objectPtr {
					continue
				}
				if fv.IsNil() {
					if fill, ok := optionalFill(tag); ok {
						fvc := fv
						add(tag+":add", func() { fvc.Set(reflect.ValueOf(fill())) })
					}
					continue
				}
				if optionalSlot(tag) {
					fvc := fv
					if n, ok := fvc.Interface().(ast.Node); !ok || !inst.Fillers[n] {
						add(tag+":remove", func() { fvc.Set(reflect.Zero(fvc.Type())) })
					}
				}
				visit(fv, inFiller)
			case f.Type.Kind() == reflect.Bool:
				// Slice3, Incomplete, Implicit: not toggled (need cooperating fields)
			}
		}
	}
	visit(reflect.ValueOf(inst.Node), false)
	// metavariable-specific mutations
	var bound []string
	for name := range inst.Binding {
		bound = append(bound, name)
	}
	sort.Strings(bound) // draws happen inside the loop: keep their order a function of the seed
	for _, name := range bound {
		name, f := name, inst.Binding[name]
		occ := 0
		var occs []Slot
		WalkSlots(inst.Node, func(s Slot) bool {
			n := s.Node()
			if n != nil && inst.Fillers[n] && SameTree(n, f) {
				occ++
				occs = append(occs, s)
				return false
			}
			return true
		}, nil)
		if occ >= 2 {
			// One occurrence is made to differ from the others in exactly one
			// field (any field the generic mutator knows), or is parenthesised.
			s := occs[rapidIdx(t, label+"incons"+name, len(occs))]
			var inner []cell
			target, skipFillers = &inner, false
			visit(reflect.ValueOf(s.Node()), false)
			target, skipFillers = &cells, true
			for _, ic := range inner {
				ic := ic
				add("metavar:inconsistent/"+ic.tag, ic.apply)
			}
			if s.Type() == exprIface {
				add("metavar:inconsistent/paren", func() {
					s.Set(&ast.ParenExpr{X: s.Node().(ast.Expr), Lparen: 1, Rparen: 1})
				})
			}
		}
		if m.Holes[name] == ref.IdentHole && occ >= 1 {
			add("metavar:ident-kind", func() {
				for _, s := range occs {
					if s.Type() != exprIface {
						return // a non-identifier does not even parse there
					}
				}
				alts := []func() ast.Expr{
					func() ast.Expr { return &ast.SelectorExpr{X: &ast.Ident{Name: "pk"}, Sel: &ast.Ident{Name: "Sel"}} },
					func() ast.Expr { return &ast.ParenExpr{X: &ast.Ident{Name: "par"}, Lparen: 1, Rparen: 1} },
					func() ast.Expr { return &ast.CallExpr{Fun: &ast.Ident{Name: "fn"}, Lparen: 1, Rparen: 1} },
					func() ast.Expr { return &ast.BasicLit{Kind: token.INT, Value: "5"} },
					func() ast.Expr { return &ast.StarExpr{X: &ast.Ident{Name: "ptr"}, Star: 1} },
				}
				a := alts[rapidIdx(t, label+"identkind"+name, len(alts))]
				for _, s := range occs {
					s.Set(a())
				}
			})
		}
	}
	if len(cells) == 0 {
		return ""
	}
	sort.SliceStable(cells, func(i, j int) bool { return cells[i].tag < cells[j].tag })
	// Draw the cell class first (so rare classes get a fair share), then a
	// cell of that class.
	var classes []string
	byClass := map[string][]cell{}
	for _, c := range cells {
		if _, ok := byClass[c.tag]; !ok {
			classes = append(classes, c.tag)
		}
		byClass[c.tag] = append(byClass[c.tag], c)
	}
	cl := classes[rapid.IntRange(0, len(classes)-1).Draw(t, label+"mutClass")]
	cs := byClass[cl]
	c := cs[rapid.IntRange(0, len(cs)-1).Draw(t, label+"mutCell")]
	c.apply()
	return c.tag
}

// respell writes an interpreted string literal in another way that denotes
// the same string: its first character as an escape, or the whole as a raw
// string. It returns "" if neither is possible.
func respell(lit string) string {
	val, err := strconv.Unquote(lit)
	if err != nil || val == "" {
		return ""
	}
	if !strings.ContainsAny(val, "`\r") && !strings.ContainsAny(lit, "\\") && len(val)%2 == 0 {
		return "`" + val + "`"
	}
	if c := lit[1]; c != '\\' && c < 0x80 {
		return fmt.Sprintf("\"\\x%02x%s", c, lit[2:])
	}
	return ""
}

// rapidIdx cannot draw inside closures that run after the draw phase, so the
// index is derived deterministically from the label instead.
func rapidIdx(_ *rapid.T, label string, n int) int {
	if n <= 1 {
		return 0
	}
	h := 0
	for _, c := range label {
		h = h*31 + int(c)
	}
	if h < 0 {
		h = -h
	}
	return h % n
}

func togglePos(v reflect.Value) {
	if v.Interface().(token.Pos).IsValid() {
		v.Set(reflect.ValueOf(token.NoPos))
	} else {
		v.Set(reflect.ValueOf(token.Pos(1)))
	}
}

func altToken(tag string, cur token.Token, salt int) (token.Token, bool) {
	pick := func(set []token.Token) (token.Token, bool) {
		for i, t := range set {
			if t == cur {
				return set[(i+1)%len(set)], true
			}
		}
		return 0, false
	}
	switch tag {
	case "BinaryExpr.Op":
		return pick([]token.Token{token.ADD, token.SUB, token.MUL, token.QUO, token.REM, token.AND, token.OR, token.XOR, token.SHL, token.SHR,
			token.AND_NOT, token.LAND, token.LOR, token.EQL, token.NEQ, token.LSS, token.LEQ, token.GTR, token.GEQ})
	case "UnaryExpr.Op":
		return pick([]token.Token{token.SUB, token.ADD, token.NOT, token.XOR})
	case "AssignStmt.Tok":
		if cur == token.DEFINE {
			return token.ASSIGN, true
		}
		return pick([]token.Token{token.ASSIGN, token.ADD_ASSIGN, token.SUB_ASSIGN, token.MUL_ASSIGN, token.OR_ASSIGN})
	case "IncDecStmt.Tok":
		return pick([]token.Token{token.INC, token.DEC})
	case "BranchStmt.Tok":
		return pick([]token.Token{token.BREAK, token.CONTINUE})
	case "GenDecl.Tok":
		return pick([]token.Token{token.VAR, token.CONST})
	case "RangeStmt.Tok":
		return pick([]token.Token{token.DEFINE, token.ASSIGN})
	}
	return 0, false
}

func optionalSlot(tag string) bool {
	switch tag {
	case "IfStmt.Else", "IfStmt.Init", "ForStmt.Init", "ForStmt.Post", "ForStmt.Cond", "Field.Tag", "FuncType.Results",
		"ValueSpec.Type", "SliceExpr.Low", "SliceExpr.High", "SwitchStmt.Init", "SwitchStmt.Tag", "RangeStmt.Value", "FuncDecl.Recv", "BranchStmt.Label":
		return true
	}
	return false
}

func optionalFill(tag string) (func() ast.Node, bool) {
	switch tag {
	case "IfStmt.Else":
		return func() ast.Node { return &ast.BlockStmt{Lbrace: 1, Rbrace: 1} }, true
	case "IfStmt.Init", "SwitchStmt.Init":
		return func() ast.Node {
			return &ast.AssignStmt{Lhs: []ast.Expr{&ast.Ident{Name: "initZ"}}, Tok: token.DEFINE, TokPos: 1, Rhs: []ast.Expr{&ast.BasicLit{Kind: token.INT, Value: "1"}}}
		}, true
	case "Field.Tag":
		return func() ast.Node { return &ast.BasicLit{Kind: token.STRING, Value: "`tagZ`"} }, true
	case "SliceExpr.Low", "SliceExpr.High", "SwitchStmt.Tag":
		return func() ast.Node { return &ast.Ident{Name: "optZ"} }, true
	case "ValueSpec.Type":
		return func() ast.Node { return &ast.Ident{Name: "TypZ"} }, true
	case "BranchStmt.Label":
		return func() ast.Node { return &ast.Ident{Name: "LabZ"} }, true
	case "FuncType.TypeParams":
		// a generic function is not an instance of a pattern without type
		// parameters (for a func literal the result does not parse, and the
		// plant is dropped)
		return func() ast.Node {
			return &ast.FieldList{Opening: 1, Closing: 1, List: []*ast.Field{{Names: []*ast.Ident{{Name: "TZ"}}, Type: &ast.Ident{Name: "any"}}}}
		}, true
	case "FuncType.Results":
		return func() ast.Node {
			return &ast.FieldList{List: []*ast.Field{{Type: &ast.Ident{Name: "errorZ"}}}}
		}, true
	case "FuncDecl.Recv":
		return func() ast.Node {
			return &ast.FieldList{Opening: 1, Closing: 1, List: []*ast.Field{{Names: []*ast.Ident{{Name: "rz"}}, Type: &ast.Ident{Name: "RecvZ"}}}}
		}, true
	}
	return nil, false
}

// Planting ------------------------------------------------------------------------------

// Plant is a piece of text to insert into a host.
type Plant struct {
	Text string
	Kind ref.PKind
	Tag  string // "instance" or the mutation tag
}

// exprContexts are statement templates that put an expression at various
// syntactic positions.
var exprContexts = []string{
	"_ = %s", "sinkq(%s)", "sinkq(1, %s, 2)", "if condq(%s) {\n}", "_ = []any{%s}", "defer sinkq(%s)", "go sinkq(%s)",
	"switch {\ncase condq(%s):\n}", "_ = func() any { return %s }", "_ = map[string]any{\"k\": %s}", "for range rq(%s) {\n}",
	"var _ = %s", "_ = [...]any{1: %s}", "_ = otherq.meth(%s).fld", "sinkq(func() { _ = %s })", "_, _ = 1, %s", "chq <- (%s)",
	"_ = *%s", "_ = (*%s).fldq", "_ = -%s", "_ = &%s", "_ = %s.fldq", "_ = %s[0]", "_ = <-%s",
	"_ = %[1]s == %[1]s", "_ = map[any]any{%[1]s: %[1]s}", "_ = sinkq(%[1]s)[%[1]s]", "if %[1]s; %[1]s {\n}",
	"for %s = range rq(1) {\n}", "for _, %s = range rq(1) {\n}", "%s = 1", "%s, _ = 1, 2", "%s++", "%s += 1",
	"_ = !condq(%s)", "switch x := anyq(%s).(type) {\ncase int:\n\t_ = x\n}", "LabQ:\n\tfor {\n\t\tsinkq(%s)\n\t\tbreak LabQ\n\t}",
}

var stmtContexts = []string{
	"%s", "%s", "%s", "if condq() {\n%[1]s\n} else {\n%[1]s\n}", "if condq() {\n%[1]s\n} else if condq() {\n%[1]s\n}", "if condq() {\n%s\n}", "for {\n%s\n}", "switch {\ncase condq():\n%s\n}", "select {\ndefault:\n%s\n}",
	"func() {\n%s\n}()", "{\n%s\n}", "if condq() {\n} else {\n%s\n}", "switch x := anyq().(type) {\ncase int:\n\t_ = x\n%s\n}",
	"go func() {\n%s\n}()", "for i := range rq() {\n\t_ = i\n%s\n}", "select {\ncase <-chq:\n%s\n}", "defer func() {\n%s\n}()",
}

// PlantText renders an instance (or mutant) as text ready for insertion at
// statement level (PExpr, PStmts) or declaration level (PDecl).
func PlantText(t *rapid.T, kind ref.PKind, n ast.Node, label string) (string, string, error) {
	switch kind {
	case ref.PExpr:
		txt, err := Print(nil, n)
		if err != nil {
			return "", "", err
		}
		ctxs := exprContexts
		if _, isCall := n.(*ast.CallExpr); isCall {
			// positions only a call may occupy: the slot's static type is *ast.CallExpr
			ctxs = append(append([]string{}, exprContexts...), "defer %s", "go %s", "%s", "defer %s", "go %s")
		}
		i := rapid.IntRange(0, len(ctxs)-1).Draw(t, label+"ectx")
		ctx := ctxs[i]
		if strings.HasPrefix(ctx, "%") {
			return fmt.Sprintf(ctx, txt), "ectx:stmt", nil
		}
		return fmt.Sprintf(ctx, txt), "ectx:" + strings.SplitN(ctx, "%", 2)[0], nil
	case ref.PStmts:
		var parts []string
		for _, s := range n.(*ast.BlockStmt).List {
			txt, err := Print(nil, s)
			if err != nil {
				return "", "", err
			}
			parts = append(parts, txt)
		}
		i := rapid.IntRange(0, len(stmtContexts)-1).Draw(t, label+"sctx")
		ctx := stmtContexts[i]
		return fmt.Sprintf(ctx, strings.Join(parts, "\n")), "sctx:" + strings.SplitN(ctx, "%", 2)[0], nil
	default:
		txt, err := Print(nil, n)
		return txt, "decl", err
	}
}

// InsertionPoints lists byte offsets of a host at which statement text
// (stmt) or declaration text (decl) can be inserted on a line of its own.
type InsertionPoints struct {
	Stmt []int
	Decl []int
}

// FindInsertionPoints parses src and collects insertion points.
func FindInsertionPoints(src []byte) (*InsertionPoints, error) {
	fset := token.NewFileSet()
	f, err := parser.ParseFile(fset, "host.go", src, parser.ParseComments|parser.SkipObjectResolution)
	if err != nil {
		return nil, err
	}
	tf := fset.File(f.Pos())
	ip := &InsertionPoints{}
	lineStart := func(p token.Pos) int {
		return tf.Offset(tf.LineStart(tf.PositionFor(p, false).Line))
	}
	ast.Inspect(f, func(n ast.Node) bool {
		var list []ast.Stmt
		var open token.Pos
		switch x := n.(type) {
		case *ast.BlockStmt:
			list, open = x.List, x.Lbrace
		case *ast.CaseClause:
			list, open = x.Body, x.Colon
		case *ast.CommClause:
			list, open = x.Body, x.Colon
		default:
			return true
		}
		for _, s := range list {
			// only statements that start their line
			ls := lineStart(s.Pos())
			if strings.TrimSpace(string(src[ls:tf.Offset(s.Pos())])) == "" {
				ip.Stmt = append(ip.Stmt, ls)
			}
		}
		if len(list) == 0 && open.IsValid() {
			// "{" or ":" at end of line followed by the closer on a later line
			off := tf.Offset(open) + 1
			if off < len(src) && src[off] == '\n' {
				ip.Stmt = append(ip.Stmt, off+1)
			}
		}
		return true
	})
	for _, d := range f.Decls {
		if gd, ok := d.(*ast.GenDecl); ok && gd.Tok == token.IMPORT {
			continue
		}
		p := d.Pos()
		switch x := d.(type) {
		case *ast.FuncDecl:
			if x.Doc != nil {
				p = x.Doc.Pos()
			}
		case *ast.GenDecl:
			if x.Doc != nil {
				p = x.Doc.Pos()
			}
		}
		ls := lineStart(p)
		if strings.TrimSpace(string(src[ls:tf.Offset(p)])) == "" {
			ip.Decl = append(ip.Decl, ls)
		}
	}
	ip.Decl = append(ip.Decl, len(src))
	sort.Ints(ip.Stmt)
	sort.Ints(ip.Decl)
	return ip, nil
}

// InsertAll inserts texts at offsets (each text becomes its own lines).
func InsertAll(src []byte, at []int, texts []string) []byte {
	type ins struct {
		at   int
		text string
		ord  int
	}
	var all []ins
	for i := range at {
		all = append(all, ins{at[i], texts[i], i})
	}
	sort.SliceStable(all, func(i, j int) bool { return all[i].at < all[j].at })
	var out []byte
	last := 0
	for _, in := range all {
		out = append(out, src[last:in.at]...)
		if len(out) > 0 && out[len(out)-1] != '\n' {
			out = append(out, '\n')
		}
		out = append(out, in.text...)
		out = append(out, '\n')
		last = in.at
	}
	out = append(out, src[last:]...)
	return out
}
