package gen

import (
	"fmt"
	"go/ast"
	"go/token"
	"reflect"
	"sort"
	"strings"

	"github.com/uber-go/gopatch/verif/ref"
	"pgregory.net/rapid"
)

// Marker prefix: identifiers and literals introduced by the plus side that
// occur nowhere in any host, so a rewritten place is recognisable.
const Marker = "mkq"

// HolePrefix is the prefix of generated metavariable names.
const HolePrefix = "hv"

// Mined is a pattern generalised from a piece of real code.
type Mined struct {
	Kind   ref.PKind
	Holes  map[string]ref.HoleKind
	Minus  ast.Node // pattern AST with hole identifiers and DOTS__n placeholders (for PStmts: *ast.BlockStmt holding the run)
	Plus   ast.Node // same shape for the plus side
	Fset   *token.FileSet
	Dots   map[string]DotsInfo // by placeholder id
	Edits  []string            // what the plus side changes
	HoleAt map[string]string   // hole -> slot name of first occurrence
	Opts   MineOpts
	// NoMarker: the plus side deliberately carries no marker identifier (see MineOpts.Unwrap).
	NoMarker bool
}

// DotsInfo describes an elision placeholder.
type DotsInfo struct {
	Kind string // "expr", "stmt", "param", "field", "for"
	Slot string // e.g. "CallExpr.Args"
}

// MineOpts steers generalisation.
type MineOpts struct {
	MaxHoles   int
	MaxDots    int
	RepeatBias bool // prefer repeated holes (C02)
	NoDots     bool // C03
	DotsBias   bool // C04
	DupBias    bool // C03: plus sides that use a metavariable several times
	Unwrap     bool // C03: sometimes the plus side is a bare metavariable of the minus side ("-traced(x)" / "+x"); such a plus side carries no marker
}

// Candidate roots ------------------------------------------------------------

// Root is a piece of a host file that can become a pattern.
type Root struct {
	Kind  ref.PKind
	Node  ast.Node   // PExpr: ast.Expr; PDecl: *ast.FuncDecl / *ast.GenDecl
	Stmts []ast.Stmt // PStmts
	Lines int
	Slot  string
}

func nodeLines(fset *token.FileSet, n ast.Node) int {
	if n == nil || !n.Pos().IsValid() {
		return 1
	}
	return fset.PositionFor(n.End(), false).Line - fset.PositionFor(n.Pos(), false).Line + 1
}

// Roots lists pattern roots of a parsed file.
func Roots(fset *token.FileSet, f *ast.File) []Root {
	var roots []Root
	WalkSlots(f, func(s Slot) bool {
		n := s.Node()
		if n == nil {
			return true
		}
		switch x := n.(type) {
		case *ast.GenDecl:
			if x.Tok == token.IMPORT {
				return false
			}
			if nodeLines(fset, x) <= 25 {
				roots = append(roots, Root{Kind: ref.PDecl, Node: x, Lines: nodeLines(fset, x), Slot: s.Name()})
			}
		case *ast.FuncDecl:
			if nodeLines(fset, x) <= 60 {
				roots = append(roots, Root{Kind: ref.PDecl, Node: x, Lines: nodeLines(fset, x), Slot: s.Name()})
			}
		case ast.Expr:
			if !s.Type().Implements(exprIface) || s.Type() == identPtr {
				return true // only places whose static type is ast.Expr
			}
			switch x.(type) {
			case *ast.Ident, *ast.BasicLit, *ast.ArrayType, *ast.MapType, *ast.ChanType, *ast.FuncType,
				*ast.StructType, *ast.InterfaceType, *ast.Ellipsis, *ast.KeyValueExpr, *ast.BadExpr:
				return true
			case *ast.StarExpr, *ast.ParenExpr:
				return true // "*T" / "(x)" alone are poor statement-position patterns
			case *ast.FuncLit:
				return true // starts with "func": read as a declaration by the patch grammar
			case *ast.TypeAssertExpr:
				if x.(*ast.TypeAssertExpr).Type == nil {
					return true // x.(type) is not an expression on its own
				}
			}
			if l := nodeLines(fset, x); l <= 12 {
				roots = append(roots, Root{Kind: ref.PExpr, Node: x, Lines: l, Slot: s.Name()})
			}
		}
		return true
	}, func(l ListSlot) {
		if l.ElemType() != stmtIface {
			return
		}
		v := l.Value()
		n := v.Len()
		for i := 0; i < n; i++ {
			for k := 1; k <= 3 && i+k <= n; k++ {
				run := make([]ast.Stmt, k)
				lines := 0
				ok := true
				for j := 0; j < k; j++ {
					run[j] = v.Index(i + j).Interface().(ast.Stmt)
					lines += nodeLines(fset, run[j])
					switch run[j].(type) {
					case *ast.EmptyStmt, *ast.BadStmt:
						ok = false
					}
				}
				if !ok || lines > 30 {
					continue
				}
				if k == 1 {
					if _, isExpr := run[0].(*ast.ExprStmt); isExpr {
						continue // a single expression statement is an expression pattern; covered above
					}
				}
				roots = append(roots, Root{Kind: ref.PStmts, Stmts: run, Lines: lines, Slot: l.Name()})
			}
		}
	})
	return roots
}

// Generalisation ----------------------------------------------------------------

// holeable reports whether the node in slot s may be replaced by a
// metavariable.
func holeable(s Slot) bool {
	n := s.Node()
	if n == nil {
		return false
	}
	st := s.Type()
	if st != identPtr && st != exprIface {
		return false
	}
	switch x := n.(type) {
	case *ast.KeyValueExpr, *ast.Ellipsis, *ast.BadExpr:
		return false
	case *ast.Ident:
		if x.Name == "_" || strings.HasPrefix(x.Name, ref.DotsPrefix) || strings.HasPrefix(x.Name, HolePrefix) {
			return false
		}
	case *ast.FuncLit:
		return false // a hole where a func literal stood is fine, but keeps patterns small; handled by dots in the body instead
	}
	switch s.Name() {
	case "ImportSpec.Name", "ImportSpec.Path", "File.Name", "LabeledStmt.Label", "BranchStmt.Label":
		return false
	case "TypeAssertExpr.Type":
		return n != nil
	}
	return true
}

// typePosition says whether a slot holds a type rather than a value.
func typePosition(slot string) bool {
	switch slot {
	case "Field.Type", "ValueSpec.Type", "TypeSpec.Type", "ArrayType.Elt", "MapType.Key", "MapType.Value",
		"CompositeLit.Type", "TypeAssertExpr.Type", "ChanType.Value", "Ellipsis.Elt", "StarExpr.X",
		"ArrayType.Len", "FuncLit.Type":
		return true
	}
	return false
}

type dotsCtr struct{ n int }

func (d *dotsCtr) next() string { d.n++; return fmt.Sprintf("%s%d", ref.DotsPrefix, d.n) }

// Mine generalises a root into a pattern.
func Mine(t *rapid.T, fset *token.FileSet, root Root, opts MineOpts) *Mined {
	m := &Mined{Kind: root.Kind, Holes: map[string]ref.HoleKind{}, Fset: fset, Dots: map[string]DotsInfo{}, HoleAt: map[string]string{}, Opts: opts}
	switch root.Kind {
	case ref.PStmts:
		blk := &ast.BlockStmt{}
		for _, s := range root.Stmts {
			blk.List = append(blk.List, Clone(s, true).(ast.Stmt))
		}
		m.Minus = blk
	default:
		m.Minus = Clone(root.Node, true)
	}

	ctr := &dotsCtr{}
	// 1. elisions
	if !opts.NoDots && opts.MaxDots > 0 {
		m.addDots(t, ctr)
	}
	// Large bodies: elide the body of func literals / declarations to keep
	// the pattern small.
	// 2. metavariables
	m.addHoles(t)
	// 3. plus side
	m.Plus = Clone(m.Minus, true)
	m.derivePlus(t)
	return m
}

func (m *Mined) addDots(t *rapid.T, ctr *dotsCtr) {
	type cand struct {
		l    ListSlot
		kind string
	}
	var cands []cand
	var forCands []Slot
	WalkSlots(m.Minus, func(s Slot) bool {
		switch s.Node().(type) {
		case *ast.ForStmt, *ast.RangeStmt:
			if s.Type() == stmtIface {
				forCands = append(forCands, s)
			}
		}
		return true
	}, func(l ListSlot) {
		switch l.ElemType() {
		case exprIface:
			switch l.Name() {
			case "CallExpr.Args", "CompositeLit.Elts", "ReturnStmt.Results":
				cands = append(cands, cand{l, "expr"})
			}
		case stmtIface:
			// The top-level run of a statement pattern is wrapped in implicit
			// elisions already; inner lists are candidates.
			if m.Kind == ref.PStmts && l.Depth == 0 {
				if l.Value().Len() >= 2 {
					cands = append(cands, cand{l, "stmt"})
				}
				return
			}
			cands = append(cands, cand{l, "stmt"})
		case reflect.TypeOf((*ast.Field)(nil)):
			cands = append(cands, cand{l, "field"})
		}
	})
	if len(cands) == 0 && len(forCands) == 0 {
		return
	}
	want := rapid.IntRange(0, m.Opts.MaxDots).Draw(t, "nDots")
	if m.Opts.DotsBias && want == 0 {
		want = 1
	}
	used := map[int]bool{}
	for d := 0; d < want; d++ {
		if len(forCands) > 0 && rapid.IntRange(0, 5).Draw(t, "forDots") == 0 {
			s := forCands[rapid.IntRange(0, len(forCands)-1).Draw(t, "forIdx")]
			if s.Index >= 0 && s.Index >= s.Parent.Field(s.Field).Len() {
				continue // the list was shortened by an earlier elision
			}
			var body *ast.BlockStmt
			switch x := s.Node().(type) {
			case *ast.ForStmt:
				if id, ok := x.Cond.(*ast.Ident); ok && strings.HasPrefix(id.Name, ref.DotsPrefix) {
					continue
				}
				body = x.Body
			case *ast.RangeStmt:
				body = x.Body
			default:
				continue
			}
			id := ctr.next()
			m.Dots[id] = DotsInfo{Kind: "for", Slot: "ForStmt"}
			s.Set(&ast.ForStmt{For: s.Node().Pos(), Cond: &ast.Ident{Name: id}, Body: body})
			continue
		}
		if len(cands) == 0 {
			break
		}
		ci := rapid.IntRange(0, len(cands)-1).Draw(t, "dotsList")
		c := cands[ci]
		v := c.l.Value()
		n := v.Len()
		// Field lists: FieldList.List of parameters/results/receivers
		// (parentheses) or struct fields / interface methods (braces).
		kind := c.kind
		if kind == "field" {
			kind = m.fieldListKind(c.l)
			if kind == "" {
				continue
			}
		}
		// choose a run [i, j) to elide
		i := rapid.IntRange(0, n).Draw(t, "runStart")
		maxLen := n - i
		if maxLen > 3 && !m.Opts.DotsBias {
			maxLen = 3
		}
		k := rapid.IntRange(0, maxLen).Draw(t, "runLen")
		if used[ci] {
			// second elision in the same list: keep at least one explicit
			// element between two elisions so that runs are determined.
			if !hasExplicitNeighbour(v, i, k) {
				continue
			}
		}
		id := ctr.next()
		var elem reflect.Value
		switch kind {
		case "expr":
			elem = reflect.ValueOf(&ast.Ident{Name: id})
		case "stmt":
			elem = reflect.ValueOf(&ast.ExprStmt{X: &ast.Ident{Name: id}})
		case "param":
			f := &ast.Field{Type: &ast.Ident{Name: id}}
			if fieldsNamed(v, i, i+k) {
				f.Names = []*ast.Ident{{Name: "_"}}
			}
			elem = reflect.ValueOf(f)
		case "field":
			elem = reflect.ValueOf(&ast.Field{Type: &ast.Ident{Name: id}})
		}
		nv := reflect.MakeSlice(v.Type(), 0, n-k+1)
		nv = reflect.AppendSlice(nv, v.Slice(0, i))
		nv = reflect.Append(nv, elem)
		nv = reflect.AppendSlice(nv, v.Slice(i+k, n))
		v.Set(nv)
		m.Dots[id] = DotsInfo{Kind: kind, Slot: c.l.Name()}
		used[ci] = true
	}
}

func hasExplicitNeighbour(v reflect.Value, i, k int) bool {
	isDots := func(j int) bool {
		if j < 0 || j >= v.Len() {
			return false
		}
		n, _ := v.Index(j).Interface().(ast.Node)
		return isDotsElem(n)
	}
	// the new elision replaces [i, i+k); its neighbours are i-1 and i+k
	return !isDots(i-1) && !isDots(i+k)
}

func isDotsElem(n ast.Node) bool {
	switch x := n.(type) {
	case *ast.Ident:
		return strings.HasPrefix(x.Name, ref.DotsPrefix)
	case *ast.ExprStmt:
		return isDotsElem(x.X)
	case *ast.Field:
		if x.Type == nil {
			return false
		}
		return isDotsElem(x.Type)
	}
	return false
}

// fieldsNamed reports whether any field of the list outside [i, j) has names.
func fieldsNamed(v reflect.Value, i, j int) bool {
	for k := 0; k < v.Len(); k++ {
		if k >= i && k < j {
			continue
		}
		f := v.Index(k).Interface().(*ast.Field)
		if isDotsElem(f) {
			if len(f.Names) > 0 {
				return true
			}
			continue
		}
		if len(f.Names) > 0 {
			return true
		}
	}
	return false
}

// fieldListKind decides whether a FieldList.List belongs to a parenthesised
// list (parameters, results, receiver) or to a struct / interface body, by
// looking at how the list is used in the pattern.
func (m *Mined) fieldListKind(l ListSlot) string {
	target := l.Parent.Addr().Interface() // *ast.FieldList
	kind := ""
	ast.Inspect(m.Minus, func(n ast.Node) bool {
		switch x := n.(type) {
		case *ast.FuncType:
			if x.Params == target || x.Results == target {
				kind = "param"
			}
		case *ast.FuncDecl:
			if x.Recv == target {
				kind = "param"
			}
		case *ast.StructType:
			if x.Fields == target {
				kind = "field"
			}
		case *ast.InterfaceType:
			if x.Methods == target {
				kind = "field"
			}
		}
		return kind == ""
	})
	return kind
}

func (m *Mined) addHoles(t *rapid.T) {
	type cand struct {
		s Slot
	}
	var cands []Slot
	WalkSlots(m.Minus, func(s Slot) bool {
		if holeable(s) {
			cands = append(cands, s)
		}
		return true
	}, nil)
	if len(cands) == 0 {
		return
	}
	want := rapid.IntRange(0, m.Opts.MaxHoles).Draw(t, "nHoles")
	if m.Opts.RepeatBias && want == 0 {
		want = 1
	}
	type made struct {
		name string
		orig ast.Node
	}
	var holes []made
	replaced := map[ast.Node]bool{}
	inReplaced := func(s Slot) bool {
		// a slot whose node lies inside an already replaced subtree is gone
		n := s.Node()
		for r := range replaced {
			found := false
			ast.Inspect(r, func(x ast.Node) bool {
				if x == n {
					found = true
				}
				return !found
			})
			if found {
				return true
			}
		}
		return false
	}
	for h := 0; h < want; h++ {
		idx := rapid.IntRange(0, len(cands)-1).Draw(t, "holeSlot")
		s := cands[idx]
		n := s.Node()
		if n == nil || inReplaced(s) {
			continue
		}
		if id, ok := n.(*ast.Ident); ok && strings.HasPrefix(id.Name, HolePrefix) {
			continue
		}
		// root of an expression pattern cannot be a bare hole (checked by caller through slots: the root is not a slot)
		name := ""
		for _, mh := range holes {
			if SameTree(mh.orig, n) && rapid.IntRange(0, 9).Draw(t, "reuseHole") < 7 {
				name = mh.name
				break
			}
		}
		if name == "" {
			name = fmt.Sprintf("%s%d", HolePrefix, len(m.Holes)+1)
			kind := ref.ExprHole
			if _, isIdent := n.(*ast.Ident); isIdent {
				if rapid.IntRange(0, 9).Draw(t, "identKind") < 7 {
					kind = ref.IdentHole
				}
			}
			m.Holes[name] = kind
			m.HoleAt[name] = s.Name()
			holes = append(holes, made{name, n})
		}
		replaced[n] = true
		s.Set(&ast.Ident{NamePos: n.Pos(), Name: name})
		// Other occurrences of the same code: make them the same hole
		// (repetition), sometimes.
		if m.Opts.RepeatBias || rapid.IntRange(0, 2).Draw(t, "repeat") == 0 {
			for _, o := range cands {
				on := o.Node()
				if on == nil || on == n || replaced[on] || inReplaced(o) {
					continue
				}
				if o.Type() != identPtr && o.Type() != exprIface {
					continue
				}
				if SameTree(on, n) && (m.Holes[name] == ref.ExprHole || o.Type() == identPtr || isIdentNode(on)) {
					replaced[on] = true
					o.Set(&ast.Ident{NamePos: on.Pos(), Name: name})
				}
			}
		}
	}
	// C02: force a repetition by making a second, different sub-expression
	// the same hole (the original code is then usually a near-miss).
	if m.Opts.RepeatBias && len(holes) > 0 && rapid.IntRange(0, 2).Draw(t, "forceRepeat") == 0 {
		h := holes[0]
		var others []Slot
		for _, o := range cands {
			on := o.Node()
			if on == nil || replaced[on] || inReplaced(o) {
				continue
			}
			if id, ok := on.(*ast.Ident); ok && strings.HasPrefix(id.Name, HolePrefix) {
				continue
			}
			if m.Holes[h.name] == ref.IdentHole && !isIdentNode(on) {
				continue
			}
			others = append(others, o)
		}
		if len(others) > 0 {
			o := others[rapid.IntRange(0, len(others)-1).Draw(t, "forcedSlot")]
			replaced[o.Node()] = true
			o.Set(&ast.Ident{NamePos: o.Node().Pos(), Name: h.name})
		}
	}
}

func isIdentNode(n ast.Node) bool {
	_, ok := n.(*ast.Ident)
	return ok
}

// Plus-side derivation -------------------------------------------------------------

func (m *Mined) derivePlus(t *rapid.T) {
	nEdits := rapid.IntRange(1, 2).Draw(t, "nEdits")
	marked := false
	for e := 0; e < nEdits+3 && (e < nEdits || !marked); e++ {
		name, mk := m.editOnce(t, e >= nEdits)
		if name != "" {
			m.Edits = append(m.Edits, name)
			marked = marked || mk
		}
	}
	// A later edit may have removed what an earlier one marked.
	has := false
	ast.Inspect(m.Plus, func(n ast.Node) bool {
		switch x := n.(type) {
		case *ast.Ident:
			if strings.HasPrefix(x.Name, Marker) {
				has = true
			}
		case *ast.BasicLit:
			if strings.Contains(x.Value, Marker) {
				has = true
			}
		}
		return !has
	})
	if m.NoMarker {
		return
	}
	if !marked || !has {
		// Guaranteed fallback: wrap / prepend something carrying the marker.
		m.forceMarker()
		m.Edits = append(m.Edits, "force-marker")
	}
}

func markerIdent(i int) *ast.Ident { return &ast.Ident{Name: fmt.Sprintf("%s%d", Marker, i)} }

func (m *Mined) forceMarker() {
	switch m.Kind {
	case ref.PExpr:
		m.Plus = &ast.CallExpr{Fun: markerIdent(0), Args: []ast.Expr{m.Plus.(ast.Expr)}}
	case ref.PStmts:
		blk := m.Plus.(*ast.BlockStmt)
		blk.List = append(blk.List, &ast.ExprStmt{X: &ast.CallExpr{Fun: markerIdent(0)}})
	case ref.PDecl:
		switch d := m.Plus.(type) {
		case *ast.FuncDecl:
			if d.Body != nil {
				d.Body.List = append([]ast.Stmt{&ast.ExprStmt{X: &ast.CallExpr{Fun: markerIdent(0)}}}, d.Body.List...)
			} else if _, isHole := m.Holes[d.Name.Name]; !isHole {
				d.Name = markerIdent(0)
			} else {
				d.Type.Params.List = append(d.Type.Params.List, &ast.Field{Type: markerIdent(0)})
			}
		case *ast.GenDecl:
			for _, sp := range d.Specs {
				switch s := sp.(type) {
				case *ast.TypeSpec:
					if _, isHole := m.Holes[s.Name.Name]; !isHole {
						s.Name = markerIdent(0)
						return
					}
					s.Type = &ast.ArrayType{Elt: s.Type}
					s.Name = &ast.Ident{Name: s.Name.Name}
					d.Specs = append(d.Specs, &ast.TypeSpec{Name: markerIdent(0), Type: &ast.Ident{Name: "int"}})
					if !d.Lparen.IsValid() {
						d.Lparen, d.Rparen = 1, 1
					}
					return
				case *ast.ValueSpec:
					if len(s.Names) > 0 {
						if _, isHole := m.Holes[s.Names[0].Name]; !isHole {
							s.Names[0] = markerIdent(0)
							return
						}
					}
					if len(s.Values) > 0 {
						s.Values[0] = &ast.CallExpr{Fun: markerIdent(0), Args: []ast.Expr{s.Values[0]}}
						return
					}
					s.Type = &ast.IndexExpr{X: markerIdent(0), Index: orIdent(s.Type, "int")}
					return
				}
			}
		}
	}
}

func orIdent(e ast.Expr, name string) ast.Expr {
	if e == nil {
		return &ast.Ident{Name: name}
	}
	return e
}

// editOnce applies one drawn edit to the plus AST. It returns the edit's
// name ("" if it was not applicable) and whether it introduced the marker.
func (m *Mined) editOnce(t *rapid.T, needMarker bool) (string, bool) {
	var identSlots, litSlots, exprSlots, holeSlots []Slot
	var exprLists, stmtLists []ListSlot
	WalkSlots(m.Plus, func(s Slot) bool {
		n := s.Node()
		if n == nil {
			return true
		}
		switch x := n.(type) {
		case *ast.Ident:
			if _, isHole := m.Holes[x.Name]; isHole {
				if s.Type() == exprIface {
					holeSlots = append(holeSlots, s)
				}
				return true
			}
			if strings.HasPrefix(x.Name, ref.DotsPrefix) || x.Name == "_" || strings.HasPrefix(x.Name, Marker) {
				return true
			}
			switch s.Name() {
			case "LabeledStmt.Label", "BranchStmt.Label":
				return true
			}
			identSlots = append(identSlots, s)
		case *ast.BasicLit:
			if s.Type() == exprIface {
				litSlots = append(litSlots, s)
			}
		}
		if s.Type() == exprIface && !isDotsElem(n) {
			switch n.(type) {
			case *ast.KeyValueExpr, *ast.Ellipsis:
			default:
				if !typePosition(s.Name()) {
					exprSlots = append(exprSlots, s)
				}
			}
		}
		return true
	}, func(l ListSlot) {
		switch l.ElemType() {
		case exprIface:
			switch l.Name() {
			case "CallExpr.Args", "CompositeLit.Elts", "ReturnStmt.Results":
				exprLists = append(exprLists, l)
			}
		case stmtIface:
			stmtLists = append(stmtLists, l)
		}
	})
	mk := len(m.Edits)
	choices := []string{"rename", "rename", "lit", "wrap", "add-stmt", "add-arg", "wrap-binop"}
	if m.Opts.DupBias && !needMarker && len(holeSlots) > 0 {
		choices = append(choices, "dup-hole", "dup-hole", "dup-hole", "add-hole-arg", "add-hole-arg")
	}
	if !needMarker {
		choices = append(choices, "swap", "drop-elem", "dup-hole", "del-stmt", "drop-dots", "wrap-sub", "hole-in-name-slot")
	}
	if m.Opts.Unwrap && !needMarker && m.Kind == ref.PExpr && len(holeSlots) > 0 && len(m.Edits) == 0 {
		choices = append(choices, "unwrap", "unwrap")
	}
	choice := choices[rapid.IntRange(0, len(choices)-1).Draw(t, "edit")]
	switch choice {
	case "unwrap":
		h := holeSlots[rapid.IntRange(0, len(holeSlots)-1).Draw(t, "unwrapHole")].Node().(*ast.Ident)
		if id, ok := m.Plus.(*ast.Ident); ok && id.Name == h.Name {
			return "", false
		}
		m.Plus = &ast.Ident{Name: h.Name}
		m.NoMarker = true
		return "unwrap", true
	case "rename":
		if len(identSlots) == 0 {
			return "", false
		}
		s := identSlots[rapid.IntRange(0, len(identSlots)-1).Draw(t, "renameAt")]
		old := s.Node().(*ast.Ident)
		s.Set(&ast.Ident{NamePos: old.NamePos, Name: fmt.Sprintf("%s%d", Marker, mk)})
		return "rename@" + s.Name(), true
	case "lit":
		if len(litSlots) == 0 {
			return "", false
		}
		s := litSlots[rapid.IntRange(0, len(litSlots)-1).Draw(t, "litAt")]
		old := s.Node().(*ast.BasicLit)
		nl := &ast.BasicLit{ValuePos: old.ValuePos, Kind: token.STRING, Value: fmt.Sprintf("%q", fmt.Sprintf("%s%d", Marker, mk))}
		if old.Kind == token.INT {
			nl.Kind, nl.Value = token.INT, fmt.Sprintf("77%d", 1000+mk)
			// an integer cannot carry the marker; count it as unmarked
			s.Set(nl)
			return "lit-int@" + s.Name(), false
		}
		s.Set(nl)
		return "lit@" + s.Name(), true
	case "wrap":
		if m.Kind != ref.PExpr {
			return "", false
		}
		m.Plus = &ast.CallExpr{Fun: markerIdent(mk), Args: []ast.Expr{m.Plus.(ast.Expr)}}
		return "wrap-root", true
	case "hole-in-name-slot":
		// A metavariable where the syntax only allows a name (the selector of
		// x.f, a field name, ...): instantiating the replacement works for
		// sites where it stands for an identifier and cannot be done where it
		// stands for a call or a literal - those sites stay as they are.
		var nameSlots []Slot
		for _, s := range identSlots {
			if s.Type() == identPtr {
				nameSlots = append(nameSlots, s)
			}
		}
		if len(nameSlots) == 0 || len(holeSlots) == 0 {
			return "", false
		}
		h := holeSlots[rapid.IntRange(0, len(holeSlots)-1).Draw(t, "nameHole")].Node().(*ast.Ident)
		s := nameSlots[rapid.IntRange(0, len(nameSlots)-1).Draw(t, "nameSlot")]
		s.Set(&ast.Ident{Name: h.Name})
		return "hole-in-name-slot@" + s.Name(), false
	case "wrap-binop":
		// the whole replacement becomes a binary expression: wherever the
		// instance was an operand, the output needs parentheses
		if m.Kind != ref.PExpr {
			return "", false
		}
		if _, isType := m.Plus.(*ast.ArrayType); isType {
			return "", false
		}
		ops := []token.Token{token.ADD, token.MUL, token.LAND, token.EQL, token.SHL}
		m.Plus = &ast.BinaryExpr{X: m.Plus.(ast.Expr), Op: ops[rapid.IntRange(0, len(ops)-1).Draw(t, "binop")], Y: markerIdent(mk)}
		return "wrap-binop", true
	case "wrap-sub":
		if len(exprSlots) == 0 {
			return "", false
		}
		s := exprSlots[rapid.IntRange(0, len(exprSlots)-1).Draw(t, "wrapAt")]
		s.Set(&ast.CallExpr{Fun: markerIdent(mk), Args: []ast.Expr{s.Node().(ast.Expr)}})
		return "wrap@" + s.Name(), true
	case "add-stmt":
		if len(stmtLists) == 0 {
			return "", false
		}
		l := stmtLists[rapid.IntRange(0, len(stmtLists)-1).Draw(t, "stmtList")]
		v := l.Value()
		at := rapid.IntRange(0, v.Len()).Draw(t, "stmtAt")
		var args []ast.Expr
		if len(holeSlots) > 0 && rapid.Bool().Draw(t, "stmtUsesHole") {
			h := holeSlots[rapid.IntRange(0, len(holeSlots)-1).Draw(t, "stmtHole")].Node().(*ast.Ident)
			args = append(args, &ast.Ident{Name: h.Name})
		}
		st := &ast.ExprStmt{X: &ast.CallExpr{Fun: markerIdent(mk), Args: args}}
		insertAt(v, at, reflect.ValueOf(st))
		return "add-stmt@" + l.Name(), true
	case "add-hole-arg":
		// append another copy of a metavariable to an argument list
		if len(exprLists) == 0 || len(holeSlots) == 0 {
			return "", false
		}
		l := exprLists[rapid.IntRange(0, len(exprLists)-1).Draw(t, "hargList")]
		v := l.Value()
		if l.Name() == "CompositeLit.Elts" && v.Len() > 0 {
			if _, kv := v.Index(0).Interface().(*ast.KeyValueExpr); kv {
				return "", false
			}
		}
		if call, ok := l.Parent.Addr().Interface().(*ast.CallExpr); ok && call.Ellipsis.IsValid() {
			return "", false
		}
		h := holeSlots[rapid.IntRange(0, len(holeSlots)-1).Draw(t, "hargHole")].Node().(*ast.Ident)
		insertAt(v, rapid.IntRange(0, v.Len()).Draw(t, "hargAt"), reflect.ValueOf(&ast.Ident{Name: h.Name}))
		return "add-hole-arg@" + l.Name(), false
	case "add-arg":
		if len(exprLists) == 0 {
			return "", false
		}
		l := exprLists[rapid.IntRange(0, len(exprLists)-1).Draw(t, "argList")]
		v := l.Value()
		if l.Name() == "CompositeLit.Elts" && v.Len() > 0 {
			if _, kv := v.Index(0).Interface().(*ast.KeyValueExpr); kv {
				return "", false
			}
		}
		at := rapid.IntRange(0, v.Len()).Draw(t, "argAt")
		if l.Name() == "CallExpr.Args" && at == v.Len() && v.Len() > 0 {
			// do not append after a variadic argument
			if call, ok := l.Parent.Addr().Interface().(*ast.CallExpr); ok && call.Ellipsis.IsValid() {
				at = 0
			}
		}
		insertAt(v, at, reflect.ValueOf(markerIdent(mk)))
		return "add-arg@" + l.Name(), true
	case "swap":
		if len(exprLists) == 0 {
			return "", false
		}
		l := exprLists[rapid.IntRange(0, len(exprLists)-1).Draw(t, "swapList")]
		v := l.Value()
		var idx []int
		for i := 0; i < v.Len(); i++ {
			if n, _ := v.Index(i).Interface().(ast.Node); !isDotsElem(n) {
				idx = append(idx, i)
			}
		}
		if len(idx) < 2 {
			return "", false
		}
		a := idx[rapid.IntRange(0, len(idx)-2).Draw(t, "swapA")]
		b := idx[len(idx)-1]
		if call, ok := l.Parent.Addr().Interface().(*ast.CallExpr); ok && call.Ellipsis.IsValid() {
			return "", false
		}
		x, y := v.Index(a).Interface(), v.Index(b).Interface()
		if SameTree(x.(ast.Node), y.(ast.Node)) {
			return "", false
		}
		v.Index(a).Set(reflect.ValueOf(y))
		v.Index(b).Set(reflect.ValueOf(x))
		return "swap@" + l.Name(), false
	case "drop-elem":
		if len(exprLists) == 0 {
			return "", false
		}
		l := exprLists[rapid.IntRange(0, len(exprLists)-1).Draw(t, "dropList")]
		v := l.Value()
		var idx []int
		for i := 0; i < v.Len(); i++ {
			if n, _ := v.Index(i).Interface().(ast.Node); !isDotsElem(n) {
				idx = append(idx, i)
			}
		}
		if len(idx) == 0 {
			return "", false
		}
		if call, ok := l.Parent.Addr().Interface().(*ast.CallExpr); ok && call.Ellipsis.IsValid() {
			return "", false
		}
		if l.Name() == "ReturnStmt.Results" && v.Len() == 1 {
			// fine: "return"
		}
		removeAt(v, idx[rapid.IntRange(0, len(idx)-1).Draw(t, "dropAt")])
		return "drop-elem@" + l.Name(), false
	case "dup-hole":
		if len(holeSlots) == 0 || len(exprSlots) == 0 {
			return "", false
		}
		h := holeSlots[rapid.IntRange(0, len(holeSlots)-1).Draw(t, "dupHole")].Node().(*ast.Ident)
		s := exprSlots[rapid.IntRange(0, len(exprSlots)-1).Draw(t, "dupAt")]
		if id, ok := s.Node().(*ast.Ident); ok && id.Name == h.Name {
			return "", false
		}
		s.Set(&ast.Ident{Name: h.Name})
		return "dup-hole@" + s.Name(), false
	case "del-stmt":
		if len(stmtLists) == 0 {
			return "", false
		}
		l := stmtLists[rapid.IntRange(0, len(stmtLists)-1).Draw(t, "delList")]
		v := l.Value()
		var idx []int
		for i := 0; i < v.Len(); i++ {
			if n, _ := v.Index(i).Interface().(ast.Node); !isDotsElem(n) {
				idx = append(idx, i)
			}
		}
		if len(idx) == 0 || (m.Kind == ref.PStmts && l.Depth == 0 && len(idx) < 2) {
			return "", false
		}
		removeAt(v, idx[rapid.IntRange(0, len(idx)-1).Draw(t, "delAt")])
		return "del-stmt@" + l.Name(), false
	case "drop-dots":
		// remove one elision from the plus side (its elements are deleted)
		var lists []ListSlot
		WalkSlots(m.Plus, nil, func(l ListSlot) {
			v := l.Value()
			for i := 0; i < v.Len(); i++ {
				if n, _ := v.Index(i).Interface().(ast.Node); isDotsElem(n) {
					lists = append(lists, l)
					return
				}
			}
		})
		if len(lists) == 0 {
			return "", false
		}
		l := lists[rapid.IntRange(0, len(lists)-1).Draw(t, "ddList")]
		v := l.Value()
		for i := 0; i < v.Len(); i++ {
			if n, _ := v.Index(i).Interface().(ast.Node); isDotsElem(n) {
				if l.ElemType() == stmtIface && m.Kind == ref.PStmts && l.Depth == 0 && v.Len() == 1 {
					return "", false
				}
				removeAt(v, i)
				return "drop-dots@" + l.Name(), false
			}
		}
	}
	return "", false
}

func insertAt(v reflect.Value, at int, elem reflect.Value) {
	n := v.Len()
	nv := reflect.MakeSlice(v.Type(), 0, n+1)
	nv = reflect.AppendSlice(nv, v.Slice(0, at))
	nv = reflect.Append(nv, elem)
	nv = reflect.AppendSlice(nv, v.Slice(at, n))
	v.Set(nv)
}

func removeAt(v reflect.Value, at int) {
	n := v.Len()
	nv := reflect.MakeSlice(v.Type(), 0, n)
	nv = reflect.AppendSlice(nv, v.Slice(0, at))
	nv = reflect.AppendSlice(nv, v.Slice(at+1, n))
	v.Set(nv)
}

// SortedHoles lists the metavariable names in a stable order.
func (m *Mined) SortedHoles() []string {
	var names []string
	for n := range m.Holes {
		names = append(names, n)
	}
	sort.Strings(names)
	return names
}
