package gen

import (
	"fmt"
	"go/ast"
	"go/scanner"
	"go/token"
	"strings"

	"github.com/uber-go/gopatch/verif/ref"
)

// Rendered is a pattern as text: the placeholder form the reference parses,
// and the patch given to gopatch.
type Rendered struct {
	Spec  *ref.Spec
	Patch string // complete patch text for this one change
	// DotsOnContext counts elisions of the plus side that sit on a context
	// line; SoleDots is set when plus and minus have exactly one explicit
	// elision each and it is on changed lines.
	DotsOnContext int
	SoleDots      bool
}

// bodyText prints the pattern body. A statement run is printed without the
// enclosing braces unless its first token would be read as a declaration.
func bodyText(fset *token.FileSet, kind ref.PKind, n ast.Node) (string, error) {
	if kind != ref.PStmts {
		return Print(fset, n)
	}
	blk := n.(*ast.BlockStmt)
	var parts []string
	for _, s := range blk.List {
		txt, err := Print(fset, s)
		if err != nil {
			return "", err
		}
		parts = append(parts, txt)
	}
	return strings.Join(parts, "\n"), nil
}

// needsBraces: statement lists that start with a declaration keyword, "func"
// or "{" must be wrapped in braces (documented in PatchesInDepth: "If users
// want to place multiple of these in the patch, they should use {}").
func needsBraces(src string) bool {
	fset := token.NewFileSet()
	f := fset.AddFile("x", -1, len(src))
	var s scanner.Scanner
	s.Init(f, []byte(src), nil, 0)
	_, tok, _ := s.Scan()
	switch tok {
	case token.TYPE, token.VAR, token.CONST, token.FUNC, token.LBRACE, token.PACKAGE, token.IMPORT:
		return true
	}
	return false
}

type tokInfo struct {
	pos, end int
	tok      token.Token
	lit      string
}

func scanAll(src string) []tokInfo {
	fset := token.NewFileSet()
	f := fset.AddFile("x", -1, len(src))
	var s scanner.Scanner
	s.Init(f, []byte(src), func(token.Position, string) {}, 0)
	var out []tokInfo
	for {
		pos, tok, lit := s.Scan()
		if tok == token.EOF {
			break
		}
		off := f.Offset(pos)
		l := len(lit)
		if lit == "" {
			l = len(tok.String())
		}
		if tok == token.SEMICOLON && lit == "\n" {
			l = 0 // implicit
		}
		out = append(out, tokInfo{pos: off, end: off + l, tok: tok, lit: lit})
	}
	return out
}

// layoutDots rewrites printed pattern text so that every elision placeholder
// stands on a line of its own where the syntax allows it (after '(', '{',
// '[', ',' or ';' and before ',', ')', '}' or ';'), the way the user
// documentation recommends writing elisions.
func layoutDots(src string, dots map[string]DotsInfo) string {
	toks := scanAll(src)
	type edit struct {
		at, del int
		ins     string
	}
	var edits []edit
	for i, tk := range toks {
		if tk.tok != token.IDENT || !strings.HasPrefix(tk.lit, ref.DotsPrefix) {
			continue
		}
		info := dots[tk.lit]
		if info.Kind == "for" {
			continue
		}
		start := i
		if i > 0 && toks[i-1].tok == token.IDENT && toks[i-1].lit == "_" {
			start = i - 1
		}
		// before
		if start > 0 {
			p := toks[start-1]
			switch p.tok {
			case token.LPAREN, token.LBRACE, token.LBRACK, token.COMMA, token.SEMICOLON:
				gap := src[p.end:toks[start].pos]
				if !strings.Contains(gap, "\n") {
					if p.tok == token.SEMICOLON && p.end > p.pos {
						// explicit ';' -> newline
						edits = append(edits, edit{at: p.pos, del: toks[start].pos - p.pos, ins: "\n"})
					} else {
						edits = append(edits, edit{at: p.end, del: len(gap), ins: "\n"})
					}
				}
			}
		}
		// after
		if i+1 < len(toks) {
			n := toks[i+1]
			gapEnd := func(j int) int {
				if j+1 < len(toks) {
					return toks[j+1].pos
				}
				return len(src)
			}
			switch n.tok {
			case token.COMMA:
				after := src[n.end:gapEnd(i+1)]
				if !strings.Contains(after, "\n") && i+2 < len(toks) {
					edits = append(edits, edit{at: n.end, del: len(after), ins: "\n"})
				}
			case token.RPAREN, token.RBRACK:
				gap := src[tk.end:n.pos]
				if !strings.Contains(gap, "\n") {
					edits = append(edits, edit{at: tk.end, del: len(gap), ins: ",\n"})
				}
			case token.RBRACE:
				gap := src[tk.end:n.pos]
				if !strings.Contains(gap, "\n") {
					if info.Kind == "expr" {
						edits = append(edits, edit{at: tk.end, del: len(gap), ins: ",\n"})
					} else {
						edits = append(edits, edit{at: tk.end, del: len(gap), ins: "\n"})
					}
				}
			case token.SEMICOLON:
				if n.end > n.pos { // explicit
					edits = append(edits, edit{at: n.pos, del: gapEnd(i+1) - n.pos, ins: "\n"})
				}
			}
		}
	}
	if len(edits) == 0 {
		return src
	}
	// apply from the back; drop overlapping edits
	var b strings.Builder
	last := 0
	for _, e := range edits {
		if e.at < last {
			continue
		}
		b.WriteString(src[last:e.at])
		b.WriteString(e.ins)
		last = e.at + e.del
	}
	b.WriteString(src[last:])
	return b.String()
}

// Ellipsize turns placeholder text into patch text.
func Ellipsize(s string) string {
	toks := scanAll(s)
	var b strings.Builder
	last := 0
	for i, tk := range toks {
		if tk.tok != token.IDENT || !strings.HasPrefix(tk.lit, ref.DotsPrefix) {
			continue
		}
		start := tk.pos
		if i > 0 && toks[i-1].tok == token.IDENT && toks[i-1].lit == "_" {
			start = toks[i-1].pos
		}
		if start < last {
			continue
		}
		b.WriteString(s[last:start])
		b.WriteString("...")
		last = tk.end
	}
	b.WriteString(s[last:])
	return b.String()
}

// lineDiff computes a line-level diff (LCS on whitespace-trimmed lines).
// ops: ' ' common (text from a), '-' only in a, '+' only in b.
type diffLine struct {
	op   byte
	text string
	ai   int // index in a (for ' ' and '-'), else -1
	bi   int
}

func lineDiff(a, b []string) []diffLine {
	n, m := len(a), len(b)
	eq := func(i, j int) bool { return strings.TrimSpace(a[i]) == strings.TrimSpace(b[j]) }
	lcs := make([][]int, n+1)
	for i := range lcs {
		lcs[i] = make([]int, m+1)
	}
	for i := n - 1; i >= 0; i-- {
		for j := m - 1; j >= 0; j-- {
			if eq(i, j) {
				lcs[i][j] = lcs[i+1][j+1] + 1
			} else if lcs[i+1][j] >= lcs[i][j+1] {
				lcs[i][j] = lcs[i+1][j]
			} else {
				lcs[i][j] = lcs[i][j+1]
			}
		}
	}
	var out []diffLine
	i, j := 0, 0
	for i < n && j < m {
		switch {
		case eq(i, j):
			out = append(out, diffLine{' ', a[i], i, j})
			i++
			j++
		case lcs[i+1][j] >= lcs[i][j+1]:
			out = append(out, diffLine{'-', a[i], i, -1})
			i++
		default:
			out = append(out, diffLine{'+', b[j], -1, j})
			j++
		}
	}
	for ; i < n; i++ {
		out = append(out, diffLine{'-', a[i], i, -1})
	}
	for ; j < m; j++ {
		out = append(out, diffLine{'+', b[j], -1, j})
	}
	return out
}

// RenderOpts chooses the layout of the patch.
type RenderOpts struct {
	// AllMinusThenPlus writes every minus line, then every plus line,
	// instead of a line diff (only sound when each side has at most one
	// explicit elision).
	AllMinusThenPlus bool
	Name             string       // change name, "" for unnamed
	Comments         []string     // description lines directly above the header
	ImportsPlus      []ref.Import // "+import" lines of the change
	PkgMinus         string       // package clause on a context / '-' line ("" = none)
	PkgPlus          string       // package clause on a context / '+' line (== PkgMinus: context line)
}

// ErrLayout is returned when the elisions cannot be laid out so that the
// property's precondition (context line, or sole elision per side) holds.
var ErrLayout = fmt.Errorf("elisions cannot be laid out on context lines")

// Render turns a mined pattern into a Spec and a patch.
func Render(m *Mined, opts RenderOpts) (*Rendered, error) {
	minus, err := bodyText(m.Fset, m.Kind, m.Minus)
	if err != nil {
		return nil, err
	}
	plus, err := bodyText(m.Fset, m.Kind, m.Plus)
	if err != nil {
		return nil, err
	}
	for _, side := range []string{minus, plus} {
		for _, tk := range scanAll(side) {
			if (tk.tok == token.STRING || tk.tok == token.CHAR) && strings.Contains(tk.lit, "\n") {
				// A raw string spanning lines cannot be written in a patch:
				// the prefix character of context lines would become part
				// of the literal.
				return nil, fmt.Errorf("%w: multi-line raw string in pattern", ErrLayout)
			}
		}
	}
	minus, plus = layoutDots(minus, m.Dots), layoutDots(plus, m.Dots)
	if m.Kind == ref.PStmts {
		if needsBraces(minus) || needsBraces(plus) {
			minus = "{\n" + minus + "\n}"
			plus = "{\n" + plus + "\n}"
		}
	}
	spec := &ref.Spec{Holes: map[string]ref.HoleKind{}, Minus: minus, Plus: plus}
	for k, v := range m.Holes {
		spec.Holes[k] = v
	}
	spec.ImportsPlus = opts.ImportsPlus
	spec.PkgMinus, spec.PkgPlus = opts.PkgMinus, opts.PkgPlus
	return Assemble(spec, opts)
}

// MetaSection renders the metavariable declarations.
func MetaSection(holes map[string]ref.HoleKind) string {
	var ids, exprs []string
	for n, k := range holes {
		if k == ref.IdentHole {
			ids = append(ids, n)
		} else {
			exprs = append(exprs, n)
		}
	}
	sortStrings(ids)
	sortStrings(exprs)
	var b strings.Builder
	if len(ids) > 0 {
		b.WriteString("var " + strings.Join(ids, ", ") + " identifier\n")
	}
	if len(exprs) > 0 {
		b.WriteString("var " + strings.Join(exprs, ", ") + " expression\n")
	}
	return b.String()
}

func sortStrings(s []string) {
	for i := 1; i < len(s); i++ {
		for j := i; j > 0 && s[j] < s[j-1]; j-- {
			s[j], s[j-1] = s[j-1], s[j]
		}
	}
}

func dotsInLine(l string) []string {
	var ids []string
	for _, tk := range scanAll(l) {
		if tk.tok == token.IDENT && strings.HasPrefix(tk.lit, ref.DotsPrefix) {
			ids = append(ids, tk.lit)
		}
	}
	return ids
}

// Assemble builds the patch text of one change from a Spec (placeholder
// texts) and checks the elision layout precondition.
func Assemble(spec *ref.Spec, opts RenderOpts) (*Rendered, error) {
	r := &Rendered{Spec: spec}
	ml := strings.Split(strings.TrimRight(spec.Minus, "\n"), "\n")
	pl := strings.Split(strings.TrimRight(spec.Plus, "\n"), "\n")
	var minusDots, plusDots []string
	for _, l := range ml {
		minusDots = append(minusDots, dotsInLine(l)...)
	}
	for _, l := range pl {
		plusDots = append(plusDots, dotsInLine(l)...)
	}
	inMinus := map[string]bool{}
	for _, id := range minusDots {
		inMinus[id] = true
	}
	for _, id := range plusDots {
		if !inMinus[id] {
			return nil, fmt.Errorf("%w: %s occurs only on the plus side", ErrLayout, id)
		}
	}

	var lines []diffLine
	if opts.AllMinusThenPlus {
		if len(minusDots) > 1 || len(plusDots) > 1 {
			return nil, ErrLayout
		}
		for i, l := range ml {
			lines = append(lines, diffLine{'-', l, i, -1})
		}
		for j, l := range pl {
			lines = append(lines, diffLine{'+', l, -1, j})
		}
	} else {
		lines = lineDiff(ml, pl)
	}
	// Check the precondition: each plus-side elision is on a context line
	// (then it is trivially aligned with the same placeholder, because the
	// line text contains the placeholder id), or it is the only elision on
	// each side.
	onContext := map[string]bool{}
	for _, dl := range lines {
		if dl.op == ' ' {
			for _, id := range dotsInLine(dl.text) {
				onContext[id] = true
			}
		}
	}
	for _, id := range plusDots {
		if onContext[id] {
			r.DotsOnContext++
			continue
		}
		if len(plusDots) == 1 && len(minusDots) == 1 {
			r.SoleDots = true
			continue
		}
		return nil, ErrLayout
	}
	// The sole-elision form additionally needs the minus line to come before
	// the plus line (true for a diff: deletions precede insertions within a
	// hunk) — checked here for safety.
	if r.SoleDots {
		mi, pi := -1, -1
		for k, dl := range lines {
			if dl.op == '-' && len(dotsInLine(dl.text)) > 0 {
				mi = k
			}
			if dl.op == '+' && len(dotsInLine(dl.text)) > 0 {
				pi = k
			}
		}
		if mi < 0 || pi < 0 || pi < mi {
			return nil, ErrLayout
		}
	}

	var b strings.Builder
	for _, c := range opts.Comments {
		b.WriteString("# " + c + "\n")
	}
	if opts.Name != "" {
		b.WriteString("@ " + opts.Name + " @\n")
	} else {
		b.WriteString("@@\n")
	}
	b.WriteString(MetaSection(spec.Holes))
	b.WriteString("@@\n")
	// prologue
	pro := func(pfx byte, s string) { b.WriteByte(pfx); b.WriteString(s); b.WriteByte('\n') }
	impLine := func(im ref.Import) string {
		if im.Name != "" {
			return fmt.Sprintf("import %s %q", im.Name, im.Path)
		}
		return fmt.Sprintf("import %q", im.Path)
	}
	wrotePro := false
	switch {
	case spec.PkgMinus != "" && spec.PkgMinus == spec.PkgPlus:
		pro(' ', "package "+spec.PkgMinus)
		wrotePro = true
	default:
		if spec.PkgMinus != "" {
			pro('-', "package "+spec.PkgMinus)
			wrotePro = true
		}
		if spec.PkgPlus != "" {
			pro('+', "package "+spec.PkgPlus)
			wrotePro = true
		}
	}
	if wrotePro {
		b.WriteString("\n")
	}
	same := func(a, c ref.Import) bool { return a == c }
	usedPlus := make([]bool, len(spec.ImportsPlus))
	for _, im := range spec.ImportsMinus {
		ctx := false
		for j, ip := range spec.ImportsPlus {
			if !usedPlus[j] && same(im, ip) {
				usedPlus[j] = true
				ctx = true
				break
			}
		}
		if ctx {
			pro(' ', impLine(im))
		} else {
			pro('-', impLine(im))
		}
	}
	for j, ip := range spec.ImportsPlus {
		if !usedPlus[j] {
			pro('+', impLine(ip))
		}
	}
	if len(spec.ImportsMinus)+len(spec.ImportsPlus) > 0 {
		b.WriteString("\n")
	}
	for _, dl := range lines {
		b.WriteByte(dl.op)
		b.WriteString(Ellipsize(dl.text))
		b.WriteByte('\n')
	}
	r.Patch = b.String()
	return r, nil
}
