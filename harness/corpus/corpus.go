// Package corpus gives the checks real-world material: Go source files copied
// from the Go 1.23 standard library (under /verif/corpus/go, BSD licence) and,
// read at run time from /repo, the repository's own patches and test inputs.
package corpus

import (
	"bytes"
	"os"
	"path/filepath"
	"sort"
	"strings"
	"sync"
)

// File is a named blob.
type File struct {
	Name string
	Src  []byte
}

var (
	verifCorpus = root() + "/corpus/go"
	repoRoot    = repo()
)

func root() string {
	if r := os.Getenv("VERIF_ROOT"); r != "" {
		return r
	}
	return "/verif"
}

// repo is the repository whose testdata is read: /repo, or the scratch copy
// named by VERIF_REPO while a check is being developed.
func repo() string {
	if r := os.Getenv("VERIF_REPO"); r != "" {
		return r
	}
	return "/repo"
}

var (
	goOnce  sync.Once
	goFiles []File

	repoOnce    sync.Once
	repoPatches []File
	repoInputs  []File
)

// GoFiles returns the standard-library corpus, sorted by name.
func GoFiles() []File {
	goOnce.Do(func() {
		ents, _ := os.ReadDir(verifCorpus)
		for _, e := range ents {
			if !strings.HasSuffix(e.Name(), ".go.txt") {
				continue
			}
			b, err := os.ReadFile(filepath.Join(verifCorpus, e.Name()))
			if err != nil {
				continue
			}
			goFiles = append(goFiles, File{Name: strings.TrimSuffix(e.Name(), ".txt"), Src: b})
		}
		sort.Slice(goFiles, func(i, j int) bool { return goFiles[i].Name < goFiles[j].Name })
	})
	return goFiles
}

// txtar splits a txtar archive into its files.
func txtar(b []byte) []File {
	var out []File
	var cur *File
	for _, line := range bytes.SplitAfter(b, []byte("\n")) {
		t := bytes.TrimRight(line, "\r\n")
		if bytes.HasPrefix(t, []byte("-- ")) && bytes.HasSuffix(t, []byte(" --")) && len(t) >= 7 {
			out = append(out, File{Name: strings.TrimSpace(string(t[3 : len(t)-3]))})
			cur = &out[len(out)-1]
			continue
		}
		if cur != nil {
			cur.Src = append(cur.Src, line...)
		}
	}
	return out
}

func loadRepo() {
	add := func(dst *[]File, name string, src []byte) {
		*dst = append(*dst, File{Name: name, Src: src})
	}
	// examples/*.patch and testdata/patch/*.patch
	for _, dir := range []string{"examples", "testdata/patch"} {
		ents, _ := os.ReadDir(filepath.Join(repoRoot, dir))
		for _, e := range ents {
			if strings.HasSuffix(e.Name(), ".patch") {
				if b, err := os.ReadFile(filepath.Join(repoRoot, dir, e.Name())); err == nil {
					add(&repoPatches, dir+"/"+e.Name(), b)
				}
			}
		}
	}
	ents, _ := os.ReadDir(filepath.Join(repoRoot, "testdata"))
	for _, e := range ents {
		if e.IsDir() || strings.HasSuffix(e.Name(), ".md") {
			continue
		}
		b, err := os.ReadFile(filepath.Join(repoRoot, "testdata", e.Name()))
		if err != nil {
			continue
		}
		for _, f := range txtar(b) {
			switch {
			case strings.HasSuffix(f.Name, ".patch"):
				if bytes.HasPrefix(bytes.TrimSpace(f.Src), []byte("=>")) {
					continue
				}
				add(&repoPatches, "testdata/"+e.Name()+"/"+f.Name, f.Src)
			case strings.HasSuffix(f.Name, ".in.go"):
				add(&repoInputs, "testdata/"+e.Name()+"/"+f.Name, f.Src)
			}
		}
	}
	if len(repoPatches) == 0 {
		for i, p := range fallbackPatches {
			add(&repoPatches, "fallback/"+string(rune('a'+i))+".patch", []byte(p))
		}
	}
	if len(repoInputs) == 0 {
		add(&repoInputs, "fallback/a.in.go", []byte("package a\n\nfunc f() {\n\tfoo(42)\n\tx := bar(1, 2)\n\t_ = x\n}\n"))
	}
	sort.Slice(repoPatches, func(i, j int) bool { return repoPatches[i].Name < repoPatches[j].Name })
	sort.Slice(repoInputs, func(i, j int) bool { return repoInputs[i].Name < repoInputs[j].Name })
}

// RepoPatches returns the repository's own patches (testdata, examples).
func RepoPatches() []File {
	repoOnce.Do(loadRepo)
	return repoPatches
}

// RepoInputs returns the repository's *.in.go test inputs.
func RepoInputs() []File {
	repoOnce.Do(loadRepo)
	return repoInputs
}

var fallbackPatches = []string{
	"@@\nvar x expression\n@@\n-foo(x)\n+bar(x)\n",
	"@@\nvar f identifier\n@@\n-func f(...) error {\n+func f(context.Context, ...) error {\n   ...\n }\n",
	"@@\nvar err identifier\nvar log expression\n@@\n if err != nil {\n   ...\n-  log.Error(err)\n   return err\n }\n",
}
