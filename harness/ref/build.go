package ref

import (
	"bytes"
	"fmt"
	"go/ast"
	"go/format"
	"go/parser"
	"go/token"
	"reflect"
)

// Resolve returns a copy of want in which every KAlt is replaced by the
// alternative that agrees with got at that place (the first alternative when
// none does).
func Resolve(want, got *Tree, m Mode) *Tree {
	if want == nil {
		return nil
	}
	if want.Kind == KAlt {
		for _, alt := range want.Kids {
			if diffPath(alt, got, m, nil) == nil {
				return Resolve(alt, got, m)
			}
		}
		return Resolve(want.Kids[0], got, m)
	}
	g := strip(got, m)
	switch want.Kind {
	case KNode:
		if want.RT == parenPtr && m.output() && (g == nil || g.Kind != KNode || g.RT != parenPtr) {
			// keep the parenthesis, resolve inside against the same got
			c := *want
			c.Kids = append([]*Tree(nil), want.Kids...)
			for i, n := range want.Names {
				if n == "X" {
					c.Kids[i] = Resolve(want.Kids[i], got, m)
				}
			}
			return &c
		}
		c := *want
		c.Kids = make([]*Tree, len(want.Kids))
		for i, k := range want.Kids {
			var gk *Tree
			if g != nil && g.Kind == KNode && g.RT == want.RT && i < len(g.Kids) {
				gk = g.Kids[i]
			}
			c.Kids[i] = Resolve(k, gk, m)
		}
		return &c
	case KList:
		var gElems []*Tree
		if g != nil && g.Kind == KList {
			gElems = listElems(g, m)
		}
		c := *want
		c.Kids = nil
		// expand run alternatives first
		elems := want.Kids
		for hasListAlt(elems) {
			for i, e := range elems {
				if e.Kind == KAlt && len(e.Kids) > 0 && e.Kids[0].Kind == KList {
					chosen := e.Kids[0]
					for _, alt := range e.Kids {
						exp := append(append(append([]*Tree(nil), elems[:i]...), alt.Kids...), elems[i+1:]...)
						if diffPath(&Tree{Kind: KList, RT: want.RT, Kids: exp}, &Tree{Kind: KList, RT: want.RT, Kids: gElems}, m, nil) == nil {
							chosen = alt
							break
						}
					}
					elems = append(append(append([]*Tree(nil), elems[:i]...), chosen.Kids...), elems[i+1:]...)
					break
				}
			}
		}
		gi := 0
		for _, k := range elems {
			var gk *Tree
			if m.output() && k.Kind == KNode && k.RT == emptyStmtPtr {
				c.Kids = append(c.Kids, k)
				continue
			}
			if gi < len(gElems) {
				gk = gElems[gi]
			}
			gi++
			c.Kids = append(c.Kids, Resolve(k, gk, m))
		}
		return &c
	}
	return want
}

// Build turns a tree without alternatives back into a go/ast value. Valid
// positions become token.Pos(1).
func Build(t *Tree) (v reflect.Value, err error) {
	defer func() {
		if p := recover(); p != nil {
			err = fmt.Errorf("cannot rebuild AST: %v", p)
		}
	}()
	return build(t), nil
}

func build(t *Tree) reflect.Value {
	switch t.Kind {
	case KNil:
		if t.RT == nil {
			return reflect.Value{}
		}
		return reflect.Zero(t.RT)
	case KLeaf:
		if t.IsPos {
			if t.Leaf == "valid" {
				return reflect.ValueOf(token.Pos(1))
			}
			return reflect.ValueOf(token.NoPos)
		}
		return reflect.ValueOf(t.Val)
	case KNode:
		p := reflect.New(t.RT.Elem())
		for i, name := range t.Names {
			f := p.Elem().FieldByName(name)
			k := build(t.Kids[i])
			if !k.IsValid() {
				continue
			}
			if k.Type().AssignableTo(f.Type()) {
				f.Set(k)
			} else if k.Kind() == reflect.Slice && k.Len() == 0 {
				// empty list of another slice type: leave zero
			} else {
				panic(fmt.Sprintf("%s.%s: %v not assignable to %v", t.TypeName(), name, k.Type(), f.Type()))
			}
		}
		return p
	case KList:
		if len(t.Kids) == 0 {
			return reflect.Zero(t.RT)
		}
		s := reflect.MakeSlice(t.RT, len(t.Kids), len(t.Kids))
		for i, k := range t.Kids {
			e := build(k)
			if !e.IsValid() {
				continue
			}
			if !e.Type().AssignableTo(t.RT.Elem()) {
				panic(fmt.Sprintf("list element %v not assignable to %v", e.Type(), t.RT.Elem()))
			}
			s.Index(i).Set(e)
		}
		return s
	}
	panic("alternative left in tree")
}

// RoundTrip prints a file tree with gofmt and parses it again: what the
// expected output looks like after the same print / parse step gopatch's
// output went through. Alternatives must have been resolved.
func RoundTrip(file *Tree) (*Tree, error) {
	v, err := Build(file)
	if err != nil {
		return nil, err
	}
	f, ok := v.Interface().(*ast.File)
	if !ok {
		return nil, fmt.Errorf("not a file: %T", v.Interface())
	}
	// go/printer adds the parentheses an operand needs everywhere except
	// below a StarExpr (the parser never produces *X with a binary X without
	// a ParenExpr). The expected tree means "*(a + b)": say so, or printing
	// it would silently turn it into "(*a) + b" - the very change of meaning
	// this round trip must not hide.
	ast.Inspect(f, func(n ast.Node) bool {
		if st, ok := n.(*ast.StarExpr); ok {
			if _, bin := st.X.(*ast.BinaryExpr); bin {
				st.X = &ast.ParenExpr{X: st.X}
			}
		}
		// Likewise "chan (<-chan T)": printed without the parentheses it
		// reads "chan<- chan T", a send-only channel of channels.
		if ct, ok := n.(*ast.ChanType); ok && ct.Dir == ast.SEND|ast.RECV {
			if in, ok := ct.Value.(*ast.ChanType); ok && in.Dir == ast.RECV {
				ct.Value = &ast.ParenExpr{X: ct.Value}
			}
		}
		return true
	})
	var buf bytes.Buffer
	if err := func() (err error) {
		defer func() {
			if p := recover(); p != nil {
				err = fmt.Errorf("printer panic: %v", p)
			}
		}()
		return format.Node(&buf, token.NewFileSet(), f)
	}(); err != nil {
		return nil, err
	}
	pf, err := parser.ParseFile(token.NewFileSet(), "expected.go", buf.Bytes(), parser.SkipObjectResolution)
	if err != nil {
		return nil, fmt.Errorf("expected output does not parse: %w", err)
	}
	return FromNode(pf), nil
}
