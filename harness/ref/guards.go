package ref

import (
	"go/ast"
	"strconv"
)

// FileImport is an import spec of a Go file.
type FileImport struct {
	Name string // "" when unnamed
	Path string
}

// ImportsOf lists the import specs of a file tree in source order.
func ImportsOf(file *Tree) []FileImport {
	var out []FileImport
	decls := file.Field("Decls")
	if decls == nil {
		return nil
	}
	for _, d := range decls.Kids {
		if !isImportDecl(d) {
			continue
		}
		for _, s := range d.Field("Specs").Kids {
			fi := FileImport{}
			if n := s.Field("Name"); n.Kind == KNode {
				fi.Name, _ = n.IsIdent()
			}
			if p := s.Field("Path"); p.Kind == KNode {
				if u, err := strconv.Unquote(p.Field("Value").Leaf); err == nil {
					fi.Path = u
				} else {
					fi.Path = p.Field("Value").Leaf
				}
			}
			out = append(out, fi)
		}
	}
	return out
}

// PackageOf returns the package name of a file tree.
func PackageOf(file *Tree) string {
	if n := file.Field("Name"); n != nil {
		name, _ := n.IsIdent()
		return name
	}
	return ""
}

func identTree(name string) *Tree {
	t := FromNode(&ast.Ident{NamePos: 1, Name: name})
	clearSrc(t)
	return t
}

// guardsHold evaluates the package and import guards of the change's minus
// side as the property states them: the package must be equal; an unnamed
// import matches only an unnamed import of that path, a literally named one
// only that exact name, and a name that is an identifier metavariable any
// name or none. It returns the bindings made by metavariable import names.
func (p *Pattern) guardsHold(file *Tree, res *Result) (*Env, bool) {
	if p.Spec.PkgMinus != "" && p.Spec.PkgMinus != PackageOf(file) {
		return nil, false
	}
	var env *Env
	fileImps := ImportsOf(file)
	for _, want := range p.Spec.ImportsMinus {
		kind, isHole := p.Spec.Holes[want.Name]
		isMeta := want.Name != "" && isHole && kind == IdentHole
		var matches []FileImport
		for _, fi := range fileImps {
			if fi.Path != want.Path {
				continue
			}
			switch {
			case isMeta:
				matches = append(matches, fi)
			case want.Name == "":
				if fi.Name == "" {
					matches = append(matches, fi)
				}
			default:
				if fi.Name == want.Name {
					matches = append(matches, fi)
				}
			}
		}
		if len(matches) == 0 {
			return nil, false
		}
		if isMeta {
			if len(matches) > 1 {
				// Which of several imports of one path a metavariable name
				// stands for is not determined by the property.
				res.Ambiguous = true
			}
			name := matches[0].Name
			if name == "" {
				// The metavariable stands for "no name"; in the code it is
				// spelled like the metavariable itself (documented).
				name = want.Name
			}
			if prev, ok := env.Binding(want.Name); ok {
				if pn, _ := prev.IsIdent(); pn != name {
					return nil, false
				}
			} else {
				env = env.with(1, want.Name, identTree(name), nil)
			}
		}
	}
	return env, true
}

// StripImports returns a copy of a file tree without its import
// declarations (they are compared separately, as a multiset).
func StripImports(file *Tree) *Tree {
	if file == nil || file.Kind != KNode {
		return file
	}
	decls := file.Field("Decls")
	if decls == nil || decls.Kind != KList {
		return file
	}
	nd := &Tree{Kind: KList, RT: decls.RT}
	for _, d := range decls.Kids {
		if !isImportDecl(d) {
			nd.Kids = append(nd.Kids, d)
		}
	}
	return file.SetField("Decls", nd)
}
