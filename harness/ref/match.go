package ref

import (
	"go/ast"
	"reflect"
	"strings"
)

// HoleKind is the declared type of a metavariable.
type HoleKind string

const (
	IdentHole HoleKind = "identifier"
	ExprHole  HoleKind = "expression"
)

// DotsPrefix is the spelling of elision placeholders in the pattern texts the
// harness parses itself. Every elision has its own id: "DOTS__3".
const DotsPrefix = "DOTS__"

// Env is what a successful match captured. It is persistent: extending it
// returns a new value, so backtracking needs no undo.
type Env struct {
	parent *Env
	kind   uint8 // 1 binding, 2 run, 3 for-header
	name   string
	val    *Tree   // binding / for statement
	run    []*Tree // elided run
	// Ambiguous is set when an expression metavariable was aligned with a
	// node that go/ast calls an expression but the language does not
	// (KeyValueExpr, variadic Ellipsis): the property does not say whether
	// that is an instance, so the site is not judged.
	Ambiguous bool
}

func (e *Env) with(kind uint8, name string, val *Tree, run []*Tree) *Env {
	n := &Env{parent: e, kind: kind, name: name, val: val, run: run}
	if e != nil {
		n.Ambiguous = e.Ambiguous
	}
	return n
}

func (e *Env) lookup(kind uint8, name string) (*Env, bool) {
	for x := e; x != nil; x = x.parent {
		if x.kind == kind && x.name == name {
			return x, true
		}
	}
	return nil, false
}

// Binding returns what a metavariable stands for.
func (e *Env) Binding(name string) (*Tree, bool) {
	if x, ok := e.lookup(1, name); ok {
		return x.val, true
	}
	return nil, false
}

// Run returns the elements an elision stood for.
func (e *Env) Run(id string) ([]*Tree, bool) {
	if x, ok := e.lookup(2, id); ok {
		return x.run, true
	}
	return nil, false
}

// ForStmt returns the for/range statement matched by "for ... {".
func (e *Env) ForStmt(id string) (*Tree, bool) {
	if x, ok := e.lookup(3, id); ok {
		return x.val, true
	}
	return nil, false
}

// Bindings lists all metavariable bindings (name -> tree).
func (e *Env) Bindings() map[string]*Tree {
	out := map[string]*Tree{}
	for x := e; x != nil; x = x.parent {
		if x.kind == 1 {
			if _, dup := out[x.name]; !dup {
				out[x.name] = x.val
			}
		}
	}
	return out
}

// ElidedCount is the total number of elements consumed by elisions.
func (e *Env) ElidedCount() int {
	n := 0
	seen := map[string]bool{}
	for x := e; x != nil; x = x.parent {
		if x.kind == 2 && !seen[x.name] {
			seen[x.name] = true
			n += len(x.run)
		}
	}
	return n
}

// Matcher decides instance-ness for one pattern.
type Matcher struct {
	Holes map[string]HoleKind
	// Relaxed drops the metavariable rules (kind and consistency): every
	// metavariable occurrence matches any non-nil node. Used only to
	// attribute a wrongly rewritten place to the metavariable semantics.
	Relaxed bool
	// Steps counts matching steps, to bound pathological backtracking.
	Steps int
}

// dotsID returns the elision id if t is an elision placeholder in an
// expression position (an identifier DOTS__n).
func dotsID(t *Tree) (string, bool) {
	if name, ok := t.IsIdent(); ok && strings.HasPrefix(name, DotsPrefix) {
		return name, true
	}
	return "", false
}

var (
	exprStmtPtr  = reflect.TypeOf((*ast.ExprStmt)(nil))
	fieldPtr     = reflect.TypeOf((*ast.Field)(nil))
	forStmtPtr   = reflect.TypeOf((*ast.ForStmt)(nil))
	rangeStmtPtr = reflect.TypeOf((*ast.RangeStmt)(nil))
	keyValuePtr  = reflect.TypeOf((*ast.KeyValueExpr)(nil))
	ellipsisPtr  = reflect.TypeOf((*ast.Ellipsis)(nil))
)

// elemDotsID recognises an elision as a list element: an identifier in an
// expression list, an expression statement consisting of one in a statement
// list, a field whose type is one (named "_" or unnamed) in a field list.
func elemDotsID(t *Tree) (string, bool) {
	if t == nil || t.Kind != KNode {
		return "", false
	}
	switch t.RT {
	case identPtr:
		return dotsID(t)
	case exprStmtPtr:
		return dotsID(t.Field("X"))
	case fieldPtr:
		if id, ok := dotsID(t.Field("Type")); ok {
			names := t.Field("Names")
			if names.Kind == KNil || len(names.Kids) == 0 {
				return id, true
			}
			if len(names.Kids) == 1 {
				if n, _ := names.Kids[0].IsIdent(); n == "_" {
					return id, true
				}
			}
		}
	}
	return "", false
}

// forDotsID recognises "for DOTS__n { ... }".
func forDotsID(p *Tree) (string, bool) {
	if p == nil || p.Kind != KNode || p.RT != forStmtPtr {
		return "", false
	}
	if p.Field("Init").Kind != KNil || p.Field("Post").Kind != KNil {
		return "", false
	}
	return dotsID(p.Field("Cond"))
}

// Match reports whether node n is an instance of pattern p, extending env.
func (m *Matcher) Match(p, n *Tree, env *Env) (*Env, bool) {
	m.Steps++
	// Metavariable?
	if name, ok := p.IsIdent(); ok {
		if kind, isHole := m.Holes[name]; isHole {
			return m.matchHole(name, kind, n, env)
		}
	}
	if p.Kind != n.Kind {
		if (p.Kind == KNil && n.Kind == KList && len(n.Kids) == 0) || (n.Kind == KNil && p.Kind == KList && len(p.Kids) == 0) {
			return env, true
		}
		return env, false
	}
	switch p.Kind {
	case KNil:
		return env, true
	case KLeaf:
		return env, p.RT == n.RT && p.Leaf == n.Leaf
	case KNode:
		if id, ok := forDotsID(p); ok {
			if n.RT != forStmtPtr && n.RT != rangeStmtPtr {
				return env, false
			}
			env = env.with(3, id, n, nil)
			return m.Match(p.Field("Body"), n.Field("Body"), env)
		}
		if p.RT != n.RT {
			return env, false
		}
		for i := range p.Kids {
			var ok bool
			env, ok = m.Match(p.Kids[i], n.Kids[i], env)
			if !ok {
				return env, false
			}
		}
		return env, true
	case KList:
		return m.matchList(p.Kids, n.Kids, env)
	}
	return env, false
}

func (m *Matcher) matchHole(name string, kind HoleKind, n *Tree, env *Env) (*Env, bool) {
	if n == nil || n.Kind != KNode {
		return env, false
	}
	if m.Relaxed {
		return env, true
	}
	switch kind {
	case IdentHole:
		if n.RT != identPtr {
			return env, false
		}
	case ExprHole:
		if !n.RT.Implements(exprIface) {
			return env, false
		}
	}
	if prev, ok := env.Binding(name); ok {
		return env, Equal(prev, n, Exact)
	}
	env = env.with(1, name, n, nil)
	if kind == ExprHole && (n.RT == keyValuePtr || n.RT == ellipsisPtr) {
		env.Ambiguous = true
	}
	return env, true
}

// matchList matches a pattern list that may contain elisions against a list
// of elements by backtracking: each elision takes the shortest run that
// allows the rest to match, left to right.
func (m *Matcher) matchList(ps, ns []*Tree, env *Env) (*Env, bool) {
	hasDots := false
	for _, p := range ps {
		if _, ok := elemDotsID(p); ok {
			hasDots = true
			break
		}
	}
	if !hasDots {
		if len(ps) != len(ns) {
			return env, false
		}
		for i := range ps {
			var ok bool
			env, ok = m.Match(ps[i], ns[i], env)
			if !ok {
				return env, false
			}
		}
		return env, true
	}
	return m.matchListFrom(ps, ns, 0, 0, env)
}

func (m *Matcher) matchListFrom(ps, ns []*Tree, pi, ni int, env *Env) (*Env, bool) {
	m.Steps++
	if pi == len(ps) {
		return env, ni == len(ns)
	}
	if id, ok := elemDotsID(ps[pi]); ok {
		for take := 0; ni+take <= len(ns); take++ {
			e2 := env.with(2, id, nil, ns[ni:ni+take])
			if e3, ok := m.matchListFrom(ps, ns, pi+1, ni+take, e2); ok {
				return e3, true
			}
			if m.Steps > 2_000_000 {
				return env, false
			}
		}
		return env, false
	}
	if ni >= len(ns) {
		return env, false
	}
	e2, ok := m.Match(ps[pi], ns[ni], env)
	if !ok {
		return env, false
	}
	return m.matchListFrom(ps, ns, pi+1, ni+1, e2)
}

// MatchAll is Match with complete backtracking: k is called with every way
// (in the order Match would try them: shortest runs first, left to right,
// depth first) in which n is an instance of p, until k returns true. Where
// Match commits to the first way a nested list matches, MatchAll comes back
// to that list for another way when something later (a repeated
// metavariable, usually) does not fit. It is the definition of "instance" in
// the property statements taken literally: some assignment of code to the
// metavariables and of runs to the elisions exists.
func (m *Matcher) MatchAll(p, n *Tree, env *Env, k func(*Env) bool) bool {
	m.Steps++
	if m.Steps > 2_000_000 {
		return false
	}
	if name, ok := p.IsIdent(); ok {
		if kind, isHole := m.Holes[name]; isHole {
			if e2, ok := m.matchHole(name, kind, n, env); ok {
				return k(e2)
			}
			return false
		}
	}
	if p.Kind != n.Kind {
		if (p.Kind == KNil && n.Kind == KList && len(n.Kids) == 0) || (n.Kind == KNil && p.Kind == KList && len(p.Kids) == 0) {
			return k(env)
		}
		return false
	}
	switch p.Kind {
	case KNil:
		return k(env)
	case KLeaf:
		if p.RT == n.RT && p.Leaf == n.Leaf {
			return k(env)
		}
		return false
	case KNode:
		if id, ok := forDotsID(p); ok {
			if n.RT != forStmtPtr && n.RT != rangeStmtPtr {
				return false
			}
			return m.MatchAll(p.Field("Body"), n.Field("Body"), env.with(3, id, n, nil), k)
		}
		if p.RT != n.RT {
			return false
		}
		return m.matchKidsAll(p.Kids, n.Kids, 0, env, k)
	case KList:
		hasDots := false
		for _, x := range p.Kids {
			if _, ok := elemDotsID(x); ok {
				hasDots = true
				break
			}
		}
		if !hasDots {
			if len(p.Kids) != len(n.Kids) {
				return false
			}
			return m.matchKidsAll(p.Kids, n.Kids, 0, env, k)
		}
		return m.matchListAll(p.Kids, n.Kids, 0, 0, env, k)
	}
	return false
}

func (m *Matcher) matchKidsAll(ps, ns []*Tree, i int, env *Env, k func(*Env) bool) bool {
	if i == len(ps) {
		return k(env)
	}
	return m.MatchAll(ps[i], ns[i], env, func(e *Env) bool {
		return m.matchKidsAll(ps, ns, i+1, e, k)
	})
}

func (m *Matcher) matchListAll(ps, ns []*Tree, pi, ni int, env *Env, k func(*Env) bool) bool {
	m.Steps++
	if m.Steps > 2_000_000 {
		return false
	}
	if pi == len(ps) {
		if ni == len(ns) {
			return k(env)
		}
		return false
	}
	if id, ok := elemDotsID(ps[pi]); ok {
		for take := 0; ni+take <= len(ns); take++ {
			if m.matchListAll(ps, ns, pi+1, ni+take, env.with(2, id, nil, ns[ni:ni+take]), k) {
				return true
			}
		}
		return false
	}
	if ni >= len(ns) {
		return false
	}
	return m.MatchAll(ps[pi], ns[ni], env, func(e *Env) bool {
		return m.matchListAll(ps, ns, pi+1, ni+1, e, k)
	})
}

// MatchComplete returns the first complete way in which n is an instance of
// p, and whether the committed search of Match finds one too.
func (m *Matcher) MatchComplete(p, n *Tree, env *Env) (found *Env, ok, greedyToo bool) {
	if e, g := m.Match(p, n, env); g {
		return e, true, true
	}
	ok = m.MatchAll(p, n, env, func(e *Env) bool { found = e; return true })
	return found, ok, false
}
