package ref

import (
	"fmt"
	"go/ast"
	"go/token"
	"reflect"
)

// Site is a place where the reference says a change applies.
type Site struct {
	Index int    // position in Result.Sites
	Slot  string // "CallExpr.Args[]", "BlockStmt.List", ...
	Node  *Tree  // the matched node (expr/decl patterns) or the container (statement patterns)
	Env   *Env
	Repl  *Tree // expected replacement
	// Statement patterns: the explicit instance occupies [Start, End) of the
	// container's statement list.
	Start, End int
	InstLen    int // number of statements of the instantiated plus side
	// NestedChoice: the site is an instance only by a choice inside a nested
	// list other than the first that fits there (a repeated metavariable
	// further on rules the first one out). A matcher that commits to the
	// first way a nested list matches does not find it.
	NestedChoice bool
	Depth      int // nesting depth below the file
}

// Result is the reference outcome of applying one change to one file.
type Result struct {
	Expected *Tree  // file tree with the mandatory sites rewritten; KAlt where the property leaves a choice
	Sites    []Site // mandatory sites, in pre-order
	// Optional counts instances whose rewriting the property leaves open
	// (inside another rewritten instance; later instances in a block).
	Optional int
	// Inadmissible counts instances whose replacement does not fit the slot.
	Inadmissible int
	// Ambiguous is set when some candidate aligned an expression
	// metavariable with a KeyValueExpr/Ellipsis: the case is not judged.
	Ambiguous bool
	// Applies is false when a package/import guard fails (then Expected is
	// the input).
	Applies     bool
	GuardFailed bool
	Err         error // e.g. metavariable used on the plus side but not bound
	// Attempts counts nodes at which the pattern was tried; NearMisses counts
	// attempts that failed only after binding at least one metavariable.
	Attempts, BoundThenFailed int
	// NestedChoice counts candidate sites (mandatory or optional) that are
	// instances only by complete backtracking (see Site.NestedChoice).
	NestedChoice int
}

type rewriter struct {
	p    *Pattern
	m    *Matcher
	res  *Result
	init *Env // bindings made by the import guards
	// quiet: rewrite mandatory sites without recording or tagging them
	// (used inside alternatives, where recording would duplicate sites).
	quiet bool
}

var (
	genDeclPtr    = reflect.TypeOf((*ast.GenDecl)(nil))
	blockStmtPtr  = reflect.TypeOf((*ast.BlockStmt)(nil))
	caseClausePtr = reflect.TypeOf((*ast.CaseClause)(nil))
	commClausePtr = reflect.TypeOf((*ast.CommClause)(nil))
)

// Apply computes the reference result of the change on a file tree.
func (p *Pattern) Apply(file *Tree) *Result {
	res := &Result{Applies: true}
	r := &rewriter{p: p, m: &Matcher{Holes: p.Spec.Holes}, res: res}
	env, ok := p.guardsHold(file, res)
	if !ok {
		res.Applies = false
		res.GuardFailed = true
		res.Expected = file
		return res
	}
	r.init = env
	switch p.Kind {
	case PStmts:
		res.Expected = r.descendS(file, false, 0)
	default:
		res.Expected = r.descendE(file, false, 0)
	}
	if len(res.Sites) == 0 {
		res.Applies = false
	} else if p.Spec.PkgPlus != "" && res.Expected.Kind == KNode {
		name := FromNode(&ast.Ident{NamePos: 1, Name: p.Spec.PkgPlus})
		clearSrc(name)
		res.Expected = res.Expected.SetField("Name", name)
	}
	return res
}

func isImportDecl(n *Tree) bool {
	return n.Kind == KNode && n.RT == genDeclPtr && n.Field("Tok").Leaf == token.IMPORT.String()
}

// slotType is the static Go type of the place a child lives in.
func slotType(parent *Tree, i int) reflect.Type {
	switch parent.Kind {
	case KNode:
		f, _ := parent.RT.Elem().FieldByName(parent.Names[i])
		return f.Type
	case KList:
		return parent.RT.Elem()
	}
	return nil
}

func slotName(parent *Tree, i int) string {
	switch parent.Kind {
	case KNode:
		return parent.TypeName() + "." + parent.Names[i]
	}
	return ""
}

// ---- expression and declaration patterns ----

func (r *rewriter) descendE(n *Tree, optional bool, depth int) *Tree {
	switch n.Kind {
	case KNode:
		if isImportDecl(n) {
			return n
		}
		c := *n
		c.Kids = make([]*Tree, len(n.Kids))
		for i, k := range n.Kids {
			if n.RT == filePtr && n.Names[i] == "Name" {
				c.Kids[i] = k // the package clause is not a candidate
				continue
			}
			c.Kids[i] = r.rwE(k, slotType(n, i), slotName(n, i), optional, depth+1)
		}
		return &c
	case KList:
		c := *n
		c.Kids = make([]*Tree, len(n.Kids))
		for i, k := range n.Kids {
			c.Kids[i] = r.rwE(k, n.RT.Elem(), "", optional, depth)
		}
		return &c
	}
	return n
}

func (r *rewriter) rwE(n *Tree, slot reflect.Type, slotDesc string, optional bool, depth int) *Tree {
	if n.Kind == KList {
		c := *n
		c.Kids = make([]*Tree, len(n.Kids))
		for i, k := range n.Kids {
			c.Kids[i] = r.rwE(k, n.RT.Elem(), slotDesc+"[]", optional, depth)
		}
		return &c
	}
	if n.Kind != KNode {
		return n
	}
	r.res.Attempts++
	env, ok := r.m.Match(r.p.Minus, n, r.init)
	if !ok && env != r.init {
		r.res.BoundThenFailed++
	}
	nested := false
	if !ok {
		// an instance by another choice inside a nested list?
		r.m.MatchAll(r.p.Minus, n, r.init, func(e *Env) bool { env, ok, nested = e, true, true; return true })
		if nested {
			r.res.NestedChoice++
		}
	}
	if ok {
		repl, err := r.instantiate(r.p.Plus, env, depth)
		if err != nil {
			if r.res.Err == nil {
				r.res.Err = err
			}
			return r.descendE(n, optional, depth)
		}
		replRT := rootType(repl)
		if replRT != nil && replRT.AssignableTo(slot) && wellTyped(repl) {
			if env != nil && env.Ambiguous {
				r.res.Ambiguous = true
			}
			if optional {
				r.res.Optional++
				return &Tree{Kind: KAlt, Kids: []*Tree{r.descendE(n, true, depth), repl}}
			}
			if r.quiet {
				return repl
			}
			idx := len(r.res.Sites)
			rc := *repl
			rc.Site = idx + 1
			rc.Orig = r.counterNeutral(func() *Tree { return r.descendE(n, true, depth) })
			r.res.Sites = append(r.res.Sites, Site{Index: idx, Slot: slotDesc, Node: n, Env: env, Repl: repl, Depth: depth, NestedChoice: nested})
			return &rc
		}
		r.res.Inadmissible++
	}
	return r.descendE(n, optional, depth)
}

// wellTyped reports whether every node of an instantiated tree fits the
// place it stands in: the static Go type of each field / list element accepts
// the node put there (a metavariable bound to a call cannot stand where the
// syntax only allows a name: obj.x with x := g()), and the operand lists of
// assignments and the name lists of value specs are not empty (an elision
// that stands for nothing cannot be their only element).
func wellTyped(t *Tree) bool {
	if t == nil {
		return true
	}
	switch t.Kind {
	case KAlt:
		for _, k := range t.Kids {
			if !wellTyped(k) {
				return false
			}
		}
		return true
	case KNode, KList:
		if t.Kind == KNode && t.RT != nil {
			switch t.RT.Elem().Name() {
			case "AssignStmt":
				for _, f := range []string{"Lhs", "Rhs"} {
					if l := t.Field(f); l != nil && l.Kind == KList && len(l.Kids) == 0 {
						return false
					}
				}
			case "ValueSpec":
				if l := t.Field("Names"); l != nil && l.Kind == KList && len(l.Kids) == 0 {
					return false
				}
			}
		}
		for i, k := range t.Kids {
			if k == nil {
				continue
			}
			if (k.Kind == KNode || k.Kind == KAlt) && t.RT != nil {
				if st := slotType(t, i); st != nil {
					if rt := rootType(k); rt != nil && !rt.AssignableTo(st) {
						return false
					}
				}
			}
			if !wellTyped(k) {
				return false
			}
		}
	}
	return true
}

func rootType(t *Tree) reflect.Type {
	for t != nil && t.Kind == KAlt && len(t.Kids) > 0 {
		t = t.Kids[len(t.Kids)-1]
	}
	if t == nil || t.Kind != KNode {
		return nil
	}
	return t.RT
}

// ---- statement patterns ----

func containerField(n *Tree) string {
	if n.Kind != KNode {
		return ""
	}
	switch n.RT {
	case blockStmtPtr:
		return "List"
	case caseClausePtr, commClausePtr:
		return "Body"
	}
	return ""
}

func (r *rewriter) descendS(n *Tree, optional bool, depth int) *Tree {
	switch n.Kind {
	case KNode:
		if isImportDecl(n) {
			return n
		}
		cf := containerField(n)
		c := *n
		c.Kids = make([]*Tree, len(n.Kids))
		for i, k := range n.Kids {
			if cf != "" && n.Names[i] == cf {
				c.Kids[i] = k // filled below
				continue
			}
			c.Kids[i] = r.descendS(k, optional, depth+1)
		}
		if cf == "" {
			return &c
		}
		return r.container(n, &c, cf, optional, depth)
	case KList:
		c := *n
		c.Kids = make([]*Tree, len(n.Kids))
		for i, k := range n.Kids {
			c.Kids[i] = r.descendS(k, optional, depth)
		}
		return &c
	}
	return n
}

const (
	leadID  = DotsPrefix + "LEAD"
	trailID = DotsPrefix + "TRAIL"
)

func dotsStmt(id string) *Tree {
	es := FromNode(&ast.ExprStmt{X: &ast.Ident{Name: id}})
	clearSrc(es)
	return es
}

func clearSrc(t *Tree) {
	Walk(t, func(n *Tree) bool { n.Src = nil; return true })
}

// wrapped returns the pattern statement list between implicit elisions.
func wrapped(stmts *Tree) []*Tree {
	out := []*Tree{dotsStmt(leadID)}
	out = append(out, stmts.Kids...)
	return append(out, dotsStmt(trailID))
}

// container handles one block / case clause / comm clause. c is the copy of
// n whose non-statement fields have been processed already.
func (r *rewriter) container(n, c *Tree, cf string, optional bool, depth int) *Tree {
	list := n.Field(cf)
	var elems []*Tree
	if list.Kind == KList {
		elems = list.Kids
	}
	listRT := stmtSliceType
	newElems, site := r.stmtRun(n, elems, optional, depth, true)
	var siteIdx = -1
	if site != nil {
		siteIdx = site.Index
	}
	out := c.SetField(cf, &Tree{Kind: KList, RT: listRT, Kids: newElems})
	if site != nil {
		// Orig: this container with nested places processed but its own
		// instance(s) left alone.
		origElems := make([]*Tree, len(elems))
		for i, e := range elems {
			e := e
			origElems[i] = r.counterNeutral(func() *Tree { return r.descendS(e, true, depth+1) })
		}
		out.Site = siteIdx + 1
		out.Orig = c.SetField(cf, &Tree{Kind: KList, RT: listRT, Kids: origElems})
		st := r.res.Sites[siteIdx]
		out.SpanField, out.SpanLo, out.SpanHi = cf, st.Start, st.Start+st.InstLen
		r.res.Sites[siteIdx].Repl = out
	}
	return out
}

// counterNeutral runs f without letting it change the result's counters
// (used for computing comparison aids).
func (r *rewriter) counterNeutral(f func() *Tree) *Tree {
	o, a, b, i := r.res.Optional, r.res.Attempts, r.res.BoundThenFailed, r.res.Inadmissible
	t := f()
	r.res.Optional, r.res.Attempts, r.res.BoundThenFailed, r.res.Inadmissible = o, a, b, i
	return t
}

// stmtRun rewrites the first instance in elems and offers the later ones as
// alternatives. nestedOpt says whether places nested in the elements are
// optional; first says whether elems starts at the container's beginning
// (only the container's first instance is mandatory).
func (r *rewriter) stmtRun(cont *Tree, elems []*Tree, nestedOpt bool, depth int, first bool) ([]*Tree, *Site) {
	plain := func(rr *rewriter) []*Tree {
		out := make([]*Tree, len(elems))
		for i, e := range elems {
			out[i] = rr.descendS(e, nestedOpt, depth+1)
		}
		return out
	}
	if len(elems) == 0 {
		return nil, nil
	}
	r.res.Attempts++
	env, ok := r.m.matchList(wrapped(r.p.Minus), elems, r.init)
	nested := false
	if !ok {
		r.m.matchListAll(wrapped(r.p.Minus), elems, 0, 0, r.init, func(e *Env) bool { env, ok, nested = e, true, true; return true })
		if nested {
			r.res.NestedChoice++
		}
	}
	if !ok {
		return plain(r), nil
	}
	lead, _ := env.Run(leadID)
	trail, _ := env.Run(trailID)
	start, end := len(lead), len(elems)-len(trail)
	inst, err := r.instantiateList(r.p.Plus, env, depth)
	if err != nil {
		if r.res.Err == nil {
			r.res.Err = err
		}
		return plain(r), nil
	}
	for _, st := range inst {
		if !wellTyped(st) {
			// the instantiated statements cannot be built (a call where only
			// a name may appear, an assignment without operands): the site is
			// left unchanged
			r.res.Inadmissible++
			return plain(r), nil
		}
	}
	if env != nil && env.Ambiguous {
		r.res.Ambiguous = true
	}
	build := func(rr *rewriter) []*Tree {
		var out []*Tree
		for _, e := range elems[:start] {
			out = append(out, rr.descendS(e, nestedOpt, depth+1))
		}
		out = append(out, inst...)
		if end <= 0 || end >= len(elems) {
			for _, e := range elems[end:] {
				out = append(out, rr.descendS(e, nestedOpt, depth+1))
			}
			return out
		}
		// Later instances in the same container: optional.
		rest, _ := rr.stmtRun(cont, elems[end:], nestedOpt, depth, false)
		return append(out, rest...)
	}
	optional := nestedOpt || !first
	if optional {
		r.res.Optional++
		q := *r
		q.quiet = true
		return []*Tree{{Kind: KAlt, Kids: []*Tree{
			{Kind: KList, RT: stmtSliceType, Kids: plain(r)},
			{Kind: KList, RT: stmtSliceType, Kids: build(&q)},
		}}}, nil
	}
	if r.quiet {
		return build(r), nil
	}
	idx := len(r.res.Sites)
	r.res.Sites = append(r.res.Sites, Site{Index: idx, Slot: cont.TypeName() + "." + containerField(cont), Node: cont, Env: env, Start: start, End: end, InstLen: len(inst), Depth: depth, NestedChoice: nested})
	out := build(r)
	return out, &r.res.Sites[idx]
}

// ---- instantiation ----

// opt processes a captured subtree that is reproduced inside a rewritten
// instance, in a place of static type slot: nested instances may or may not
// be rewritten.
func (r *rewriter) opt(t *Tree, slot reflect.Type, depth int) *Tree {
	if depth > 40 {
		return t
	}
	if r.p.Kind == PStmts {
		return r.descendS(t, true, depth+1)
	}
	if t.Kind == KNode {
		if slot == nil {
			slot = t.RT
		}
		return r.rwE(t, slot, "", true, depth+1)
	}
	return r.descendE(t, true, depth+1)
}

func (r *rewriter) instantiate(t *Tree, env *Env, depth int) (*Tree, error) {
	return r.inst(t, env, depth, nil)
}

func (r *rewriter) inst(t *Tree, env *Env, depth int, slot reflect.Type) (*Tree, error) {
	switch t.Kind {
	case KNode:
		if name, ok := t.IsIdent(); ok {
			if _, isHole := r.p.Spec.Holes[name]; isHole {
				b, ok := env.Binding(name)
				if !ok {
					return nil, fmt.Errorf("metavariable %q is used on the plus side but not bound on the minus side", name)
				}
				// C03: "a syntactically identical copy of the code that
				// metavariable stood for at that site" - instances nested in
				// the captured code are reproduced as they were matched, not
				// rewritten (unlike instances inside an elided run, below).
				return b, nil
			}
		}
		if id, ok := forDotsID(t); ok {
			fs, ok := env.ForStmt(id)
			if !ok {
				return nil, fmt.Errorf("for-elision %s has no partner", id)
			}
			body, err := r.inst(t.Field("Body"), env, depth, blockStmtPtr)
			if err != nil {
				return nil, err
			}
			hdr := *fs
			hdr.Kids = make([]*Tree, len(fs.Kids))
			for i, k := range fs.Kids {
				if fs.Names[i] == "Body" {
					hdr.Kids[i] = body
				} else {
					hdr.Kids[i] = r.opt(k, slotType(fs, i), depth)
				}
			}
			hdr.Src = nil
			return &hdr, nil
		}
		c := *t
		c.Src = nil
		c.Kids = make([]*Tree, len(t.Kids))
		for i, k := range t.Kids {
			x, err := r.inst(k, env, depth, slotType(t, i))
			if err != nil {
				return nil, err
			}
			c.Kids[i] = x
		}
		return &c, nil
	case KList:
		kids, err := r.instantiateList(t, env, depth)
		if err != nil {
			return nil, err
		}
		c := *t
		c.Kids = kids
		return &c, nil
	}
	return t, nil
}

func (r *rewriter) instantiateList(t *Tree, env *Env, depth int) ([]*Tree, error) {
	var elem reflect.Type
	if t.RT != nil && t.RT.Kind() == reflect.Slice {
		elem = t.RT.Elem()
	}
	var out []*Tree
	for _, k := range t.Kids {
		if id, ok := elemDotsID(k); ok {
			run, _ := env.Run(id)
			for _, e := range run {
				out = append(out, r.opt(e, elem, depth))
			}
			continue
		}
		x, err := r.inst(k, env, depth, elem)
		if err != nil {
			return nil, err
		}
		out = append(out, x)
	}
	return out, nil
}

// RelaxedMatchesAt reports whether node n itself (for statement patterns:
// the statement list of container n) would be an instance if the
// metavariable rules (kind, consistency) were dropped.
func (p *Pattern) RelaxedMatchesAt(n *Tree) bool {
	if n == nil || n.Kind != KNode {
		return false
	}
	m := &Matcher{Holes: p.Spec.Holes, Relaxed: true}
	if p.Kind == PStmts {
		if cf := containerField(n); cf != "" {
			if l := n.Field(cf); l.Kind == KList {
				_, ok := m.matchList(wrapped(p.Minus), l.Kids, nil)
				return ok
			}
		}
		return false
	}
	_, ok := m.Match(p.Minus, n, nil)
	return ok
}

// RelaxedFirstStart returns where the first instance of a statement pattern
// starts in container n when the metavariable rules are dropped.
func (p *Pattern) RelaxedFirstStart(n *Tree) (int, bool) {
	if p.Kind != PStmts || n == nil || n.Kind != KNode {
		return 0, false
	}
	cf := containerField(n)
	if cf == "" {
		return 0, false
	}
	l := n.Field(cf)
	if l.Kind != KList {
		return 0, false
	}
	m := &Matcher{Holes: p.Spec.Holes, Relaxed: true}
	env, ok := m.matchList(wrapped(p.Minus), l.Kids, nil)
	if !ok {
		return 0, false
	}
	lead, _ := env.Run(leadID)
	return len(lead), true
}
