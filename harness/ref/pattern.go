package ref

import (
	"fmt"
	"go/ast"
	"go/parser"
	"go/scanner"
	"go/token"
	"reflect"
)

// PKind is the kind of transformation a change describes.
type PKind string

const (
	PExpr  PKind = "expr"
	PStmts PKind = "stmts"
	PDecl  PKind = "decl"
)

// Import is one import line of a patch prologue.
type Import struct {
	Name string `json:"name,omitempty"` // "", a literal name (incl. "." and "_"), or a metavariable name
	Path string `json:"path"`
}

// Spec is a change in the form the reference consumes: the Go text of the
// two sides with elisions spelled DOTS__n (so that partners are identified
// by name, not by position), the metavariable table, and the prologue.
type Spec struct {
	Holes map[string]HoleKind `json:"holes"`
	Minus string              `json:"minus"`
	Plus  string              `json:"plus"`

	PkgMinus     string   `json:"pkg_minus,omitempty"`
	PkgPlus      string   `json:"pkg_plus,omitempty"`
	ImportsMinus []Import `json:"imports_minus,omitempty"`
	ImportsPlus  []Import `json:"imports_plus,omitempty"`
}

// Pattern is a parsed Spec.
type Pattern struct {
	Spec  *Spec
	Kind  PKind
	Minus *Tree // PExpr: expression node; PDecl: declaration node; PStmts: KList of statements
	Plus  *Tree
	// PlusKind differs from Kind only for ill-kinded patches.
	PlusKind PKind
}

// firstToken returns the first token of src.
func firstToken(src string) token.Token {
	fset := token.NewFileSet()
	f := fset.AddFile("p", -1, len(src))
	var s scanner.Scanner
	s.Init(f, []byte(src), nil, 0)
	_, tok, _ := s.Scan()
	return tok
}

// parseSide parses one side of a change the way the documentation describes
// it: a function, type, var or const declaration; or a list of statements
// (optionally wrapped in braces); a list consisting of one expression
// statement is an expression.
func parseSide(src string) (PKind, *Tree, error) {
	fset := token.NewFileSet()
	switch firstToken(src) {
	case token.FUNC, token.TYPE, token.VAR, token.CONST:
		f, err := parser.ParseFile(fset, "side.go", "package p\n"+src, parser.SkipObjectResolution)
		if err != nil {
			return "", nil, err
		}
		if len(f.Decls) != 1 {
			return "", nil, fmt.Errorf("expected exactly one declaration, found %d", len(f.Decls))
		}
		return PDecl, FromNode(f.Decls[0]), nil
	case token.EOF:
		return "", nil, fmt.Errorf("empty pattern")
	}
	wrapped := "package p\nfunc _() {\n" + src + "\n}"
	if firstToken(src) == token.LBRACE {
		wrapped = "package p\nfunc _() " + src
	}
	f, err := parser.ParseFile(fset, "side.go", wrapped, parser.SkipObjectResolution)
	if err != nil {
		return "", nil, err
	}
	if len(f.Decls) != 1 {
		return "", nil, fmt.Errorf("expected exactly one declaration, found %d", len(f.Decls))
	}
	body := f.Decls[0].(*ast.FuncDecl).Body
	if len(body.List) == 0 {
		return "", nil, fmt.Errorf("empty pattern")
	}
	if len(body.List) == 1 {
		if es, ok := body.List[0].(*ast.ExprStmt); ok {
			return PExpr, FromNode(es.X), nil
		}
	}
	return PStmts, FromNode(body).Field("List"), nil
}

var stmtSliceType = reflect.TypeOf([]ast.Stmt(nil))

// exprAsStmts turns an expression tree into a one-statement list.
func exprAsStmts(e *Tree) *Tree {
	es := FromNode(&ast.ExprStmt{X: &ast.Ident{Name: "x"}})
	es.Src = nil
	es = es.SetField("X", e)
	return &Tree{Kind: KList, RT: stmtSliceType, Kids: []*Tree{es}}
}

// ParseSpec parses both sides.
func ParseSpec(s *Spec) (*Pattern, error) {
	mk, mt, err := parseSide(s.Minus)
	if err != nil {
		return nil, fmt.Errorf("minus side: %w", err)
	}
	pk, pt, err := parseSide(s.Plus)
	if err != nil {
		return nil, fmt.Errorf("plus side: %w", err)
	}
	// A single expression statement facing a statement list is a statement.
	if mk == PExpr && pk == PStmts {
		mk, mt = PStmts, exprAsStmts(mt)
	} else if mk == PStmts && pk == PExpr {
		pk, pt = PStmts, exprAsStmts(pt)
	}
	return &Pattern{Spec: s, Kind: mk, Minus: mt, Plus: pt, PlusKind: pk}, nil
}

// DotsIDs lists the elision ids occurring in a tree, in source order.
func DotsIDs(t *Tree) []string {
	var ids []string
	Walk(t, func(n *Tree) bool {
		if id, ok := dotsID(n); ok {
			ids = append(ids, id)
			return false
		}
		return true
	})
	return ids
}

// HoleOccurrences counts the occurrences of each metavariable in a tree.
func (p *Pattern) HoleOccurrences(t *Tree) map[string]int {
	out := map[string]int{}
	Walk(t, func(n *Tree) bool {
		if name, ok := n.IsIdent(); ok {
			if _, isHole := p.Spec.Holes[name]; isHole {
				out[name]++
			}
		}
		return true
	})
	return out
}
