// Package ref is the reference model the engine-level checks compare gopatch
// against. It is written from the property statements and the user
// documentation (docs/PatchesInDepth.md), not from gopatch's engine: patterns
// and files are turned into canonical syntax trees ("the same syntax tree up
// to whitespace, comments and positions"), instance-ness is decided by a
// small backtracking matcher over those trees, and the expected output is
// built by instantiating the '+' tree with the captured bindings.
package ref

import (
	"fmt"
	"go/ast"
	"go/token"
	"reflect"
	"strings"
)

// Kind of a tree node.
type Kind uint8

const (
	KNil  Kind = iota // nil pointer / nil interface
	KNode             // pointer to an ast struct
	KList             // slice
	KLeaf             // scalar (string, token, bool, position validity, ...)
	KAlt              // expected-output only: any of the alternatives is acceptable
)

// Tree is a canonical syntax tree.
type Tree struct {
	Kind  Kind
	RT    reflect.Type // KNode: pointer type (*ast.CallExpr); KList: slice type; KLeaf: scalar type
	Leaf  string       // KLeaf: printed value; for positions "valid"/"invalid"
	Val   any          // KLeaf: the value itself (nil for positions)
	IsPos bool         // KLeaf holding a token.Pos (compared by validity)
	Names []string     // KNode: field names, parallel to Kids
	Kids  []*Tree      // KNode: fields; KList: elements; KAlt: alternatives
	Src   ast.Node     // the go/ast node this was built from, when there is one

	// Expected-output bookkeeping: Site is 1+index of the reference site this
	// subtree is the replacement of (0: none); Orig is what the output looks
	// like at this place if that site is left unrewritten.
	Site int
	Orig *Tree
	// For statement-container sites: the explicit instance occupies elements
	// [SpanLo, SpanHi) of the list stored in field SpanField; differences in
	// other elements are outside the instance.
	SpanField      string
	SpanLo, SpanHi int
}

var (
	commentGroupPtr = reflect.TypeOf((*ast.CommentGroup)(nil))
	objectPtr       = reflect.TypeOf((*ast.Object)(nil))
	scopePtr        = reflect.TypeOf((*ast.Scope)(nil))
	posType         = reflect.TypeOf(token.Pos(0))
	filePtr         = reflect.TypeOf((*ast.File)(nil))
	exprIface       = reflect.TypeOf((*ast.Expr)(nil)).Elem()
	identPtr        = reflect.TypeOf((*ast.Ident)(nil))
	nodeIface       = reflect.TypeOf((*ast.Node)(nil)).Elem()
)

// Fields of *ast.File that are not syntax (derived data, comments,
// positions of the file as a whole).
var fileSkip = map[string]bool{
	"Doc": true, "Package": true, "FileStart": true, "FileEnd": true, "Scope": true,
	"Imports": true, "Unresolved": true, "Comments": true, "GoVersion": true,
}

// FromNode converts a go/ast node into a canonical tree. Comments,
// Ident.Obj and scopes are dropped; every token.Pos becomes a validity leaf.
func FromNode(n ast.Node) *Tree {
	if n == nil {
		return &Tree{Kind: KNil}
	}
	return conv(reflect.ValueOf(n))
}

func conv(v reflect.Value) *Tree {
	switch v.Kind() {
	case reflect.Interface:
		if v.IsNil() {
			return &Tree{Kind: KNil, RT: v.Type()}
		}
		return conv(v.Elem())
	case reflect.Ptr:
		if v.IsNil() {
			return &Tree{Kind: KNil, RT: v.Type()}
		}
		st := v.Elem()
		if st.Kind() != reflect.Struct {
			return &Tree{Kind: KLeaf, RT: v.Type(), Leaf: fmt.Sprint(st.Interface())}
		}
		t := &Tree{Kind: KNode, RT: v.Type()}
		if n, ok := v.Interface().(ast.Node); ok {
			t.Src = n
		}
		isFile := v.Type() == filePtr
		typ := st.Type()
		for i := 0; i < typ.NumField(); i++ {
			f := typ.Field(i)
			if !f.IsExported() {
				continue
			}
			switch f.Type {
			case commentGroupPtr, objectPtr, scopePtr:
				continue
			}
			if isFile && fileSkip[f.Name] {
				continue
			}
			t.Names = append(t.Names, f.Name)
			t.Kids = append(t.Kids, conv(st.Field(i)))
		}
		if v.Type() == funcTypeNodePtr {
			canonResults(t)
		}
		return t
	case reflect.Slice:
		t := &Tree{Kind: KList, RT: v.Type()}
		for i := 0; i < v.Len(); i++ {
			t.Kids = append(t.Kids, conv(v.Index(i)))
		}
		return t
	default:
		if v.Type() == posType {
			l := "invalid"
			if v.Interface().(token.Pos).IsValid() {
				l = "valid"
			}
			return &Tree{Kind: KLeaf, RT: posType, Leaf: l, IsPos: true}
		}
		return &Tree{Kind: KLeaf, RT: v.Type(), Leaf: fmt.Sprint(v.Interface()), Val: v.Interface()}
	}
}

var (
	funcTypeNodePtr  = reflect.TypeOf((*ast.FuncType)(nil))
	fieldListNodePtr = reflect.TypeOf((*ast.FieldList)(nil))
	fieldSliceType   = reflect.TypeOf([]*ast.Field(nil))
)

// canonResults gives the result list of a function type one spelling: a
// list in parentheses, empty for a function without results. "func() T" and
// "func() (T)", "func()" and "func() ()" are the same lists of results.
func canonResults(ft *Tree) {
	valid := func() *Tree { return &Tree{Kind: KLeaf, RT: posType, Leaf: "valid", IsPos: true} }
	for i, name := range ft.Names {
		if name != "Results" {
			continue
		}
		res := ft.Kids[i]
		if res.Kind == KNil {
			ft.Kids[i] = &Tree{Kind: KNode, RT: fieldListNodePtr, Names: []string{"Opening", "List", "Closing"},
				Kids: []*Tree{valid(), {Kind: KList, RT: fieldSliceType}, valid()}}
			return
		}
		for j, fn := range res.Names {
			switch fn {
			case "Opening", "Closing":
				res.Kids[j] = valid()
			case "List":
				if res.Kids[j].Kind == KNil {
					res.Kids[j] = &Tree{Kind: KList, RT: fieldSliceType}
				}
			}
		}
	}
}

// Field returns the child stored under a field name of a KNode.
func (t *Tree) Field(name string) *Tree {
	for i, n := range t.Names {
		if n == name {
			return t.Kids[i]
		}
	}
	return nil
}

// SetField returns a shallow copy of t with one field replaced.
func (t *Tree) SetField(name string, v *Tree) *Tree {
	c := *t
	c.Kids = append([]*Tree(nil), t.Kids...)
	for i, n := range t.Names {
		if n == name {
			c.Kids[i] = v
		}
	}
	return &c
}

// TypeName is the short name of the node type ("CallExpr").
func (t *Tree) TypeName() string {
	if t == nil || t.RT == nil {
		return "nil"
	}
	s := t.RT.String()
	s = strings.TrimPrefix(s, "*")
	s = strings.TrimPrefix(s, "ast.")
	return s
}

// IsIdent reports whether t is an *ast.Ident node, and its name.
func (t *Tree) IsIdent() (string, bool) {
	if t == nil || t.Kind != KNode || t.RT != identPtr {
		return "", false
	}
	return t.Field("Name").Leaf, true
}

// IsExpr reports whether t is a non-nil node whose Go type implements ast.Expr.
func (t *Tree) IsExpr() bool {
	return t != nil && t.Kind == KNode && t.RT.Implements(exprIface)
}

// Mode selects which leaves are significant in a comparison.
type Mode int

const (
	// Exact compares every field, positions by validity: the definition of
	// "syntactically identical" used to decide instance-ness and binding
	// consistency.
	Exact Mode = iota
	// Output compares what survives a round trip through gofmt: only the
	// position validities that stand for tokens (call '...', alias '=',
	// declaration parentheses) are kept, ParenExpr nodes are looked through
	// and explicit empty statements are ignored. Used to compare gopatch's
	// output (which was printed and re-parsed) with the expected tree.
	Output
	// OutputParens is Output, except that parentheses count in one
	// direction: code may come back with more parentheses than expected
	// (gopatch and the printer add some to keep the meaning), but a
	// parenthesis that is expected and absent is a difference.
	OutputParens
	// OutputSites is OutputParens inside the reference's sites (and inside
	// alternatives, which hold optionally rewritten code); everywhere else
	// parentheses have to be exactly the expected ones: nothing outside a
	// rewritten fragment may gain or lose any.
	OutputSites
)

func (m Mode) output() bool { return m == Output || m == OutputParens || m == OutputSites }

// inside returns the mode that applies within a site or an alternative.
func (m Mode) inside() Mode {
	if m == OutputSites {
		return OutputParens
	}
	return m
}

// tokenPos lists the position fields whose validity stands for the presence
// of a token that no other field records.
var tokenPos = map[string]bool{
	"CallExpr.Ellipsis": true,
	"TypeSpec.Assign":   true,
	"GenDecl.Lparen":    true,
}

func posSignificant(parent *Tree, field string, m Mode) bool {
	if m == Exact {
		return true
	}
	return tokenPos[parent.TypeName()+"."+field]
}

var (
	parenPtr     = reflect.TypeOf((*ast.ParenExpr)(nil))
	emptyStmtPtr = reflect.TypeOf((*ast.EmptyStmt)(nil))
)

// strip looks through ParenExpr nodes in Output mode.
func strip(t *Tree, m Mode) *Tree {
	for m.output() && t != nil && t.Kind == KNode && t.RT == parenPtr {
		t = t.Field("X")
	}
	return t
}

func isParen(t *Tree) bool { return t != nil && t.Kind == KNode && t.RT == parenPtr }

func listElems(t *Tree, m Mode) []*Tree {
	if !m.output() {
		return t.Kids
	}
	var out []*Tree
	for _, k := range t.Kids {
		if k.Kind == KNode && k.RT == emptyStmtPtr {
			continue
		}
		out = append(out, k)
	}
	return out
}

// Equal compares two trees. want may contain KAlt nodes (any alternative
// may match); got must not.
func Equal(want, got *Tree, m Mode) bool {
	return diffPath(want, got, m, nil) == nil
}

// Diff returns a description of the first difference between want and got
// (path and both sides), or "" when they are equal.
func Diff(want, got *Tree, m Mode) string {
	d := diffPath(want, got, m, nil)
	if d == nil {
		return ""
	}
	return d.String()
}

// Difference describes where two trees differ.
type Difference struct {
	Path []string
	Want *Tree
	Got  *Tree
	Why  string
	// Site is 1+index of the innermost reference site whose replacement
	// contains the difference (0: the difference is outside all sites).
	Site int
	// Unrewritten is set when the output at that site equals the input.
	Unrewritten bool
	// GotNode is the innermost node of the got side that contains the
	// difference; SiteGot is the got subtree aligned with the site's root.
	GotNode *Tree
	SiteGot *Tree
	// WantChain lists the nodes of the want side that enclose the
	// difference, innermost first.
	WantChain []*Tree
	GotChain  []*Tree
	// Cont is 1+index of a statement-container site when the difference lies
	// in the container's statement list but outside the rewritten instance;
	// ContGot is the got-side container.
	Cont    int
	ContGot *Tree
}

func (d *Difference) String() string {
	return fmt.Sprintf("at %s: %s\n  want: %s\n  got:  %s", strings.Join(d.Path, "."), d.Why, Brief(d.Want), Brief(d.Got))
}

// FirstDifference is Diff with structure.
func FirstDifference(want, got *Tree, m Mode) *Difference { return diffPath(want, got, m, nil) }

func diffPath(want, got *Tree, m Mode, path []string) *Difference {
	if want != nil && want.Kind == KAlt {
		var first *Difference
		m = m.inside()
		for _, alt := range want.Kids {
			d := diffPath(alt, got, m, path)
			if d == nil {
				return nil
			}
			if first == nil {
				first = d
			}
		}
		return first
	}
	if m == OutputParens && isParen(want) && !isParen(got) && got != nil {
		return &Difference{Path: append([]string(nil), path...), Want: want, Got: got, Why: "expected parentheses are absent"}
	}
	if m == OutputSites && want != nil && got != nil && want.Kind != KAlt && want.Site == 0 && isParen(want) != isParen(got) {
		return &Difference{Path: append([]string(nil), path...), Want: want, Got: got, Why: "parentheses differ outside the rewritten fragments"}
	}
	want, got = strip(want, m), strip(got, m)
	if want != nil && want.Kind == KAlt {
		return diffPath(want, got, m, path)
	}
	if want != nil && want.Site != 0 {
		// Entering the replacement of a reference site.
		w2 := *want
		w2.Site, w2.Orig = 0, nil
		m = m.inside()
		d := diffPath(&w2, got, m, path)
		if d != nil && d.Site == 0 {
			if want.Orig != nil && diffPath(want.Orig, got, m, nil) == nil {
				d.Site = want.Site
				d.SiteGot = got
				d.Unrewritten = true
				d.Why = "reference site left as in the input"
				d.Want, d.Got = &w2, got
				d.Path = append([]string(nil), path...)
				return d
			}
			inSpan := true
			if want.SpanField != "" {
				rel := d.Path[len(path):]
				if len(rel) >= 2 && rel[0] == want.TypeName()+"."+want.SpanField {
					var idx int
					if _, err := fmt.Sscanf(rel[1], "[%d]", &idx); err == nil && (idx < want.SpanLo || idx >= want.SpanHi) {
						inSpan = false
					}
				}
			}
			if inSpan {
				d.Site = want.Site
				d.SiteGot = got
			} else if d.Cont == 0 {
				// Only differences in the list elements themselves count as
				// "around the instance"; a difference inside a container
				// nested in an element belongs to that container.
				nested := false
				for _, e := range d.Path[len(path)+2:] {
					if e == "BlockStmt.List" || e == "CaseClause.Body" || e == "CommClause.Body" {
						nested = true
					}
				}
				if !nested {
					d.Cont = want.Site
					d.ContGot = got
				}
			}
		}
		return d
	}
	mk := func(why string) *Difference {
		d := &Difference{Path: append([]string(nil), path...), Want: want, Got: got, Why: why}
		if got != nil && got.Kind == KNode {
			d.GotNode = got
		}
		return d
	}
	if want == nil || got == nil {
		if want == got {
			return nil
		}
		return mk("missing tree")
	}
	if want.Kind != got.Kind {
		// nil slice vs empty list
		if (want.Kind == KNil && got.Kind == KList && len(listElems(got, m)) == 0) ||
			(got.Kind == KNil && want.Kind == KList && len(listElems(want, m)) == 0) {
			return nil
		}
		// "func f() ()" is printed as "func f()": an empty result list and
		// no result list are the same output.
		if m.output() && len(path) > 0 && path[len(path)-1] == "FuncType.Results" {
			if (want.Kind == KNil && emptyFieldList(got)) || (got.Kind == KNil && emptyFieldList(want)) {
				return nil
			}
		}
		return mk("different kind of node")
	}
	switch want.Kind {
	case KNil:
		return nil
	case KLeaf:
		if want.RT != got.RT || want.Leaf != got.Leaf {
			return mk("different value")
		}
		return nil
	case KNode:
		if want.RT != got.RT {
			return mk("different node type")
		}
		for i, name := range want.Names {
			wk, gk := want.Kids[i], got.Kids[i]
			if wk.Kind == KLeaf && wk.IsPos {
				if !posSignificant(want, name, m) {
					continue
				}
			}
			if d := diffPath(wk, gk, m, append(path, want.TypeName()+"."+name)); d != nil {
				if d.GotNode == nil {
					d.GotNode = got
				}
				d.WantChain = append(d.WantChain, want)
				d.GotChain = append(d.GotChain, got)
				return d
			}
		}
		return nil
	case KList:
		we, ge := listElems(want, m), listElems(got, m)
		// An expected list element may itself be an alternative between
		// different *runs* of elements (KAlt of KList); expand those.
		if hasListAlt(we) {
			return diffListAlt(want, got, we, ge, m, path)
		}
		if len(we) != len(ge) {
			return mk(fmt.Sprintf("list length %d, expected %d", len(ge), len(we)))
		}
		for i := range we {
			if d := diffPath(we[i], ge[i], m, append(path, fmt.Sprintf("[%d]", i))); d != nil {
				return d
			}
		}
		return nil
	}
	return mk("unknown kind")
}

func emptyFieldList(t *Tree) bool {
	if t == nil || t.Kind != KNode || t.TypeName() != "FieldList" {
		return false
	}
	l := t.Field("List")
	return l == nil || l.Kind == KNil || (l.Kind == KList && len(l.Kids) == 0)
}

// hasListAlt reports whether a list contains a KAlt whose alternatives are
// lists (standing for alternative runs spliced into the enclosing list).
func hasListAlt(elems []*Tree) bool {
	for _, e := range elems {
		if e.Kind == KAlt && len(e.Kids) > 0 && e.Kids[0].Kind == KList {
			return true
		}
	}
	return false
}

func diffListAlt(want, got *Tree, we, ge []*Tree, m Mode, path []string) *Difference {
	// Find the first run-alternative and try each expansion.
	for i, e := range we {
		if e.Kind == KAlt && len(e.Kids) > 0 && e.Kids[0].Kind == KList {
			var first *Difference
			for _, alt := range e.Kids {
				exp := &Tree{Kind: KList, RT: want.RT}
				exp.Kids = append(exp.Kids, we[:i]...)
				exp.Kids = append(exp.Kids, alt.Kids...)
				exp.Kids = append(exp.Kids, we[i+1:]...)
				d := diffPath(exp, &Tree{Kind: KList, RT: got.RT, Kids: ge}, m, path)
				if d == nil {
					return nil
				}
				if first == nil {
					first = d
				}
			}
			return first
		}
	}
	return nil
}

// Brief renders a tree compactly for messages.
func Brief(t *Tree) string {
	var b strings.Builder
	brief(&b, t, 0)
	s := b.String()
	if len(s) > 400 {
		s = s[:400] + "…"
	}
	return s
}

func brief(b *strings.Builder, t *Tree, depth int) {
	if b.Len() > 500 {
		return
	}
	if t == nil {
		b.WriteString("<none>")
		return
	}
	switch t.Kind {
	case KNil:
		b.WriteString("nil")
	case KLeaf:
		b.WriteString(t.Leaf)
	case KAlt:
		b.WriteString("alt(")
		for i, k := range t.Kids {
			if i > 0 {
				b.WriteString(" | ")
			}
			brief(b, k, depth+1)
		}
		b.WriteString(")")
	case KList:
		b.WriteString("[")
		for i, k := range t.Kids {
			if i > 0 {
				b.WriteString(", ")
			}
			brief(b, k, depth+1)
		}
		b.WriteString("]")
	case KNode:
		b.WriteString(t.TypeName())
		b.WriteString("{")
		first := true
		for i, k := range t.Kids {
			if k.Kind == KNil || (k.Kind == KLeaf && k.IsPos) || (k.Kind == KList && len(k.Kids) == 0) {
				continue
			}
			if !first {
				b.WriteString(" ")
			}
			first = false
			b.WriteString(t.Names[i])
			b.WriteString(":")
			brief(b, k, depth+1)
		}
		b.WriteString("}")
	}
}

// Walk calls f for every tree node in pre-order with its path; f returns
// false to skip the node's children.
func Walk(t *Tree, f func(t *Tree) bool) {
	if t == nil {
		return
	}
	if !f(t) {
		return
	}
	for _, k := range t.Kids {
		Walk(k, f)
	}
}

// Contains reports whether some node of t satisfies pred.
func Contains(t *Tree, pred func(*Tree) bool) bool {
	found := false
	Walk(t, func(n *Tree) bool {
		if found {
			return false
		}
		if pred(n) {
			found = true
			return false
		}
		return true
	})
	return found
}

// ContainsIdent reports whether an identifier with one of the given name
// prefixes occurs in t.
func ContainsIdentPrefix(t *Tree, prefix string) bool {
	return Contains(t, func(n *Tree) bool {
		if name, ok := n.IsIdent(); ok && strings.HasPrefix(name, prefix) {
			return true
		}
		// marker literals
		if n.Kind == KNode && n.TypeName() == "BasicLit" {
			if v := n.Field("Value"); v != nil && strings.Contains(v.Leaf, prefix) {
				return true
			}
		}
		return false
	})
}

// CountIdentPrefix counts identifiers (and string literals) carrying prefix.
func CountIdentPrefix(t *Tree, prefix string) int {
	n := 0
	Walk(t, func(x *Tree) bool {
		if x.Kind == KAlt {
			return false
		}
		if name, ok := x.IsIdent(); ok && strings.HasPrefix(name, prefix) {
			n++
		}
		if x.Kind == KNode && x.TypeName() == "BasicLit" {
			if v := x.Field("Value"); v != nil && strings.Contains(v.Leaf, prefix) {
				n++
			}
		}
		return true
	})
	return n
}
