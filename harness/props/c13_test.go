package props

import (
	"fmt"
	"go/scanner"
	"go/token"
	"os"
	"path/filepath"
	"sort"
	"strings"
	"testing"

	"github.com/uber-go/gopatch/verif/evid"
	"github.com/uber-go/gopatch/verif/gen"
	"github.com/uber-go/gopatch/verif/ref"
	"github.com/uber-go/gopatch/verif/run"
	"pgregory.net/rapid"
)

// C13 — a patch means the same however it is laid out.
//
// A base patch (one or two mined changes) is re-laid-out by a drawn
// composition of meaning-preserving transformations; base and variant must
// both be rejected, or give syntactically identical results on the file.

type c13Line struct {
	Op   byte   `json:"op"` // ' ', '-', '+', or 0 for a raw line (comment / blank) that belongs to no side
	Text string `json:"text"`
}

type c13Change struct {
	Desc  []string          `json:"desc,omitempty"`  // '#' lines directly above the header
	Name  string            `json:"name,omitempty"`  // "" for @@
	Holes map[string]string `json:"holes,omitempty"` // metavariable -> type
	Body  []c13Line         `json:"body"`
}

type c13Case struct {
	Changes []c13Change `json:"changes"`
	File    string      `json:"file"`
	// Variant is the re-laid-out patch text; Base is the plain rendering.
	Base    string   `json:"base"`
	Variant string   `json:"variant"`
	Ops     []string `json:"ops"`
	CLI     bool     `json:"cli"`
	// VariantDesc[i] is the description the variant gives change i.
	VariantDesc [][]string `json:"variant_desc,omitempty"`
}

// c13FromPatch splits the patch text of one generated change.
func c13FromPatch(patch string, holes map[string]ref.HoleKind) c13Change {
	lines := strings.Split(strings.TrimRight(patch, "\n"), "\n")
	ch := c13Change{Holes: map[string]string{}}
	for k, v := range holes {
		ch.Holes[k] = string(v)
	}
	at := 0
	i := 0
	for ; i < len(lines); i++ {
		l := lines[i]
		if strings.HasPrefix(l, "@") {
			at++
			if at == 1 && l != "@@" {
				ch.Name = strings.TrimSpace(strings.Trim(l, "@"))
			}
			if at == 2 {
				i++
				break
			}
			continue
		}
		if at == 0 && strings.HasPrefix(strings.TrimSpace(l), "#") {
			ch.Desc = append(ch.Desc, strings.TrimSpace(strings.TrimSpace(l)[1:]))
		}
	}
	for ; i < len(lines); i++ {
		l := lines[i]
		if l == "" {
			ch.Body = append(ch.Body, c13Line{Op: ' ', Text: ""})
			continue
		}
		switch l[0] {
		case '-', '+', ' ':
			ch.Body = append(ch.Body, c13Line{Op: l[0], Text: l[1:]})
		default:
			ch.Body = append(ch.Body, c13Line{Op: ' ', Text: l})
		}
	}
	return ch
}

type c13Layout struct {
	MetaStyle   int // 0 grouped by type, 1 one per line, 2 ';'-separated on one line, 3 reversed order
	NameIt      bool
	SameName    bool // the name given is the same for every change ("cleanup")
	CommentsTop []string // '#' lines separated from the header by a blank line (not a description)
	BlankTop    int      // blank lines before the first header
	Desc        []string // description lines directly above the header (nil: keep the base's)
	KeepDesc    bool
	MetaNoise   []int // positions (by declaration index) after which a '#' or blank line is inserted
	BodyNoise   []int // body line indexes before which a '#' line is inserted
	BodyBlank   []int // body line indexes before which a blank line is inserted (only between statements: after lines ending in ';' '{' '}' or before any line — blank lines are harmless in Go)
	Trailing    int   // trailing blank / comment lines
	Rename      map[string]string
	Indent      string // extra indentation for body lines
	SplitCommas bool   // wrap after every comma (all lines)
	JoinLines   bool   // join context lines ending in ',' or '(' with the following context line
	ExpandCtx   []int  // context line indexes written as an identical -/+ pair
	CollapseEq  bool   // identical adjacent -/+ pairs written once as context
	Respace     int    // 0: as is; n>0: n blanks between every two tokens of a body line (leading indentation kept)
	NoFinalLF   bool   // the patch file does not end in a line feed
	DescIndent  string // white space in front of the '#' of description lines
	SplitCommon bool   // "-foo(REST" "+bar(REST" written as "-foo(" "+bar(" " REST": the common tail becomes a context line
}

// c13RespaceLine puts n blanks between every two Go tokens of a line (no
// line break is added or removed, so no semicolon appears or disappears).
// A line that does not scan cleanly is returned unchanged.
func c13RespaceLine(text string, n int) string {
	if n <= 0 || strings.TrimSpace(text) == "" {
		return text
	}
	fset := token.NewFileSet()
	f := fset.AddFile("l", -1, len(text))
	var s scanner.Scanner
	bad := false
	s.Init(f, []byte(text), func(token.Position, string) { bad = true }, 0)
	type tk struct{ off, end int }
	var toks []tk
	for {
		pos, tok, lit := s.Scan()
		if tok == token.EOF {
			break
		}
		if tok == token.SEMICOLON && lit == "\n" {
			continue
		}
		off := f.Offset(pos)
		l := len(lit)
		if lit == "" || !(tok.IsLiteral() || tok == token.IDENT || tok == token.SEMICOLON || tok.IsKeyword()) {
			if lit == "" {
				l = len(tok.String())
			}
		}
		toks = append(toks, tk{off, off + l})
	}
	if bad || len(toks) < 2 {
		return text
	}
	var b strings.Builder
	b.WriteString(text[:toks[0].off])
	for i, t := range toks {
		if t.end > len(text) || t.off > t.end {
			return text
		}
		if i > 0 {
			b.WriteString(strings.Repeat(" ", n))
		}
		b.WriteString(text[t.off:t.end])
	}
	return b.String()
}

func c13ScanRename(text string, ren map[string]string) string {
	if len(ren) == 0 {
		return text
	}
	fset := token.NewFileSet()
	f := fset.AddFile("l", -1, len(text))
	var s scanner.Scanner
	s.Init(f, []byte(text), func(token.Position, string) {}, 0)
	var b strings.Builder
	last := 0
	for {
		pos, tok, lit := s.Scan()
		if tok == token.EOF {
			break
		}
		if tok == token.IDENT {
			if to, ok := ren[lit]; ok {
				off := f.Offset(pos)
				b.WriteString(text[last:off])
				b.WriteString(to)
				last = off + len(lit)
			}
		}
	}
	b.WriteString(text[last:])
	return b.String()
}

// c13SplitCommas breaks a line after every comma token that is followed by
// more tokens on the line.
func c13SplitCommas(text string) []string {
	fset := token.NewFileSet()
	f := fset.AddFile("l", -1, len(text))
	var s scanner.Scanner
	bad := false
	s.Init(f, []byte(text), func(token.Position, string) { bad = true }, 0)
	var cuts []int
	for {
		pos, tok, _ := s.Scan()
		if tok == token.EOF {
			break
		}
		if tok == token.COMMA {
			cuts = append(cuts, f.Offset(pos)+1)
		}
	}
	if bad || len(cuts) == 0 {
		return []string{text}
	}
	var out []string
	last := 0
	for _, c := range cuts {
		if strings.TrimSpace(text[c:]) == "" {
			break
		}
		out = append(out, text[last:c])
		last = c
	}
	out = append(out, text[last:])
	return out
}

func c13HasDots(s string) bool { return strings.Contains(s, "...") }

// c13Render renders the changes with a layout (one layout per change).
func c13Render(changes []c13Change, layouts []c13Layout) (string, [][]string) {
	var b strings.Builder
	var descs [][]string
	for ci, ch := range changes {
		lo := layouts[ci]
		if ci == 0 {
			for i := 0; i < lo.BlankTop; i++ {
				b.WriteString("\n")
			}
		} else {
			b.WriteString("\n")
		}
		for _, c := range lo.CommentsTop {
			b.WriteString("# " + c + "\n")
		}
		if len(lo.CommentsTop) > 0 {
			b.WriteString("\n") // detaches them from the header
		}
		desc := ch.Desc
		if !lo.KeepDesc {
			desc = lo.Desc
		}
		for _, d := range desc {
			b.WriteString(lo.DescIndent + "# " + d + "\n")
		}
		descs = append(descs, desc)
		name := ch.Name
		if lo.NameIt && name == "" {
			name = fmt.Sprintf("change_%d", ci)
			if lo.SameName {
				name = "cleanup"
			}
		}
		if name != "" {
			b.WriteString("@ " + name + " @\n")
		} else {
			b.WriteString("@@\n")
		}
		// metavariables
		ren := lo.Rename
		rn := func(n string) string {
			if to, ok := ren[n]; ok {
				return to
			}
			return n
		}
		var names []string
		for n := range ch.Holes {
			names = append(names, n)
		}
		sort.Strings(names)
		var decls []string
		switch lo.MetaStyle {
		case 0: // grouped by type
			byType := map[string][]string{}
			for _, n := range names {
				byType[ch.Holes[n]] = append(byType[ch.Holes[n]], rn(n))
			}
			for _, t := range []string{"identifier", "expression"} {
				if len(byType[t]) > 0 {
					decls = append(decls, "var "+strings.Join(byType[t], ", ")+" "+t)
				}
			}
		case 3: // reversed, one per line
			for i := len(names) - 1; i >= 0; i-- {
				decls = append(decls, "var "+rn(names[i])+" "+ch.Holes[names[i]])
			}
		default:
			for _, n := range names {
				decls = append(decls, "var "+rn(n)+" "+ch.Holes[n])
			}
		}
		if lo.MetaStyle == 2 && len(decls) > 0 {
			decls = []string{strings.Join(decls, "; ")}
		}
		noise := map[int]bool{}
		for _, i := range lo.MetaNoise {
			noise[i] = true
		}
		if noise[-1] {
			b.WriteString("# before the declarations\n")
		}
		for i, d := range decls {
			b.WriteString(d + "\n")
			if noise[i] {
				if i%2 == 0 {
					b.WriteString("  # between declarations\n")
				} else {
					b.WriteString("\n")
				}
			}
		}
		b.WriteString("@@\n")
		// body
		body := ch.Body
		if lo.CollapseEq {
			var nb []c13Line
			for i := 0; i < len(body); i++ {
				if i+1 < len(body) && body[i].Op == '-' && body[i+1].Op == '+' && body[i].Text == body[i+1].Text && !c13HasDots(body[i].Text) &&
					(i == 0 || body[i-1].Op != '-') && (i+2 >= len(body) || body[i+2].Op != '+') {
					nb = append(nb, c13Line{Op: ' ', Text: body[i].Text})
					i++
					continue
				}
				nb = append(nb, body[i])
			}
			body = nb
		}
		if lo.SplitCommon {
			var nb []c13Line
			for i := 0; i < len(body); i++ {
				if i+1 < len(body) && body[i].Op == '-' && body[i+1].Op == '+' && (i == 0 || body[i-1].Op != '-') && (i+2 >= len(body) || body[i+2].Op != '+') {
					m, p := body[i].Text, body[i+1].Text
					mi, pi := strings.IndexAny(m, "({"), strings.IndexAny(p, "({")
					if mi >= 0 && pi >= 0 && m[mi] == p[pi] && m[mi+1:] == p[pi+1:] && strings.TrimSpace(m[mi+1:]) != "" && m[:mi] != p[:pi] {
						nb = append(nb, c13Line{Op: '-', Text: m[:mi+1]}, c13Line{Op: '+', Text: p[:pi+1]}, c13Line{Op: ' ', Text: "  " + m[mi+1:]})
						i++
						continue
					}
				}
				nb = append(nb, body[i])
			}
			body = nb
		}
		expand := map[int]bool{}
		for _, i := range lo.ExpandCtx {
			expand[i] = true
		}
		if lo.JoinLines {
			var nb []c13Line
			for i := 0; i < len(body); i++ {
				l := body[i]
				for l.Op == ' ' && i+1 < len(body) && body[i+1].Op == ' ' && !expand[i] && !expand[i+1] {
					t := strings.TrimRight(l.Text, " \t")
					if !(strings.HasSuffix(t, ",") || strings.HasSuffix(t, "(")) || strings.TrimSpace(body[i+1].Text) == "" {
						break
					}
					l.Text = t + " " + strings.TrimLeft(body[i+1].Text, " \t")
					i++
				}
				nb = append(nb, l)
			}
			body = nb
			expand = map[int]bool{}
		}
		bnoise, bblank := map[int]bool{}, map[int]bool{}
		for _, i := range lo.BodyNoise {
			bnoise[i] = true
		}
		for _, i := range lo.BodyBlank {
			bblank[i] = true
		}
		for i, l := range body {
			if bnoise[i] {
				b.WriteString("# a remark inside the diff\n")
			}
			if bblank[i] {
				b.WriteString("\n")
			}
			text := c13RespaceLine(c13ScanRename(l.Text, ren), lo.Respace)
			parts := []string{text}
			if lo.SplitCommas {
				parts = c13SplitCommas(text)
			}
			write := func(op byte) {
				for k, p := range parts {
					if k > 0 {
						p = strings.TrimLeft(p, " ")
					}
					if strings.TrimSpace(p) == "" && op == ' ' {
						b.WriteString("\n")
						continue
					}
					b.WriteByte(op)
					b.WriteString(lo.Indent + p + "\n")
				}
			}
			if l.Op == ' ' && expand[i] && !c13HasDots(l.Text) && strings.TrimSpace(l.Text) != "" {
				write('-')
				write('+')
			} else {
				write(l.Op)
			}
		}
		for i := 0; i < lo.Trailing; i++ {
			if i%2 == 0 {
				b.WriteString("\n")
			} else {
				b.WriteString("# trailing remark\n")
			}
		}
	}
	out := b.String()
	if len(layouts) > 0 && layouts[len(layouts)-1].NoFinalLF && layouts[len(layouts)-1].Trailing == 0 {
		out = strings.TrimSuffix(out, "\n")
	}
	return out, descs
}

func c13DrawLayout(rt *rapid.T, ch c13Change, idx int, ops map[string]bool) c13Layout {
	lo := c13Layout{KeepDesc: true}
	l := func(s string) string { return fmt.Sprintf("c%d_%s", idx, s) }
	if rapid.IntRange(0, 2).Draw(rt, l("meta")) > 0 && len(ch.Holes) > 0 {
		lo.MetaStyle = rapid.IntRange(1, 3).Draw(rt, l("metaStyle"))
		ops["regroup-metavars"] = true
	}
	if rapid.IntRange(0, 2).Draw(rt, l("name")) == 0 {
		lo.NameIt = true
		lo.SameName = rapid.IntRange(0, 2).Draw(rt, l("sameName")) == 0
		ops["name-change"] = true
	}
	if rapid.IntRange(0, 2).Draw(rt, l("topc")) == 0 {
		lo.CommentsTop = []string{"a remark that is not a description", "second line"}
		ops["comment-lines"] = true
	}
	if idx == 0 && rapid.IntRange(0, 4).Draw(rt, l("blanktop")) == 0 {
		lo.BlankTop = rapid.IntRange(1, 2).Draw(rt, l("blanktopN"))
		ops["blank-lines"] = true
	}
	if rapid.IntRange(0, 2).Draw(rt, l("desc")) == 0 {
		lo.KeepDesc = false
		lo.Desc = []string{fmt.Sprintf("Description of change %d.", idx), "It has two lines."}
		ops["description"] = true
	}
	if len(ch.Holes) > 0 && rapid.IntRange(0, 2).Draw(rt, l("metanoise")) == 0 {
		n := rapid.IntRange(1, 2).Draw(rt, l("metanoiseN"))
		for i := 0; i < n; i++ {
			lo.MetaNoise = append(lo.MetaNoise, rapid.IntRange(-1, len(ch.Holes)-1).Draw(rt, l(fmt.Sprintf("mn%d", i))))
		}
		ops["comment-lines"] = true
	}
	if rapid.IntRange(0, 1).Draw(rt, l("bodynoise")) == 0 {
		n := rapid.IntRange(1, 3).Draw(rt, l("bodynoiseN"))
		for i := 0; i < n; i++ {
			lo.BodyNoise = append(lo.BodyNoise, rapid.IntRange(0, len(ch.Body)-1).Draw(rt, l(fmt.Sprintf("bn%d", i))))
		}
		ops["comment-lines"] = true
	}
	if rapid.IntRange(0, 2).Draw(rt, l("bodyblank")) == 0 {
		lo.BodyBlank = append(lo.BodyBlank, rapid.IntRange(0, len(ch.Body)-1).Draw(rt, l("bb")))
		ops["blank-lines"] = true
	}
	if rapid.IntRange(0, 2).Draw(rt, l("trail")) == 0 {
		lo.Trailing = rapid.IntRange(1, 3).Draw(rt, l("trailN"))
		ops["blank-lines"] = true
	}
	if rapid.IntRange(0, 2).Draw(rt, l("respace")) == 0 {
		lo.Respace = rapid.IntRange(1, 3).Draw(rt, l("respaceN"))
		ops["respace-tokens"] = true
	}
	if len(ch.Holes) > 0 && rapid.IntRange(0, 1).Draw(rt, l("rename")) == 0 {
		lo.Rename = map[string]string{}
		i := 0
		var names []string
		for n := range ch.Holes {
			names = append(names, n)
		}
		sort.Strings(names)
		for _, n := range names {
			// (names that end in "line", in "var" ...: a name is a name)
			lo.Rename[n] = fmt.Sprintf("Zq%dmeta%d%s", idx, i, []string{"", "", "line", "pipeline", "var", "expression"}[(idx+i+len(n))%6])
			i++
		}
		ops["rename-metavars"] = true
	}
	switch rapid.IntRange(0, 4).Draw(rt, l("space")) {
	case 0:
		lo.Indent = "    "
		ops["re-space"] = true
	case 1:
		lo.Indent = "\t\t"
		ops["re-space"] = true
	case 2:
		lo.SplitCommas = true
		ops["re-wrap"] = true
	case 3:
		lo.JoinLines = true
		ops["re-wrap"] = true
	}
	if rapid.IntRange(0, 2).Draw(rt, l("expand")) == 0 {
		n := rapid.IntRange(1, 2).Draw(rt, l("expandN"))
		for i := 0; i < n; i++ {
			lo.ExpandCtx = append(lo.ExpandCtx, rapid.IntRange(0, len(ch.Body)-1).Draw(rt, l(fmt.Sprintf("ex%d", i))))
		}
		ops["context-as-pair"] = true
	}
	if rapid.IntRange(0, 3).Draw(rt, l("collapse")) == 0 {
		lo.CollapseEq = true
		ops["pair-as-context"] = true
	}
	if rapid.IntRange(0, 4).Draw(rt, l("noFinalLF")) == 0 {
		lo.NoFinalLF = true
		ops["no-final-line-feed"] = true
	}
	if rapid.IntRange(0, 3).Draw(rt, l("descIndent")) == 0 {
		lo.DescIndent = rapid.SampledFrom([]string{"  ", "\t", " "}).Draw(rt, l("descIndentBy"))
		ops["indent-description"] = true
	}
	if rapid.IntRange(0, 2).Draw(rt, l("splitCommon")) == 0 {
		lo.SplitCommon = true
		ops["common-tail-as-context"] = true
	}
	return lo
}

// c13RawStringOnContextLines reports whether a raw string of the patch body
// is continued on a context line (a line with a blank as its prefix).
func c13RawStringOnContextLines(patch string) bool {
	inBody, inRaw := false, false
	ats := 0
	for _, l := range strings.Split(patch, "\n") {
		if strings.HasPrefix(l, "@") {
			ats++
			inBody = ats%2 == 0
			inRaw = false
			continue
		}
		if !inBody || strings.HasPrefix(strings.TrimSpace(l), "#") && !inRaw {
			continue
		}
		if inRaw && strings.HasPrefix(l, " ") {
			return true
		}
		if strings.Count(l, "`")%2 == 1 {
			inRaw = !inRaw
		}
	}
	return false
}

func evalC13(cs *c13Case) (sig, msg string, changed bool) {
	rb := run.API("p.patch", []byte(cs.Base), "f.go", []byte(cs.File))
	rv := run.API("p.patch", []byte(cs.Variant), "f.go", []byte(cs.File))
	if rb.Failed() || rv.Failed() {
		return "", "foreign:C08", false
	}
	be, ve := rb.ParseErr+rb.ApplyErr, rv.ParseErr+rv.ApplyErr
	show := func() string {
		return fmt.Sprintf("transformations: %v\n--- base patch ---\n%s--- variant patch ---\n%s", cs.Ops, cs.Base, cs.Variant)
	}
	switch {
	case be != "" && ve != "":
		return "", "", false
	case be == "" && ve != "":
		class := "variant-rejected"
		if strings.HasPrefix(cs.Variant, "\n") && strings.Contains(ve, `unexpected ""`) {
			class = "variant-rejected:blank-line-before-first-header"
		}
		return class, fmt.Sprintf("the base patch is accepted, the re-laid-out variant is rejected: %s\n%s", ve, show()), false
	case be != "" && ve == "":
		return "base-rejected-variant-accepted", fmt.Sprintf("the base patch is rejected (%s), the variant is accepted\n%s", be, show()), false
	}
	bt, err1 := parseTree(rb.Out)
	vt, err2 := parseTree(rv.Out)
	if err1 != nil || err2 != nil {
		return "", "foreign:C07", false
	}
	changed = string(rb.Out) != cs.File
	if d := ref.FirstDifference(bt, vt, ref.Output); d != nil {
		if c13RawStringOnContextLines(cs.Base) || c13RawStringOnContextLines(cs.Variant) {
			return "results-differ:raw-string-continued-on-a-context-line", fmt.Sprintf("base and variant give different results: %s\n%s\nfile:\n%s", d.String(), show(), trunc(cs.File, 1500)), changed
		}
		return "results-differ", fmt.Sprintf("base and variant give different results: %s\n%s\nfile:\n%s", d.String(), show(), trunc(cs.File, 1500)), changed
	}
	if cs.CLI && changed {
		if s, m := c13CLI(cs); s != "" {
			return s, m + "\n" + show(), changed
		}
	}
	return "", "", changed
}

// c13CLI checks the descriptions printed for the variant: exactly the '#'
// lines directly above the header of the (last) change that applied.
func c13CLI(cs *c13Case) (sig, msg string) {
	dir, cleanup := run.TempDir("c13-")
	defer cleanup()
	if os.WriteFile(filepath.Join(dir, "p.patch"), []byte(cs.Variant), 0o644) != nil || os.WriteFile(filepath.Join(dir, "f.go"), []byte(cs.File), 0o644) != nil {
		return "", ""
	}
	r := run.CLI(dir, nil, "-p", "p.patch", "--print-only", "f.go")
	if r.StartErr != "" || r.TimedOut || r.Crashed() || r.Exit != 0 {
		return "", ""
	}
	var got []string
	for _, l := range strings.Split(strings.TrimRight(string(r.Stderr), "\n"), "\n") {
		if l == "" {
			continue
		}
		if !strings.HasPrefix(l, "f.go:") {
			return "cli-stderr-noise", fmt.Sprintf("unexpected stderr line %q", l)
		}
		got = append(got, strings.TrimPrefix(l, "f.go:"))
	}
	// Which changes applied is not known here without the reference; accept
	// the description of any single change, but nothing else (in particular
	// no remark that is not directly above a header).
	for _, d := range cs.VariantDesc {
		if strings.Join(d, "\n") == strings.Join(got, "\n") {
			return "", ""
		}
	}
	if len(got) == 0 {
		return "", "" // the change that applied has no description... only if one of them has none
	}
	return "wrong-description", fmt.Sprintf("descriptions on stderr %q are not the '#' lines directly above any change header (%q)", got, cs.VariantDesc)
}

var c13Opts = modelOpts{
	Mine:         gen.MineOpts{MaxHoles: 3, MaxDots: 2},
	MaxHostLines: 160,
	MinPlants:    0, MaxPlants: 2,
	MinMutants: 0, MaxMutants: 1,
}

// c13RepeatOpts: repeated metavariables with consistency near-misses, so that
// what a metavariable is called can matter if names leak into matching.
var c13RepeatOpts = modelOpts{
	Mine:         gen.MineOpts{MaxHoles: 3, MaxDots: 1, RepeatBias: true},
	MaxHostLines: 160,
	MinPlants:    1, MaxPlants: 2,
	MinMutants: 1, MaxMutants: 3,
}

// c13SeveralDots: changes with more than one "..." on a changed line. Which
// "-" elision a "+" elision stands for must not depend on where the lines of
// the pattern are broken.
var c13SeveralDots = []struct {
	Holes  map[string]string
	Body   []c13Line
	File   string
	Second []c13Line // a second change, if any
}{
	{
		// The first change has a block nested in a block on unchanged
		// lines (written with a blank or as identical pairs); the second
		// one applies in both blocks.
		Holes:  map[string]string{},
		Body:   []c13Line{{Op: ' ', Text: "if sdok {"}, {Op: '-', Text: "  sda()"}, {Op: '+', Text: "  sdb()"}, {Op: ' ', Text: "  sdx()"}, {Op: ' ', Text: "  {"}, {Op: ' ', Text: "    sdx()"}, {Op: ' ', Text: "  }"}, {Op: ' ', Text: "}"}},
		File:   "package sd\n\nfunc f(sdok bool) {\n\tif sdok {\n\t\tsda()\n\t\tsdx()\n\t\t{\n\t\t\tsdx()\n\t\t}\n\t}\n}\n",
		Second: []c13Line{{Op: '-', Text: "sdx()"}, {Op: '+', Text: "sdy()"}, {Op: ' ', Text: "..."}},
	},
	{
		Holes: map[string]string{"x": "identifier"},
		Body:  []c13Line{{Op: '-', Text: "sdfoo(..., x, ...)"}, {Op: '+', Text: "sdbar(..., x, ...)"}},
		File:  "package sd\n\nfunc f(mid int) {\n\tsdfoo(1, 2, mid, 3, 4)\n\tsdfoo(mid)\n\tsdfoo(5, mid)\n}\n",
	},
	{
		Holes: map[string]string{},
		Body:  []c13Line{{Op: '-', Text: "sdfoo(..., ctx, ...)"}, {Op: '+', Text: "sdfoo(ctx, ...)"}},
		File:  "package sd\n\nfunc f(ctx int) {\n\tsdfoo(1, 2, ctx, 3, 4)\n\tsdfoo(ctx, 6)\n\tsdfoo(5, ctx)\n}\n",
	},
	{
		Holes: map[string]string{"name": "identifier"},
		Body:  []c13Line{{Op: '-', Text: "func name(...) (error, ...) {"}, {Op: '+', Text: "func name(...) (..., error) {"}, {Op: ' ', Text: "  ..."}, {Op: ' ', Text: "}"}},
		File:  "package sd\n\nfunc first(a string, b int) (error, string) {\n\treturn nil, a\n}\n\nfunc second() (error, int, bool) {\n\treturn nil, 0, false\n}\n",
	},
	{
		// an elision only on the '-' side before a context line with an
		// elision, one only on the '+' side after it; the two sides differ in
		// length before the context line (how much depends on the name of
		// the metavariable)
		Holes: map[string]string{"x": "expression"},
		Body:  []c13Line{{Op: '-', Text: "sdfoo(x, x, ...)"}, {Op: '+', Text: "sdfoo(x, 1234567)"}, {Op: ' ', Text: "sdbar(...)"}, {Op: '+', Text: "sdbaz(...)"}},
		File:  "package sd\n\nfunc f(k int) {\n\tsdfoo(k, k, 1, 2)\n\tsdbar(9)\n}\n",
	},
	{
		// a raw string that goes on over a line break, on unchanged lines
		Holes: map[string]string{},
		Body:  []c13Line{{Op: ' ', Text: "sdraw(`a"}, {Op: ' ', Text: "b`)"}, {Op: '-', Text: "sdx()"}, {Op: '+', Text: "sdy()"}},
		File:  "package sd\n\nfunc f() {\n\tsdraw(`a\nb`)\n\tsdx()\n}\n\nfunc g() {\n\tsdraw(`a\n b`)\n\tsdx()\n}\n",
	},
	{
		Holes: map[string]string{"k": "expression"},
		Body:  []c13Line{{Op: '-', Text: "sdlit{..., Key: k, ...}"}, {Op: '+', Text: "sdlit{Key: k, ..., ...}"}},
		File:  "package sd\n\nvar v = sdlit{A: 1, Key: 2, B: 3, C: 4}\n\nvar w = sdlit{Key: 5}\n",
	},
}

func TestC13(t *testing.T) {
	c := coll("C13")
	nGen := 0
	checkN(t, func(rt *rapid.T) {
		nGen++
		opts := c13Opts
		if rapid.IntRange(0, 1).Draw(rt, "repeatBias") == 0 {
			opts = c13RepeatOpts
		}
		var cs *c13Case
		if rapid.IntRange(0, 5).Draw(rt, "severalDots") == 0 {
			// several elisions on one changed line, all reproduced
			sd := rapid.SampledFrom(c13SeveralDots).Draw(rt, "severalDotsChange")
			cs = &c13Case{File: sd.File}
			cs.Changes = append(cs.Changes, c13Change{Desc: []string{"Several elisions."}, Holes: sd.Holes, Body: sd.Body})
			if sd.Second != nil {
				cs.Changes = append(cs.Changes, c13Change{Desc: []string{"Follow-up."}, Holes: map[string]string{}, Body: sd.Second})
			}
		} else {
			mcs, why := genModelCase(rt, opts)
			if mcs == nil {
				c.Note("generator:" + why)
				return
			}
			cs = &c13Case{File: mcs.Host}
			cs.Changes = append(cs.Changes, c13FromPatch(mcs.Patch, mcs.Spec.Holes))
		}
		if len(cs.Changes) == 1 && rapid.IntRange(0, 3).Draw(rt, "second") == 0 {
			// a second, simple change after the first one
			cs.Changes = append(cs.Changes, c13Change{
				Desc:  []string{"Second change."},
				Holes: map[string]string{"arg": "expression"},
				Body:  []c13Line{{Op: '-', Text: gen.Marker + "0(arg)"}, {Op: '+', Text: gen.Marker + "second(arg, arg)"}},
			})
		}
		plain := make([]c13Layout, len(cs.Changes))
		for i := range plain {
			plain[i].KeepDesc = true
		}
		cs.Base, _ = c13Render(cs.Changes, plain)
		ops := map[string]bool{}
		layouts := make([]c13Layout, len(cs.Changes))
		for i, ch := range cs.Changes {
			layouts[i] = c13DrawLayout(rt, ch, i, ops)
		}
		cs.Variant, cs.VariantDesc = c13Render(cs.Changes, layouts)
		for o := range ops {
			cs.Ops = append(cs.Ops, o)
		}
		sort.Strings(cs.Ops)
		cs.CLI = nGen%10 == 0
		sig, msg, changed := evalC13(cs)
		nontriv := changed && len(cs.Ops) >= 2 && cs.Variant != cs.Base
		classes := []string{fmt.Sprintf("changes:%d", len(cs.Changes)), fmt.Sprintf("file-changed:%v", changed)}
		for _, o := range cs.Ops {
			classes = append(classes, "op:"+o)
		}
		c.Case(evid.Hash(cs.Base, cs.Variant, cs.File), nontriv, classes...)
		if nontriv && c.WantSample() {
			c.Sample(map[string]any{"ops": cs.Ops, "base": cs.Base, "variant": cs.Variant, "file_bytes": len(cs.File)})
		}
		if sig == "" && msg != "" {
			c.Note(msg)
		}
		if sig != "" {
			violate(rt, "C13", sig, msg, cs)
		}
	})
}

func TestReplayC13(t *testing.T) {
	var cs c13Case
	if !loadReplay(t, "C13", &cs) {
		return
	}
	sig, msg, _ := evalC13(&cs)
	if sig != "" {
		violate(t, "C13", sig, msg, &cs)
	}
}
