package props

import (
	"encoding/json"
	"fmt"
	"go/parser"
	"go/scanner"
	"go/token"
	"io/fs"
	"os"
	"os/exec"
	"path/filepath"
	"regexp"
	"sort"
	"strconv"
	"strings"
	"sync"
	"testing"

	"github.com/uber-go/gopatch/verif/evid"
	"github.com/uber-go/gopatch/verif/gen"
	"github.com/uber-go/gopatch/verif/run"
	"pgregory.net/rapid"
)

// C16 — failures never leave half-written files and are always reported.
//
// Two kinds of cases:
//
//	mode "faults": a tree of 2-4 Go files and patches that apply to some of
//	them. A fault-free run defines the patched bytes; a fault-free run under
//	the ptrace injector of c16_helpers_test.go yields the list of system
//	calls that touch the tree's files or new entries of the tree (temporary
//	files), in order. Every such call is then failed (ENOSPC, EIO, EACCES)
//	and, separately, the process is killed on entry to it (SIGKILL), one run
//	each; and the whole run is repeated under RLIMIT_FSIZE = N (prlimit) for
//	N in {0..16, a stride through every output size, size-1}. strace is only
//	used to cross-check the injector's view of a fault-free run (strace's own
//	"when=k" counts per thread, and the main goroutine of a traced Go program
//	changes threads, so it cannot address "the k-th call" reliably).
//
//	mode "kinds": per-file failure kinds (unparseable source, rewrite error,
//	unparseable result, unreadable target, missing path) and patch failures
//	(missing / unreadable / directory given with -p, inside a -P list, the
//	-P list itself) at drawn positions; one run per case.
//
// The oracle is c16Judge; it only knows original bytes, fault-free bytes,
// which files the fault concerns, and what has to be reported.

type c16File struct {
	Name string `json:"name"` // slash path below tree/
	Role string `json:"role"` // site nosite model | unparseable rewrite-error unparseable-result unreadable
	Src  string `json:"src"`
	// LinkOf: the file is a hard link of this other file of the tree (same
	// bytes); both names are Go files of the run.
	LinkOf string `json:"link_of,omitempty"`
}

type c16Patch struct {
	Name  string `json:"name"`
	Text  string `json:"text"`
	Fault string `json:"fault,omitempty"` // "" missing unreadable directory
}

type c16Fault struct {
	Kind    string `json:"kind"` // error kill fsize
	Syscall string `json:"syscall,omitempty"`
	Index   int    `json:"index"` // index in the list of recorded fault points
	Errno   string `json:"errno,omitempty"`
	N       int    `json:"n,omitempty"` // fsize limit
}

type c16Case struct {
	Mode      string         `json:"mode"` // faults | kinds
	Files     []c16File      `json:"files"`
	Patches   []c16Patch     `json:"patches"`
	Via       string         `json:"via"`                  // "p": one -p per patch; "P": a list file
	ListFault string         `json:"list_fault,omitempty"` // "" missing unreadable
	Args      []string       `json:"args"`                 // relative to the case directory; the tree is tree/
	Missing   []string       `json:"missing,omitempty"`    // members of Args that do not exist
	Only      *c16Fault      `json:"only,omitempty"`       // mode faults: evaluate just this fault (replays)
	Flags     []string       `json:"flags,omitempty"`      // flags of the run (e.g. --skip-import-processing)
	Signal    *c16SignalSpec `json:"signal,omitempty"`     // mode signal
	// ListNoLF: the -P list does not end in a line feed.
	ListNoLF bool `json:"list_no_lf,omitempty"`
}

type c16Finding struct {
	Sig, Msg string
	Fault    *c16Fault
}

const (
	c16CntPatch = "@@\nvar x expression\n@@\n-cnt(x)\n+cnt(x + 1)\n"
	c16DntPatch = "@@\nvar x expression\n@@\n-dnt(x)\n+dnt(x, x)\n"
	c16EntPatch = "@@\nvar x expression\n@@\n-ent(x)\n+ent(-x)\n"
	// The + side uses a metavariable the - side does not bind: Replace fails
	// for every file in which the - side matches.
	c16BadRewrite = "@@\nvar x, unboundQ expression\n@@\n-bad(x)\n+bad(x, unboundQ)\n"
	// Applied to check(T{} == v) this prints `if T{} == v { return }`, which
	// does not parse.
	c16BadResult = "@@\nvar x expression\n@@\n-check(x)\n+if x { return }\n"
)

var c16ErrnoNum = map[string]int{"ENOSPC": 28, "EIO": 5, "EACCES": 13}

// c16Available says why the check cannot run here ("" if it can).
func c16Available() string {
	if why := c16TracerAvailable(); why != "" {
		return why
	}
	if _, err := exec.LookPath("prlimit"); err != nil {
		return "prlimit not found"
	}
	return ""
}

var c16Errnos = map[string]string{
	"ENOSPC": "no space left on device",
	"EIO":    "input/output error",
	"EACCES": "permission denied",
	"ENOENT": "no such file or directory",
	"EFBIG":  "file too large",
	"EISDIR": "is a directory",
}

// ---------------------------------------------------------------- strace (cross-check of the injector only)

var c16Wanted = []string{"openat", "open", "creat", "read", "pread64", "readv", "write", "pwrite64", "writev", "sendfile", "rename", "renameat", "renameat2",
	"chmod", "fchmod", "fchmodat", "fchmodat2", "chown", "fchown", "lchown", "fchownat", "fsync", "fdatasync", "close", "unlink", "unlinkat", "link", "linkat",
	"truncate", "ftruncate", "fallocate", "copy_file_range", "symlink", "symlinkat"}

var (
	c16SetOnce sync.Once
	c16Set     string
	c16SetErr  string
)

// c16TraceSet is the subset of c16Wanted this strace accepts.
func c16TraceSet() (string, string) {
	c16SetOnce.Do(func() {
		if _, err := exec.LookPath("strace"); err != nil {
			c16SetErr = "strace not found"
			return
		}
		var ok []string
		for _, s := range c16Wanted {
			if exec.Command("strace", "-o", os.DevNull, "-e", "trace="+s, "true").Run() == nil {
				ok = append(ok, s)
			}
		}
		if len(ok) < 4 {
			c16SetErr = "strace does not work here"
			return
		}
		c16Set = strings.Join(ok, ",")
	})
	return c16Set, c16SetErr
}

type c16Sys struct {
	Pid      string
	Name     string
	K        int // ordinal among this pid's calls of this name (what strace's when= counts)
	Paths    []string
	Kinds    []string // per path: "file:<rel>", "new", "dir"
	Side     string   // read | write | ""
	Line     string
	Injected bool
	Subject  string // rel path of the pre-existing file this call belongs to
}

func (s *c16Sys) key() string {
	return s.Name + " " + s.Side + " " + strings.Join(s.Kinds, ",")
}

var (
	c16EntryRe  = regexp.MustCompile(`^(\d+)\s+(\w+)\((.*)$`)
	c16ResumeRe = regexp.MustCompile(`^(\d+)\s+<\.\.\. (\w+) resumed>(.*)$`)
	c16RetFdRe  = regexp.MustCompile(`\) = (\d+)<`)
	c16ArgFdRe  = regexp.MustCompile(`^(\d+)<`)
)

// c16ParseTrace turns strace -f -y output into the list of calls. files is
// the set of pre-existing regular files (rel paths), dirs the directories.
func c16ParseTrace(trace, root string, files, dirs map[string]bool) (all []*c16Sys, killedLast *c16Sys) {
	pathRe := regexp.MustCompile(`["<](` + regexp.QuoteMeta(root) + `(?:/[^">]*)?)(?: \(deleted\))?[">]`)
	count := map[string]int{}
	fdSide := map[string]string{}
	pending := map[string]*c16Sys{}
	cur := ""
	for _, line := range strings.Split(trace, "\n") {
		if m := c16ResumeRe.FindStringSubmatch(line); m != nil {
			if p := pending[m[1]]; p != nil && p.Name == m[2] {
				if strings.Contains(m[3], "(INJECTED)") {
					p.Injected = true
				}
				if p.Name == "openat" || p.Name == "open" || p.Name == "creat" {
					if fd := c16RetFdRe.FindStringSubmatch(m[3]); fd != nil {
						fdSide[fd[1]] = p.Side
					}
				}
				delete(pending, m[1])
			}
			continue
		}
		m := c16EntryRe.FindStringSubmatch(line)
		if m == nil {
			continue
		}
		s := &c16Sys{Pid: m[1], Name: m[2], Line: line}
		count[s.Pid+" "+s.Name]++
		s.K = count[s.Pid+" "+s.Name]
		rest := m[3]
		seen := map[string]bool{}
		for _, pm := range pathRe.FindAllStringSubmatch(rest, -1) {
			p := pm[1]
			if seen[p] {
				continue
			}
			seen[p] = true
			rel := strings.TrimPrefix(strings.TrimPrefix(p, root), "/")
			kind := "new"
			switch {
			case rel == "" || dirs[rel]:
				kind = "dir"
			case files[rel]:
				kind = "file:" + rel
				cur = rel
			}
			s.Paths = append(s.Paths, p)
			s.Kinds = append(s.Kinds, kind)
		}
		s.Subject = cur
		switch s.Name {
		case "openat", "open", "creat":
			s.Side = "read"
			if s.Name == "creat" || strings.Contains(rest, "O_WRONLY") || strings.Contains(rest, "O_RDWR") || strings.Contains(rest, "O_CREAT") || strings.Contains(rest, "O_TRUNC") {
				s.Side = "write"
			}
			if fd := c16RetFdRe.FindStringSubmatch(rest); fd != nil {
				fdSide[fd[1]] = s.Side
			}
		case "read", "pread64", "readv":
			s.Side = "read"
		case "close":
			if fd := c16ArgFdRe.FindStringSubmatch(rest); fd != nil {
				s.Side = fdSide[fd[1]]
			}
		default:
			s.Side = "write"
		}
		if strings.Contains(rest, "(INJECTED)") {
			s.Injected = true
		}
		if strings.Contains(rest, "<unfinished ...>") {
			pending[s.Pid] = s
		}
		all = append(all, s)
	}
	if len(all) > 0 {
		killedLast = all[len(all)-1]
	}
	return all, killedLast
}

// c16Traced runs gopatch under the ptrace injector (see c16_helpers_test.go).
func c16Traced(d *c16Dir, cfg c16TraceCfg, args []string) (*run.CLIResult, *c16TraceLog) {
	cfg.Log = filepath.Join(d.root, "trace.json")
	_ = os.Remove(cfg.Log)
	b, _ := json.Marshal(&cfg)
	self, err := os.Executable()
	if err != nil {
		return &run.CLIResult{Exit: -1, StartErr: err.Error()}, nil
	}
	os.Setenv(c16TracerEnv, string(b))
	res := run.CLIWrapped([]string{self}, d.root, nil, args...)
	os.Unsetenv(c16TracerEnv)
	lb, err := os.ReadFile(cfg.Log)
	if err != nil {
		return res, nil
	}
	var lg c16TraceLog
	if json.Unmarshal(lb, &lg) != nil || lg.Error != "" {
		return res, nil
	}
	sort.Slice(lg.Calls, func(i, j int) bool { return lg.Calls[i].N < lg.Calls[j].N })
	return res, &lg
}

// c16Classify turns the injector's log into fault points: the calls that
// touch a pre-existing file of the tree or a new entry below it, each
// attributed to the pre-existing file being processed at that moment.
func c16Classify(lg *c16TraceLog, root string, files, dirs map[string]bool) (all []*c16Sys) {
	cur := ""
	for _, c := range lg.Calls {
		s := &c16Sys{Name: c.Name, K: c.N, Side: c.Side, Injected: c.Tampered != "", Line: fmt.Sprintf("%s(%s) = %d", c.Name, strings.Join(c.Paths, ", "), c.Ret)}
		for _, p := range c.Paths {
			rel := strings.TrimPrefix(strings.TrimPrefix(p, root), "/")
			kind := "new"
			switch {
			case rel == "" || dirs[rel]:
				kind = "dir"
			case files[rel]:
				kind = "file:" + rel
				cur = rel
			}
			s.Paths = append(s.Paths, p)
			s.Kinds = append(s.Kinds, kind)
		}
		s.Subject = cur
		all = append(all, s)
	}
	return all
}

// c16CrossCheck compares the injector's view of a fault-free run with
// strace's: the same calls touching the tree, in the same order. "" = agree
// (or strace is not usable here, which is noted).
func c16CrossCheck(cs *c16Case) (disagreement, note string) {
	set, why := c16TraceSet()
	if why != "" {
		return "", "strace-unusable"
	}
	d, err := c16Setup(cs, true)
	if err != nil {
		return "", "setup-failed"
	}
	defer d.cleanup()
	args := append(d.patchArgs(), cs.Args...)
	fileSet := map[string]bool{}
	for f := range d.files {
		fileSet[f] = true
	}
	render := func(calls []*c16Sys) string {
		var b strings.Builder
		for _, s := range calls {
			if s.touchesTree() {
				// (the side of a close is not compared: strace's output only gives it indirectly)
				side := s.Side
				if s.Name == "close" {
					side = "-"
				}
				fmt.Fprintf(&b, "%s %s %s [%s]\n", s.Name, side, strings.Join(s.Kinds, ","), s.Subject)
			}
		}
		return b.String()
	}
	_, lg := c16Traced(d, c16TraceCfg{Prefix: d.tree}, args)
	if lg == nil {
		return "the injector produced no log", ""
	}
	mine := render(c16Classify(lg, d.tree, fileSet, d.dirs))
	if err := d.restore(); err != nil {
		return "", "setup-failed"
	}
	tracePath := filepath.Join(d.root, "trace.txt")
	res := run.CLIWrapped([]string{"strace", "-f", "-y", "-o", tracePath, "-e", "trace=" + set}, d.root, nil, args...)
	tb, _ := os.ReadFile(tracePath)
	if res.Exit != 0 || strings.Contains(string(res.Stderr), "strace: ") {
		return "", "strace-run-failed"
	}
	all, _ := c16ParseTrace(string(tb), d.tree, fileSet, d.dirs)
	theirs := render(all)
	if mine != theirs {
		return fmt.Sprintf("injector:\n%s\nstrace:\n%s", mine, theirs), ""
	}
	if mine == "" {
		return "no call touching the tree was seen", ""
	}
	return "", "agree"
}

// touchesTree reports whether a call is a fault point: it touches a
// pre-existing file of the tree or a new entry below the tree.
func (s *c16Sys) touchesTree() bool {
	for _, k := range s.Kinds {
		if k != "dir" {
			return true
		}
	}
	return false
}

// ---------------------------------------------------------------- trees

type c16Dir struct {
	root    string // case directory (cwd of every run)
	tree    string // root/tree
	cleanup func()
	cs      *c16Case
	files   map[string]string // rel -> original bytes (files that exist)
	dirs    map[string]bool
}

func c16Abs(d *c16Dir, rel string) string {
	return filepath.Join(d.tree, filepath.FromSlash(rel))
}

func (d *c16Dir) restore() error {
	_ = filepath.WalkDir(d.tree, func(p string, de fs.DirEntry, err error) error {
		if err == nil && de.IsDir() {
			_ = os.Chmod(p, 0o755)
		}
		return nil
	})
	if err := os.RemoveAll(d.tree); err != nil {
		return err
	}
	if err := os.MkdirAll(d.tree, 0o755); err != nil {
		return err
	}
	if err := run.WriteTree(d.tree, d.files); err != nil {
		return err
	}
	for _, f := range d.cs.Files {
		if f.LinkOf == "" {
			continue
		}
		if _, ok := d.files[f.Name]; !ok {
			continue
		}
		if _, ok := d.files[f.LinkOf]; !ok {
			continue
		}
		_ = os.Remove(c16Abs(d, f.Name))
		if err := os.Link(c16Abs(d, f.LinkOf), c16Abs(d, f.Name)); err != nil {
			return err
		}
	}
	return nil
}

// readTree returns the bytes of every regular file below the tree and the
// other non-directory entries (symlinks, ...), by slash path.
func (d *c16Dir) readTree() (map[string]string, []string) {
	out := map[string]string{}
	var odd []string
	_ = filepath.WalkDir(d.tree, func(p string, de fs.DirEntry, err error) error {
		if err != nil || p == d.tree {
			return nil
		}
		rel, _ := filepath.Rel(d.tree, p)
		rel = filepath.ToSlash(rel)
		switch {
		case de.IsDir():
			if !d.dirs[rel] {
				odd = append(odd, rel+"/")
			}
		case de.Type().IsRegular():
			b, err := os.ReadFile(p)
			if err != nil {
				out[rel] = "<unreadable: " + err.Error() + ">"
			} else {
				out[rel] = string(b)
			}
		default:
			odd = append(odd, rel)
		}
		return nil
	})
	sort.Strings(odd)
	return out, odd
}

func c16GoodRole(r string) bool { return r == "site" || r == "nosite" || r == "model" }

// c16Setup materialises a case. withBad=false leaves out the files with a
// failing role and all faults of the patches (the fault-free twin).
func c16Setup(cs *c16Case, withBad bool) (*c16Dir, error) {
	root, cleanup := run.TempDir("c16-")
	d := &c16Dir{root: root, tree: filepath.Join(root, "tree"), cleanup: cleanup, cs: cs, files: map[string]string{}, dirs: map[string]bool{}}
	for _, f := range cs.Files {
		if !withBad && !c16GoodRole(f.Role) {
			continue
		}
		d.files[f.Name] = f.Src
		for dir := filepath.ToSlash(filepath.Dir(f.Name)); dir != "." && dir != "/"; dir = filepath.ToSlash(filepath.Dir(dir)) {
			d.dirs[dir] = true
		}
	}
	if err := d.restore(); err != nil {
		cleanup()
		return nil, err
	}
	pp := filepath.Join(root, "pp")
	if err := os.MkdirAll(pp, 0o755); err != nil {
		cleanup()
		return nil, err
	}
	var list strings.Builder
	for _, p := range cs.Patches {
		full := filepath.Join(pp, p.Name)
		list.WriteString(full + "\n")
		fault := p.Fault
		if !withBad {
			fault = ""
		}
		var err error
		switch fault {
		case "missing":
		case "directory":
			err = os.MkdirAll(full, 0o755)
		default:
			err = os.WriteFile(full, []byte(p.Text), 0o644)
		}
		if err != nil {
			cleanup()
			return nil, err
		}
	}
	if cs.Via == "P" && (cs.ListFault != "missing" || !withBad) {
		var err error
		switch {
		case cs.ListFault == "directory" && withBad:
			err = os.Mkdir(filepath.Join(pp, "list.txt"), 0o755)
		case cs.ListFault == "long-line" && withBad:
			// a line longer than a bufio.Scanner takes, after the first entry
			text := list.String()
			i := strings.IndexByte(text, '\n') + 1
			err = os.WriteFile(filepath.Join(pp, "list.txt"), []byte(text[:i]+strings.Repeat("x", 70000)+"\n"+text[i:]), 0o644)
		case cs.ListNoLF:
			err = os.WriteFile(filepath.Join(pp, "list.txt"), []byte(strings.TrimSuffix(list.String(), "\n")), 0o644)
		default:
			err = os.WriteFile(filepath.Join(pp, "list.txt"), []byte(list.String()), 0o644)
		}
		if err != nil {
			cleanup()
			return nil, err
		}
	}
	return d, nil
}

func (d *c16Dir) patchPath(name string) string { return filepath.Join(d.root, "pp", name) }

func (d *c16Dir) patchArgs() []string {
	a := append([]string{}, d.cs.Flags...)
	if d.cs.Via == "P" {
		return append(a, "-P", d.patchPath("list.txt"))
	}
	for _, p := range d.cs.Patches {
		a = append(a, "-p", d.patchPath(p.Name))
	}
	return a
}

// ---------------------------------------------------------------- oracle

type c16Report struct {
	What   string   // class of the thing that could not be processed
	Paths  []string // spellings that count as naming it (absolute, as given)
	Causes []string // any of these (lower case; "re:" prefix = regular expression)
	Pos    int      // position of the file in the run (-1: not a file)
}

type c16Exp struct {
	O, P      map[string]string // pre-existing files: original bytes, fault-free result
	Order     []string          // discovered files in processing order
	Subject   map[string]bool   // files the fault concerns: original or patched, both fine
	SubjCause []string          // cause to report for a subject file left unprocessed
	ReadFault map[string]bool   // subject files that could not be read: report unconditionally
	Lenient   bool              // the run may stop before processing anything (bad argument / patch)
	Reports   []c16Report       // unconditional reports
	FileLevel []c16Report       // reports of per-file failures (not required when Lenient)
	TornSig   string            // signature for a file that is neither original nor patched
	Unreadble int               // position of the unreadable target, -1 if none
	AllPaths  []string          // absolute paths of everything that may be named on stderr
	Context   string
	tree      string // absolute path of the tree
}

type c16Obs struct {
	Res *run.CLIResult
	T   map[string]string
	Odd []string
}

func c16Abbrev(s string) string {
	return fmt.Sprintf("%d bytes %q", len(s), trunc(s, 60))
}

// c16Segments returns the parts of stderr lines that talk about one of
// paths: each line is cut at the mentions of other known paths.
func c16Segments(stderr string, paths, others []string) []string {
	var segs []string
	for _, line := range strings.Split(stderr, "\n") {
		type cut struct{ at, end int }
		var cuts []cut
		for _, o := range others {
			for from := 0; ; {
				i := strings.Index(line[from:], o)
				if i < 0 {
					break
				}
				cuts = append(cuts, cut{from + i, from + i + len(o)})
				from += i + len(o)
			}
		}
		sort.Slice(cuts, func(i, j int) bool { return cuts[i].at < cuts[j].at })
		start := 0
		var parts []string
		for _, c := range cuts {
			if c.at >= start {
				parts = append(parts, line[start:c.at])
				start = c.end
			}
		}
		parts = append(parts, line[start:])
		for _, part := range parts {
			for _, p := range paths {
				if strings.Contains(part, p) {
					segs = append(segs, part)
					break
				}
			}
		}
	}
	return segs
}

func c16HasCause(seg string, causes []string) bool {
	low := strings.ToLower(seg)
	for _, c := range causes {
		if strings.HasPrefix(c, "re:") {
			if regexp.MustCompile(c[3:]).MatchString(seg) {
				return true
			}
		} else if c != "" && strings.Contains(low, strings.ToLower(c)) {
			return true
		}
	}
	return false
}

// c16CheckReport: is r named on stderr with a cause?
func c16CheckReport(stderr string, r c16Report, all []string) (pathOK, causeOK bool) {
	var others []string
	for _, a := range all {
		own := false
		for _, p := range r.Paths {
			if p == a || strings.Contains(a, p) || strings.Contains(p, a) {
				own = true
			}
		}
		if !own {
			others = append(others, a)
		}
	}
	segs := c16Segments(stderr, r.Paths, others)
	if len(segs) == 0 {
		return false, false
	}
	for _, s := range segs {
		if c16HasCause(s, r.Causes) {
			return true, true
		}
	}
	return true, false
}

func c16Judge(e *c16Exp, o *c16Obs) (fs []c16Finding) {
	add := func(sig, format string, a ...any) {
		fs = append(fs, c16Finding{Sig: sig, Msg: e.Context + ": " + fmt.Sprintf(format, a...) +
			fmt.Sprintf("\nexit=%d signal=%q stderr=%q", o.Res.Exit, o.Res.Signal, trunc(string(o.Res.Stderr), 600))})
	}
	killed := o.Res.Signal != ""
	stderr := string(o.Res.Stderr)
	pos := map[string]int{}
	for i, f := range e.Order {
		pos[f] = i
	}
	var names []string
	for f := range e.O {
		names = append(names, f)
	}
	sort.Strings(names)

	// 1. Every pre-existing file holds its original or its patched bytes.
	for _, f := range names {
		t, ok := o.T[f]
		switch {
		case !ok:
			add(e.TornSig+":removed", "%s no longer exists", f)
		case t != e.O[f] && t != e.P[f]:
			how := "neither original nor patched"
			if t == "" {
				how = "nothing (empty file)"
			} else if strings.HasPrefix(e.P[f], t) {
				how = fmt.Sprintf("the first %d of the %d patched bytes", len(t), len(e.P[f]))
			}
			add(e.TornSig, "%s holds %s: %s (original %d bytes)", f, how, c16Abbrev(t), len(e.O[f]))
		case !killed && !e.Subject[f] && !e.Lenient && t != e.P[f]:
			// Not concerned by the fault, process not killed: fault-free result expected.
			if e.Unreadble >= 0 && pos[f] > e.Unreadble {
				add("unreadable-target-aborts-run:later-files-unprocessed", "%s (position %d, after the unreadable target at %d) was left unpatched", f, pos[f], e.Unreadble)
			} else {
				add("collateral:file-unprocessed", "%s is not concerned by the failure but holds its original bytes instead of the fault-free result", f)
			}
		}
	}

	// 2. New entries.
	var extra []string
	for f := range o.T {
		if _, ok := e.O[f]; !ok {
			extra = append(extra, f)
		}
	}
	sort.Strings(extra)
	for _, f := range extra {
		if !killed {
			add("stray-entry:normal-exit", "new entry %s (%s) left behind after a normal exit", f, c16Abbrev(o.T[f]))
			continue
		}
		if strings.HasSuffix(f, ".go") {
			ok := false
			for _, g := range names {
				if o.T[f] == e.O[g] || o.T[f] == e.P[g] {
					ok = true
				}
			}
			if !ok {
				add(e.TornSig+":new-go-entry", "new entry %s holds %s, which is neither the original nor the patched bytes of any file", f, c16Abbrev(o.T[f]))
			}
		}
	}
	for _, f := range o.Odd {
		if !killed || strings.HasSuffix(f, ".go") {
			add("stray-entry:odd", "new non-regular entry %s", f)
		}
	}
	if killed {
		return fs
	}

	// 3. What could not be processed is reported.
	var need []c16Report
	need = append(need, e.Reports...)
	if !e.Lenient {
		need = append(need, e.FileLevel...)
	}
	for _, f := range names {
		if !e.Subject[f] {
			continue
		}
		// Not (completely) patched although it should have been, or not even read: it could not be processed.
		if t, ok := o.T[f]; !ok || t != e.P[f] || e.ReadFault[f] {
			need = append(need, c16Report{What: "faulted-file", Paths: []string{filepath.Join(e.treeAbs(), filepath.FromSlash(f))}, Causes: e.SubjCause, Pos: pos[f]})
		}
	}
	for _, r := range need {
		if o.Res.Exit == 0 {
			add("unreported:exit-zero:"+r.What, "%v could not be processed (%s) but the exit status is 0", r.Paths, r.What)
			continue
		}
		pathOK, causeOK := c16CheckReport(stderr, r, e.AllPaths)
		if pathOK && causeOK {
			continue
		}
		if e.Unreadble >= 0 && r.Pos >= 0 && r.Pos != e.Unreadble {
			// Known shape: the unreadable target ends the run.
			if r.Pos < e.Unreadble {
				add("unreadable-target-aborts-run:diagnostics-dropped", "the %s failure of %v (position %d, before the unreadable target at %d) is not on stderr", r.What, r.Paths, r.Pos, e.Unreadble)
			} else {
				add("unreadable-target-aborts-run:later-files-unprocessed", "the %s failure of %v (position %d, after the unreadable target at %d) is not on stderr", r.What, r.Paths, r.Pos, e.Unreadble)
			}
			continue
		}
		switch {
		case !pathOK:
			add("unreported:path:"+r.What, "%v could not be processed (%s) but stderr does not name it", r.Paths, r.What)
		default:
			sig := "unreported:cause:" + r.What
			if r.What == "missing-path" {
				sig = "missing-path-cause"
			}
			add(sig, "stderr names %v but no cause (%s; expected one of %q)", r.Paths, r.What, r.Causes)
		}
	}

	// 4. Exit status 0 means everything was patched or legitimately skipped.
	if o.Res.Exit == 0 && e.Lenient {
		for _, f := range names {
			if t, ok := o.T[f]; ok && t != e.P[f] && t == e.O[f] {
				add("exit-zero-but-unprocessed", "exit status 0 but %s holds its original bytes, not the patched ones", f)
			}
		}
	}
	return fs
}

// treeAbs is filled in by the evaluators (absolute path of the tree).
func (e *c16Exp) treeAbs() string { return e.tree }

// ---------------------------------------------------------------- evaluation

type c16RunInfo struct {
	Hash      uint64
	Nontriv   bool
	Classes   []string
	FaultDesc string
}

type c16SinkFn func(info c16RunInfo, fs []c16Finding)

func c16PosClass(i, n int) string {
	switch {
	case i < 0:
		return "pos:none"
	case i == 0:
		return "pos:first"
	case i == n-1:
		return "pos:last"
	}
	return "pos:middle"
}

func c16CaseHash(cs *c16Case) string {
	c := *cs
	c.Only = nil
	b, _ := json.Marshal(&c)
	return string(b)
}

// c16Order: the files the run discovers, in processing order (ascending
// absolute path = ascending relative path, same prefix).
func c16Order(files map[string]string) []string {
	var o []string
	for f := range files {
		if strings.HasSuffix(f, ".go") {
			o = append(o, f)
		}
	}
	sort.Strings(o)
	return o
}

func c16AllPaths(d *c16Dir) []string {
	var all []string
	for _, f := range d.cs.Files {
		all = append(all, c16Abs(d, f.Name))
	}
	for _, p := range d.cs.Patches {
		all = append(all, d.patchPath(p.Name))
	}
	all = append(all, d.patchPath("list.txt"))
	for _, m := range d.cs.Missing {
		all = append(all, filepath.Join(d.root, strings.TrimSuffix(m, "...")))
	}
	return all
}

// c16EvalFaults enumerates the fault points of a mode-faults case. pick
// selects fault indices (nil = all); cs.Only overrides it.
func c16EvalFaults(cs *c16Case, pick func(i int) bool, sink c16SinkFn) (status string) {
	if why := c16Available(); why != "" {
		return "inconclusive:" + why
	}
	d, err := c16Setup(cs, true)
	if err != nil {
		return "setup:" + err.Error()
	}
	defer d.cleanup()
	args := append(d.patchArgs(), cs.Args...)

	// Fault-free run: defines the patched bytes.
	base := run.CLI(d.root, nil, args...)
	if base.TimedOut || base.Crashed() || base.Exit != 0 || len(base.Stderr) != 0 {
		return "unjudged:fault-free-run-fails"
	}
	P, odd := d.readTree()
	if len(odd) > 0 || len(P) != len(d.files) {
		return "unjudged:fault-free-run-creates-entries"
	}
	order := c16Order(d.files)
	written := map[string]bool{}
	nWritten := 0
	for _, f := range order {
		if P[f] != d.files[f] {
			written[f] = true
			nWritten++
		}
	}
	if nWritten == 0 {
		return "unjudged:nothing-written"
	}

	// Traced fault-free run.
	if err := d.restore(); err != nil {
		return "setup:" + err.Error()
	}
	traced, lg := c16Traced(d, c16TraceCfg{Prefix: d.tree}, args)
	P2, _ := d.readTree()
	if lg == nil {
		return "inconclusive:the fault injector does not work here: " + trunc(string(traced.Stderr), 200)
	}
	if traced.Exit != 0 || len(traced.Stderr) != 0 || !c16SameTree(P, P2) {
		return "unjudged:traced-run-differs"
	}
	fileSet := map[string]bool{}
	for f := range d.files {
		fileSet[f] = true
	}
	calls := c16Classify(lg, d.tree, fileSet, d.dirs)
	var points []*c16Sys
	for _, s := range calls {
		if s.touchesTree() && s.Subject != "" {
			points = append(points, s)
		}
	}
	if len(points) == 0 {
		return "unjudged:no-fault-points"
	}

	caseHash := c16CaseHash(cs)
	pos := map[string]int{}
	for i, f := range order {
		pos[f] = i
	}
	newExp := func() *c16Exp {
		return &c16Exp{O: d.files, P: P, Order: order, Subject: map[string]bool{}, ReadFault: map[string]bool{}, Unreadble: -1,
			AllPaths: c16AllPaths(d), tree: d.tree}
	}

	// The list of faults.
	type job struct {
		f  c16Fault
		pt *c16Sys
	}
	var jobs []job
	for i, pt := range points {
		errnos := []string{"ENOSPC", "EIO", "EACCES"}
		if pt.Side == "read" {
			errnos = []string{"EACCES", "EIO"}
			if pt.Name != "openat" && pt.Name != "open" {
				errnos = []string{"EIO"}
			}
		}
		for _, en := range errnos {
			jobs = append(jobs, job{c16Fault{Kind: "error", Syscall: pt.Name, Index: i, Errno: en}, pt})
		}
		jobs = append(jobs, job{c16Fault{Kind: "kill", Syscall: pt.Name, Index: i}, pt})
	}
	limits := map[int]bool{}
	for _, f := range order {
		if !written[f] {
			continue
		}
		n := len(P[f])
		for i := 0; i <= 16 && i < n; i++ {
			limits[i] = true
		}
		for i := 1; i <= 4; i++ {
			limits[n*i/5] = true
		}
		limits[n-1] = true
	}
	var ls []int
	for n := range limits {
		ls = append(ls, n)
	}
	sort.Ints(ls)
	for _, n := range ls {
		jobs = append(jobs, job{c16Fault{Kind: "fsize", N: n, Index: -1}, nil})
	}

	fired, total := 0, 0
	for ji, j := range jobs {
		if cs.Only != nil {
			o := cs.Only
			if o.Kind != j.f.Kind || o.Index != j.f.Index || o.Errno != j.f.Errno || o.N != j.f.N || (o.Syscall != "" && o.Syscall != j.f.Syscall) {
				continue
			}
		} else if pick != nil && !pick(ji) {
			continue
		}
		total++
		flt := j.f
		e := newExp()
		info := c16RunInfo{}
		var obs *c16Obs
		ok := false
		switch flt.Kind {
		case "fsize":
			if err := d.restore(); err != nil {
				return "setup:" + err.Error()
			}
			res := run.CLIWrapped([]string{"prlimit", "--fsize=" + strconv.Itoa(flt.N)}, d.root, nil, args...)
			T, odd := d.readTree()
			obs = &c16Obs{Res: res, T: T, Odd: odd}
			first := -1
			for _, f := range order {
				if written[f] && len(P[f]) > flt.N {
					e.Subject[f] = true
					if first < 0 {
						first = pos[f]
					}
				}
			}
			e.SubjCause = []string{c16Errnos["EFBIG"]}
			e.TornSig = "torn-file:size-limit"
			e.Context = fmt.Sprintf("run under RLIMIT_FSIZE=%d (prlimit --fsize=%d)", flt.N, flt.N)
			// The limit demonstrably took effect: some concerned file is not complete, or the process said so.
			effect := res.Signal != "" || strings.Contains(strings.ToLower(string(res.Stderr)), c16Errnos["EFBIG"])
			for f := range e.Subject {
				if T[f] != P[f] {
					effect = true
				}
			}
			ok = effect && !res.TimedOut && res.StartErr == ""
			info.Classes = append(info.Classes, "fault:fsize", c16PosClass(first, len(order)), fmt.Sprintf("fsize-subjects:%d", len(e.Subject)))
			switch {
			case flt.N <= 16:
				info.Classes = append(info.Classes, "fsize:0..16")
			default:
				info.Classes = append(info.Classes, "fsize:stride")
			}
			info.Nontriv = ok
			info.Hash = evid.Hash(caseHash, "fsize", strconv.Itoa(flt.N))
			info.FaultDesc = e.Context
		default:
			pt := j.pt
			inj := fmt.Sprintf("%s of matching call %d", flt.Errno, pt.K)
			cfg := c16TraceCfg{Prefix: d.tree, K: pt.K, Errno: c16ErrnoNum[flt.Errno]}
			if flt.Kind == "kill" {
				inj = fmt.Sprintf("SIGKILL at matching call %d", pt.K)
				cfg.Kill = true
			}
			var res *run.CLIResult
			var hit *c16Sys
			for attempt := 0; attempt < 2 && hit == nil; attempt++ {
				if err := d.restore(); err != nil {
					return "setup:" + err.Error()
				}
				var flg *c16TraceLog
				res, flg = c16Traced(d, cfg, args)
				if flg == nil || res.TimedOut || res.StartErr != "" {
					continue
				}
				var injd []*c16Sys
				for _, s := range c16Classify(flg, d.tree, fileSet, d.dirs) {
					if s.Injected {
						injd = append(injd, s)
					}
				}
				if len(injd) == 1 && injd[0].K == pt.K && injd[0].key() == pt.key() && injd[0].Subject == pt.Subject && (res.Signal != "") == (flt.Kind == "kill") {
					hit = injd[0]
				}
			}
			T, odd := d.readTree()
			obs = &c16Obs{Res: res, T: T, Odd: odd}
			ok = hit != nil
			e.Subject[pt.Subject] = true
			e.TornSig = "torn-file:write-error"
			what := fmt.Sprintf("%s error injected", flt.Errno)
			if flt.Kind == "kill" {
				e.TornSig = "torn-file:killed"
				what = "SIGKILL delivered"
			} else {
				e.SubjCause = []string{c16Errnos[flt.Errno]}
				if pt.Side == "read" && pt.Name != "close" {
					e.ReadFault[pt.Subject] = true
					e.Unreadble = pos[pt.Subject]
				}
			}
			e.Context = fmt.Sprintf("%s on entry to call #%d touching the tree (%s-side %s of %s, file %d of %d; %s): %s",
				what, flt.Index, pt.Side, pt.Name, pt.Subject, pos[pt.Subject]+1, len(order), inj, strings.TrimSpace(pt.Line))
			side := pt.Side
			if side == "" {
				side = "unknown"
			}
			info.Classes = append(info.Classes, "fault:"+flt.Kind, "syscall:"+pt.Name+"/"+side, c16PosClass(pos[pt.Subject], len(order)))
			if flt.Kind == "error" {
				info.Classes = append(info.Classes, "errno:"+flt.Errno)
			}
			if written[pt.Subject] {
				info.Classes = append(info.Classes, "subject:written")
			} else {
				info.Classes = append(info.Classes, "subject:not-written")
			}
			info.Nontriv = ok && written[pt.Subject]
			info.Hash = evid.Hash(caseHash, flt.Kind, pt.Name, strconv.Itoa(pt.K), flt.Errno, strconv.Itoa(pos[pt.Subject]))
			info.FaultDesc = e.Context
		}
		if !ok {
			info.Nontriv = false
			info.Classes = append(info.Classes, "injection-did-not-fire")
			sink(info, nil)
			continue
		}
		fired++
		info.Classes = append(info.Classes, "injection-fired")
		fs := c16Judge(e, obs)
		for i := range fs {
			f := flt
			fs[i].Fault = &f
		}
		sink(info, fs)
	}
	if total > 0 && fired == total && cs.Only == nil && pick == nil {
		return "ok:complete"
	}
	return "ok"
}

func c16SameTree(a, b map[string]string) bool {
	if len(a) != len(b) {
		return false
	}
	for k, v := range a {
		if w, ok := b[k]; !ok || w != v {
			return false
		}
	}
	return true
}

func c16ParserCauses(src string) []string {
	fset := token.NewFileSet()
	_, err := parser.ParseFile(fset, "x.go", src, parser.AllErrors|parser.ParseComments)
	if err == nil {
		return nil
	}
	var out []string
	if el, ok := err.(scanner.ErrorList); ok {
		for _, e := range el {
			out = append(out, e.Msg)
		}
	} else {
		out = append(out, err.Error())
	}
	return out
}

// c16EvalKinds evaluates a mode-kinds case: one run.
func c16EvalKinds(cs *c16Case, sink c16SinkFn) (status string) {
	if why := c16Available(); why != "" {
		return "inconclusive:" + why
	}
	// Fault-free twin: the good files only, all patches present.
	bd, err := c16Setup(cs, false)
	if err != nil {
		return "setup:" + err.Error()
	}
	base := run.CLI(bd.root, nil, append(bd.patchArgs(), "tree")...)
	P, odd := bd.readTree()
	goodOrig := bd.files
	bd.cleanup()
	if base.TimedOut || base.Crashed() || base.Exit != 0 || len(base.Stderr) != 0 || len(odd) > 0 || len(P) != len(goodOrig) {
		return "unjudged:fault-free-run-fails"
	}
	// The fault-free run said, with exit status 0, that every file was
	// patched or needed nothing. The library, which knows nothing of how
	// files and patches are found, says what "patched" is.
	if len(cs.Flags) == 0 {
		var joined []string
		for _, p := range cs.Patches {
			joined = append(joined, p.Text)
		}
		for _, f := range cs.Files {
			if !c16GoodRole(f.Role) {
				continue
			}
			ra := run.API("all.patch", []byte(strings.Join(joined, "\n")), f.Name, []byte(f.Src))
			if ra.OK() && string(ra.Out) != P[f.Name] {
				what := "is not what the library makes of it"
				if P[f.Name] == f.Src {
					what = "was left as it was although the patches apply to it"
				}
				sink(c16RunInfo{Hash: evid.Hash(c16CaseHash(cs), "reference"), Classes: []string{"finding-in-fault-free-run"}}, []c16Finding{{Sig: "exit-0-with-unprocessed-file:fault-free-run",
					Msg: fmt.Sprintf("a run without any fault exits 0 with nothing on stderr, yet %s %s (hard link of %q, -P list without final line feed: %v)\nwritten:\n%s\nlibrary:\n%s", f.Name, what, f.LinkOf, cs.ListNoLF, trunc(P[f.Name], 600), trunc(string(ra.Out), 600))}})
				return "judged"
			}
		}
	}

	d, err := c16Setup(cs, true)
	if err != nil {
		return "setup:" + err.Error()
	}
	defer d.cleanup()
	order := c16Order(d.files)
	pos := map[string]int{}
	for i, f := range order {
		pos[f] = i
	}
	e := &c16Exp{O: d.files, P: map[string]string{}, Order: order, Subject: map[string]bool{}, ReadFault: map[string]bool{}, Unreadble: -1,
		AllPaths: c16AllPaths(d), tree: d.tree, TornSig: "torn-file:per-file-failure"}
	var classes []string
	injectPath := ""
	nFail, nWritten := 0, 0
	for _, f := range cs.Files {
		abs := c16Abs(d, f.Name)
		if c16GoodRole(f.Role) {
			e.P[f.Name] = P[f.Name]
			if P[f.Name] != f.Src {
				nWritten++
			}
			continue
		}
		e.P[f.Name] = f.Src
		nFail++
		r := c16Report{What: f.Role, Paths: []string{abs}, Pos: pos[f.Name]}
		switch f.Role {
		case "unparseable":
			r.What = "unparseable-source"
			r.Causes = c16ParserCauses(f.Src)
			if len(r.Causes) == 0 {
				return "unjudged:unparseable-file-parses"
			}
		case "rewrite-error":
			r.Causes = []string{"metavariable", "unboundQ"}
		case "unparseable-result":
			r.Causes = []string{`re::\d+:\d+: \S`, "expected "}
		case "unreadable":
			r.What = "unreadable-target"
			r.Causes = []string{c16Errnos["EACCES"]}
			if injectPath != "" {
				return "unjudged:two-injections"
			}
			injectPath = abs
			e.Unreadble = pos[f.Name]
		default:
			return "unjudged:unknown-role"
		}
		classes = append(classes, "kind:"+r.What, "kind-"+c16PosClass(pos[f.Name], len(order))+":"+r.What)
		e.FileLevel = append(e.FileLevel, r)
	}
	for i, m := range cs.Missing {
		_ = i
		e.Lenient = true
		nFail++
		abs := filepath.Join(d.root, strings.TrimSuffix(m, "..."))
		e.Reports = append(e.Reports, c16Report{What: "missing-path", Paths: []string{abs, m}, Causes: []string{c16Errnos["ENOENT"]}, Pos: -1})
		ai := -1
		for k, a := range cs.Args {
			if a == m {
				ai = k
			}
		}
		classes = append(classes, "kind:missing-path", "kind-arg-"+c16PosClass(ai, len(cs.Args))+":missing-path")
	}
	for i, p := range cs.Patches {
		if p.Fault == "" {
			continue
		}
		e.Lenient = true
		nFail++
		cause := map[string]string{"missing": "ENOENT", "unreadable": "EACCES", "directory": "EISDIR"}[p.Fault]
		e.Reports = append(e.Reports, c16Report{What: "patch-" + p.Fault, Paths: []string{d.patchPath(p.Name)}, Causes: []string{c16Errnos[cause]}, Pos: -1})
		if p.Fault == "unreadable" {
			if injectPath != "" {
				return "unjudged:two-injections"
			}
			injectPath = d.patchPath(p.Name)
		}
		classes = append(classes, "kind:patch-"+p.Fault+"/-"+cs.Via, "kind-patch-"+c16PosClass(i, len(cs.Patches))+":patch-"+p.Fault)
	}
	if cs.ListFault != "" {
		if cs.Via != "P" {
			return "unjudged:list-fault-without-list"
		}
		e.Lenient = true
		nFail++
		cause := c16Errnos[map[string]string{"missing": "ENOENT", "unreadable": "EACCES", "directory": "EISDIR"}[cs.ListFault]]
		if cs.ListFault == "long-line" {
			cause = "too long"
		}
		e.Reports = append(e.Reports, c16Report{What: "list-" + cs.ListFault, Paths: []string{d.patchPath("list.txt")}, Causes: []string{cause}, Pos: -1})
		if cs.ListFault == "unreadable" {
			if injectPath != "" {
				return "unjudged:two-injections"
			}
			injectPath = d.patchPath("list.txt")
		}
		classes = append(classes, "kind:list-"+cs.ListFault)
	}
	if e.Unreadble >= 0 && e.Lenient {
		// The run stops at the arguments; the read is never reached.
		return "unjudged:unreadable-target-behind-bad-argument"
	}

	args := append(d.patchArgs(), cs.Args...)
	var res *run.CLIResult
	fired := true
	if injectPath != "" {
		fired = false
		for attempt := 0; attempt < 2 && !fired; attempt++ {
			if err := d.restore(); err != nil {
				return "setup:" + err.Error()
			}
			var flg *c16TraceLog
			res, flg = c16Traced(d, c16TraceCfg{Exact: injectPath, Names: []string{"openat", "open"}, K: 1, Errno: c16ErrnoNum["EACCES"]}, args)
			if flg == nil {
				continue
			}
			n := 0
			for _, c := range flg.Calls {
				if c.Tampered != "" {
					n++
				}
			}
			fired = n == 1 && !res.TimedOut && res.StartErr == "" && res.Signal == ""
		}
	} else {
		res = run.CLI(d.root, nil, args...)
	}
	T, oddT := d.readTree()
	info := c16RunInfo{Classes: append(classes, fmt.Sprintf("failures:%d", min(nFail, 4)), "via:-"+cs.Via)}
	info.Hash = evid.Hash(c16CaseHash(cs))
	if res.TimedOut {
		info.Classes = append(info.Classes, "timed-out")
		sink(info, nil)
		return "unjudged:timeout"
	}
	if !fired {
		info.Classes = append(info.Classes, "injection-did-not-fire")
		sink(info, nil)
		return "ok"
	}
	if injectPath != "" {
		info.Classes = append(info.Classes, "injection-fired")
	}
	info.Nontriv = nFail >= 1 && nWritten >= 1
	var parts []string
	for _, f := range cs.Files {
		parts = append(parts, fmt.Sprintf("%s[%s]", f.Name, f.Role))
	}
	for _, p := range cs.Patches {
		if p.Fault != "" {
			parts = append(parts, fmt.Sprintf("patch %s[%s]", p.Name, p.Fault))
		}
	}
	if cs.ListFault != "" {
		parts = append(parts, "list["+cs.ListFault+"]")
	}
	e.Context = fmt.Sprintf("gopatch -%s ... %s over %s (missing: %v)", cs.Via, strings.Join(cs.Args, " "), strings.Join(parts, " "), cs.Missing)
	info.FaultDesc = e.Context
	sink(info, c16Judge(e, &c16Obs{Res: res, T: T, Odd: oddT}))
	return "ok"
}

// evalC16 is the pure evaluation of a case: the first finding that is not a
// listed known finding (or, failing that, the first finding).
func evalC16(cs *c16Case) (sig, msg string) {
	var first, firstNew *c16Finding
	sink := func(info c16RunInfo, fs []c16Finding) {
		for i := range fs {
			if first == nil {
				first = &fs[i]
			}
			if firstNew == nil && !isKnown("C16", fs[i].Sig) {
				firstNew = &fs[i]
			}
		}
	}
	if cs.Mode == "signal" {
		sig, msg, _, _ = c16EvalSignal(cs)
		return sig, msg
	}
	if cs.Mode == "faults" {
		c16EvalFaults(cs, nil, sink)
	} else {
		c16EvalKinds(cs, sink)
	}
	if firstNew != nil {
		return firstNew.Sig, firstNew.Msg
	}
	if first != nil {
		return first.Sig, first.Msg
	}
	return "", ""
}

// ---------------------------------------------------------------- generators

var c16Names = []string{"a.go", "b_test.go", "c/d.go", "c/e_test.go", "h.go", "k/l/m.go", "n.go", "q/r.go", "w.go", "z.go"}

// c16Src builds a Go file. calls are statement texts placed in the first
// function; pad is the number of filler functions.
func c16Src(i int, calls []string, pad int) string {
	var b strings.Builder
	fmt.Fprintf(&b, "package p%d\n\ntype T struct{}\n\nfunc f%d(v T) int {\n", i, i)
	for _, c := range calls {
		b.WriteString("\t" + c + "\n")
	}
	b.WriteString("\treturn 0\n}\n")
	for j := 0; j < pad; j++ {
		fmt.Fprintf(&b, "\nfunc pad%d_%d(a, b int) int { return a*%d + b }\n", i, j, j)
	}
	return b.String()
}

var c16Unparseable = []string{
	"package p\n\nfunc f() { cnt(0 }\n",
	"",
	"package p\n\nfunc f() {\n\tcnt(0)\n",
	"\x00\x01\x02 not go\n",
	"package p\n\nfunc f() { cnt(0) }\n\n}}}} trailing\n",
	"func f() { cnt(0) }\n",
	// generated source: the parser reports the error for another file name
	"package p\n\n//line grammar.y:42\nfunc f( {\n\tcnt(0)\n}\n",
	"//line /abs/elsewhere/parser.y:1\npackage p\n\nfunc f() { cnt(0 }\n",
}

func c16Padding(rt *rapid.T, label string) int {
	switch rapid.IntRange(0, 9).Draw(rt, label) {
	case 0, 1, 2:
		return 0
	case 3, 4, 5:
		return rapid.IntRange(1, 8).Draw(rt, label+"N")
	case 6, 7:
		return rapid.IntRange(20, 150).Draw(rt, label+"N")
	case 8:
		return rapid.IntRange(150, 400).Draw(rt, label+"N")
	}
	return rapid.IntRange(400, 800).Draw(rt, label+"N") // 20-40 KB
}

func c16DrawNames(rt *rapid.T, n int) []string {
	idx := rapid.Permutation(func() []int {
		v := make([]int, len(c16Names))
		for i := range v {
			v[i] = i
		}
		return v
	}()).Draw(rt, "names")[:n]
	sort.Ints(idx)
	out := make([]string, n)
	for i, k := range idx {
		out[i] = c16Names[k]
	}
	return out
}

func c16DrawArgs(rt *rapid.T, names []string) []string {
	switch rapid.IntRange(0, 3).Draw(rt, "argStyle") {
	case 0:
		return []string{"tree"}
	case 1:
		return []string{"./tree/..."}
	case 2:
		return []string{"tree/"}
	}
	order := rapid.Permutation(append([]string{}, names...)).Draw(rt, "argOrder")
	var a []string
	for _, n := range order {
		a = append(a, "tree/"+n)
	}
	return a
}

var c16ModelOpts = modelOpts{
	Mine:         gen.MineOpts{MaxHoles: 2, MaxDots: 1},
	MaxHostLines: 220,
	MinPlants:    1, MaxPlants: 3,
	MinMutants: 0, MaxMutants: 2,
}

// c16DrawModel draws a (patch, host) pair on which gopatch and the
// reference model agree and which has at least one site.
func c16DrawModel(rt *rapid.T) (patch, host string, ok bool) {
	for try := 0; try < 4; try++ {
		mc, _ := genModelCase(rt, c16ModelOpts)
		if mc == nil {
			continue
		}
		if v := evalModel(mc); v.Status == "ok" && v.Sites >= 1 {
			return mc.Patch, mc.Host, true
		}
	}
	return "", "", false
}

func c16GenFaults(rt *rapid.T) *c16Case {
	cs := &c16Case{Mode: "faults", Via: "p"}
	if rapid.IntRange(0, 3).Draw(rt, "skipImports") == 0 {
		cs.Flags = []string{"--skip-import-processing"}
	}
	n := rapid.IntRange(2, 4).Draw(rt, "nFiles")
	names := c16DrawNames(rt, n)
	patchKind := rapid.IntRange(0, 3).Draw(rt, "patchKind") // 0,1: cnt; 2: model; 3: both
	var modelPatch, modelHost string
	if patchKind >= 2 {
		var ok bool
		if modelPatch, modelHost, ok = c16DrawModel(rt); !ok {
			patchKind = 0
		}
	}
	switch patchKind {
	case 0, 1:
		cs.Patches = []c16Patch{{Name: "p0.patch", Text: c16CntPatch}}
	case 2:
		cs.Patches = []c16Patch{{Name: "p0.patch", Text: modelPatch}}
	case 3:
		if rapid.Bool().Draw(rt, "onePatchFile") {
			cs.Patches = []c16Patch{{Name: "p0.patch", Text: c16CntPatch + modelPatch}}
		} else {
			cs.Patches = []c16Patch{{Name: "p0.patch", Text: c16CntPatch}, {Name: "p1.patch", Text: modelPatch}}
			if rapid.Bool().Draw(rt, "viaList") {
				cs.Via = "P"
			}
		}
	}
	modelAt := -1
	if patchKind >= 2 {
		modelAt = rapid.IntRange(0, n-1).Draw(rt, "modelAt")
	}
	ascending := rapid.IntRange(0, 3).Draw(rt, "ascendingSizes") == 0
	lastPad := 0
	anySite := modelAt >= 0
	for i, name := range names {
		if i == modelAt {
			cs.Files = append(cs.Files, c16File{Name: name, Role: "model", Src: modelHost})
			continue
		}
		site := patchKind != 2 && rapid.IntRange(0, 3).Draw(rt, "site") != 0
		if i == n-1 && !anySite && patchKind != 2 {
			site = true
		}
		pad := c16Padding(rt, "pad")
		if ascending {
			pad = lastPad + rapid.IntRange(0, 6).Draw(rt, "padStep")
			lastPad = pad
		}
		if site {
			anySite = true
			k := rapid.IntRange(1, 3).Draw(rt, "nSites")
			var calls []string
			for j := 0; j < k; j++ {
				calls = append(calls, fmt.Sprintf("cnt(%d)", j))
			}
			cs.Files = append(cs.Files, c16File{Name: name, Role: "site", Src: c16Src(i, calls, pad)})
		} else {
			cs.Files = append(cs.Files, c16File{Name: name, Role: "nosite", Src: c16Src(i, []string{"other(0)"}, pad)})
		}
	}
	if rapid.IntRange(0, 3).Draw(rt, "longName") == 0 {
		// A base name so long that no temporary sibling ".<name>.gopatch-<n>"
		// can be created (255-byte limit). The run is judged only if the
		// fault-free run copes with it; whatever way the file is then written,
		// a write that fails or is cut short must not leave it torn.
		i := rapid.IntRange(0, len(cs.Files)-1).Draw(rt, "longNameAt")
		old := cs.Files[i].Name
		dir := ""
		if k := strings.LastIndex(old, "/"); k >= 0 {
			dir = old[:k+1]
		}
		cs.Files[i].Name = dir + strings.Repeat("L", 246) + ".go"
		for j := range names {
			if names[j] == old {
				names[j] = cs.Files[i].Name
			}
		}
	}
	cs.Args = c16DrawArgs(rt, names)
	return cs
}

// c16KindFile builds a file with a failing role.
func c16KindFile(rt *rapid.T, i int, name, role string) c16File {
	withCnt := rapid.Bool().Draw(rt, "alsoCnt")
	pad := rapid.IntRange(0, 5).Draw(rt, "kpad")
	var calls []string
	if withCnt {
		calls = append(calls, "cnt(0)")
	}
	switch role {
	case "unparseable":
		k := rapid.IntRange(0, len(c16Unparseable)).Draw(rt, "badSrc")
		if k < len(c16Unparseable) {
			return c16File{Name: name, Role: role, Src: c16Unparseable[k]}
		}
		// A good file with a byte range cut out or a token inserted.
		src := c16Src(i, []string{"cnt(0)", "dnt(0)"}, pad)
		for try := 0; try < 8; try++ {
			at := rapid.IntRange(0, len(src)-1).Draw(rt, "cutAt")
			ln := rapid.IntRange(1, 12).Draw(rt, "cutLen")
			var mut string
			if rapid.Bool().Draw(rt, "insert") {
				tok := rapid.SampledFrom([]string{"}", "{", "(", "func", "\"", "'", "@", "/*"}).Draw(rt, "tok")
				mut = src[:at] + tok + src[at:]
			} else {
				mut = src[:at] + src[min(at+ln, len(src)):]
			}
			if len(c16ParserCauses(mut)) > 0 {
				return c16File{Name: name, Role: role, Src: mut}
			}
		}
		return c16File{Name: name, Role: role, Src: c16Unparseable[0]}
	case "rewrite-error":
		calls = append(calls, "bad(1)")
	case "unparseable-result":
		calls = append(calls, "check(T{} == v)")
	case "unreadable":
		calls = []string{"cnt(0)", "dnt(0)"}
	}
	return c16File{Name: name, Role: role, Src: c16Src(i, calls, pad)}
}

func c16GoodFile(rt *rapid.T, i int, name string, forceSite bool) c16File {
	pad := rapid.IntRange(0, 6).Draw(rt, "gpad")
	if forceSite || rapid.IntRange(0, 3).Draw(rt, "gsite") != 0 {
		return c16File{Name: name, Role: "site", Src: c16Src(i, []string{"cnt(0)", "dnt(0)", "ent(0)"}, pad)}
	}
	return c16File{Name: name, Role: "nosite", Src: c16Src(i, []string{"other(0)"}, pad)}
}

// c16KindPatches: three independent good changes, plus the changes that
// fail for the files built to trigger them.
func c16KindPatches(rt *rapid.T) []c16Patch {
	bad := c16BadRewrite + c16BadResult
	switch rapid.IntRange(0, 2).Draw(rt, "patchLayout") {
	case 0:
		return []c16Patch{{Name: "p0.patch", Text: c16CntPatch + bad + c16DntPatch + c16EntPatch}}
	case 1:
		return []c16Patch{{Name: "p0.patch", Text: c16CntPatch}, {Name: "p1.patch", Text: bad + c16DntPatch}, {Name: "p2.patch", Text: c16EntPatch}}
	}
	return []c16Patch{{Name: "p0.patch", Text: c16BadResult + c16CntPatch}, {Name: "p1.patch", Text: c16DntPatch}, {Name: "p2.patch", Text: c16EntPatch + c16BadRewrite}}
}

func c16GenKinds(rt *rapid.T) *c16Case {
	cs := &c16Case{Mode: "kinds", Via: "p"}
	if rapid.IntRange(0, 2).Draw(rt, "skipImports") == 0 {
		cs.Flags = []string{"--skip-import-processing"} // failures must be reported whichever way the result is validated
	}
	n := rapid.IntRange(2, 4).Draw(rt, "nFiles")
	names := c16DrawNames(rt, n)
	cs.Patches = c16KindPatches(rt)
	if rapid.Bool().Draw(rt, "viaList") {
		cs.Via = "P"
	}
	class := rapid.SampledFrom([]string{"file", "file", "file", "file", "file", "arg", "arg", "patch", "patch", "patch"}).Draw(rt, "class")
	roles := make([]string, n)
	for i := range roles {
		roles[i] = "good"
	}
	failing := []string{"unparseable", "rewrite-error", "unparseable-result", "unreadable"}
	nBad := 0
	if class == "file" {
		nBad = rapid.IntRange(1, n-1).Draw(rt, "nBad")
	} else {
		nBad = rapid.IntRange(0, 1).Draw(rt, "nBad")
		failing = failing[:3]
	}
	where := rapid.Permutation(func() []int {
		v := make([]int, n)
		for i := range v {
			v[i] = i
		}
		return v
	}()).Draw(rt, "badAt")[:nBad]
	unreadableUsed := false
	// the same kind of failure in several files of one run (what is done
	// about the first must be done about the others too)
	sameKind := ""
	if nBad >= 2 && rapid.Bool().Draw(rt, "sameKind") {
		sameKind = rapid.SampledFrom([]string{"rewrite-error", "rewrite-error", "unparseable-result", "unparseable"}).Draw(rt, "sameKindRole")
	}
	for _, w := range where {
		r := rapid.SampledFrom(failing).Draw(rt, "role")
		if sameKind != "" {
			r = sameKind
		}
		if r == "unreadable" {
			if unreadableUsed {
				r = "unparseable"
			}
			unreadableUsed = true
		}
		roles[w] = r
	}
	firstGood := true
	for i, name := range names {
		if roles[i] == "good" {
			cs.Files = append(cs.Files, c16GoodFile(rt, i, name, firstGood))
			firstGood = false
		} else {
			cs.Files = append(cs.Files, c16KindFile(rt, i, name, roles[i]))
		}
	}
	// two names of one file (hard link), both Go files of the run
	if rapid.IntRange(0, 4).Draw(rt, "hardLink") == 0 {
		first := -1
		for i := range cs.Files {
			if cs.Files[i].Role != "site" {
				continue
			}
			if first < 0 {
				first = i
				continue
			}
			cs.Files[i].Src, cs.Files[i].LinkOf = cs.Files[first].Src, cs.Files[first].Name
			break
		}
	}
	if cs.Via == "P" {
		cs.ListNoLF = rapid.IntRange(0, 3).Draw(rt, "listNoFinalLF") == 0
	}
	cs.Args = c16DrawArgs(rt, names)
	switch class {
	case "arg":
		k := rapid.IntRange(1, 2).Draw(rt, "nMissing")
		for j := 0; j < k; j++ {
			m := rapid.SampledFrom([]string{"tree/gone.go", "nowhere", "tree/c/absent.go", "./tree/none/...", "tree/zz.go", "tree/gone[1].go", "tree/what?.go", "tree/no*.go"}).Draw(rt, "missing")
			dup := false
			for _, x := range cs.Missing {
				dup = dup || x == m
			}
			if dup {
				continue
			}
			at := rapid.IntRange(0, len(cs.Args)).Draw(rt, "missingAt")
			cs.Args = append(cs.Args[:at], append([]string{m}, cs.Args[at:]...)...)
			cs.Missing = append(cs.Missing, m)
		}
	case "patch":
		opts := []string{"missing", "unreadable", "directory"}
		if cs.Via == "P" {
			opts = append(opts, "list-missing", "list-unreadable", "list-directory", "list-long-line")
		}
		f := rapid.SampledFrom(opts).Draw(rt, "patchFault")
		if strings.HasPrefix(f, "list-") {
			cs.ListFault = strings.TrimPrefix(f, "list-")
		} else {
			cs.Patches[rapid.IntRange(0, len(cs.Patches)-1).Draw(rt, "patchAt")].Fault = f
		}
	}
	return cs
}

// c16Table: the per-file failure kinds at every position of a three-file
// run, and the patch failures at every position of a three-patch list.
func c16Table() []*c16Case {
	var out []*c16Case
	names := []string{"a.go", "m/n.go", "z.go"}
	threePatches := func() []c16Patch {
		return []c16Patch{{Name: "p0.patch", Text: c16CntPatch + c16BadRewrite}, {Name: "p1.patch", Text: c16DntPatch + c16BadResult}, {Name: "p2.patch", Text: c16EntPatch}}
	}
	good := func(i int) c16File {
		return c16File{Name: names[i], Role: "site", Src: c16Src(i, []string{"cnt(0)", "dnt(0)", "ent(0)"}, i)}
	}
	badFiles := func(i int) []c16File {
		fs := []c16File{
			{Name: names[i], Role: "rewrite-error", Src: c16Src(i, []string{"bad(1)"}, 1)},
			{Name: names[i], Role: "rewrite-error", Src: c16Src(i, []string{"cnt(0)", "bad(1)", "ent(2)"}, 1)},
			{Name: names[i], Role: "unparseable-result", Src: c16Src(i, []string{"check(T{} == v)"}, 1)},
			{Name: names[i], Role: "unparseable-result", Src: c16Src(i, []string{"cnt(0)", "check(T{} == v)"}, 1)},
			{Name: names[i], Role: "unreadable", Src: c16Src(i, []string{"cnt(0)"}, 1)},
		}
		for _, u := range c16Unparseable {
			fs = append(fs, c16File{Name: names[i], Role: "unparseable", Src: u})
		}
		return fs
	}
	argStyles := [][]string{{"tree"}, {"tree/z.go", "tree/a.go", "tree/m/n.go"}}
	// One failing file at each position.
	for i := 0; i < 3; i++ {
		for bi, b := range badFiles(i) {
			for _, via := range []string{"p", "P"} {
				if via == "P" && bi%2 == 1 {
					continue
				}
				cs := &c16Case{Mode: "kinds", Via: via, Patches: threePatches(), Args: argStyles[(i+bi)%2]}
				for j := 0; j < 3; j++ {
					if j == i {
						cs.Files = append(cs.Files, b)
					} else {
						cs.Files = append(cs.Files, good(j))
					}
				}
				out = append(out, cs)
				if via == "p" && bi < 4 {
					// the same with --skip-import-processing (the result is validated by another code path)
					c2 := *cs
					c2.Flags = []string{"--skip-import-processing"}
					out = append(out, &c2)
				}
			}
		}
	}
	// --skip-generated must not hide a file that does not parse, whatever
	// its text looks like (here: the marker below the package clause, and a
	// raw string with a line like a second package clause).
	for i := 0; i < 3; i++ {
		cs := &c16Case{Mode: "kinds", Via: "p", Patches: threePatches(), Args: []string{"tree"}, Flags: []string{"--skip-generated"}}
		for x := 0; x < 3; x++ {
			if x == i {
				cs.Files = append(cs.Files, c16File{Name: names[x], Role: "unparseable", Src: "package p\n\n// Code generated by hand. DO NOT EDIT.\n\nvar tmpl = `\npackage q\n`\n\nfunc broken( {\n\tcnt(0)\n}\n"})
			} else {
				cs.Files = append(cs.Files, good(x))
			}
		}
		out = append(out, cs)
	}
	// The same kind of failure in two files of one run, at every pair of
	// positions: the second one is to be treated like the first.
	for i := 0; i < 3; i++ {
		for j := i + 1; j < 3; j++ {
			for _, k := range []int{1, 3} { // rewrite error, unparseable result; both with a change that does apply
				for _, via := range []string{"p", "P"} {
					cs := &c16Case{Mode: "kinds", Via: via, Patches: threePatches(), Args: argStyles[(i+j)%2]}
					for x := 0; x < 3; x++ {
						switch x {
						case i:
							cs.Files = append(cs.Files, badFiles(i)[k])
						case j:
							cs.Files = append(cs.Files, badFiles(j)[k])
						default:
							cs.Files = append(cs.Files, good(x))
						}
					}
					out = append(out, cs)
				}
			}
		}
	}
	// An unreadable target behind / before another failing file.
	for u := 0; u < 3; u++ {
		for o := 0; o < 3; o++ {
			if o == u {
				continue
			}
			for _, other := range badFiles(o)[:4] {
				cs := &c16Case{Mode: "kinds", Via: "p", Patches: threePatches(), Args: []string{"tree"}}
				for j := 0; j < 3; j++ {
					switch j {
					case u:
						cs.Files = append(cs.Files, c16File{Name: names[j], Role: "unreadable", Src: c16Src(j, []string{"cnt(0)"}, 1)})
					case o:
						cs.Files = append(cs.Files, other)
					default:
						cs.Files = append(cs.Files, good(j))
					}
				}
				out = append(out, cs)
			}
		}
	}
	// Many failing files in one run: the exit status is non-zero however
	// many there are (a status that counts them wraps around at 256).
	for _, nBad := range []int{255, 256, 257, 512} {
		cs := &c16Case{Mode: "kinds", Via: "p", Patches: threePatches(), Args: []string{"tree"}}
		cs.Files = append(cs.Files, good(0))
		for i := 0; i < nBad; i++ {
			cs.Files = append(cs.Files, c16File{Name: fmt.Sprintf("bad/u%03d.go", i), Role: "unparseable", Src: c16Unparseable[i%2*2]})
		}
		cs.Files = append(cs.Files, good(2))
		out = append(out, cs)
	}
	allGood := func() []c16File { return []c16File{good(0), good(1), good(2)} }
	// A missing path at each argument position.
	for _, m := range []string{"tree/gone.go", "nowhere", "./tree/none/...", "tree/gone[1].go", "tree/what?.go"} {
		for _, base := range argStyles {
			for at := 0; at <= len(base); at++ {
				args := append(append(append([]string{}, base[:at]...), m), base[at:]...)
				out = append(out, &c16Case{Mode: "kinds", Via: "p", Patches: threePatches(), Files: allGood(), Args: args, Missing: []string{m}})
			}
		}
	}
	out = append(out, &c16Case{Mode: "kinds", Via: "p", Patches: threePatches(), Files: allGood(), Args: []string{"tree/gone.go", "tree", "nowhere"}, Missing: []string{"tree/gone.go", "nowhere"}})
	// Patch failures at each position, both ways of naming patches.
	for _, via := range []string{"p", "P"} {
		for _, fault := range []string{"missing", "unreadable", "directory"} {
			for at := 0; at < 3; at++ {
				cs := &c16Case{Mode: "kinds", Via: via, Patches: threePatches(), Files: allGood(), Args: []string{"tree"}}
				cs.Patches[at].Fault = fault
				out = append(out, cs)
			}
		}
	}
	for _, lf := range []string{"missing", "unreadable", "directory", "long-line"} {
		out = append(out, &c16Case{Mode: "kinds", Via: "P", ListFault: lf, Patches: threePatches(), Files: allGood(), Args: []string{"tree"}})
	}
	return out
}

// c16FixedFaults: fault enumerations that every run performs whatever the
// seed: three files of which the first and last are written; four files of
// ascending size given explicitly.
func c16FixedFaults() []*c16Case {
	one := &c16Case{Mode: "faults", Via: "p", Patches: []c16Patch{{Name: "p0.patch", Text: c16CntPatch}}, Args: []string{"tree"},
		Files: []c16File{
			{Name: "a.go", Role: "site", Src: c16Src(0, []string{"cnt(0)"}, 0)},
			{Name: "m.go", Role: "nosite", Src: c16Src(1, []string{"other(0)"}, 1)},
			{Name: "sub/z.go", Role: "site", Src: c16Src(2, []string{"cnt(7)", "cnt(8)"}, 2)},
		}}
	two := &c16Case{Mode: "faults", Via: "P", Patches: []c16Patch{{Name: "p0.patch", Text: c16CntPatch}, {Name: "p1.patch", Text: c16DntPatch}},
		Args: []string{"tree/w.go", "tree/b_test.go", "tree/c/d.go", "tree/h.go"},
		Files: []c16File{
			{Name: "b_test.go", Role: "site", Src: c16Src(0, []string{"cnt(0)"}, 0)},
			{Name: "c/d.go", Role: "site", Src: c16Src(1, []string{"dnt(0)"}, 3)},
			{Name: "h.go", Role: "site", Src: c16Src(2, []string{"cnt(0)", "dnt(0)"}, 40)},
			{Name: "w.go", Role: "site", Src: c16Src(3, []string{"cnt(1)"}, 450)},
		}}
	return []*c16Case{one, two}
}

// ---------------------------------------------------------------- tests

func c16Sink(ft fataler, c *evid.Collector, cs *c16Case, part string) c16SinkFn {
	return func(info c16RunInfo, fs []c16Finding) {
		classes := append([]string{"part:" + part, "mode:" + cs.Mode, fmt.Sprintf("files:%d", len(cs.Files))}, info.Classes...)
		if info.Nontriv {
			classes = append(classes, "nontrivial")
		}
		for _, f := range cs.Files {
			if f.Role == "model" {
				classes = append(classes, "with-generated-patch-and-host")
			}
		}
		for _, f := range fs {
			classes = append(classes, "finding:"+f.Sig)
		}
		c.Case(info.Hash, info.Nontriv, classes...)
		if info.Nontriv && c.WantSample() {
			var fl []string
			for _, f := range cs.Files {
				fl = append(fl, fmt.Sprintf("%s[%s,%dB]", f.Name, f.Role, len(f.Src)))
			}
			c.Sample(map[string]any{"fault": trunc(info.FaultDesc, 400), "files": fl, "args": cs.Args, "findings": len(fs)})
		}
		for _, f := range fs {
			rc := *cs
			rc.Only = f.Fault
			violate(ft, "C16", f.Sig, f.Msg, &rc)
		}
	}
}

func c16Run(ft fataler, c *evid.Collector, cs *c16Case, part string, pick func(int) bool) {
	var st string
	if cs.Mode == "faults" {
		st = c16EvalFaults(cs, pick, c16Sink(ft, c, cs, part))
	} else {
		st = c16EvalKinds(cs, c16Sink(ft, c, cs, part))
	}
	c.Class("case-status:" + st)
	if strings.HasPrefix(st, "inconclusive:") {
		c.Inconclusive(strings.TrimPrefix(st, "inconclusive:"))
	}
	if strings.HasPrefix(st, "setup:") {
		ft.Fatalf("harness problem: %s", st)
	}
}

func TestC16(t *testing.T) {
	c := coll("C16")
	k, n := shard()
	if why := c16Available(); why != "" {
		c.Inconclusive(why)
		t.Skip(why)
	}

	// Part 0: the injector sees what strace sees.
	for _, cs := range c16FixedFaults() {
		dis, note := c16CrossCheck(cs)
		if dis != "" {
			c.Inconclusive("fault injector and strace disagree about a fault-free run")
			t.Fatalf("fault injector and strace disagree about a fault-free run:\n%s", dis)
		}
		c.Class("injector-vs-strace:" + note)
	}
	// Part 1: fixed fault enumerations, split between the shards by fault index.
	for _, cs := range c16FixedFaults() {
		c16Run(t, c, cs, "fixed-faults", func(i int) bool { return i%n == k })
	}
	// Part 2: the table of failure kinds x positions.
	for i, cs := range c16Table() {
		if i%n != k {
			continue
		}
		c16Run(t, c, cs, "table", nil)
	}
	if t.Failed() {
		return
	}
	// Part 3: generated cases.
	checkN(t, func(rt *rapid.T) {
		var cs *c16Case
		if rapid.IntRange(0, 5).Draw(rt, "signalMode") == 0 {
			c16RunSignal(rt, c, c16GenSignal(rt))
			return
		}
		if rapid.IntRange(0, 9).Draw(rt, "mode") < 6 {
			cs = c16GenFaults(rt)
		} else {
			cs = c16GenKinds(rt)
		}
		c16Run(rt, c, cs, "generated", nil)
	})
}

func TestReplayC16(t *testing.T) {
	var cs c16Case
	if !loadReplay(t, "C16", &cs) {
		return
	}
	sig, msg := evalC16(&cs)
	t.Logf("sig=%q\n%s", sig, msg)
	if sig != "" {
		violate(t, "C16", sig, msg, &cs)
	}
}
