package props

import (
	"fmt"
	"go/parser"
	"go/token"
	"os"
	"path/filepath"
	"regexp"
	"strconv"
	"strings"
	"testing"

	"github.com/uber-go/gopatch/verif/evid"
	"github.com/uber-go/gopatch/verif/gen"
	"github.com/uber-go/gopatch/verif/run"
	"pgregory.net/rapid"
)

// C07 — whatever gopatch emits on success is syntactically valid Go.

type c07Case struct {
	Patch  string `json:"patch"`
	File   string `json:"file"`
	Family string `json:"family"`
	Name   string `json:"name,omitempty"` // file name (default f.go)
	// Siblings are further files of the same directory that are named on the
	// same command line in the modes that write files.
	Siblings []c07Sibling `json:"siblings,omitempty"`
	// DirArg: the file is reached through a directory argument ("." or
	// "./...") instead of being named.
	DirArg string `json:"dir_arg,omitempty"`
}

type c07Sibling struct {
	Name string `json:"name"`
	Src  string `json:"src"`
}

// c07Blob is a declaration with a line longer than 64 KiB (the default
// limit of a bufio.Scanner), followed by more code.
func c07Blob() string {
	return "\nfunc c07blob() string {\n\treturn \"" + strings.Repeat("x", 70000) + "\"\n}\n\nfunc c07after() {\n\tc07blob()\n}\n"
}

func (cs *c07Case) name() string {
	if cs.Name != "" {
		return cs.Name
	}
	return "f.go"
}

// c07LongName is a base name too long for a temporary sibling of the form
// ".<name>.gopatch-<n>" to exist: whatever gopatch does to write such a file
// (or to refuse), what ends up on disk with exit status 0 must parse.
var c07LongName = strings.Repeat("n", 246) + ".go"

// Templates that put captured code where it may not fit.
var c07Patches = []string{
	"@@\nvar x expression\n@@\n-check(x)\n+if x {\n+\treturn\n+}\n",
	"@@\nvar x expression\n@@\n-check(x)\n+for x {\n+}\n",
	"@@\nvar x expression\n@@\n-check(x)\n+switch x {\n+}\n",
	"@@\nvar x expression\n@@\n-check(x)\n+if v := x; v != nil {\n+}\n",
	"@@\nvar x, y expression\n@@\n-pair(x, y)\n+x.y\n",
	"@@\nvar x, y expression\n@@\n-pair(x, y)\n+x[y]\n",
	"@@\nvar x, y expression\n@@\n-pair(x, y)\n+x{y}\n",
	"@@\nvar x, y expression\n@@\n-pair(x, y)\n+func() x { return y }\n",
	"@@\nvar x, y expression\n@@\n-pair(x, y)\n+x := y\n",
	"@@\nvar x expression\n@@\n-check(x)\n+go x\n",
	"@@\nvar x expression\n@@\n-check(x)\n+defer x\n",
	"@@\nvar x expression\n@@\n-check(x)\n+x++\n",
	"@@\nvar x expression\n@@\n-check(x)\n+var v x\n",
	"@@\nvar x expression\n@@\n-check(x)\n+check(x...)\n",
	"@@\nvar x expression\n@@\n-T{x}\n+check(x)\n",
	"@@\nvar x expression\n@@\n-T{...}\n+check(...)\n",
	"@@\nvar x expression\n@@\n-check(...)\n+T{...}\n",
	"@@\nvar x expression\n@@\n-check(...)\n+[]int{...}\n",
	"@@\nvar x expression\n@@\n-check(...)\n+return ...\n",
	"@@\nvar x expression\n@@\n-func(a x) {}\n+check(x)\n",
	"@@\nvar x identifier\n@@\n-x := check()\n+var x = check()\n",
	"@@\nvar x expression\n@@\n-check(x)\n+x.(type)\n",
	"@@\nvar x expression\n@@\n-check(x)\n+*x = 1\n",
	"@@\nvar x expression\n@@\n-check(x)\n+<-x\n",
	"@@\nvar x expression\n@@\n-check(x)\n+x <- 1\n",
	"@@\nvar x expression\n@@\n-check(x)\n+-x\n",
	"@@\nvar x expression\n@@\n-check(x)\n+x.f()\n",
	"@@\nvar x expression\n@@\n-check(x)\n+x[0]\n",
	"@@\nvar x expression\n@@\n-check(x)\n+[x]int{}\n",
	"@@\nvar x expression\n@@\n-check(x)\n+map[x]int{}\n",
	"@@\nvar x expression\n@@\n-check(x)\n+case x:\n",
	"@@\nvar x expression\n@@\n-check(x)\n+L: x\n",
	"@@\nvar x expression\n@@\n-check(x)\n+x: for {}\n",
	"@@\nvar x expression\n@@\n-check(x)\n+goto x\n",
	"@@\nvar x expression\n@@\n-var v = check(x)\n+var v x\n",
	"@@\nvar x expression\n@@\n-var v = check(x)\n+type v x\n",
	"@@\nvar x expression\n@@\n-var v = check(x)\n+func v() x\n",
	"@@\nvar x expression\n@@\n-check(x)\n+x\n+...\n",
	// rewrites that make the file shorter
	"@@\nvar x, y expression\n@@\n-pair(x, y)\n+x\n",
	"@@\nvar x expression\n@@\n-check(x)\n+x\n",
	"@@\nvar x expression\n@@\n-_ = check(x)\n",
	"@@\n@@\n-check(...)\n+c()\n",
}

var c07Fillers = []string{
	"T{} == v", "T{}", "struct{}{}", "a", "a.b", "f()", "1", "\"s\"", "a + b", "func() {}", "func() bool { return true }()", "*p", "&T{a: 1}",
	"[]int{1}", "map[string]int{}", "a[0]", "<-ch", "!ok", "v.(int)", "(a)", "a, b", "k: v", "xs...", "-1", "a.b.c(1, 2)", "[]T", "chan int", "interface{}",
}

func c07TemplateCase(rt *rapid.T) *c07Case {
	p := rapid.SampledFrom(c07Patches).Draw(rt, "patch")
	var f strings.Builder
	// the import section decides which re-parse (format.Node's import sorting,
	// imports.Process) looks at the printed file
	f.WriteString("package a\n\n" + rapid.SampledFrom([]string{
		"import \"fmt\"\n\nvar _ = fmt.Sprint\n\n",
		"import \"fmt\"\n\nvar _ = fmt.Sprint\n\n",
		"",
		"import \"fmt\"\nimport \"os\"\n\nvar _, _ = fmt.Sprint, os.Exit\n\n",
		"import (\n\t\"fmt\"\n\t\"os\"\n)\n\nvar _, _ = fmt.Sprint, os.Exit\n\n",
		"import (\n\t\"fmt\"\n)\n\nimport \"os\"\n\nvar _, _ = fmt.Sprint, os.Exit\n\n",
		"import \"os\"\n\nimport (\n\t\"fmt\"\n)\n\nvar _, _ = fmt.Sprint, os.Exit\n\n",
		"import f \"fmt\"\nimport . \"os\"\nimport _ \"embed\"\n\nvar _ = f.Sprint\n\n",
	}).Draw(rt, "imports"))
	// generated source (goyacc, cgo): positions from here on are reported
	// for another file and lines far beyond the end of this one
	if rapid.IntRange(0, 5).Draw(rt, "lineDirective") == 0 {
		f.WriteString(rapid.SampledFrom([]string{"//line gen.y:9000\n", "//line gen.y:1\n", "/*line gen.y:700:1*/\n", "//line :5000\n"}).Draw(rt, "lineDirectiveText"))
	}
	n := rapid.IntRange(1, 3).Draw(rt, "n")
	for i := 0; i < n; i++ {
		x := rapid.SampledFrom(c07Fillers).Draw(rt, fmt.Sprintf("x%d", i))
		y := rapid.SampledFrom(c07Fillers).Draw(rt, fmt.Sprintf("y%d", i))
		var site string
		switch {
		case strings.Contains(p, "-pair("):
			site = fmt.Sprintf("pair(%s, %s)", x, y)
		case strings.Contains(p, "-T{x}"):
			site = fmt.Sprintf("T{%s}", x)
		case strings.Contains(p, "-T{...}"):
			site = fmt.Sprintf("T{%s, %s}", x, y)
		case strings.Contains(p, "-func(a x)"):
			site = fmt.Sprintf("func(a %s) {}", x)
		case strings.Contains(p, "-x := check()"):
			site = "v1 := check()"
		case strings.Contains(p, "-var v = check(x)"):
			site = ""
			fmt.Fprintf(&f, "var v = check(%s)\n\n", x)
		case strings.Contains(p, "-check(...)"):
			site = fmt.Sprintf("check(%s, %s)", x, y)
		default:
			site = fmt.Sprintf("check(%s)", x)
		}
		if site == "" {
			continue
		}
		switch rapid.IntRange(0, 4).Draw(rt, fmt.Sprintf("ctx%d", i)) {
		case 0:
			fmt.Fprintf(&f, "func f%d() {\n\t%s\n}\n\n", i, site)
		case 1:
			fmt.Fprintf(&f, "func f%d() {\n\t_ = %s\n}\n\n", i, site)
		case 2:
			fmt.Fprintf(&f, "func f%d() {\n\tuse(%s) // trailing comment\n}\n\n", i, site)
		case 3:
			fmt.Fprintf(&f, "var v%d = %s\n\n", i, site)
		default:
			fmt.Fprintf(&f, "func f%d() {\n\tif %s {\n\t}\n}\n\n", i, site)
		}
	}
	// A companion change in the same patch that always applies and cannot
	// break anything: whether the result of the run is looked at again must
	// not depend on which change was the last to apply.
	family := "template"
	switch rapid.IntRange(0, 7).Draw(rt, "companion") {
	case 0:
		f.WriteString("var renameMe = 1\n")
		p = p + "\n@@\n@@\n-renameMe\n+renamed\n"
		family = "template+rename-after"
	case 1:
		f.WriteString("var renameMe = 1\n")
		p = "@@\n@@\n-renameMe\n+renamed\n\n" + p
		family = "template+rename-before"
	case 2:
		f.WriteString("func tailf() {\n\ttail(1)\n}\n")
		p = p + "\n@@\nvar z expression\n@@\n-tail(z)\n+tailed(z)\n"
		family = "template+call-after"
	}
	return &c07Case{Patch: p, File: f.String(), Family: family}
}

var c07Opts = modelOpts{
	Mine:         gen.MineOpts{MaxHoles: 3, MaxDots: 2},
	MaxHostLines: 150,
	MinPlants:    1, MaxPlants: 3,
	MinMutants: 0, MaxMutants: 1,
}

type c07Mode struct {
	Name string
	Args []string
}

var c07Modes = []c07Mode{
	{"inplace", nil},
	{"print", []string{"--print-only"}},
	{"diff", []string{"--diff"}},
	{"inplace+skipimports", []string{"--skip-import-processing"}},
	{"print+skipimports", []string{"--print-only", "--skip-import-processing"}},
	{"diff+skipimports", []string{"--diff", "--skip-import-processing"}},
	{"inplace+skipgenerated+v", []string{"--skip-generated", "-v"}},
	{"diff+skipimports+skipgenerated", []string{"--diff", "--skip-import-processing", "--skip-generated"}},
}

func c07Parses(src []byte) error {
	_, err := parser.ParseFile(token.NewFileSet(), "out.go", src, parser.AllErrors|parser.SkipObjectResolution)
	return err
}

var hunkRe = regexp.MustCompile(`^@@ -(\d+)(?:,(\d+))? \+(\d+)(?:,(\d+))? @@`)

// applyUnifiedDiff applies a unified diff (as printed by gopatch --diff for
// one file, without the two header lines) to the original text, exactly:
// lines keep whatever precedes their line feed (a carriage return, say), and
// "\ No newline at end of file" takes the line feed off the line before it.
func applyUnifiedDiff(orig, diff string) (string, error) {
	if strings.TrimSpace(diff) == "" {
		return orig, nil
	}
	ol := strings.SplitAfter(orig, "\n")
	if len(ol) > 0 && ol[len(ol)-1] == "" {
		ol = ol[:len(ol)-1]
	}
	// Diff lines, each with its line feed; a no-newline marker removes the
	// line feed of its predecessor.
	var lines []string
	for _, l := range strings.SplitAfter(diff, "\n") {
		if l == "" {
			continue
		}
		if strings.HasPrefix(l, "\\") {
			if len(lines) == 0 {
				return "", fmt.Errorf("no-newline marker without a line before it")
			}
			lines[len(lines)-1] = strings.TrimSuffix(lines[len(lines)-1], "\n")
			continue
		}
		if !strings.HasSuffix(l, "\n") {
			l += "\n" // the last line of the diff text itself
		}
		lines = append(lines, l)
	}
	var out strings.Builder
	pos := 0 // index into ol
	// same reports whether line pos of the original is the given diff text. A
	// last line of the original without a line feed also matches a diff line
	// that carries no no-newline marker (gopatch never prints that marker; how
	// the missing line feed is then accounted for is judged by the caller).
	same := func(pos int, text string) bool {
		return ol[pos] == text || pos == len(ol)-1 && !strings.HasSuffix(ol[pos], "\n") && ol[pos]+"\n" == text
	}
	i := 0
	for i < len(lines) && !strings.HasPrefix(lines[i], "@@") {
		i++
	}
	for i < len(lines) {
		m := hunkRe.FindStringSubmatch(lines[i])
		if m == nil {
			return "", fmt.Errorf("bad hunk header %q", lines[i])
		}
		start, _ := strconv.Atoi(m[1])
		if m[2] == "0" {
			start++ // "-N,0" means "after line N"
		}
		if start-1 < pos {
			return "", fmt.Errorf("hunks out of order")
		}
		if start-1 > len(ol) {
			return "", fmt.Errorf("hunk starts beyond the end of the file")
		}
		for ; pos < start-1; pos++ {
			out.WriteString(ol[pos])
		}
		i++
		for i < len(lines) && !strings.HasPrefix(lines[i], "@@") {
			l := lines[i]
			switch {
			case l == "\n":
				// an empty context line printed without its leading space
				if pos >= len(ol) || ol[pos] != "\n" {
					return "", fmt.Errorf("context mismatch at line %d", pos+1)
				}
				out.WriteString("\n")
				pos++
			case l[0] == ' ':
				if pos >= len(ol) || !same(pos, l[1:]) {
					return "", fmt.Errorf("context mismatch at line %d: %q", pos+1, l)
				}
				out.WriteString(ol[pos])
				pos++
			case l[0] == '-':
				if pos >= len(ol) || !same(pos, l[1:]) {
					return "", fmt.Errorf("deletion mismatch at line %d: %q", pos+1, l)
				}
				pos++
			case l[0] == '+':
				out.WriteString(l[1:])
			default:
				return "", fmt.Errorf("bad diff line %q", l)
			}
			i++
		}
	}
	for ; pos < len(ol); pos++ {
		out.WriteString(ol[pos])
	}
	return out.String(), nil
}

func evalC07(cs *c07Case) (sig, msg string, hit bool, judged bool) {
	if c07Parses([]byte(cs.File)) != nil {
		return "", "", false, false
	}
	// library API
	ra := run.API("p.patch", []byte(cs.Patch), cs.name(), []byte(cs.File))
	if ra.Failed() {
		return "", "foreign:C08", false, false
	}
	if ra.ParseErr != "" {
		return "", "", false, false // the patch does not compile: nothing to judge
	}
	judged = true
	show := func() string {
		return fmt.Sprintf("patch:\n%s\nfile:\n%s", cs.Patch, trunc(cs.File, 1500))
	}
	if ra.ApplyErr == "" {
		if string(ra.Out) != cs.File {
			hit = true
		}
		if err := c07Parses(ra.Out); err != nil {
			return "emitted-unparseable:api", fmt.Sprintf("patch.File.Apply returned no error and text that does not parse: %v\n--- returned ---\n%s\n%s", err, trunc(string(ra.Out), 1500), show()), hit, judged
		}
	} else if strings.Contains(ra.ApplyErr, "expected") {
		hit = true
	}

	exits := map[string]int{}
	firstErr := ""
	generated := c12IsGenerated(&c14File{Src: cs.File})
	for _, mode := range c07Modes {
		dir, cleanup := run.TempDir("c07-")
		target := filepath.Join(dir, cs.name())
		_ = os.WriteFile(filepath.Join(dir, "p.patch"), []byte(cs.Patch), 0o644)
		_ = os.WriteFile(target, []byte(cs.File), 0o644)
		args := append([]string{"-p", "p.patch"}, mode.Args...)
		if cs.DirArg != "" {
			args = append(args, cs.DirArg)
		} else {
			args = append(args, cs.name())
		}
		multi := strings.HasPrefix(mode.Name, "inplace") && len(cs.Siblings) > 0 && cs.DirArg == ""
		if multi {
			for _, sb := range cs.Siblings {
				_ = os.WriteFile(filepath.Join(dir, sb.Name), []byte(sb.Src), 0o644)
				args = append(args, sb.Name)
			}
		}
		r := run.CLI(dir, nil, args...)
		after, _ := os.ReadFile(target)
		sibAfter := map[string]string{}
		if multi {
			for _, sb := range cs.Siblings {
				b, _ := os.ReadFile(filepath.Join(dir, sb.Name))
				sibAfter[sb.Name] = string(b)
			}
		}
		cleanup()
		if r.StartErr != "" || r.TimedOut || r.Crashed() {
			return "", "foreign:C08", hit, judged
		}
		if !(generated && strings.Contains(mode.Name, "skipgenerated")) && !multi {
			exits[mode.Name] = r.Exit
			// only failures of the rewrite itself (not of writing the file)
			if se := string(r.Stderr); r.Exit != 0 && firstErr == "" && (strings.Contains(se, "reformat \"") || strings.Contains(se, "could not update \"") || strings.Contains(se, "failed to rewrite \"")) {
				firstErr = mode.Name + ": " + trunc(strings.TrimSpace(string(r.Stderr)), 300)
			}
		}
		stdout := string(r.Stdout)
		if strings.Contains(mode.Name, "+v") {
			// drop the verbose log lines
			var keep []string
			for _, l := range strings.SplitAfter(stdout, "\n") {
				if strings.HasSuffix(strings.TrimSpace(l), ": patched") || strings.HasSuffix(strings.TrimSpace(l), ": skipped") || strings.Contains(l, ": failed: ") {
					continue
				}
				keep = append(keep, l)
			}
			stdout = strings.Join(keep, "")
		}
		var emitted string
		switch {
		case strings.HasPrefix(mode.Name, "inplace"):
			emitted = string(after)
			if stdout != "" && r.Exit == 0 {
				// nothing is printed in the default mode (C12's business); not judged here
			}
		case strings.HasPrefix(mode.Name, "print"):
			emitted = stdout
			if string(after) != cs.File {
				return "", "foreign:C12 --print-only modified the file", hit, judged
			}
		case strings.HasPrefix(mode.Name, "diff"):
			if string(after) != cs.File {
				return "", "foreign:C12 --diff modified the file", hit, judged
			}
			if r.Exit == 0 {
				applied, err := applyUnifiedDiff(cs.File, stdout)
				if err != nil {
					return "", "unjudged: diff does not apply: " + err.Error(), hit, judged
				}
				emitted = applied
			}
		}
		if multi {
			// Whatever the exit status (one file failing does not stop the
			// others): a file that was written holds Go.
			sibAfter[cs.name()] = string(after)
			for _, sb := range append([]c07Sibling{{Name: cs.name(), Src: cs.File}}, cs.Siblings...) {
				if got := sibAfter[sb.Name]; got != sb.Src {
					hit = true
					if err := c07Parses([]byte(got)); err != nil {
						return "emitted-unparseable:" + mode.Name + ":multi", fmt.Sprintf("gopatch %s on %d files (exit %d) leaves %s with text that does not parse: %v\n--- written ---\n%s\n--- it was ---\n%s\n%s", strings.Join(mode.Args, " "), len(cs.Siblings)+1, r.Exit, sb.Name, err, trunc(got, 1500), trunc(sb.Src, 1500), show()), hit, judged
					}
				}
			}
		}
		if r.Exit == 0 {
			if emitted != cs.File && emitted != "" {
				hit = true
			}
			if emitted == "" && strings.HasPrefix(mode.Name, "print") {
				continue
			}
			if err := c07Parses([]byte(emitted)); err != nil {
				return "emitted-unparseable:" + mode.Name, fmt.Sprintf("gopatch %s exits 0 and emits text that does not parse: %v\n--- emitted ---\n%s\n%s", strings.Join(mode.Args, " "), err, trunc(emitted, 1500), show()), hit, judged
			}
			continue
		}
		// an error was reported for the file
		hit = true
		if r.Exit != 1 {
			return "", "foreign:C08 exit status", hit, judged
		}
		if multi {
			// which of the files failed is C16's business
			continue
		}
		if !strings.Contains(string(r.Stderr), cs.name()) {
			return "error-does-not-name-file:" + mode.Name, fmt.Sprintf("gopatch %s exits %d but stderr does not name the file: %q\n%s", strings.Join(mode.Args, " "), r.Exit, trunc(string(r.Stderr), 400), show()), hit, judged
		}
		if string(after) != cs.File {
			return "error-but-file-written:" + mode.Name, fmt.Sprintf("gopatch %s reports an error (%s) but the file was modified:\n%s\n%s", strings.Join(mode.Args, " "), trunc(strings.TrimSpace(string(r.Stderr)), 300), trunc(string(after), 1200), show()), hit, judged
		}
		// With --print-only a file that could not be rewritten may be echoed
		// unchanged (that is not new content); anything else is an emission.
		if strings.TrimSpace(stdout) != "" && !strings.HasPrefix(mode.Name, "inplace") && stdout != cs.File {
			return "error-but-output-emitted:" + mode.Name, fmt.Sprintf("gopatch %s reports an error (%s) but still printed output for the file:\n%s\n%s", strings.Join(mode.Args, " "), trunc(strings.TrimSpace(string(r.Stderr)), 300), trunc(stdout, 1200), show()), hit, judged
		}
	}
	// The same rewrite is printed in every mode: if it cannot be emitted in
	// one (it would not parse, or the rewrite itself fails) the file must be
	// reported, with a non-zero exit status, in all of them.
	if firstErr == "" && ra.ApplyErr != "" {
		// the library refuses this file: so must every run of the command
		firstErr = "library: " + trunc(ra.ApplyErr, 300)
	}
	if firstErr != "" {
		for _, mode := range c07Modes {
			if e, ok := exits[mode.Name]; ok && e == 0 {
				// (a mode that failed for another reason, e.g. while writing, has e != 0 and is fine)
				return "error-not-reported:" + mode.Name, fmt.Sprintf("gopatch %s exits 0 and says nothing, yet the same patch and file fail in another mode (%s)\n%s", strings.Join(mode.Args, " "), firstErr, show()), hit, judged
			}
		}
	}
	return "", "", hit, judged
}

func TestC07(t *testing.T) {
	c := coll("C07")
	checkN(t, func(rt *rapid.T) {
		var cs *c07Case
		switch rapid.IntRange(0, 5).Draw(rt, "family") {
		case 0, 1, 2:
			cs = c07TemplateCase(rt)
		case 3:
			it := gen.DrawIllTyped(rt)
			cs = &c07Case{Patch: it.Patch, File: it.Target, Family: "illtyped"}
		default:
			mcs, _ := genModelCase(rt, c07Opts)
			if mcs == nil {
				c.Note("generator:no-case")
				return
			}
			cs = &c07Case{Patch: mcs.Patch, File: mcs.Host, Family: "mined"}
		}
		if rapid.IntRange(0, 5).Draw(rt, "longName") == 0 {
			cs.Name = c07LongName
			cs.Family += "+long-name"
		}
		switch rapid.IntRange(0, 9).Draw(rt, "layout") {
		case 0:
			cs.File += c07Blob()
			cs.Family += "+long-line"
		case 1:
			cs.File = strings.ReplaceAll(cs.File, "\n", "\r\n")
			cs.Family += "+crlf"
		case 2:
			cs.File = strings.ReplaceAll(cs.File+c07Blob(), "\n", "\r\n")
			cs.Family += "+crlf+long-line"
		}
		if cs.Name == "" && rapid.IntRange(0, 3).Draw(rt, "multi") == 0 {
			// further files for the same patch, of other sizes, before and
			// after f.go in the order of the command line
			n := rapid.IntRange(1, 2).Draw(rt, "nSiblings")
			for i := 0; i < n; i++ {
				var src string
				if strings.HasPrefix(cs.Family, "template") {
					for tries := 0; tries < 20; tries++ {
						o := c07TemplateCase(rt)
						if o.Patch == cs.Patch {
							src = o.File
							break
						}
					}
				}
				if src == "" {
					src = cs.File + fmt.Sprintf("\nfunc c07extra%d() {\n\tc07extra%d()\n}\n", i, i)
					if rapid.Bool().Draw(rt, fmt.Sprintf("short%d", i)) {
						src = strings.Replace(cs.File, "\n", "\n// "+strings.Repeat("pad ", rapid.IntRange(1, 40).Draw(rt, fmt.Sprintf("pad%d", i)))+"\n", 1)
					}
				}
				cs.Siblings = append(cs.Siblings, c07Sibling{Name: fmt.Sprintf("g%d.go", i), Src: src})
			}
			cs.Family += "+multi"
		}
		if len(cs.Siblings) == 0 && rapid.IntRange(0, 3).Draw(rt, "dirArg") == 0 {
			cs.DirArg = rapid.SampledFrom([]string{".", "./...", "./"}).Draw(rt, "dirArgForm")
			cs.Family += "+dir-arg"
		}
		sig, msg, hit, judged := evalC07(cs)
		if !judged {
			c.Note("not-judged:" + cs.Family)
			return
		}
		c.Case(evid.Hash(cs.Patch, cs.File), hit, "family:"+cs.Family, fmt.Sprintf("hit:%v", hit))
		if hit && c.WantSample() {
			c.Sample(map[string]any{"family": cs.Family, "patch": cs.Patch, "file": trunc(cs.File, 600)})
		}
		if sig == "" && msg != "" {
			c.Note(strings.SplitN(msg, " ", 2)[0])
		}
		if sig != "" {
			violate(rt, "C07", sig, msg, cs)
		}
	})
}

func TestReplayC07(t *testing.T) {
	var cs c07Case
	if !loadReplay(t, "C07", &cs) {
		return
	}
	sig, msg, _, _ := evalC07(&cs)
	if sig != "" {
		violate(t, "C07", sig, msg, &cs)
	}
}
