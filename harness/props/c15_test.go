package props

import (
	"fmt"
	"os"
	"path"
	"path/filepath"
	"regexp"
	"sort"
	"strings"
	"syscall"
	"testing"
	"time"

	"github.com/uber-go/gopatch/verif/evid"
	"github.com/uber-go/gopatch/verif/run"
	"pgregory.net/rapid"
)

// C15 — exactly the requested Go files are processed, each once.
//
// A case is a directory tree, a working directory inside it and an argument
// list. Every file holds one call `cnt(0)` and the patch is the
// non-idempotent `-cnt(x)` / `+cnt(x + 1)`, so the number of times a file was
// processed can be read off its bytes. The oracle is a reference walk over
// the *model* of the tree written from the property text; it gives every
// regular file one of three verdicts (must / either / must-not).

// c15Entry is one entry of the generated tree. Parents precede children.
type c15Entry struct {
	Path    string `json:"path"`              // slash-separated, relative to the tree root
	Kind    string `json:"kind"`              // "dir", "file", "symlink"
	Target  string `json:"target,omitempty"`  // link text of a symlink
	NoMatch bool   `json:"nomatch,omitempty"` // file without a cnt call (nothing to patch)
	LinkOf  string `json:"link_of,omitempty"` // a file that is another name (hard link) of this earlier file
}

type c15Case struct {
	Entries []c15Entry `json:"entries"`
	Cwd     string     `json:"cwd"`  // working directory, relative to the tree root ("" = root)
	Args    []string   `json:"args"` // "{T}" stands for the absolute path of the tree root
	Verbose bool       `json:"verbose"`
}

const c15Patch = "@@\nvar x expression\n@@\n-cnt(x)\n+cnt(x + 1)\n"

func c15Content(i int, nomatch bool) string {
	call := "cnt(0)"
	if nomatch {
		call = "other(0)"
	}
	return fmt.Sprintf("package p\n\nfunc f%d() {\n\t%s\n}\n", i, call)
}

// c15Excluded is the property's rule for directory names that are not entered.
func c15Excluded(name string) bool {
	return name == "vendor" || name == "testdata" || strings.HasPrefix(name, ".") || strings.HasPrefix(name, "_")
}

const (
	c15MustNot = iota // default
	c15Either
	c15Must
)

// c15Model is the tree as the oracle sees it.
type c15Model struct {
	byPath   map[string]*c15Entry
	children map[string][]*c15Entry // parent path -> entries, in case order
	index    map[string]int         // path -> position in Entries (content id)
}

func c15Build(cs *c15Case) (*c15Model, string) {
	m := &c15Model{byPath: map[string]*c15Entry{}, children: map[string][]*c15Entry{}, index: map[string]int{}}
	for i := range cs.Entries {
		e := &cs.Entries[i]
		if e.Path == "" || path.Clean(e.Path) != e.Path || strings.HasPrefix(e.Path, "/") || strings.HasPrefix(e.Path, "../") || e.Path == ".." || e.Path == "." {
			return nil, "bad path " + e.Path
		}
		if strings.ContainsAny(e.Path, "\x00{}") {
			return nil, "bad path " + e.Path
		}
		if _, dup := m.byPath[e.Path]; dup {
			return nil, "duplicate path " + e.Path
		}
		switch e.Kind {
		case "dir", "file", "symlink", "fifo":
		default:
			return nil, "bad kind " + e.Kind
		}
		par := path.Dir(e.Path)
		if par == "." {
			par = ""
		} else if pe, ok := m.byPath[par]; !ok || pe.Kind != "dir" {
			return nil, "parent of " + e.Path + " is not a directory created before it"
		}
		m.byPath[e.Path] = e
		m.children[par] = append(m.children[par], e)
		m.index[e.Path] = i
	}
	if cs.Cwd != "" {
		if e, ok := m.byPath[cs.Cwd]; !ok || e.Kind != "dir" {
			return nil, "cwd is not a directory of the tree"
		}
	}
	return m, ""
}

// kindOf returns the kind of a path relative to the root ("" is the root).
func (m *c15Model) kindOf(rel string) string {
	if rel == "" {
		return "dir"
	}
	if e, ok := m.byPath[rel]; ok {
		return e.Kind
	}
	return ""
}

// underExcluded reports whether any directory component above the last
// element of rel has an excluded name.
func c15UnderExcluded(rel string) bool {
	parts := strings.Split(rel, "/")
	for _, p := range parts[:len(parts)-1] {
		if c15Excluded(p) {
			return true
		}
	}
	return false
}

func c15AnyExcluded(rel string) bool {
	if rel == "" {
		return false
	}
	for _, p := range strings.Split(rel, "/") {
		if c15Excluded(p) {
			return true
		}
	}
	return false
}

// c15Resolved is what one argument means according to the property text.
type c15Resolved struct {
	Rel  string // relative to the tree root, "" = root
	Kind string // "dir", "file", "symlink"

	// ViaLink: the argument passes through a symbolic link to a directory
	// of the tree; Rel is where that leads.
	ViaLink bool
}

// c15Resolve interprets one argument: a trailing "..." is ignored, relative
// paths are taken from the working directory, the result is cleaned
// lexically. ok is false when the argument is outside what C15 decides: a
// path that does not exist, leaves the tree or passes through a symlink.
func c15Resolve(m *c15Model, root, cwdRel, arg string) (c15Resolved, bool) {
	s := arg
	if strings.HasPrefix(s, "{T}") {
		s = root + s[len("{T}"):]
	}
	if strings.Contains(s, "{T}") {
		return c15Resolved{}, false
	}
	s = strings.TrimSuffix(s, "...")
	if !path.IsAbs(s) {
		s = path.Join(root, cwdRel, s)
	} else {
		s = path.Clean(s)
	}
	var rel string
	switch {
	case s == root:
		rel = ""
	case strings.HasPrefix(s, root+"/"):
		rel = s[len(root)+1:]
	default:
		return c15Resolved{}, false
	}
	rel, via, ok := c15Follow(m, rel)
	if !ok {
		return c15Resolved{}, false
	}
	k := m.kindOf(rel)
	if k == "" {
		return c15Resolved{}, false
	}
	return c15Resolved{Rel: rel, Kind: k, ViaLink: via}, true
}

// c15Follow resolves the symbolic links to directories of the tree among the
// elements of rel other than the last, the way the operating system does when
// the path is opened.
func c15Follow(m *c15Model, rel string) (_ string, via, ok bool) {
	for hops := 0; rel != ""; hops++ {
		if hops > 8 {
			return "", false, false
		}
		parts := strings.Split(rel, "/")
		again := false
		for i := 1; i < len(parts); i++ {
			pre := strings.Join(parts[:i], "/")
			switch m.kindOf(pre) {
			case "dir":
				continue
			case "symlink":
				// a link to a directory of the tree is followed by the
				// operating system when it is not the last element
				par := path.Dir(pre)
				if par == "." {
					par = ""
				}
				if cl := c15LinkClass(m, par, m.byPath[pre].Target); cl != "dir" && cl != "ancestor-dir" {
					return "", false, false
				}
				t := path.Join("/", par, m.byPath[pre].Target)
				rel = strings.TrimPrefix(path.Join(t, strings.Join(parts[i:], "/")), "/")
				via, again = true, true
			default:
				return "", false, false
			}
			break
		}
		if !again {
			break
		}
	}
	return rel, via, true
}

// c15Reference is the reference walk. It returns the verdict of every regular
// file of the tree (absent = must-not).
func c15Reference(m *c15Model, res []c15Resolved) map[string]int {
	verdict := map[string]int{}
	raise := func(p string, v int) {
		if verdict[p] < v {
			verdict[p] = v
		}
	}
	var walk func(dir string, v int)
	walk = func(dir string, v int) {
		for _, e := range m.children[dir] {
			switch e.Kind {
			case "file":
				if strings.HasSuffix(path.Base(e.Path), ".go") {
					raise(e.Path, v)
				}
			case "dir":
				if !c15Excluded(path.Base(e.Path)) {
					walk(e.Path, v)
				}
			case "symlink":
				// never followed, never processed
			}
		}
	}
	for _, r := range res {
		switch r.Kind {
		case "file":
			// "A file named explicitly is processed wherever it lives";
			// "no non-.go files".
			if strings.HasSuffix(path.Base(r.Rel), ".go") {
				raise(r.Rel, c15Must)
			}
		case "dir":
			// A named directory whose own path carries an excluded name
			// (explicit sub/vendor, sub/vendor/pkg, "." with the working
			// directory inside vendor) is the corner the text leaves open:
			// files below it that are not behind a *further* excluded
			// directory may or may not be processed.
			v := c15Must
			if c15AnyExcluded(r.Rel) || r.ViaLink {
				// (a directory named through a link: "no symlinks" and
				// "beneath a named directory" pull in different directions)
				v = c15Either
			}
			walk(r.Rel, v)
		case "symlink":
			// "no symlinks": nothing is required and nothing is allowed
			// through it.
		}
	}
	return verdict
}

type c15Info struct {
	Skip       string // non-empty: the case was not judged (reason)
	Foreign    string // discrepancy that belongs to another property
	Classes    []string
	Nontrivial bool
	Must       int
	Either     int
}

var c15CntRe = regexp.MustCompile(`cnt\(0((?: \+ 1)*)\)`)

// c15Applications tells how many times the patch was applied to a file:
// 0 = bytes unchanged, k >= 1 = exactly the bytes k applications give,
// -1 = something else.
func c15Applications(orig, now string) int {
	if orig == now {
		return 0
	}
	mt := c15CntRe.FindStringSubmatch(now)
	if mt == nil {
		return -1
	}
	k := len(mt[1]) / len(" + 1")
	if k == 0 {
		return -1
	}
	if strings.Replace(orig, "cnt(0)", "cnt(0"+strings.Repeat(" + 1", k)+")", 1) != now {
		return -1
	}
	return k
}

var c15LineRe = regexp.MustCompile(`^(.*): (patched|skipped)$`)

// evalC15 is the oracle: a pure function of the case. sig == "" means the
// property held (or the case was not judged, see info.Skip).
func evalC15(cs *c15Case) (sig, msg string, info c15Info) {
	m, bad := c15Build(cs)
	if m == nil {
		info.Skip = "malformed:" + bad
		return
	}
	if len(cs.Args) == 0 {
		info.Skip = "no-arguments"
		return
	}
	for _, a := range cs.Args {
		if strings.HasPrefix(a, "-") || a == "" {
			info.Skip = "argument-looks-like-flag-or-empty"
			return
		}
	}

	tmp, cleanup := run.TempDir("c15-")
	defer cleanup()
	root := filepath.Join(tmp, "w") // base name "w": never excluded-looking
	if err := os.Mkdir(root, 0o755); err != nil {
		info.Skip = "setup:" + err.Error()
		return
	}
	patchFile := filepath.Join(tmp, "p.patch")
	if err := os.WriteFile(patchFile, []byte(c15Patch), 0o644); err != nil {
		info.Skip = "setup:" + err.Error()
		return
	}

	// Reference verdicts.
	res := make([]c15Resolved, len(cs.Args))
	for i, a := range cs.Args {
		r, ok := c15Resolve(m, root, cs.Cwd, a)
		if !ok {
			info.Skip = "argument-out-of-scope"
			return
		}
		res[i] = r
	}
	verdict := c15Reference(m, res)
	info.Classes, info.Nontrivial = c15Classify(cs, m, res, verdict)
	for _, v := range verdict {
		switch v {
		case c15Must:
			info.Must++
		case c15Either:
			info.Either++
		}
	}

	// Materialise the tree.
	orig := map[string]string{}
	for i, e := range cs.Entries {
		full := filepath.Join(root, filepath.FromSlash(e.Path))
		var err error
		switch e.Kind {
		case "dir":
			err = os.Mkdir(full, 0o755)
		case "file":
			if e.LinkOf != "" {
				orig[e.Path] = orig[e.LinkOf]
				err = os.Link(filepath.Join(root, filepath.FromSlash(e.LinkOf)), full)
				break
			}
			c := c15Content(i, e.NoMatch)
			orig[e.Path] = c
			err = os.WriteFile(full, []byte(c), 0o644)
		case "symlink":
			err = os.Symlink(e.Target, full)
		case "fifo":
			err = syscall.Mkfifo(full, 0o644)
		}
		if err != nil {
			info.Skip = "setup:" + err.Error()
			return
		}
	}
	before, err := run.Snapshot(root)
	if err != nil || len(before) != len(cs.Entries) {
		info.Skip = "setup:snapshot"
		return
	}

	argv := []string{}
	if cs.Verbose {
		argv = append(argv, "-v")
	}
	argv = append(argv, "-p", patchFile)
	for _, a := range cs.Args {
		if strings.HasPrefix(a, "{T}") {
			a = root + a[len("{T}"):]
		}
		argv = append(argv, a)
	}
	r := run.CLI(filepath.Join(root, filepath.FromSlash(cs.Cwd)), nil, argv...)
	switch {
	case r.StartErr != "":
		info.Skip = "start:" + r.StartErr
		return
	case r.TimedOut:
		for _, e := range cs.Entries {
			if e.Kind == "fifo" {
				// nobody writes to the pipe: whoever opens it for reading waits for ever
				return "non-regular-entry-opened", fmt.Sprintf("the tree holds the named pipe %s and gopatch did not come back within %v: it opened something that is not a regular file\n  args: %q", e.Path, run.CLITimeout, cs.Args), info
			}
		}
		info.Foreign = "C08:cli-hang"
		return
	case r.Crashed():
		info.Foreign = "C08:cli-crash"
		return
	}
	after, err := run.Snapshot(root)
	if err != nil {
		info.Skip = "snapshot-after:" + err.Error()
		return
	}

	describe := func() string {
		var sb strings.Builder
		fmt.Fprintf(&sb, "\n  cwd: <tree>/%s\n  args: %q (verbose=%v)\n  tree:", cs.Cwd, cs.Args, cs.Verbose)
		for _, e := range cs.Entries {
			switch e.Kind {
			case "dir":
				fmt.Fprintf(&sb, " %s/", e.Path)
			case "symlink":
				fmt.Fprintf(&sb, " %s->%s", e.Path, e.Target)
			default:
				fmt.Fprintf(&sb, " %s", e.Path)
			}
		}
		fmt.Fprintf(&sb, "\n  exit %d; stderr: %s", r.Exit, trunc(strings.TrimSpace(string(r.Stderr)), 600))
		return sb.String()
	}

	// Judge the bytes. Entries in sorted order so that the first complaint is
	// stable.
	paths := make([]string, 0, len(cs.Entries))
	for _, e := range cs.Entries {
		paths = append(paths, e.Path)
	}
	sort.Strings(paths)
	for _, p := range paths {
		e := m.byPath[p]
		b := before[p]
		a, ok := after[p]
		if !ok {
			return "entry-removed", fmt.Sprintf("%s %s no longer exists after the run%s", e.Kind, p, describe()), info
		}
		if e.Kind != "file" {
			if a != b {
				return "entry-changed:" + e.Kind, fmt.Sprintf("%s %s changed: %+v -> %+v%s", e.Kind, p, b, a, describe()), info
			}
			continue
		}
		nowB, err := os.ReadFile(filepath.Join(root, filepath.FromSlash(p)))
		if err != nil || a.Type != "file" {
			return "entry-changed:file", fmt.Sprintf("file %s is no longer a readable regular file (%+v, %v)%s", p, a, err, describe()), info
		}
		n := c15Applications(orig[p], string(nowB))
		why := func() string {
			switch {
			case !strings.HasSuffix(path.Base(p), ".go"):
				return "non-go"
			case c15UnderExcluded(p):
				return "excluded-dir"
			default:
				return "not-requested"
			}
		}
		switch verdict[p] {
		case c15Must:
			switch {
			case e.NoMatch:
				if n != 0 {
					info.Foreign = "C02:file-without-match-changed"
					return "", "", info
				}
			case n == 0:
				return "not-processed", fmt.Sprintf("%s is a requested regular .go file but its bytes are unchanged (expected exactly one application of the patch)%s", p, describe()), info
			case n >= 2:
				return "processed-twice", fmt.Sprintf("%s was patched %d times in one run (now %q); each file must be processed exactly once%s", p, n, c15CntRe.FindString(string(nowB)), describe()), info
			case n < 0:
				info.Foreign = "C01:unexpected-rewrite-result"
				return "", "", info
			}
		case c15Either:
			switch {
			case n >= 2:
				return "processed-twice", fmt.Sprintf("%s was patched %d times in one run (now %q); each file must be processed at most once%s", p, n, c15CntRe.FindString(string(nowB)), describe()), info
			case n < 0:
				info.Foreign = "C01:unexpected-rewrite-result"
				return "", "", info
			}
		default:
			if n != 0 {
				return "processed-unrequested:" + why(), fmt.Sprintf("%s must not be processed (%s) but its bytes changed (applications: %d; now %q)%s", p, why(), n, trunc(string(nowB), 120), describe()), info
			}
			if a != b {
				return "touched-unrequested:" + why(), fmt.Sprintf("%s must not be processed (%s); its bytes are the same but it was rewritten or its metadata changed: %+v -> %+v%s", p, why(), b, a, describe()), info
			}
		}
	}
	for p := range after {
		if _, ok := before[p]; !ok {
			return "entry-created", fmt.Sprintf("entry %s appeared during the run%s", p, describe()), info
		}
	}

	// Judge the -v log: exactly the reference set, ascending by absolute path.
	if cs.Verbose {
		var listed []string
		for _, ln := range strings.Split(strings.TrimRight(string(r.Stdout), "\n"), "\n") {
			if ln == "" {
				continue
			}
			mt := c15LineRe.FindStringSubmatch(ln)
			if mt == nil {
				info.Classes = append(info.Classes, "verbose:unrecognised-line")
				return "", "", info // format is not C15's business
			}
			listed = append(listed, mt[1])
		}
		seen, seenReal := map[string]bool{}, map[string]bool{}
		for i, abs := range listed {
			if seen[abs] {
				return "verbose-duplicate", fmt.Sprintf("-v lists %s more than once: %q%s", abs, listed, describe()), info
			}
			seen[abs] = true
			if i > 0 && !(listed[i-1] < abs) {
				return "verbose-order", fmt.Sprintf("-v lines are not in ascending absolute-path order: %q comes before %q%s", listed[i-1], abs, describe()), info
			}
			rel := ""
			if strings.HasPrefix(abs, root+"/") {
				rel = abs[len(root)+1:]
			}
			if real, _, ok := c15Follow(m, rel); ok && rel != "" {
				rel = real
			}
			if seenReal[rel] && rel != "" {
				return "verbose-duplicate", fmt.Sprintf("-v lists the file %s more than once, under different names: %q%s", rel, listed, describe()), info
			}
			seenReal[rel] = true
			if rel == "" || m.kindOf(rel) != "file" || verdict[rel] == c15MustNot {
				return "verbose-extra", fmt.Sprintf("-v reports %q, which is not in the reference set%s", abs, describe()), info
			}
		}
		for _, p := range paths {
			if verdict[p] == c15Must && !seen[root+"/"+p] && !seenReal[p] {
				return "verbose-missing", fmt.Sprintf("-v does not report %s (stdout %q)%s", p, trunc(string(r.Stdout), 600), describe()), info
			}
		}
	}
	return "", "", info
}

// c15Classify computes the evidence classes and the non-trivial rule: the
// tree has at least one .go file below an excluded directory and at least two
// arguments overlap (one names the other or something above it) or repeat.
func c15Classify(cs *c15Case, m *c15Model, res []c15Resolved, verdict map[string]int) ([]string, bool) {
	set := map[string]bool{}
	add := func(s string) { set[s] = true }

	exclGo := false
	for _, e := range cs.Entries {
		base := path.Base(e.Path)
		switch e.Kind {
		case "file":
			isGo := strings.HasSuffix(base, ".go")
			if isGo && c15UnderExcluded(e.Path) {
				exclGo = true
				add("tree:go-under-excluded")
			}
			if isGo && (base[0] == '.' || base[0] == '_') {
				add("tree:hidden-go-file")
			}
			if !isGo {
				add("tree:non-go-file")
			}
			if e.NoMatch {
				add("tree:file-without-match")
			}
			if isGo && verdict[e.Path] == c15MustNot {
				add("verdict:go-file-must-not")
			}
		case "dir":
			if strings.HasSuffix(base, ".go") {
				add("tree:dir-named-go")
			}
			if c15Excluded(base) {
				add("tree:excluded-dir")
				if c15UnderExcluded(e.Path) {
					add("tree:excluded-in-excluded")
				}
			}
			if strings.Count(e.Path, "/") >= 3 {
				add("tree:depth4")
			}
		case "symlink":
			par := path.Dir(e.Path)
			if par == "." {
				par = ""
			}
			add("tree:symlink:" + c15LinkClass(m, par, e.Target))
		}
	}
	if cs.Cwd == "" {
		add("cwd:root")
	} else if c15AnyExcluded(cs.Cwd) {
		add("cwd:in-excluded")
	} else {
		add("cwd:sub")
	}
	if cs.Verbose {
		add("verbose:on")
	} else {
		add("verbose:off")
	}
	for i, a := range cs.Args {
		switch {
		case strings.HasPrefix(a, "{T}"):
			add("arg:absolute")
		case strings.HasPrefix(a, "./"):
			add("arg:dot-slash")
		default:
			add("arg:relative")
		}
		switch {
		case a == "...":
			add("arg:bare-dots")
		case strings.HasSuffix(a, "/..."):
			add("arg:dir-dots")
		case strings.HasSuffix(a, "..."):
			add("arg:glued-dots")
		case strings.HasSuffix(a, "/"):
			add("arg:trailing-slash")
		}
		if strings.Contains(a, "..") && strings.Contains(strings.TrimSuffix(a, "..."), "..") {
			add("arg:dotdot")
		}
		if strings.Contains(a, "/./") || strings.HasSuffix(a, "/.") || strings.Contains(a, "//") {
			add("arg:unclean")
		}
		r := res[i]
		base := path.Base(r.Rel)
		switch r.Kind {
		case "dir":
			switch {
			case r.Rel == "":
				add("target:root")
			case c15Excluded(base):
				add("target:excluded-dir")
			case c15AnyExcluded(r.Rel):
				add("target:dir-inside-excluded")
			case strings.HasSuffix(base, ".go"):
				add("target:dir-named-go")
			default:
				add("target:dir")
			}
		case "file":
			switch {
			case !strings.HasSuffix(base, ".go"):
				add("target:non-go-file")
			case c15UnderExcluded(r.Rel):
				add("target:go-file-in-excluded")
			default:
				add("target:go-file")
			}
		case "symlink":
			par := path.Dir(r.Rel)
			if par == "." {
				par = ""
			}
			add("target:symlink:" + c15LinkClass(m, par, m.byPath[r.Rel].Target))
		}
	}
	overlap := false
	for i := range res {
		for j := i + 1; j < len(res); j++ {
			a, b := res[i].Rel, res[j].Rel
			switch {
			case a == b:
				add("args:repeat")
				overlap = true
			case a == "" || b == "" || strings.HasPrefix(a, b+"/") || strings.HasPrefix(b, a+"/"):
				add("args:overlap")
				overlap = true
			}
		}
	}
	nMust, nEither := 0, 0
	for _, v := range verdict {
		if v == c15Must {
			nMust++
		} else if v == c15Either {
			nEither++
		}
	}
	switch {
	case nMust == 0:
		add("verdict:must=0")
	case nMust <= 3:
		add("verdict:must=1-3")
	default:
		add("verdict:must>=4")
	}
	if nEither > 0 {
		add("verdict:either>0")
	}
	out := make([]string, 0, len(set))
	for k := range set {
		out = append(out, k)
	}
	sort.Strings(out)
	return out, exclGo && overlap
}

// c15LinkClass says what a symlink with the given text, located in directory
// dir, points at.
func c15LinkClass(m *c15Model, dir, target string) string {
	if path.IsAbs(target) {
		return "absolute"
	}
	t := path.Join("/", dir, target) // "/" = tree root
	if t == "/" {
		return "ancestor-dir" // the root: always an ancestor
	}
	rel := t[1:]
	if strings.HasPrefix(path.Join("/", dir, "x"), t+"/") {
		return "ancestor-dir"
	}
	switch m.kindOf(rel) {
	case "dir":
		return "dir"
	case "file":
		if strings.HasSuffix(rel, ".go") {
			return "go-file"
		}
		return "non-go-file"
	case "symlink":
		return "symlink"
	}
	return "dangling"
}

// Generator ------------------------------------------------------------------

var (
	c15NormalDirs = []string{"a", "b", "pkg", "cmd", "a-b", "a.b", "a0", "B", "internal", "api[v2]", "w?"}
	c15NearDirs   = []string{"vendor2", "xvendor", "Vendor", "testdata2", "mytestdata", "x_", "x.", "v.go", "x.go", "a.go"}
	c15ExclDirs   = []string{"vendor", "testdata", ".git", ".x", "_x", "_", "vendor", "testdata", "_old.go", ".c.go", "_.go"}
	c15GoFiles    = []string{"a.go", "b.go", "main.go", "z.go", "a_test.go", "x_test.go", ".h.go", "_u.go", ".go", "a-b.go", "a0.go", "B.go", "vendor.go", "testdata.go", "shard[1].go", "q?.go", "st*r.go", "[a].go"}
	c15OtherFiles = []string{"n.txt", "z.go.bak", "go", "xgo", "a.GO", "a.go~", "Makefile", "a.goo", "a.go.txt", "go.mod", "go.mod", "go.sum", "go.work", ".gitignore", "BUILD.bazel"}
	c15LinkNames  = []string{"l.go", "lk.go", "ln", "ldir", "l_test.go", "vendor", ".l.go"}
)

// c15Rel returns the relative path from directory `from` to `to` (both
// relative to the tree root, "" = root), purely lexically.
func c15Rel(from, to string) string {
	r, err := filepath.Rel("/"+from, "/"+to)
	if err != nil {
		return to
	}
	return filepath.ToSlash(r)
}

func c15Gen(rt *rapid.T) *c15Case {
	cs := &c15Case{}
	used := map[string]bool{}
	dirs := []string{""}
	var files, links []string
	join := func(dir, name string) string {
		if dir == "" {
			return name
		}
		return dir + "/" + name
	}
	fresh := func(dir, name string) string {
		p := join(dir, name)
		for i := 2; used[p]; i++ {
			p = join(dir, fmt.Sprintf("%d%s", i, name))
		}
		used[p] = true
		return p
	}

	// Directories.
	nd := rapid.IntRange(0, 8).Draw(rt, "ndirs")
	for i := 0; i < nd; i++ {
		var cands []string
		for _, d := range dirs {
			if d == "" || strings.Count(d, "/") < 3 {
				cands = append(cands, d)
			}
		}
		par := cands[rapid.IntRange(0, len(cands)-1).Draw(rt, "dirParent")]
		var name string
		switch w := rapid.IntRange(0, 9).Draw(rt, "dirKind"); {
		case w < 4:
			name = rapid.SampledFrom(c15NormalDirs).Draw(rt, "dirName")
		case w < 8:
			name = rapid.SampledFrom(c15ExclDirs).Draw(rt, "dirName")
		default:
			name = rapid.SampledFrom(c15NearDirs).Draw(rt, "dirName")
		}
		p := fresh(par, name)
		dirs = append(dirs, p)
		cs.Entries = append(cs.Entries, c15Entry{Path: p, Kind: "dir"})
	}
	// Files.
	nf := rapid.IntRange(1, 12).Draw(rt, "nfiles")
	for i := 0; i < nf; i++ {
		par := dirs[rapid.IntRange(0, len(dirs)-1).Draw(rt, "fileParent")]
		var name string
		if rapid.IntRange(0, 3).Draw(rt, "fileKind") > 0 {
			name = rapid.SampledFrom(c15GoFiles).Draw(rt, "fileName")
		} else {
			name = rapid.SampledFrom(c15OtherFiles).Draw(rt, "fileName")
		}
		p := fresh(par, name)
		files = append(files, p)
		cs.Entries = append(cs.Entries, c15Entry{Path: p, Kind: "file", NoMatch: rapid.IntRange(0, 9).Draw(rt, "nomatch") == 9})
	}
	// Hard links: a second name, with the same base name, in another directory.
	if rapid.IntRange(0, 3).Draw(rt, "hardLinks") == 0 && len(dirs) > 1 {
		nl := rapid.IntRange(1, 2).Draw(rt, "nHardLinks")
		for i := 0; i < nl && len(files) > 0; i++ {
			of := files[rapid.IntRange(0, len(files)-1).Draw(rt, "hardLinkOf")]
			d := dirs[rapid.IntRange(0, len(dirs)-1).Draw(rt, "hardLinkDir")]
			p := path.Join(d, path.Base(of))
			taken := false
			for _, e := range cs.Entries {
				taken = taken || e.Path == p
			}
			if taken {
				continue
			}
			nm := false
			for _, e := range cs.Entries {
				if e.Path == of {
					nm = e.NoMatch
				}
			}
			cs.Entries = append(cs.Entries, c15Entry{Path: p, Kind: "file", LinkOf: of, NoMatch: nm})
			files = append(files, p)
		}
	}
	// Symlinks.
	var dirLinks []string
	dirLinkTarget := map[string]string{}
	ns := rapid.IntRange(0, 3).Draw(rt, "nlinks")
	for i := 0; i < ns; i++ {
		par := dirs[rapid.IntRange(0, len(dirs)-1).Draw(rt, "linkParent")]
		name := rapid.SampledFrom(c15LinkNames).Draw(rt, "linkName")
		p := fresh(par, name)
		var target string
		switch rapid.IntRange(0, 6).Draw(rt, "linkKind") {
		case 0, 1: // to a file
			target = c15Rel(par, files[rapid.IntRange(0, len(files)-1).Draw(rt, "linkFile")])
		case 2, 3: // to a directory (an ancestor gives a cycle)
			target = c15Rel(par, dirs[rapid.IntRange(0, len(dirs)-1).Draw(rt, "linkDir")])
		case 4: // dangling
			target = rapid.SampledFrom([]string{"nope.go", "missing/x.go", "../nope"}).Draw(rt, "dangling")
		case 5: // loop onto itself
			target = path.Base(p)
		default: // the directory that contains it / its parent
			target = rapid.SampledFrom([]string{".", ".."}).Draw(rt, "cyc")
			if par == "" {
				target = "."
			}
		}
		links = append(links, p)
		if target != path.Base(p) {
			full := strings.TrimPrefix(path.Join("/", par, target), "/")
			for _, d := range dirs {
				if d == full && d != "" {
					dirLinks = append(dirLinks, p)
					dirLinkTarget[p] = d
				}
			}
		}
		cs.Entries = append(cs.Entries, c15Entry{Path: p, Kind: "symlink", Target: target})
	}

	// A named pipe called like a Go file (never among the arguments: only
	// ever met while walking a directory).
	if rapid.IntRange(0, 5).Draw(rt, "fifo") == 0 {
		par := dirs[rapid.IntRange(0, len(dirs)-1).Draw(rt, "fifoParent")]
		p := fresh(par, rapid.SampledFrom([]string{"events.go", "pipe.go", "z_last.go", "a_first.go"}).Draw(rt, "fifoName"))
		cs.Entries = append(cs.Entries, c15Entry{Path: p, Kind: "fifo"})
	}

	// Working directory.
	if len(dirs) > 1 && rapid.IntRange(0, 9).Draw(rt, "cwdSub") < 3 {
		cs.Cwd = dirs[rapid.IntRange(1, len(dirs)-1).Draw(rt, "cwd")]
	}
	cs.Verbose = rapid.IntRange(0, 3).Draw(rt, "verbose") > 0

	// Candidate targets by category.
	var exclDirs, goFiles, exclGoFiles, otherFiles []string
	for _, d := range dirs[1:] {
		if c15Excluded(path.Base(d)) {
			exclDirs = append(exclDirs, d)
		}
	}
	for _, f := range files {
		switch {
		case !strings.HasSuffix(f, ".go"):
			otherFiles = append(otherFiles, f)
		case c15UnderExcluded(f):
			exclGoFiles = append(exclGoFiles, f)
		default:
			goFiles = append(goFiles, f)
		}
	}
	pick := func(xs []string, label string) (string, bool) {
		if len(xs) == 0 {
			return "", false
		}
		return xs[rapid.IntRange(0, len(xs)-1).Draw(rt, label)], true
	}

	type tgt struct {
		rel  string
		kind string
	}
	var prev []tgt
	na := rapid.IntRange(1, 5).Draw(rt, "nargs")
	for i := 0; i < na; i++ {
		var t tgt
		w := rapid.IntRange(0, 99).Draw(rt, "argTarget")
		switch {
		case i > 0 && w < 15: // repeat an earlier target (possibly spelled differently)
			t = prev[rapid.IntRange(0, len(prev)-1).Draw(rt, "repeat")]
			if rapid.Bool().Draw(rt, "sameSpelling") {
				for j, pt := range prev {
					if pt == t {
						cs.Args = append(cs.Args, cs.Args[j])
						break
					}
				}
				prev = append(prev, t)
				continue
			}
		case w < 30:
			t = tgt{"", "dir"}
		case w < 55:
			t = tgt{dirs[rapid.IntRange(0, len(dirs)-1).Draw(rt, "argDir")], "dir"}
		case w < 63:
			if d, ok := pick(exclDirs, "argExclDir"); ok {
				t = tgt{d, "dir"}
			}
		case w < 75:
			if f, ok := pick(goFiles, "argGoFile"); ok {
				t = tgt{f, "file"}
			}
		case w < 85:
			if f, ok := pick(exclGoFiles, "argExclGoFile"); ok {
				t = tgt{f, "file"}
			}
		case w < 91:
			if f, ok := pick(otherFiles, "argOtherFile"); ok {
				t = tgt{f, "file"}
			}
		case w < 95:
			if l, ok := pick(links, "argLink"); ok {
				t = tgt{l, "symlink"}
			}
		default:
			// a file (or directory) named through a link to a directory
			if l, ok := pick(dirLinks, "argViaLink"); ok {
				under := dirLinkTarget[l]
				var cand []tgt
				for _, f := range files {
					if under == "" || strings.HasPrefix(f, under+"/") {
						cand = append(cand, tgt{path.Join(l, strings.TrimPrefix(strings.TrimPrefix(f, under), "/")), "file"})
					}
				}
				for _, d := range dirs[1:] {
					if under == "" || strings.HasPrefix(d, under+"/") {
						cand = append(cand, tgt{path.Join(l, strings.TrimPrefix(strings.TrimPrefix(d, under), "/")), "dir"})
					}
				}
				if len(cand) > 0 {
					t = cand[rapid.IntRange(0, len(cand)-1).Draw(rt, "viaLinkTarget")]
				}
			}
		}
		if t.kind == "" {
			t = tgt{"", "dir"}
		}
		prev = append(prev, t)
		cs.Args = append(cs.Args, c15Spell(rt, cs.Cwd, t.rel, t.kind))
	}
	return cs
}

// c15Spell writes a target as an argument in one of the accepted forms.
func c15Spell(rt *rapid.T, cwd, rel, kind string) string {
	r := c15Rel(cwd, rel) // "." when the target is the working directory
	abs := "{T}"
	if rel != "" {
		abs = "{T}/" + rel
	}
	if kind == "dir" {
		switch rapid.IntRange(0, 13).Draw(rt, "dirForm") {
		case 0:
			return r
		case 1:
			return "./" + r
		case 2:
			return r + "/"
		case 3, 4:
			return r + "/..."
		case 5:
			return "./" + r + "/..."
		case 6:
			return abs
		case 7:
			return abs + "/"
		case 8:
			return abs + "/..."
		case 9:
			return r + "/."
		case 10:
			if r == "." {
				return "..."
			}
			return r + "//"
		case 11:
			if r == "." {
				return "..."
			}
			if rel != "" {
				return r + "/../" + path.Base(rel)
			}
			return r
		case 12:
			// "dir..." — the trailing three dots are ignored too. Not for
			// names that end in a dot themselves.
			if r == "." {
				return "./..."
			}
			if !strings.HasSuffix(r, ".") && rapid.IntRange(0, 3).Draw(rt, "glued") == 0 {
				return r + "..."
			}
			return r + "/..."
		default:
			if rel != "" {
				return "{T}/" + path.Dir(rel) + "/./" + path.Base(rel)
			}
			return abs + "/."
		}
	}
	// Files and symlinks: no trailing slash, no dots (what "link/" or
	// "file.go/" should mean is not decided by the property).
	switch rapid.IntRange(0, 5).Draw(rt, "fileForm") {
	case 0, 1:
		return r
	case 2:
		return "./" + r
	case 3:
		return abs
	case 4:
		d := path.Dir(r)
		return d + "/./" + path.Base(r)
	default:
		d := c15Rel(cwd, func() string {
			if p := path.Dir(rel); p != "." {
				return p
			}
			return ""
		}())
		if d == "." || path.Base(d) == ".." || path.Base(d) == "." {
			return "./" + r
		}
		return d + "/../" + path.Base(d) + "/" + path.Base(r)
	}
}

// Fixed table ----------------------------------------------------------------

// c15TableTree has every shape the property talks about at least once.
func c15TableTree() []c15Entry {
	d := func(p string) c15Entry { return c15Entry{Path: p, Kind: "dir"} }
	f := func(p string) c15Entry { return c15Entry{Path: p, Kind: "file"} }
	l := func(p, t string) c15Entry { return c15Entry{Path: p, Kind: "symlink", Target: t} }
	return []c15Entry{
		d("a"), d("a-b"), d("a/sub"), d("a/vendor"), d("a/vendor/pkg"), d("a/sub/testdata"), d("a/.h"), d("a/_u"),
		d("x.go"), d("vendor2"), d("a/sub/deep"), d("a/sub/deep/er"), d("_old.go"), d("a/.cache.go"), d("a/.cache.go/deep"),
		f("a.go"), f("main_test.go"), f(".h.go"), f("_u.go"), f("n.txt"), f("z.go.bak"),
		{Path: "nomatch.go", Kind: "file", NoMatch: true},
		f("a/x.go"), f("a-b/x.go"), f("a/sub/s.go"), f("a/vendor/v.go"), f("a/vendor/pkg/p.go"), f("a/sub/testdata/t.go"),
		f("a/.h/h.go"), f("a/_u/u.go"), f("x.go/in.go"), f("_old.go/o.go"), f("a/.cache.go/deep/c.go"), f("vendor2/w.go"), f("a/sub/deep/er/e.go"), f("a/sub/notes.txt"), f("a/sub/go.mod"), f("a-b/go.mod"),
		l("l.go", "a.go"), l("a/lx.go", "../a-b/x.go"), l("ld", "a/sub"), l("a/sub/up", ".."), l("dangling.go", "nope.go"),
		l("loop.go", "loop.go"), l("a/lv", "vendor"), l("ltxt.go", "n.txt"),
	}
}

type c15TableTarget struct{ rel, kind string }

func c15TableCases() []*c15Case {
	entries := c15TableTree()
	var targets []c15TableTarget
	targets = append(targets, c15TableTarget{"", "dir"})
	for _, e := range entries {
		targets = append(targets, c15TableTarget{e.Path, e.Kind})
	}
	dirForms := func(r, rel string) []string {
		abs := "{T}"
		if rel != "" {
			abs += "/" + rel
		}
		out := []string{r, "./" + r, r + "/", r + "/...", "./" + r + "/...", abs, abs + "/", abs + "/...", r + "/.", r + "//"}
		if r == "." {
			out = append(out, "...")
		} else {
			if rel != "" {
				out = append(out, r+"/../"+path.Base(rel))
			}
			if !strings.HasSuffix(r, ".") {
				out = append(out, r+"...")
			}
		}
		return out
	}
	fileForms := func(r, rel string) []string {
		return []string{r, "./" + r, "{T}/" + rel, path.Dir(r) + "/./" + path.Base(r)}
	}
	var out []*c15Case
	for _, cwd := range []string{"", "a", "a/sub/deep"} {
		for _, t := range targets {
			r := c15Rel(cwd, t.rel)
			var forms []string
			if t.kind == "dir" {
				forms = dirForms(r, t.rel)
			} else {
				forms = fileForms(r, t.rel)
			}
			for i, fm := range forms {
				// single argument; and the same argument beside the root
				// (overlap) and doubled (repeat)
				out = append(out, &c15Case{Entries: entries, Cwd: cwd, Args: []string{fm}, Verbose: true})
				if cwd == "" || i == 0 {
					out = append(out, &c15Case{Entries: entries, Cwd: cwd, Args: []string{fm, c15Rel(cwd, "") + "/..."}, Verbose: i%2 == 0})
					out = append(out, &c15Case{Entries: entries, Cwd: cwd, Args: []string{fm, forms[(i+1)%len(forms)], fm}, Verbose: i%2 == 1})
				}
			}
		}
	}
	return out
}

// Test -----------------------------------------------------------------------

func c15Hash(cs *c15Case) uint64 {
	parts := []string{cs.Cwd, fmt.Sprint(cs.Verbose), strings.Join(cs.Args, "\x00")}
	for _, e := range cs.Entries {
		parts = append(parts, e.Kind+"\x00"+e.Path+"\x00"+e.Target+"\x00"+fmt.Sprint(e.NoMatch))
	}
	return evid.Hash(parts...)
}

func c15Run(ft fataler, cs *c15Case, origin string) {
	c := coll("C15")
	sig, msg, info := evalC15(cs)
	if info.Skip != "" {
		c.Note("skipped:" + strings.SplitN(info.Skip, ":", 2)[0])
		return
	}
	if info.Foreign != "" && sig == "" {
		c.Foreign(info.Foreign)
	}
	classes := append([]string{"origin:" + origin}, info.Classes...)
	c.Case(c15Hash(cs), info.Nontrivial && info.Foreign == "", classes...)
	if c.WantSample() {
		c.Sample(map[string]any{"cwd": cs.Cwd, "args": cs.Args, "entries": len(cs.Entries), "must": info.Must, "either": info.Either, "nontrivial": info.Nontrivial})
	}
	if sig != "" {
		violate(ft, "C15", sig, msg, cs)
	}
}

// c15Setup bounds one subprocess and keeps the gopatch children from starting
// one scheduler thread per core each (8 shards x 16 threads cost more than the
// work itself); the environment is inherited through run.CLI.
func c15Setup() {
	run.CLITimeout = 20 * time.Second
	if os.Getenv("GOMAXPROCS") == "" {
		os.Setenv("GOMAXPROCS", "2")
	}
}

func TestC15(t *testing.T) {
	c15Setup()
	k, n := shard()
	t.Run("table", func(t *testing.T) {
		if envInt("VERIF_C15_TABLE", 1) == 0 {
			return // knob for sensitivity experiments: generated cases only
		}
		for i, cs := range c15TableCases() {
			if i%n != k {
				continue
			}
			c15Run(t, cs, "table")
		}
	})
	if t.Failed() {
		return // rapid refuses to start on a test that has already failed
	}
	checkN(t, func(rt *rapid.T) {
		c15Run(rt, c15Gen(rt), "generated")
	})
}

func TestReplayC15(t *testing.T) {
	var cs c15Case
	if !loadReplay(t, "C15", &cs) {
		return
	}
	c15Setup()
	sig, msg, info := evalC15(&cs)
	t.Logf("sig=%q skip=%q foreign=%q must=%d either=%d classes=%v", sig, info.Skip, info.Foreign, info.Must, info.Either, info.Classes)
	if sig != "" {
		violate(t, "C15", sig, msg, &cs)
	}
}
