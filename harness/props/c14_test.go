package props

import (
	"bytes"
	"encoding/json"
	"fmt"
	"go/parser"
	"go/token"
	"os"
	"os/exec"
	"path"
	"path/filepath"
	"regexp"
	"runtime/debug"
	"sort"
	"strings"
	"sync"
	"testing"
	"time"

	"github.com/uber-go/gopatch/patch"
	"github.com/uber-go/gopatch/verif/corpus"
	"github.com/uber-go/gopatch/verif/evid"
	"github.com/uber-go/gopatch/verif/gen"
	"github.com/uber-go/gopatch/verif/run"
	"pgregory.net/rapid"
)

// C14 — each file's result depends only on the patches and that file.
//
// Three kinds of cases are drawn by one rapid property:
//
//	cli   a patch set (1-3 changes in 1-2 patch files) and 2-8 Go files; the CLI
//	      is run on every file alone (in a tree that holds nothing else) and on
//	      all of them together (drawn argument order and spelling, files,
//	      directories, duplicates; the grouped run is done twice on an
//	      identically re-created tree). Per-file bytes, per-file stdout, the
//	      description lines and the error texts of the grouped run must be
//	      those of the solo runs.
//	seq   one patch.File parsed once, a drawn sequence of Apply calls; every
//	      result must equal a fresh Parse + single Apply on the same input.
//	conc  as seq, followed by G goroutines calling Apply on the same
//	      patch.File at once (released together), followed by the sequence
//	      again. This part runs in a child process of the (-race built) test
//	      binary so that a race report can be attributed to the case.
//
// The harness does not control the Go scheduler: interleavings are sampled.

type c14File struct {
	Name string `json:"name"` // cli: slash path below the tree root; api: the name passed to Apply
	Src  string `json:"src"`
	Role string `json:"role"`           // how the generator built it; a label, not used by the oracle
	Mode uint32 `json:"mode,omitempty"` // permission bits when not 0644 (C06, C12)
	// LinkOf: the file is a second name (hard link) of this other file of the case (C12).
	LinkOf string `json:"link_of,omitempty"`
}

type c14Case struct {
	Kind    string    `json:"kind"`    // cli | seq | conc
	Patches []string  `json:"patches"` // cli: 1-2 patch files; api: exactly one
	Changes []string  `json:"changes"` // where each change came from (labels)
	Files   []c14File `json:"files"`
	// Extra: files of the tree that are not Go sources (a go.mod, say);
	// present in every run of the case, never among the arguments.
	Extra []c14File `json:"extra,omitempty"`

	// cli
	Args        []string `json:"args,omitempty"`  // grouped invocation, relative spelling
	Args2       []string `json:"args2,omitempty"` // a second arrangement of a grouped invocation
	Abs         bool     `json:"abs,omitempty"`   // pass every path argument as an absolute path
	Mode        string   `json:"mode,omitempty"`  // inplace | diff | print
	Verbose     bool     `json:"verbose,omitempty"`
	SkipGen     bool     `json:"skip_generated,omitempty"`
	SkipImports bool     `json:"skip_imports,omitempty"`

	// api: indices into Files
	Seq  []int   `json:"seq,omitempty"`
	Conc [][]int `json:"conc,omitempty"` // one sequence per goroutine

	// kind "many"
	Many *c14ManySpec `json:"many,omitempty"`
}

type c14Info struct {
	Unjudged   string // the case could not be judged (why)
	Harness    string // a problem of the harness itself
	Foreign    []string
	Classes    []string
	Nontrivial bool
	Outcomes   []string // per file, for samples
}

func (i *c14Info) class(f string, a ...any) { i.Classes = append(i.Classes, fmt.Sprintf(f, a...)) }

// ---------------------------------------------------------------------------
// Generation

var c14ModelOpts = modelOpts{
	Mine:         gen.MineOpts{MaxHoles: 3, MaxDots: 2},
	MaxHostLines: 200,
	MinPlants:    0, MaxPlants: 2,
	MinMutants: 0, MaxMutants: 2,
	AllMinusThenPlus: true,
}

// Hand-written changes whose outcome on a file is decided by what is planted
// in the file: a rewrite that always fails, one that fails for some
// instances, and one that adds an import.
type c14Special struct {
	Label  string
	Text   string
	Plants []string
	Host   string // when set: the file the instances are planted in (instead of a drawn small host)
	Host2  string // when set: a second file of another make for the same change
}

var c14Specials = []c14Special{
	{
		Label: "fail-unbound",
		Text:  "@@\nvar x, y expression\n@@\n-c14fail(x)\n+c14fail(y)\n",
		Plants: []string{
			"c14fail(1)", "c14fail(len(\"a\") + 2)", "_ = c14fail(nil)",
		},
	},
	{
		Label: "fail-some",
		Text:  "@@\nvar x, y expression\n@@\n-c14sel(x, y)\n+x.y\n",
		Plants: []string{
			"_ = c14sel(c14a, c14b)", "_ = c14sel(c14a, 1+2)", "_ = c14sel(c14a.b, c14c)", "_ = c14sel(c14a, c14f())",
		},
	},
	{
		Label: "add-import",
		Text:  "@@\nvar x expression\n@@\n+import \"context\"\n\n-c14ctx(x)\n+c14ctx(context.Background(), x)\n",
		Plants: []string{
			"c14ctx(1)", "c14ctx(c14v)", "_ = c14ctx(\"s\")", "if c14ctx(2) {\n}",
		},
	},
	{
		Label: "dots-import",
		Text:  "@@\nvar a identifier\n@@\n+import c14errs \"errors\"\n\n c14wrap(func(a int, ...) error {\n   ...\n-  return c14done(a)\n+  return c14errs.New(c14done(a))\n })\n",
		Plants: []string{
			"c14wrap(func(n int, s string) error {\n\tc14log(s)\n\treturn c14done(n)\n})",
			"c14wrap(func(k int) error {\n\treturn c14done(k)\n})",
			"c14wrap(func(k int) error {\n\treturn c14done(k + 1)\n})",
		},
	},
	{
		// The rewrite succeeds but, for some instances, what it prints is not
		// valid Go (a composite literal in an if header): the file fails to
		// reformat after it has been printed.
		Label: "unparseable-result",
		Text:  "@@\nvar x expression\n@@\n-c14chk(x)\n+if x {\n+\treturn\n+}\n",
		Plants: []string{
			"c14chk(c14T{} == c14v)", "c14chk(c14ok)", "c14chk(c14T{} == c14v)", "c14chk(len(c14s) > 0)",
		},
	},
	{
		// Two changes on the same code: the first elides a region with "...",
		// the second deletes commented, multi-line code inside that region
		// (what one change records about a file must not leak into the next).
		Label: "elide-then-delete",
		Text:  "@@\n@@\n c14scope(func() {\n   ...\n-  c14old()\n+  c14new()\n })\n\n@@\n@@\n-c14dbg(...)\n+c14quiet()\n",
		Plants: []string{
			"c14scope(func() {\n\tc14dbg(1, // debug remark\n\t\t2)\n\tc14keep()\n\tc14old()\n})",
			"c14scope(func() {\n\tc14keep()\n\tc14dbg(\n\t\t// inside the call\n\t\t3,\n\t)\n\n\tc14old()\n})",
			"c14scope(func() {\n\tc14dbg(4) // trailing\n\tc14old()\n})",
		},
	},
	{
		// The file imports a package of the module that sub/go.mod (an
		// extra file of some trees) declares, next to another third-party
		// package, in one block: how these are grouped must not depend on
		// which other files are processed in the same run.
		Label:  "module-imports",
		Text:   "@@\nvar x expression\n@@\n-c14modcall(x)\n+c14modcall(x, 1)\n",
		Plants: []string{"c14modcall(0)", "_ = c14modcall(c14n)"},
		Host:   "package c14mod\n\nimport (\n\t\"example.com/c14mod/util\"\n\t\"github.com/c14other/dep\"\n\t\"golang.org/x/c14third/z\"\n)\n\nfunc c14use() {\n\tutil.Do()\n\tdep.Do()\n\tz.Do()\n}\n\nfunc c14more(n int) int {\n\tn++\n\treturn n\n}\n",
	},
	{
		// A three-clause for header with only its condition elided: only a
		// loop with that very init and post statement can be an instance.
		// The plants are loops of other shapes with the same body.
		Label: "for-cond-elided",
		Text:  "@@\nvar x expression\n@@\n for c14i := 0; ...; c14i++ {\n-  c14n = c14n + x\n+  c14n += x\n }\n",
		Plants: []string{
			"for _, c14v := range c14xs {\n\tc14n = c14n + c14v\n}", "for c14n < 10 {\n\tc14n = c14n + 1\n}", "for {\n\tc14n = c14n + 2\n\tbreak\n}",
			"for c14j := 9; c14j > 0; c14j-- {\n\tc14n = c14n + c14j\n}",
		},
	},
	{
		// An argument is dropped; in the file it may hold a comment, on the
		// same line as the rest of the call or on one of its own.
		Label: "drop-arg",
		Text:  "@@\nvar a, b, c expression\n@@\n-c14emit(a, b, c)\n+c14emit(a, c)\n",
		Plants: []string{
			"c14emit(c14ctx0, c14level(2 /* warn */), \"x\")", "c14emit(c14ctx0, c14lvl /* inline */, c14msg)", "c14emit(1, 2, 3)",
			"c14emit(c14ctx0,\n\tc14lvl, // dropped\n\tc14msg)", "_ = c14emit(c14ctx0 /* kept */, c14lvl, c14msg /* kept too */)",
		},
	},
	{
		// No metavariables: x and y are the names of variables, although
		// other changes of this family declare metavariables called x and
		// y. Only the first plant is an instance.
		Label:  "plain-names",
		Text:   "@@\n@@\n-c14keep(x, y)\n+c14kept(y, x)\n",
		Plants: []string{"c14keep(x, y)", "c14keep(c14a, c14b)", "_ = c14keep(1, 2)", "c14keep(y, x)", "c14sink(c14keep(x, c14f()))"},
	},
	{
		// The captured name is reproduced, under an import that the change
		// only mentions: in one file the name is the package, in another
		// a parameter or a local variable of that name. What the name was
		// in a file processed before must not decide about this file's
		// imports.
		Label: "captured-name-under-import",
		Text:  "@@\nvar x identifier\n@@\n import \"log\"\n\n-x.Fatalln(...)\n+x.Fatal(...)\n",
		Plants: []string{
			"_ = func(log c14logger) { log.Fatalln(\"a\") }",
			"log.Fatalln(\"b\", 1)",
			"{\n\tlog := c14logger{}\n\tlog.Fatalln(2)\n}",
			"c14lg.Fatalln()",
			"log.Fatalln(log.Prefix())",
		},
		Host: "package c14logs\n\nimport \"log\"\n\ntype c14logger struct{}\n\nfunc (c14logger) Fatalln(...interface{}) {}\nfunc (c14logger) Fatal(...interface{})   {}\n\nvar c14lg c14logger\n\nfunc c14first(n int) int {\n\tn--\n\treturn n\n}\n\nfunc c14other(n int) int {\n\tn++\n\treturn n\n}\n",
	},
	{
		// The change is for one package only; a directory regularly holds
		// files of two (foo and foo_test), and other drawn files are of
		// other packages still.
		Label:  "package-guard",
		Text:   "@@\nvar x expression\n@@\n package c14guard_test\n\n-c14pg(x)\n+c14pg(x, nil)\n",
		Plants: []string{"c14pg(1)", "_ = c14pg(c14v)", "c14sink(c14pg(\"s\"))"},
		Host:   "package c14guard_test\n\nfunc c14first(n int) int {\n\tn--\n\treturn n\n}\n\nfunc c14other(n int) int {\n\tn++\n\treturn n\n}\n",
	},
	{
		// Generated source: //line directives make the positions of the file
		// mean other lines, here far smaller and far larger numbers than the
		// file has lines; the rewritten calls span several lines.
		Label: "under-line-directives",
		Text:  "@@\nvar a, b, c expression\n@@\n-c14span(a, b, c)\n+c14span(a, c)\n",
		Plants: []string{
			"c14span(c14one,\n\tc14two,\n\tc14three)", "c14span(\n\t1,\n\t2, // two\n\t3,\n)", "_ = c14span(c14f(\n\t1,\n), c14g(),\n\tc14h())", "c14span(1, 2, 3)",
		},
		Host: "package c14lines\n\n//line gen.y:2\nfunc c14first(n int) int {\n\tn--\n\treturn n\n}\n\n//line gen.y:9000\nfunc c14second(n int) int {\n\tn++\n\treturn n\n}\n\n// c14third is documented.\n//line other.y:1\nfunc c14third() {\n\tc14sink()\n}\n",
	},
	{
		// Two import guards. One kind of file imports the first path once and
		// the second twice (the guards hold); the other kind lacks the first
		// import (a guard fails) although the code occurs in it.
		Label:  "two-import-guards",
		Text:   "@@\nvar x expression\n@@\n import \"fmt\"\n-import \"errors\"\n\n-errors.New(x)\n+fmt.Errorf(x)\n",
		Plants: []string{"_ = errors.New(\"a\")", "c14sink(errors.New(\"b\"))", "return errors.New(\"c\")"},
		Host:   "package c14guards\n\nimport (\n\t\"errors\"\n\terrs \"errors\"\n\t\"fmt\"\n)\n\nvar _ = errs.Is\n\nfunc c14first() error {\n\tfmt.Println()\n\treturn nil\n}\n\nfunc c14other() error {\n\treturn nil\n}\n",
		Host2:  "package c14guards\n\nimport \"errors\"\n\ntype c14printer struct{}\n\nfunc (c14printer) Errorf(string) error { return nil }\n\nvar fmt c14printer\n\nfunc c14first() error {\n\treturn errors.New(\"z\")\n}\n\nfunc c14other() error {\n\treturn nil\n}\n",
	},
	{
		// Not idempotent: applying the change twice shows in the bytes.
		Label:  "bump",
		Text:   "@@\nvar x expression\n@@\n-c14bump(x)\n+c14bump(x + 1)\n",
		Plants: []string{"c14bump(0)", "_ = c14bump(c14n)", "c14sink(c14bump(1), c14bump(2))"},
	},
	{
		// The import is replaced; whether the old one may go depends on whether
		// its name is still used as a package, and a local of the same name
		// (parameter, variable) is not such a use.
		Label: "replace-import-shadowed",
		Text:  "@@\nvar x expression\n@@\n-import \"example.com/conversion/to\"\n+import \"example.com/thriftrw/ptr\"\n\n-to.Ptr(x)\n+ptr.Of(x)\n",
		Plants: []string{
			"_ = func(to c14dest) string { return to.Name() }",
			"c14sink(to.Ptr(2))",
			"{\n\tto := c14dest{}\n\t_ = to.Name()\n}",
			"c14sink(to.Ptr(to.Ptr(3)))",
		},
		Host: "package c14shadow\n\nimport \"example.com/conversion/to\"\n\ntype c14dest struct{}\n\nfunc (c14dest) Name() string { return \"\" }\n\nfunc c14use() {\n\tc14sink(to.Ptr(1))\n}\n\nfunc c14other(n int) int {\n\tn++\n\treturn n\n}\n",
	},
}

// c14Noise is planted to make variants of a file that differ in bytes.
var c14Noise = c14Special{Label: "noise", Plants: []string{"c14noise(1)", "_ = c14noise(\"two\")", "// c14 noise comment\nc14noise(3)", "if c14noise(4) {\n\tc14noise(5)\n}"}}

type c14Change struct {
	Label   string
	Text    string
	Hosts   []string // files the change was made for
	Special *c14Special
}

type c14RepoPair struct {
	Arch    string
	Patches []corpus.File
	Inputs  []corpus.File
}

var (
	c14RepoOnce  sync.Once
	c14RepoPairs []c14RepoPair
)

// c14Repo pairs the repository's test patches with the inputs of the same
// testdata archive.
func c14Repo() []c14RepoPair {
	c14RepoOnce.Do(func() {
		arch := func(name string) string {
			if !strings.HasPrefix(name, "testdata/") {
				return ""
			}
			rest := strings.TrimPrefix(name, "testdata/")
			i := strings.Index(rest, "/")
			if i < 0 {
				return ""
			}
			return rest[:i]
		}
		by := map[string]*c14RepoPair{}
		var order []string
		for _, p := range corpus.RepoPatches() {
			a := arch(p.Name)
			if a == "" || a == "patch" {
				continue
			}
			if _, res := run.ParseOnly("p.patch", p.Src); res.ParseErr != "" || res.Failed() {
				continue
			}
			if by[a] == nil {
				by[a] = &c14RepoPair{Arch: a}
				order = append(order, a)
			}
			by[a].Patches = append(by[a].Patches, p)
		}
		for _, in := range corpus.RepoInputs() {
			if p := by[arch(in.Name)]; p != nil {
				if _, err := parser.ParseFile(token.NewFileSet(), "x.go", in.Src, parser.ParseComments); err == nil {
					p.Inputs = append(p.Inputs, in)
				}
			}
		}
		sort.Strings(order)
		for _, a := range order {
			if len(by[a].Inputs) > 0 {
				c14RepoPairs = append(c14RepoPairs, *by[a])
			}
		}
	})
	return c14RepoPairs
}

func c14Accepts(patchText string) bool {
	pf, res := run.ParseOnly("p.patch", []byte(patchText))
	return pf != nil && !res.Failed()
}

// c14AddImport puts import lines directly below the header of a one-change
// patch.
func c14AddImport(p, imp string) string {
	cnt := 0
	for i := 0; i < len(p); i++ {
		if (i == 0 || p[i-1] == '\n') && strings.HasPrefix(p[i:], "@@") {
			cnt++
			if cnt == 2 {
				j := strings.IndexByte(p[i:], '\n')
				if j < 0 {
					return p
				}
				return p[:i+j+1] + imp + p[i+j+1:]
			}
		}
	}
	return p
}

var c14ImportLines = []string{
	"+import \"context\"\n\n",
	" import \"fmt\"\n\n",
	"-import \"fmt\"\n+import \"context\"\n\n",
	"+import c14x \"context\"\n\n",
	"-import \"fmt\"\n+import c14fmt \"fmt\"\n\n",
}

func c14SmallHost(rt *rapid.T, label string) string {
	var pool []*hostInfo
	for _, h := range loadHosts() {
		if h.lines <= 120 {
			pool = append(pool, h)
		}
	}
	return string(pool[rapid.IntRange(0, len(pool)-1).Draw(rt, label)].src)
}

// c14Plant inserts 1-3 instances of a special change at statement positions
// of base.
func c14Plant(rt *rapid.T, base string, sp *c14Special, label string) string {
	ip, err := gen.FindInsertionPoints([]byte(base))
	if err != nil || len(ip.Stmt) == 0 {
		return base
	}
	n := rapid.IntRange(1, 3).Draw(rt, label+"n")
	var ats []int
	var texts []string
	for i := 0; i < n; i++ {
		ats = append(ats, ip.Stmt[rapid.IntRange(0, len(ip.Stmt)-1).Draw(rt, label+"at")])
		texts = append(texts, sp.Plants[rapid.IntRange(0, len(sp.Plants)-1).Draw(rt, label+"pl")])
	}
	out := string(gen.InsertAll([]byte(base), ats, texts))
	if !c14Parses(out) {
		return base
	}
	return out
}

func c14Parses(src string) bool {
	_, err := parser.ParseFile(token.NewFileSet(), "x.go", src, parser.AllErrors|parser.ParseComments)
	return err == nil
}

func c14DrawChange(rt *rapid.T, idx int) *c14Change {
	lbl := fmt.Sprintf("ch%d", idx)
	var ch *c14Change
	switch k := rapid.IntRange(0, 11).Draw(rt, lbl+"src"); {
	case k <= 5: // mined from real code, below
	case k >= 10: // repository test patch with its own inputs
		pairs := c14Repo()
		if len(pairs) > 0 {
			pr := pairs[rapid.IntRange(0, len(pairs)-1).Draw(rt, lbl+"arch")]
			p := pr.Patches[rapid.IntRange(0, len(pr.Patches)-1).Draw(rt, lbl+"patch")]
			ch = &c14Change{Label: "repo:" + pr.Arch, Text: string(p.Src)}
			for _, in := range pr.Inputs {
				ch.Hosts = append(ch.Hosts, string(in.Src))
			}
		}
	default: // hand-written
		sp := &c14Specials[rapid.IntRange(0, len(c14Specials)-1).Draw(rt, lbl+"special")]
		ch = &c14Change{Label: sp.Label, Text: sp.Text, Special: sp}
		if sp.Host != "" {
			ch.Hosts = []string{c14Plant(rt, sp.Host, sp, lbl+"plant")}
			if sp.Host2 != "" {
				ch.Hosts = append(ch.Hosts, c14Plant(rt, sp.Host2, sp, lbl+"plant2"))
			}
		} else {
			ch.Hosts = []string{c14Plant(rt, c14SmallHost(rt, lbl+"host"), sp, lbl+"plant")}
		}
	}
	if ch == nil { // mined from real code
		for try := 0; try < 3 && ch == nil; try++ {
			mc, _ := genModelCase(rt, c14ModelOpts)
			if mc == nil || !c14Accepts(mc.Patch) {
				continue
			}
			ch = &c14Change{Label: "model", Text: mc.Patch, Hosts: []string{mc.Host}}
			if rapid.IntRange(0, 9).Draw(rt, lbl+"imp") < 4 {
				aug := c14AddImport(mc.Patch, c14ImportLines[rapid.IntRange(0, len(c14ImportLines)-1).Draw(rt, lbl+"impLine")])
				if c14Accepts(aug) {
					ch.Text, ch.Label = aug, "model+import"
				}
			}
		}
		if ch == nil {
			sp := &c14Specials[2]
			ch = &c14Change{Label: sp.Label, Text: sp.Text, Special: sp}
			ch.Hosts = []string{c14Plant(rt, c14SmallHost(rt, lbl+"host"), sp, lbl+"plant")}
		}
	}
	if !strings.HasSuffix(ch.Text, "\n") {
		ch.Text += "\n"
	}
	if rapid.Bool().Draw(rt, lbl+"described") {
		ch.Text = fmt.Sprintf("# c14 change %d (%s)\n", idx, ch.Label) + ch.Text
	}
	return ch
}

var c14Junk = []string{"func (", "}", "x := := 1", "package", ")", "if {", "var = 3", "\"unterminated", "/* open"}

// c14Mangle inserts a line that is a syntax error at a drawn line boundary.
func c14Mangle(rt *rapid.T, src, label string) string {
	lines := strings.SplitAfter(src, "\n")
	at := rapid.IntRange(1, len(lines)).Draw(rt, label+"at")
	junk := c14Junk[rapid.IntRange(0, len(c14Junk)-1).Draw(rt, label+"junk")]
	return strings.Join(lines[:at], "") + junk + "\n" + strings.Join(lines[at:], "")
}

var c14GenHeaders = []string{
	"// Code generated by c14gen. DO NOT EDIT.\n\n",
	"// Code generated by protoc-gen-go. DO NOT EDIT.\n// source: c14.proto\n\n",
	"// @generated by c14\n",
}

// c14DrawFiles draws the contents and roles of n files for the changes.
func c14DrawFiles(rt *rapid.T, changes []*c14Change, n int) []c14File {
	var specials []*c14Change
	for _, ch := range changes {
		if ch.Special != nil {
			specials = append(specials, ch)
		}
	}
	own := func(label string) string {
		ch := changes[rapid.IntRange(0, len(changes)-1).Draw(rt, label+"ch")]
		return ch.Hosts[rapid.IntRange(0, len(ch.Hosts)-1).Draw(rt, label+"host")]
	}
	var files []c14File
	for i := 0; i < n; i++ {
		lbl := fmt.Sprintf("f%d", i)
		var f c14File
		k := rapid.IntRange(0, 11).Draw(rt, lbl+"role")
		if i == 0 {
			k = 0
		}
		switch {
		case k <= 3:
			f = c14File{Src: own(lbl), Role: "own"}
			if i == 0 {
				f.Src = changes[0].Hosts[0]
			} else if rapid.IntRange(0, 2).Draw(rt, lbl+"variant") > 0 {
				// the same file with unrelated statements added somewhere
				f = c14File{Src: c14Plant(rt, f.Src, &c14Noise, lbl+"noise"), Role: "own-variant"}
			}
		case k <= 5:
			f = c14File{Src: c14SmallHost(rt, lbl+"other"), Role: "other"}
		case k <= 7:
			base := own(lbl)
			if len(specials) == 0 {
				f = c14File{Src: base, Role: "own"}
				break
			}
			if rapid.Bool().Draw(rt, lbl+"freshBase") {
				base = c14SmallHost(rt, lbl+"base")
			}
			sp := specials[rapid.IntRange(0, len(specials)-1).Draw(rt, lbl+"special")]
			f = c14File{Src: c14Plant(rt, base, sp.Special, lbl+"plant"), Role: "planted:" + sp.Label}
		case k <= 9:
			f = c14File{Src: c14Mangle(rt, own(lbl), lbl+"mangle"), Role: "unparseable"}
			if c14Parses(f.Src) {
				f.Role = "mangled-parses"
			}
		case k == 10:
			f = c14File{Src: c14GenHeaders[rapid.IntRange(0, len(c14GenHeaders)-1).Draw(rt, lbl+"hdr")] + own(lbl), Role: "generated"}
		default:
			t := files[rapid.IntRange(0, len(files)-1).Draw(rt, lbl+"twin")]
			f = c14File{Src: t.Src, Role: "twin:" + t.Role}
		}
		files = append(files, f)
	}
	return files
}

var c14Dirs = []string{"", "", "", "sub/", "sub/", "sub/deep/", "other/"}

func c14DrawCase(rt *rapid.T) *c14Case {
	if rapid.IntRange(0, 24).Draw(rt, "manyFilesKind") == 0 {
		return c14GenMany(rt)
	}
	cs := &c14Case{}
	switch k := rapid.IntRange(0, 9).Draw(rt, "kind"); {
	case k <= 2:
		cs.Kind = "conc"
	case k <= 6:
		cs.Kind = "cli"
	default:
		cs.Kind = "seq"
	}
	nch := rapid.SampledFrom([]int{1, 1, 2, 2, 3}).Draw(rt, "nChanges")
	var changes []*c14Change
	for i := 0; i < nch; i++ {
		changes = append(changes, c14DrawChange(rt, i))
	}
	// Module scenario (cli): a go.mod in a sub-directory, a file of that
	// module and a file outside it that imports the module next to other
	// third-party packages; both are rewritten by the same change.
	moduleScenario := cs.Kind == "cli" && rapid.IntRange(0, 5).Draw(rt, "moduleScenario") == 0
	if moduleScenario {
		for i := range c14Specials {
			if sp := &c14Specials[i]; sp.Label == "module-imports" {
				ch := &c14Change{Label: "special:" + sp.Label, Text: sp.Text}
				for k := 0; k < 2; k++ {
					ch.Hosts = append(ch.Hosts, c14Plant(rt, sp.Host, sp, fmt.Sprintf("modPlant%d", k)))
				}
				changes = append([]*c14Change{ch}, changes...)
			}
		}
	}
	// Package scenario (cli): every change of the run is restricted to one
	// package, and the directories hold files of that package next to files
	// of others (as foo and foo_test do).
	if cs.Kind == "cli" && !moduleScenario && rapid.IntRange(0, 5).Draw(rt, "packageScenario") == 0 {
		for i := range c14Specials {
			if sp := &c14Specials[i]; sp.Label == "package-guard" {
				ch := &c14Change{Label: "special:" + sp.Label, Text: sp.Text, Special: sp}
				for k := 0; k < 2; k++ {
					ch.Hosts = append(ch.Hosts, c14Plant(rt, sp.Host, sp, fmt.Sprintf("pkgPlant%d", k)))
				}
				ch.Hosts = append(ch.Hosts, strings.Replace(ch.Hosts[0], "package c14guard_test", "package c14guard", 1))
				changes = []*c14Change{ch}
			}
		}
	}
	// Host scenario (cli): one of the hand-written changes that come with a
	// file of their own, and several differently planted variants of that
	// file (what one of them leaves behind in the compiled change, or in the
	// process, meets the next).
	if cs.Kind == "cli" && !moduleScenario && len(changes) > 0 && changes[0].Label != "special:package-guard" && rapid.IntRange(0, 2).Draw(rt, "hostScenario") == 0 {
		var withHost []*c14Special
		for i := range c14Specials {
			if c14Specials[i].Host != "" && c14Specials[i].Label != "module-imports" {
				withHost = append(withHost, &c14Specials[i])
			}
		}
		sp := withHost[rapid.IntRange(0, len(withHost)-1).Draw(rt, "hostScenarioSpecial")]
		ch := &c14Change{Label: "special:" + sp.Label, Text: sp.Text, Special: sp}
		for k := 0; k < 4; k++ {
			ch.Hosts = append(ch.Hosts, c14Plant(rt, sp.Host, sp, fmt.Sprintf("hostPlant%d", k)))
			if sp.Host2 != "" {
				ch.Hosts = append(ch.Hosts, c14Plant(rt, sp.Host2, sp, fmt.Sprintf("host2Plant%d", k)))
			}
		}
		changes = []*c14Change{ch}
	}
	join := func(chs []*c14Change) string {
		var b strings.Builder
		for _, ch := range chs {
			b.WriteString(ch.Text)
		}
		return b.String()
	}
	// The changes were accepted one by one; a concatenation that is rejected
	// (a repository patch that ends in a way that swallows the next header,
	// say) is cut back to its first change.
	if !c14Accepts(join(changes)) {
		changes = changes[:1]
	}
	for _, ch := range changes {
		cs.Changes = append(cs.Changes, ch.Label)
	}

	if cs.Kind == "cli" {
		split := len(changes)
		if len(changes) > 1 && rapid.Bool().Draw(rt, "twoPatchFiles") {
			split = rapid.IntRange(1, len(changes)-1).Draw(rt, "split")
		}
		cs.Patches = []string{join(changes[:split])}
		if split < len(changes) {
			cs.Patches = append(cs.Patches, join(changes[split:]))
		}
		for _, p := range cs.Patches {
			if !c14Accepts(p) {
				cs.Patches = []string{join(changes)}
				break
			}
		}
		cs.Files = c14DrawFiles(rt, changes, rapid.IntRange(2, 8).Draw(rt, "nFiles"))
		letters := []string{"a", "m", "z", "B"}
		for i := range cs.Files {
			lbl := fmt.Sprintf("f%d", i)
			name := c14Dirs[rapid.IntRange(0, len(c14Dirs)-1).Draw(rt, lbl+"dir")] +
				letters[rapid.IntRange(0, len(letters)-1).Draw(rt, lbl+"letter")] + fmt.Sprint(i)
			if rapid.IntRange(0, 5).Draw(rt, lbl+"test") == 0 {
				name += "_test"
			}
			if rapid.IntRange(0, 11).Draw(rt, lbl+"longName") == 0 {
				// a base name next to which no temporary file can be
				// created: writing this file back fails, in a run of its
				// own just as among the others
				if base := name[strings.LastIndex(name, "/")+1:]; len(base) < 246 {
					name += strings.Repeat("n", 246-len(base))
				}
			}
			cs.Files[i].Name = name + ".go"
			if i > 0 && rapid.IntRange(0, 7).Draw(rt, lbl+"hardLink") == 0 {
				// a second name of an earlier file (same inode, same bytes)
				t := cs.Files[rapid.IntRange(0, i-1).Draw(rt, lbl+"linkOf")]
				if t.LinkOf == "" {
					cs.Files[i].Src, cs.Files[i].Role, cs.Files[i].LinkOf = t.Src, "hard-link:"+t.Role, t.Name
				}
			}
		}
		if moduleScenario {
			// the first two files are the scenario's: one inside the module,
			// one outside it and later in path order
			mod := changes[0]
			inside := c14File{Name: "sub/m0mod.go", Src: mod.Hosts[0], Role: "own"}
			outside := c14File{Name: "z9outside.go", Src: mod.Hosts[1], Role: "own"}
			cs.Files = append([]c14File{inside, outside}, cs.Files...)
			cs.Extra = append(cs.Extra, c14File{Name: "sub/go.mod", Src: "module example.com/c14mod\n\ngo 1.22\n", Role: "module-file"})
		} else if rapid.IntRange(0, 2).Draw(rt, "moduleFile") == 0 {
			dir := rapid.SampledFrom([]string{"sub/", "sub/deep/", ""}).Draw(rt, "moduleDir")
			cs.Extra = append(cs.Extra, c14File{Name: dir + "go.mod", Src: "module example.com/c14mod\n\ngo 1.22\n", Role: "module-file"})
		}
		cs.Mode = rapid.SampledFrom([]string{"inplace", "inplace", "inplace", "inplace", "diff", "diff", "print"}).Draw(rt, "mode")
		cs.Verbose = rapid.Bool().Draw(rt, "verbose")
		cs.SkipGen = rapid.IntRange(0, 2).Draw(rt, "skipGenerated") > 0
		cs.SkipImports = rapid.IntRange(0, 9).Draw(rt, "skipImports") == 0
		cs.Abs = rapid.IntRange(0, 3).Draw(rt, "abs") == 0
		cs.Args = c14DrawArgs(rt, cs.Files, "args")
		if rapid.Bool().Draw(rt, "secondArrangement") {
			cs.Args2 = c14DrawArgs(rt, cs.Files, "args2")
		}
		return cs
	}

	// API kinds.
	cs.Patches = []string{join(changes)}
	cs.Files = c14DrawFiles(rt, changes, rapid.IntRange(2, 6).Draw(rt, "nInputs"))
	names := []string{"a.go", "b.go", "c.go", "dir/a.go"}
	for i := range cs.Files {
		cs.Files[i].Name = names[rapid.IntRange(0, len(names)-1).Draw(rt, fmt.Sprintf("f%dname", i))]
	}
	idx := rapid.IntRange(0, len(cs.Files)-1)
	// Repeats are wanted: every second call re-uses an input that was used before.
	nseq := rapid.IntRange(2, 8).Draw(rt, "nSeq")
	for i := 0; i < nseq; i++ {
		if i > 0 && rapid.IntRange(0, 2).Draw(rt, fmt.Sprintf("seq%drepeat", i)) == 0 {
			cs.Seq = append(cs.Seq, cs.Seq[rapid.IntRange(0, len(cs.Seq)-1).Draw(rt, fmt.Sprintf("seq%dof", i))])
			continue
		}
		cs.Seq = append(cs.Seq, idx.Draw(rt, fmt.Sprintf("seq%d", i)))
	}
	if cs.Kind == "conc" {
		g := rapid.IntRange(2, 16).Draw(rt, "G")
		for i := 0; i < g; i++ {
			calls := rapid.IntRange(1, 3).Draw(rt, fmt.Sprintf("g%dcalls", i))
			var s []int
			for j := 0; j < calls; j++ {
				s = append(s, idx.Draw(rt, fmt.Sprintf("g%dc%d", i, j)))
			}
			cs.Conc = append(cs.Conc, s)
		}
	}
	return cs
}

// c14DrawArgs draws the argument list of a grouped invocation: explicit
// files (plain or "./" spelling), directories (".", "sub", "sub/..."), in a
// drawn order, with duplicates and overlaps.
func c14DrawArgs(rt *rapid.T, files []c14File, label string) []string {
	spell := func(name, l string) string {
		if rapid.IntRange(0, 3).Draw(rt, l+"dotSlash") == 0 {
			return "./" + name
		}
		return name
	}
	dirSet := map[string]bool{}
	for _, f := range files {
		for d := path.Dir(f.Name); d != "."; d = path.Dir(d) {
			dirSet[d] = true
		}
	}
	var dirs []string
	for d := range dirSet {
		dirs = append(dirs, d)
	}
	sort.Strings(dirs)
	dirs = append(dirs, ".")

	var args []string
	shape := rapid.IntRange(0, 9).Draw(rt, label+"shape")
	switch {
	case shape == 0: // the whole tree
		args = append(args, rapid.SampledFrom([]string{".", "./...", "./"}).Draw(rt, label+"root"))
	default:
		// a drawn subset of the files, in a drawn order
		perm := rapid.Permutation(c14Iota(len(files))).Draw(rt, label+"perm")
		keep := rapid.IntRange(1, len(files)).Draw(rt, label+"keep")
		if shape >= 4 {
			keep = len(files)
		}
		for _, i := range perm[:keep] {
			args = append(args, spell(files[i].Name, fmt.Sprintf("%s%d", label, i)))
		}
		// directories among them
		if shape%3 == 0 {
			nd := rapid.IntRange(1, 2).Draw(rt, label+"nDirs")
			for j := 0; j < nd; j++ {
				d := dirs[rapid.IntRange(0, len(dirs)-1).Draw(rt, fmt.Sprintf("%sdir%d", label, j))]
				d = spell(d, fmt.Sprintf("%sdir%d", label, j))
				if rapid.Bool().Draw(rt, fmt.Sprintf("%sdir%ddots", label, j)) {
					d += "/..."
				}
				at := rapid.IntRange(0, len(args)).Draw(rt, fmt.Sprintf("%sdir%dat", label, j))
				args = append(args[:at], append([]string{d}, args[at:]...)...)
			}
		}
		// duplicates
		nd := rapid.IntRange(0, 2).Draw(rt, label+"nDup")
		for j := 0; j < nd; j++ {
			src := args[rapid.IntRange(0, len(args)-1).Draw(rt, fmt.Sprintf("%sdup%d", label, j))]
			at := rapid.IntRange(0, len(args)).Draw(rt, fmt.Sprintf("%sdup%dat", label, j))
			args = append(args[:at], append([]string{src}, args[at:]...)...)
		}
	}
	return args
}

func c14Iota(n int) []int {
	out := make([]int, n)
	for i := range out {
		out[i] = i
	}
	return out
}

// ---------------------------------------------------------------------------
// CLI part

type c14Run struct {
	Args   []string
	Exit   int
	Stdout string
	Stderr string
	Files  map[string]string // content after the run, by name
	Extra  []string          // entries that appeared
	Bad    string            // crash, time-out, start failure
}

// c14ArgPath splits an argument into the cleaned path it names and whether
// it had the "..." suffix.
func c14ArgPath(arg string) (p string, dots bool) {
	dots = strings.HasSuffix(arg, "...")
	arg = strings.TrimSuffix(arg, "...")
	if arg == "" {
		arg = "."
	}
	return path.Clean(arg), dots
}

// c14Covered lists the files the arguments name, sorted (which is also the
// order of their absolute paths).
func c14Covered(files []c14File, args []string) []string {
	set := map[string]bool{}
	for _, a := range args {
		p, _ := c14ArgPath(a)
		for _, f := range files {
			if p == "." || f.Name == p || strings.HasPrefix(f.Name, p+"/") {
				set[f.Name] = true
			}
		}
	}
	var out []string
	for n := range set {
		out = append(out, n)
	}
	sort.Strings(out)
	return out
}

// c14CLIRun re-creates the tree below base/w holding the given files and
// runs gopatch there.
// the random suffix of a temporary file's name, as it appears in messages
var c14TempSuffix = regexp.MustCompile(`\.gopatch-[0-9]+`)

func c14CLIRun(base string, cs *c14Case, tree []c14File, args []string) *c14Run {
	o := &c14Run{Files: map[string]string{}}
	root := filepath.Join(base, "w")
	if err := os.RemoveAll(root); err != nil {
		o.Bad = "harness: " + err.Error()
		return o
	}
	if err := os.MkdirAll(root, 0o755); err != nil {
		o.Bad = "harness: " + err.Error()
		return o
	}
	m := map[string]string{}
	for _, f := range tree {
		m[f.Name] = f.Src
	}
	for _, f := range cs.Extra {
		m[f.Name] = f.Src
	}
	if err := run.WriteTree(root, m); err != nil {
		o.Bad = "harness: " + err.Error()
		return o
	}
	for _, f := range tree {
		if _, partner := m[f.LinkOf]; f.LinkOf != "" && partner {
			p := filepath.Join(root, filepath.FromSlash(f.Name))
			_ = os.Remove(p)
			if err := os.Link(filepath.Join(root, filepath.FromSlash(f.LinkOf)), p); err != nil {
				o.Bad = "harness: " + err.Error()
				return o
			}
		}
	}
	var argv []string
	if cs.SkipGen {
		argv = append(argv, "--skip-generated")
	}
	if cs.SkipImports {
		argv = append(argv, "--skip-import-processing")
	}
	switch cs.Mode {
	case "diff":
		argv = append(argv, "-d")
	case "print":
		argv = append(argv, "--print-only")
	}
	if cs.Verbose {
		argv = append(argv, "-v")
	}
	for i, p := range cs.Patches {
		name := fmt.Sprintf("p%d.patch", i)
		if err := os.WriteFile(filepath.Join(base, name), []byte(p), 0o644); err != nil {
			o.Bad = "harness: " + err.Error()
			return o
		}
		argv = append(argv, "-p", "../"+name)
	}
	for _, a := range args {
		if cs.Abs {
			p, dots := c14ArgPath(a)
			a = filepath.Join(root, filepath.FromSlash(p))
			if dots {
				a += "/..."
			}
		}
		argv = append(argv, a)
	}
	o.Args = argv
	r := run.CLI(root, nil, argv...)
	o.Exit = r.Exit
	o.Stdout = c14TempSuffix.ReplaceAllString(strings.ReplaceAll(string(r.Stdout), base, "$D"), ".gopatch-N")
	o.Stderr = c14TempSuffix.ReplaceAllString(strings.ReplaceAll(string(r.Stderr), base, "$D"), ".gopatch-N")
	switch {
	case r.StartErr != "":
		o.Bad = "harness: start: " + r.StartErr
	case r.TimedOut:
		o.Bad = "timeout"
	case r.Crashed():
		o.Bad = "crash"
	case r.Exit != 0 && r.Exit != 1:
		o.Bad = fmt.Sprintf("exit %d", r.Exit)
	}
	snap, err := run.Snapshot(root)
	if err != nil {
		o.Bad = "harness: " + err.Error()
		return o
	}
	for name, e := range snap {
		if e.Type == "dir" {
			continue
		}
		if _, ok := m[name]; !ok {
			o.Extra = append(o.Extra, name)
			continue
		}
		b, err := os.ReadFile(filepath.Join(root, filepath.FromSlash(name)))
		if err != nil {
			o.Files[name] = "<unreadable: " + err.Error() + ">"
			continue
		}
		o.Files[name] = string(b)
	}
	for name := range m {
		if _, ok := o.Files[name]; !ok {
			o.Files[name] = "<missing>"
		}
	}
	sort.Strings(o.Extra)
	return o
}

var c14ErrPrefixes = []string{"could not parse \"", "failed to rewrite \"", "reformat \"", "could not update \"", "the following errors occurred:", "write $D/"}

// c14SplitStderr separates the description lines ("file:text", printed while
// files are processed) from the error text printed at the end.
func c14SplitStderr(s string) (comments, errs string) {
	off := 0
	for off < len(s) {
		for _, p := range c14ErrPrefixes {
			if strings.HasPrefix(s[off:], p) {
				return s[:off], strings.TrimSuffix(s[off:], "\n")
			}
		}
		i := strings.IndexByte(s[off:], '\n')
		if i < 0 {
			break
		}
		off += i + 1
	}
	return s, ""
}

func c14ErrKind(e string) string {
	switch {
	case e == "":
		return ""
	case strings.HasPrefix(e, "could not parse"):
		return "parse-error"
	case strings.HasPrefix(e, "could not update"):
		return "update-error"
	case strings.HasPrefix(e, "failed to rewrite"):
		return "rewrite-error"
	case strings.HasPrefix(e, "reformat"):
		return "reformat-error"
	case strings.HasPrefix(e, "write "):
		return "write-error"
	}
	return "other-error"
}

// c14FirstDiff describes the first line at which two texts differ.
func c14FirstDiff(a, b string) string {
	la, lb := strings.SplitAfter(a, "\n"), strings.SplitAfter(b, "\n")
	for i := 0; i < len(la) || i < len(lb); i++ {
		var x, y string
		if i < len(la) {
			x = la[i]
		}
		if i < len(lb) {
			y = lb[i]
		}
		if x != y {
			return fmt.Sprintf("line %d: %q vs %q", i+1, trunc(x, 200), trunc(y, 200))
		}
	}
	return "no difference"
}

// c14IsPermutation reports whether got is a concatenation of the parts in
// some order (each used once).
func c14IsPermutation(got string, parts []string) bool {
	var nonEmpty []string
	for _, p := range parts {
		if p != "" {
			nonEmpty = append(nonEmpty, p)
		}
	}
	used := make([]bool, len(nonEmpty))
	steps := 0
	var rec func(rest string, left int) bool
	rec = func(rest string, left int) bool {
		if left == 0 {
			return rest == ""
		}
		steps++
		if steps > 100000 {
			return false
		}
		for i, p := range nonEmpty {
			if !used[i] && strings.HasPrefix(rest, p) {
				used[i] = true
				if rec(rest[len(p):], left-1) {
					return true
				}
				used[i] = false
			}
		}
		return false
	}
	return rec(got, len(nonEmpty))
}

func (cs *c14Case) describeCLI() string {
	var b strings.Builder
	for i, p := range cs.Patches {
		fmt.Fprintf(&b, "patch file %d:\n%s\n", i, trunc(p, 400))
	}
	fmt.Fprintf(&b, "files:")
	for _, f := range cs.Files {
		fmt.Fprintf(&b, " %s[%s]", f.Name, f.Role)
	}
	fmt.Fprintf(&b, "\nmode=%s verbose=%v skip-generated=%v skip-import-processing=%v absolute-arguments=%v\n", cs.Mode, cs.Verbose, cs.SkipGen, cs.SkipImports, cs.Abs)
	return b.String()
}

func (cs *c14Case) file(name string) *c14File {
	for i := range cs.Files {
		if cs.Files[i].Name == name {
			return &cs.Files[i]
		}
	}
	return nil
}

func evalC14CLI(cs *c14Case, info *c14Info) (sig, msg string) {
	base, cleanup := run.TempDir("c14-")
	defer cleanup()

	arrangements := [][]string{cs.Args}
	if len(cs.Args2) > 0 {
		arrangements = append(arrangements, cs.Args2)
	}
	union := map[string]bool{}
	for _, a := range arrangements {
		for _, n := range c14Covered(cs.Files, a) {
			union[n] = true
		}
	}
	if len(union) == 0 {
		info.Unjudged = "no file covered"
		return "", ""
	}
	var names []string
	for n := range union {
		names = append(names, n)
	}
	sort.Strings(names)

	bad := func(r *c14Run, what string) bool {
		switch {
		case r.Bad == "":
			if strings.Contains(r.Stderr, "load patch") {
				info.Unjudged = "patch rejected by the CLI"
				return true
			}
			return false
		case strings.HasPrefix(r.Bad, "harness:"):
			info.Harness = what + ": " + r.Bad
		default:
			info.Foreign = append(info.Foreign, "C08:cli-"+r.Bad)
			info.Unjudged = what + ": " + r.Bad
		}
		return true
	}

	// (a) every file alone, in a tree that holds nothing else.
	solo := map[string]*c14Run{}
	soloComments := map[string]string{}
	soloErr := map[string]string{}
	outcome := map[string]string{}
	nChanged, nOther := 0, 0
	for _, n := range names {
		f := cs.file(n)
		r := c14CLIRun(base, cs, []c14File{*f}, []string{n})
		if bad(r, "solo run of "+n) {
			return "", ""
		}
		solo[n] = r
		if len(r.Extra) > 0 {
			info.Foreign = append(info.Foreign, "C15:entry-created")
			info.Unjudged = "solo run created " + strings.Join(r.Extra, ",")
			return "", ""
		}
		soloComments[n], soloErr[n] = c14SplitStderr(r.Stderr)
		if r.Exit == 1 && soloErr[n] == "" || r.Exit == 0 && soloErr[n] != "" {
			info.Unjudged = "solo stderr not understood"
			info.class("cli:stderr-not-understood")
			return "", ""
		}
		oc := c14ErrKind(soloErr[n])
		if oc == "" {
			changed := false
			switch cs.Mode {
			case "inplace":
				changed = r.Files[n] != f.Src
			case "diff":
				changed = strings.Contains(r.Stdout, "--- ")
			case "print":
				changed = !strings.Contains(r.Stdout, f.Src)
			}
			switch {
			case changed:
				oc = "changed"
			case cs.SkipGen && f.Role == "generated":
				oc = "generated-skipped"
			default:
				oc = "unchanged"
			}
		}
		if cs.Mode != "inplace" && r.Files[n] != f.Src {
			return "cli:written-without-being-asked", fmt.Sprintf("mode %s must not modify files, yet %s changed in its solo run\n%s", cs.Mode, n, cs.describeCLI())
		}
		outcome[n] = oc
		if oc == "changed" {
			nChanged++
		} else {
			nOther++
		}
		info.class("cli:solo-outcome:%s", oc)
		info.Outcomes = append(info.Outcomes, n+"["+f.Role+"]="+oc)
	}

	// Two files with the same bytes have the same result.
	for i, a := range names {
		for _, b := range names[i+1:] {
			fa, fb := cs.file(a), cs.file(b)
			if fa.Src != fb.Src {
				continue
			}
			if outcome[a] == "write-error" || outcome[b] == "write-error" {
				continue // whether a file can be written back depends on its name, not on its bytes
			}
			info.class("cli:twin-pair")
			if solo[a].Files[a] != solo[b].Files[b] || solo[a].Exit != solo[b].Exit {
				return "cli:same-bytes-different-result", fmt.Sprintf("%s and %s have identical bytes but different results when processed alone (exit %d vs %d; %s)\n%s",
					a, b, solo[a].Exit, solo[b].Exit, c14FirstDiff(solo[a].Files[a], solo[b].Files[b]), cs.describeCLI())
			}
		}
	}

	// (b) together.
	for ai, args := range arrangements {
		covered := c14Covered(cs.Files, args)
		if len(covered) == 0 {
			continue
		}
		g1 := c14CLIRun(base, cs, cs.Files, args)
		if bad(g1, "grouped run") {
			return "", ""
		}
		g2 := c14CLIRun(base, cs, cs.Files, args)
		if bad(g2, "grouped run (repeat)") {
			return "", ""
		}
		where := fmt.Sprintf("arguments %q (arrangement %d)", args, ai)

		// Same run twice.
		switch {
		case g1.Exit != g2.Exit:
			return "cli:nondeterministic:exit", fmt.Sprintf("two identical runs with %s exit with %d and %d\n%s", where, g1.Exit, g2.Exit, cs.describeCLI())
		case g1.Stdout != g2.Stdout:
			return "cli:nondeterministic:stdout", fmt.Sprintf("two identical runs with %s print different stdout: %s\n%s", where, c14FirstDiff(g1.Stdout, g2.Stdout), cs.describeCLI())
		case g1.Stderr != g2.Stderr:
			return "cli:nondeterministic:stderr", fmt.Sprintf("two identical runs with %s print different stderr: %s\n%s", where, c14FirstDiff(g1.Stderr, g2.Stderr), cs.describeCLI())
		}
		for _, f := range cs.Files {
			if g1.Files[f.Name] != g2.Files[f.Name] {
				return "cli:nondeterministic:file", fmt.Sprintf("two identical runs with %s leave different bytes in %s: %s\n%s", where, f.Name, c14FirstDiff(g1.Files[f.Name], g2.Files[f.Name]), cs.describeCLI())
			}
		}
		if len(g1.Extra) > 0 {
			info.Foreign = append(info.Foreign, "C15:entry-created")
			continue
		}

		// Per-file bytes.
		inCov := map[string]bool{}
		for _, n := range covered {
			inCov[n] = true
		}
		for _, f := range cs.Files {
			got := g1.Files[f.Name]
			if !inCov[f.Name] {
				if got != f.Src {
					info.Foreign = append(info.Foreign, "C15:unnamed-file-changed")
				}
				continue
			}
			want := solo[f.Name].Files[f.Name]
			if got != want {
				var others []string
				for _, n := range covered {
					if n != f.Name {
						others = append(others, fmt.Sprintf("%s[%s: %s]", n, cs.file(n).Role, outcome[n]))
					}
				}
				gotState := "as alone"
				switch {
				case got == f.Src:
					gotState = "untouched"
				case want == f.Src:
					gotState = "rewritten"
				default:
					gotState = "rewritten differently"
				}
				return fmt.Sprintf("cli:file-bytes:alone-%s/grouped-%s", outcome[f.Name], strings.ReplaceAll(gotState, " ", "-")),
					fmt.Sprintf("%s [%s] ends up with different bytes when processed together with %s than when processed alone (alone: %s; grouped: %s).\nfirst difference (alone vs grouped): %s\n%s\n%s",
						f.Name, f.Role, strings.Join(others, ", "), outcome[f.Name], gotState, c14FirstDiff(want, got), where, cs.describeCLI())
			}
		}

		// Exit status.
		wantExit := 0
		for _, n := range covered {
			if solo[n].Exit != 0 {
				wantExit = 1
			}
		}
		if g1.Exit != wantExit {
			return "cli:exit", fmt.Sprintf("the grouped run exits with %d, the solo runs of its files give %d\n%s\nstderr: %s\n%s", g1.Exit, wantExit, where, trunc(g1.Stderr, 600), cs.describeCLI())
		}

		// Stdout: the per-file pieces in ascending path order.
		var parts []string
		for _, n := range covered {
			parts = append(parts, solo[n].Stdout)
		}
		if wantOut := strings.Join(parts, ""); g1.Stdout != wantOut {
			if c14IsPermutation(g1.Stdout, parts) {
				info.Foreign = append(info.Foreign, "C15:output-order")
			} else {
				return "cli:stdout", fmt.Sprintf("stdout of the grouped run is not the concatenation of what the files produce alone: %s (grouped vs expected)\n%s\n%s",
					c14FirstDiff(g1.Stdout, wantOut), where, cs.describeCLI())
			}
		}

		// Stderr: description lines, then the errors.
		gc, ge := c14SplitStderr(g1.Stderr)
		var cparts, errs, loopErrs, updErrs []string
		multiline := false
		for _, n := range covered {
			cparts = append(cparts, soloComments[n])
			if e := soloErr[n]; e != "" {
				errs = append(errs, e)
				if strings.HasPrefix(e, "could not update") {
					updErrs = append(updErrs, e)
				} else {
					loopErrs = append(loopErrs, e)
				}
				if strings.Contains(e, "\n") {
					multiline = true
				}
			}
		}
		if wantC := strings.Join(cparts, ""); gc != wantC {
			if c14IsPermutation(gc, cparts) {
				info.Foreign = append(info.Foreign, "C15:output-order")
			} else {
				return "cli:stderr-descriptions", fmt.Sprintf("the description lines on stderr of the grouped run are not those of the solo runs: %s (grouped vs expected)\n%s\n%s",
					c14FirstDiff(gc, wantC), where, cs.describeCLI())
			}
		}
		switch {
		case len(errs) == 0:
			if ge != "" {
				return "cli:stderr-errors", fmt.Sprintf("the grouped run reports an error no file produces alone: %s\n%s\n%s", trunc(ge, 600), where, cs.describeCLI())
			}
		case multiline || len(errs) > 1 && strings.HasPrefix(ge, "the following errors occurred:"):
			info.class("cli:stderr-multiline")
			for _, e := range errs {
				for _, l := range strings.Split(e, "\n") {
					if l = strings.TrimSpace(strings.TrimPrefix(strings.TrimSpace(l), "- ")); l != "" && !strings.Contains(ge, l) {
						return "cli:stderr-errors", fmt.Sprintf("an error a file produces alone is missing from the grouped run: %q\ngrouped stderr: %s\n%s\n%s", l, trunc(ge, 800), where, cs.describeCLI())
					}
				}
			}
		default:
			exact := strings.Join(append(append([]string{}, loopErrs...), updErrs...), "; ")
			if ge == exact {
				info.class("cli:stderr-errors-exact")
				break
			}
			total := 2 * (len(errs) - 1)
			for _, e := range errs {
				total += len(e)
				if !strings.Contains(ge, e) {
					return "cli:stderr-errors", fmt.Sprintf("an error a file produces alone is missing from (or altered in) the grouped run: %q\ngrouped stderr: %s\n%s\n%s", trunc(e, 400), trunc(ge, 800), where, cs.describeCLI())
				}
			}
			if len(ge) != total {
				return "cli:stderr-errors", fmt.Sprintf("the grouped run reports more than the errors of its files: %q\nerrors of the solo runs: %q\n%s\n%s", trunc(ge, 800), errs, where, cs.describeCLI())
			}
			info.class("cli:stderr-errors-reordered")
		}

		// Shape of the arrangement.
		sorted := true
		var plain []string
		for _, a := range args {
			p, _ := c14ArgPath(a)
			plain = append(plain, p)
		}
		if !sort.StringsAreSorted(plain) || len(plain) != len(covered) {
			sorted = false
		}
		for i := range plain {
			if sorted && plain[i] != covered[i] {
				sorted = false
			}
		}
		ch, ot := 0, 0
		for _, n := range covered {
			if outcome[n] == "changed" {
				ch++
			} else {
				ot++
			}
		}
		if len(covered) >= 2 && ch >= 1 && ot >= 1 && !sorted {
			info.Nontrivial = true
		}
		info.class("cli:grouped-files:%d", len(covered))
		if !sorted {
			info.class("cli:args-not-sorted-file-list")
		}
		if len(plain) > len(covered) {
			info.class("cli:args-overlap-or-duplicate")
		}
		for _, a := range args {
			if p, _ := c14ArgPath(a); cs.file(p) == nil {
				info.class("cli:args-directory")
				break
			}
		}
	}
	info.class("cli:mode:%s", cs.Mode)
	info.class("cli:patch-files:%d", len(cs.Patches))
	if cs.Abs {
		info.class("cli:absolute-arguments")
	}
	if nChanged > 0 && nOther > 0 {
		info.class("cli:mixed-outcomes")
	}
	return "", ""
}

// ---------------------------------------------------------------------------
// API part

type c14Res struct {
	Out   []byte `json:"out,omitempty"`
	Err   string `json:"err,omitempty"`
	Panic string `json:"panic,omitempty"` // first line of the panic value
	Stack string `json:"stack,omitempty"`
	Hang  bool   `json:"hang,omitempty"`
}

func (r c14Res) kind() string {
	switch {
	case r.Hang:
		return "hang"
	case r.Panic != "":
		return "panic"
	case r.Err != "":
		return "error"
	}
	return "output"
}

func (r c14Res) same(o c14Res) bool {
	return r.Hang == o.Hang && r.Panic == o.Panic && r.Err == o.Err && bytes.Equal(r.Out, o.Out)
}

func (r c14Res) String() string {
	switch r.kind() {
	case "hang":
		return "no return within the time limit"
	case "panic":
		return "panic: " + r.Panic
	case "error":
		return "error: " + trunc(r.Err, 400)
	}
	return fmt.Sprintf("%d bytes of output", len(r.Out))
}

func c14FromAPI(r *run.APIResult) c14Res {
	res := c14Res{Out: r.Out, Err: r.ApplyErr, Hang: r.Hang}
	if r.ParseErr != "" {
		res.Err = "patch.Parse: " + r.ParseErr
	}
	if r.Panic != "" {
		res.Panic = strings.SplitN(r.Panic, "\n", 2)[0]
		res.Stack = trunc(r.Panic, 1500)
	}
	return res
}

// c14Direct calls Apply without a watchdog (used in the child process, which
// is bounded as a whole by its parent).
func c14Direct(pf *patch.File, name string, src []byte) (res c14Res) {
	defer func() {
		if p := recover(); p != nil {
			res = c14Res{Panic: strings.SplitN(fmt.Sprint(p), "\n", 2)[0], Stack: trunc(string(debug.Stack()), 1500)}
		}
	}()
	out, err := pf.Apply(name, src)
	if err != nil {
		e := err.Error()
		if e == "" {
			e = "<empty error text>"
		}
		return c14Res{Err: e}
	}
	return c14Res{Out: out}
}

type c14Hist struct {
	ParseErr string     `json:"parse_err,omitempty"`
	Pre      []c14Res   `json:"pre"`
	Conc     [][]c14Res `json:"conc,omitempty"`
	Post     []c14Res   `json:"post,omitempty"`
}

// c14RunHistory parses the patch once and performs the history on that one
// patch.File: the sequence, the concurrent batch, the sequence again.
func c14RunHistory(cs *c14Case, watchdog bool) *c14Hist {
	h := &c14Hist{}
	pf, pres := run.ParseOnly("p.patch", []byte(cs.Patches[0]))
	if pf == nil {
		h.ParseErr = pres.ParseErr + pres.Panic
		if h.ParseErr == "" {
			h.ParseErr = "patch.Parse did not return"
		}
		return h
	}
	apply := func(i int) c14Res {
		f := cs.Files[i]
		src := []byte(f.Src) // a private copy for every call
		if watchdog {
			return c14FromAPI(run.ApplyParsed(pf, f.Name, src))
		}
		return c14Direct(pf, f.Name, src)
	}
	for _, i := range cs.Seq {
		r := apply(i)
		h.Pre = append(h.Pre, r)
		if r.Hang {
			// the call did not come back: the calls after it would only wait
			// for the same thing, each for the whole time limit
			return h
		}
	}
	if len(cs.Conc) == 0 {
		return h
	}
	h.Conc = make([][]c14Res, len(cs.Conc))
	var ready, done sync.WaitGroup
	start := make(chan struct{})
	for g := range cs.Conc {
		h.Conc[g] = make([]c14Res, len(cs.Conc[g]))
		ready.Add(1)
		done.Add(1)
		go func(g int) {
			defer done.Done()
			names := make([]string, len(cs.Conc[g]))
			srcs := make([][]byte, len(cs.Conc[g]))
			for j, i := range cs.Conc[g] {
				names[j], srcs[j] = cs.Files[i].Name, []byte(cs.Files[i].Src)
			}
			ready.Done()
			<-start
			for j := range srcs {
				h.Conc[g][j] = c14Direct(pf, names[j], srcs[j])
			}
		}(g)
	}
	ready.Wait()
	close(start) // the barrier: all goroutines are released together
	done.Wait()
	for _, i := range cs.Seq {
		h.Post = append(h.Post, apply(i))
	}
	return h
}

// TestC14Child performs one history in a process of its own (see
// c14SpawnChild). It is not a check by itself.
func TestC14Child(t *testing.T) {
	in, out := os.Getenv("VERIF_C14_CHILD_IN"), os.Getenv("VERIF_C14_CHILD_OUT")
	if in == "" || out == "" {
		t.Skip("helper of TestC14")
	}
	b, err := os.ReadFile(in)
	if err != nil {
		t.Fatal(err)
	}
	var cs c14Case
	if err := json.Unmarshal(b, &cs); err != nil {
		t.Fatal(err)
	}
	h := c14RunHistory(&cs, false)
	ob, err := json.Marshal(h)
	if err != nil {
		t.Fatal(err)
	}
	if err := os.WriteFile(out, ob, 0o644); err != nil {
		t.Fatal(err)
	}
}

var c14ChildTimeout = 120 * time.Second

// c14SpawnChild runs the history in a child process of this test binary and
// returns its results together with everything the child printed (the race
// detector writes its reports to stderr).
func c14SpawnChild(cs *c14Case) (h *c14Hist, output string, failure string) {
	dir, cleanup := run.TempDir("c14-child-")
	defer cleanup()
	in, out := filepath.Join(dir, "case.json"), filepath.Join(dir, "hist.json")
	b, err := json.Marshal(cs)
	if err != nil {
		return nil, "", "harness: " + err.Error()
	}
	if err := os.WriteFile(in, b, 0o644); err != nil {
		return nil, "", "harness: " + err.Error()
	}
	bin := os.Getenv("VERIF_TESTBIN")
	if bin == "" {
		if bin, err = os.Executable(); err != nil {
			return nil, "", "harness: " + err.Error()
		}
	}
	cmd := exec.Command(bin, "-test.run", "^TestC14Child$", "-test.count", "1", "-test.timeout", "0")
	cmd.Dir = dir
	for _, kv := range os.Environ() {
		if strings.HasPrefix(kv, "VERIF_SHARD_OUT=") || strings.HasPrefix(kv, "VERIF_REPLAY_OUT=") || strings.HasPrefix(kv, "VERIF_REPLAY=") || strings.HasPrefix(kv, "GORACE=") {
			continue
		}
		cmd.Env = append(cmd.Env, kv)
	}
	cmd.Env = append(cmd.Env, "VERIF_C14_CHILD_IN="+in, "VERIF_C14_CHILD_OUT="+out, "GOTRACEBACK=all", "GORACE=halt_on_error=0 atexit_sleep_ms=0")
	var buf bytes.Buffer
	cmd.Stdout, cmd.Stderr = &buf, &buf
	if err := cmd.Start(); err != nil {
		return nil, "", "harness: start child: " + err.Error()
	}
	done := make(chan error, 1)
	go func() { done <- cmd.Wait() }()
	timedOut := false
	select {
	case <-done:
	case <-time.After(c14ChildTimeout):
		timedOut = true
		_ = cmd.Process.Kill()
		<-done
	}
	output = buf.String()
	if timedOut {
		return nil, output, "timeout"
	}
	hb, err := os.ReadFile(out)
	if err != nil {
		return nil, output, "died"
	}
	h = &c14Hist{}
	if err := json.Unmarshal(hb, h); err != nil {
		return nil, output, "harness: child result: " + err.Error()
	}
	return h, output, ""
}

// c14RaceReport returns the first report of the race detector in the child's
// output.
func c14RaceReport(out string) string {
	i := strings.Index(out, "WARNING: DATA RACE")
	if i < 0 {
		return ""
	}
	rep := out[i:]
	if j := strings.Index(rep, "=================="); j > 0 {
		rep = rep[:j]
	}
	return rep
}

// c14RaceSummary keeps the two access headers of a race report with the
// innermost frames of each (function names and file:line).
func c14RaceSummary(rep string) string {
	var b strings.Builder
	frames := -1
	for _, l := range strings.Split(rep, "\n") {
		t := strings.TrimSpace(l)
		switch {
		case t == "":
			continue
		case !strings.HasPrefix(l, " "): // a header line
			frames = -1
			if strings.HasPrefix(t, "WARNING") {
				b.WriteString(t + "\n")
			} else if strings.HasPrefix(t, "Read at") || strings.HasPrefix(t, "Write at") || strings.HasPrefix(t, "Previous ") || strings.HasPrefix(t, "Atomic ") {
				b.WriteString(" " + t + "\n")
				frames = 0
			}
		case frames >= 0 && frames < 6:
			// a frame is a function line followed by a location line
			if strings.HasPrefix(t, "/") {
				if j := strings.LastIndex(t, " +0x"); j > 0 {
					t = t[:j]
				}
				b.WriteString(" (" + filepath.Base(filepath.Dir(t)) + "/" + filepath.Base(t) + ")\n")
				frames++
			} else {
				b.WriteString("   " + strings.TrimPrefix(t, "github.com/uber-go/gopatch/"))
			}
		}
	}
	return b.String()
}

func (cs *c14Case) describeAPI() string {
	var b strings.Builder
	fmt.Fprintf(&b, "patch:\n%s\ninputs:", trunc(cs.Patches[0], 400))
	for i, f := range cs.Files {
		fmt.Fprintf(&b, " #%d=%s[%s, %d bytes]", i, f.Name, f.Role, len(f.Src))
	}
	fmt.Fprintf(&b, "\nsequence of Apply calls (input numbers): %v", cs.Seq)
	if len(cs.Conc) > 0 {
		fmt.Fprintf(&b, "\nconcurrent batch, one list per goroutine: %v", cs.Conc)
	}
	return b.String()
}

func evalC14API(cs *c14Case, info *c14Info) (sig, msg string) {
	if len(cs.Patches) != 1 || len(cs.Files) == 0 {
		info.Harness = "malformed case"
		return "", ""
	}
	for _, s := range append([][]int{cs.Seq}, cs.Conc...) {
		for _, i := range s {
			if i < 0 || i >= len(cs.Files) {
				info.Harness = "malformed case: index out of range"
				return "", ""
			}
		}
	}
	// What every call would give alone: a fresh Parse and a single Apply.
	want := make([]c14Res, len(cs.Files))
	for i, f := range cs.Files {
		r := run.API("p.patch", []byte(cs.Patches[0]), f.Name, []byte(f.Src))
		if r.ParseErr != "" {
			info.Unjudged = "patch rejected"
			return "", ""
		}
		if r.Failed() {
			info.Foreign = append(info.Foreign, "C08:api-crash-or-hang")
			info.Unjudged = "a single Apply on a fresh patch.File crashes or hangs"
			return "", ""
		}
		want[i] = c14FromAPI(r)
		oc := want[i].kind()
		if oc == "output" {
			if string(want[i].Out) == f.Src {
				oc = "unchanged"
			} else {
				oc = "changed"
			}
		} else if strings.HasPrefix(want[i].Err, "could not parse") {
			oc = "parse-error"
		}
		info.class("api:input-outcome:%s", oc)
		info.Outcomes = append(info.Outcomes, fmt.Sprintf("#%d %s[%s]=%s", i, f.Name, f.Role, oc))
	}

	var h *c14Hist
	if cs.Kind == "conc" {
		if !c14RaceEnabled {
			info.class("conc:race-detector-off")
		}
		var out, failure string
		h, out, failure = c14SpawnChild(cs)
		rep := c14RaceReport(out)
		switch {
		case strings.HasPrefix(failure, "harness:"):
			info.Harness = failure + "\n" + trunc(out, 1500)
			return "", ""
		case rep != "":
			if !strings.Contains(rep, "gopatch/patch.(*File).Apply") && !strings.Contains(rep, "github.com/uber-go/gopatch/internal/") {
				info.Harness = "race report that does not involve gopatch:\n" + trunc(rep, 3000)
				return "", ""
			}
			return "conc:data-race", fmt.Sprintf("the race detector reports a data race between concurrent Apply calls on one patch.File:\n%s%s", trunc(c14RaceSummary(rep), 900), cs.describeAPI())
		case failure == "timeout":
			return "conc:hang", fmt.Sprintf("the history did not finish within %v although every call returns when made alone\n%s", c14ChildTimeout, cs.describeAPI())
		case failure == "died":
			cause := "died"
			for _, l := range strings.Split(out, "\n") {
				if strings.HasPrefix(l, "fatal error: ") || strings.HasPrefix(l, "panic: ") {
					cause = l
					break
				}
			}
			return "conc:process-died", fmt.Sprintf("the process performing the history died (%s) although every call returns when made alone\n%s\n%s", cause, trunc(out, 2500), cs.describeAPI())
		}
	} else {
		h = c14RunHistory(cs, true)
	}
	if h.ParseErr != "" {
		info.Unjudged = "patch rejected"
		return "", ""
	}

	cmp := func(phase string, call string, idx int, got c14Res) (string, string) {
		w := want[idx]
		if got.same(w) {
			return "", ""
		}
		detail := ""
		if got.kind() == "output" && w.kind() == "output" {
			detail = "\nfirst difference (alone vs in the history): " + c14FirstDiff(string(w.Out), string(got.Out))
		}
		if got.Stack != "" {
			detail += "\n" + got.Stack
		}
		return fmt.Sprintf("%s:result-differs:alone-%s/history-%s", phase, w.kind(), got.kind()),
			fmt.Sprintf("%s on input #%d (%s [%s]) gives %s; a fresh Parse followed by a single Apply on the same bytes gives %s%s\n%s",
				call, idx, cs.Files[idx].Name, cs.Files[idx].Role, got, w, detail, cs.describeAPI())
	}
	if n := len(h.Pre); n > 0 && n <= len(cs.Seq) && h.Pre[n-1].Hang {
		i := cs.Seq[n-1]
		return "seq:hang", fmt.Sprintf("Apply call %d of the sequence, on input #%d (%s [%s]), did not return within %v; on a fresh patch.File the same call returns %s\n%s",
			n, i, cs.Files[i].Name, cs.Files[i].Role, run.DefaultTimeout, want[i], cs.describeAPI())
	}
	if len(h.Pre) != len(cs.Seq) {
		info.Harness = "history result has the wrong shape"
		return "", ""
	}
	for j, i := range cs.Seq {
		if s, m := cmp("seq", fmt.Sprintf("Apply call %d of the sequence", j+1), i, h.Pre[j]); s != "" {
			return s, m
		}
	}
	if len(cs.Conc) > 0 {
		if len(h.Conc) != len(cs.Conc) || len(h.Post) != len(cs.Seq) {
			info.Harness = "history result has the wrong shape"
			return "", ""
		}
		for g := range cs.Conc {
			if len(h.Conc[g]) != len(cs.Conc[g]) {
				info.Harness = "history result has the wrong shape"
				return "", ""
			}
			for j, i := range cs.Conc[g] {
				if s, m := cmp("conc", fmt.Sprintf("call %d of goroutine %d of the concurrent batch", j+1, g), i, h.Conc[g][j]); s != "" {
					return s, m
				}
			}
		}
		for j, i := range cs.Seq {
			if s, m := cmp("post", fmt.Sprintf("Apply call %d of the sequence repeated after the concurrent batch", j+1), i, h.Post[j]); s != "" {
				return s, m
			}
		}
	}

	// Shape of the history.
	distinct := map[int]bool{}
	repeated, changedCalls := false, 0
	for _, i := range cs.Seq {
		if distinct[i] {
			repeated = true
		}
		distinct[i] = true
		if want[i].kind() == "output" && string(want[i].Out) != cs.Files[i].Src {
			changedCalls++
		}
	}
	failing := 0
	for i := range distinct {
		if want[i].kind() != "output" {
			failing++
		}
	}
	if repeated {
		info.class("api:seq-repeats-an-input")
	}
	if failing > 0 {
		info.class("api:seq-has-failing-input")
	}
	info.class("api:seq-len:%d", len(cs.Seq))
	if cs.Kind == "seq" {
		info.Nontrivial = len(cs.Seq) >= 3 && len(distinct) >= 2 && repeated && changedCalls >= 1
	} else {
		cd := map[int]bool{}
		cchanged := false
		for _, s := range cs.Conc {
			for _, i := range s {
				cd[i] = true
				if want[i].kind() == "output" && string(want[i].Out) != cs.Files[i].Src {
					cchanged = true
				}
			}
		}
		info.Nontrivial = len(cs.Conc) >= 2 && len(cd) >= 2 && cchanged
		g := len(cs.Conc)
		switch {
		case g <= 3:
			info.class("conc:G:2-3")
		case g <= 8:
			info.class("conc:G:4-8")
		default:
			info.class("conc:G:9-16")
		}
		info.class("conc:distinct-inputs:%d", min(len(cd), 4))
	}
	return "", ""
}

// ---------------------------------------------------------------------------

func evalC14(cs *c14Case) (sig, msg string, info c14Info) {
	info.class("kind:%s", cs.Kind)
	for _, l := range cs.Changes {
		if i := strings.Index(l, ":"); i > 0 {
			l = l[:i]
		}
		info.class("change:%s", l)
	}
	info.class("changes:%d", len(cs.Changes))
	for _, f := range cs.Files {
		r := f.Role
		if i := strings.Index(r, ":"); i > 0 {
			r = r[:i]
		}
		info.class("role:%s", r)
	}
	hasDots, hasMeta, hasImport := false, false, false
	for _, p := range cs.Patches {
		for _, l := range strings.Split(p, "\n") {
			switch {
			case strings.HasPrefix(l, "var "):
				hasMeta = true
			case len(l) > 1 && strings.Contains(l[1:], "...") && !strings.HasPrefix(l, "#"):
				hasDots = true
			}
			if len(l) > 1 && strings.HasPrefix(strings.TrimSpace(l[1:]), "import ") && strings.ContainsAny(l[:1], "+- ") {
				hasImport = true
			}
		}
	}
	if hasMeta {
		info.class("patch:metavariables")
	}
	if hasDots {
		info.class("patch:elision")
	}
	if hasImport {
		info.class("patch:imports")
	}
	switch cs.Kind {
	case "cli":
		sig, msg = evalC14CLI(cs, &info)
	case "many":
		sig, msg = evalC14Many(cs, &info)
	case "seq", "conc":
		sig, msg = evalC14API(cs, &info)
	default:
		info.Harness = "unknown kind " + cs.Kind
	}
	// The driver shows the last 1500 bytes of a message; keep the beginning.
	return sig, trunc(msg, 1400), info
}

func c14Hash(cs *c14Case) uint64 {
	b, _ := json.Marshal(cs)
	return evid.Hash(string(b))
}

func c14Record(c *evid.Collector, cs *c14Case, sig string, info *c14Info) {
	classes := info.Classes
	if info.Unjudged != "" {
		classes = append(classes, "unjudged:"+strings.SplitN(info.Unjudged, ":", 2)[0])
	}
	nontriv := info.Nontrivial && info.Unjudged == "" && info.Harness == ""
	if nontriv {
		classes = append(classes, "nontrivial", "nontrivial:"+cs.Kind)
	}
	c.Case(c14Hash(cs), nontriv, classes...)
	for _, f := range info.Foreign {
		c.Foreign(f)
	}
	if dir := os.Getenv("VERIF_DUMP_FOREIGN"); dir != "" && len(info.Foreign) > 0 {
		b, _ := json.MarshalIndent(map[string]any{"foreign": info.Foreign, "unjudged": info.Unjudged, "case": cs}, "", " ")
		_ = os.WriteFile(filepath.Join(dir, fmt.Sprintf("foreign-C14-%x.json", c14Hash(cs))), b, 0o644)
	}
	if nontriv && sig == "" && c.WantSample() {
		s := map[string]any{"kind": cs.Kind, "changes": cs.Changes, "files": info.Outcomes}
		for i, p := range cs.Patches {
			s[fmt.Sprintf("patch%d", i)] = trunc(p, 500)
		}
		if cs.Kind == "cli" {
			s["args"], s["args2"], s["mode"] = cs.Args, cs.Args2, cs.Mode
		} else {
			s["seq"], s["conc"] = cs.Seq, cs.Conc
		}
		c.Sample(s)
	}
}

func TestC14(t *testing.T) {
	c := coll("C14")
	// Eight to sixteen race-instrumented shard processes and their children
	// share the machine: a slow call must not be mistaken for a hang.
	run.DefaultTimeout = 60 * time.Second
	if !c14RaceEnabled && os.Getenv("VERIF_C14_ALLOW_NORACE") == "" {
		c.Inconclusive("the property tests were built without -race: concurrent Apply calls cannot be judged")
	}
	checkN(t, func(rt *rapid.T) {
		t0 := time.Now()
		cs := c14DrawCase(rt)
		t1 := time.Now()
		sig, msg, info := evalC14(cs)
		c.ClassN("cost-ms:generate", int(t1.Sub(t0).Milliseconds()))
		c.ClassN("cost-ms:evaluate:"+cs.Kind, int(time.Since(t1).Milliseconds()))
		if info.Harness != "" {
			rt.Fatalf("harness problem (not a verdict about gopatch): %s", info.Harness)
		}
		c14Record(c, cs, sig, &info)
		if sig != "" {
			violate(rt, "C14", sig, msg, cs)
		}
	})
}

func TestReplayC14(t *testing.T) {
	var cs c14Case
	if !loadReplay(t, "C14", &cs) {
		return
	}
	run.DefaultTimeout = 60 * time.Second
	// A race shows itself only under some schedules: try the case a few times.
	tries := 1
	if cs.Kind == "conc" {
		tries = 10
	}
	for i := 0; i < tries; i++ {
		sig, msg, info := evalC14(&cs)
		t.Logf("try %d: sig=%q unjudged=%q harness=%q foreign=%v outcomes=%v", i+1, sig, info.Unjudged, info.Harness, info.Foreign, info.Outcomes)
		if sig != "" {
			violate(t, "C14", sig, msg, &cs)
			return
		}
	}
}

// TestC14Specials pins what the hand-written changes do (development aid and
// guard against a silently useless generator).
func TestC14Specials(t *testing.T) {
	for i := range c14Specials {
		sp := &c14Specials[i]
		if !c14Accepts(sp.Text) {
			t.Errorf("%s: rejected", sp.Label)
			continue
		}
		for _, pl := range sp.Plants {
			host := "package p\n\nfunc f() {\n" + pl + "\n}\n"
			r := run.API("p.patch", []byte(sp.Text), "h.go", []byte(host))
			if r.Failed() {
				t.Errorf("%s on %q: crash", sp.Label, pl)
			}
			t.Logf("%s on %q: err=%q changed=%v", sp.Label, pl, r.ApplyErr, r.ApplyErr == "" && string(r.Out) != host)
		}
	}
}
