package props

import (
	"fmt"
	"go/ast"
	"go/format"
	"go/parser"
	"go/scanner"
	"go/token"
	"sort"
	"strings"
	"testing"

	"github.com/uber-go/gopatch/verif/evid"
	"github.com/uber-go/gopatch/verif/gen"
	"github.com/uber-go/gopatch/verif/ref"
	"github.com/uber-go/gopatch/verif/run"
	"pgregory.net/rapid"
)

// C17 — comments in untouched declarations survive; none are invented or
// duplicated.

type c17Case struct {
	Spec  ref.Spec `json:"spec"`
	Patch string   `json:"patch"`
	File  string   `json:"file"` // host with injected comments, gofmt-stable
}

// c17Inject adds comments carrying unique tokens at drawn places of src.
func c17Inject(rt *rapid.T, src []byte) []byte {
	fset := token.NewFileSet()
	tf := fset.AddFile("h.go", -1, len(src))
	var s scanner.Scanner
	s.Init(tf, src, func(token.Position, string) {}, scanner.ScanComments)
	type tk struct {
		off, end int
		tok      token.Token
		lit      string
	}
	var toks []tk
	for {
		pos, tok, lit := s.Scan()
		if tok == token.EOF {
			break
		}
		off := tf.Offset(pos)
		l := len(lit)
		if lit == "" {
			l = len(tok.String())
		}
		if tok == token.SEMICOLON && lit == "\n" {
			l = 0
		}
		toks = append(toks, tk{off, off + l, tok, lit})
	}
	type ins struct {
		at   int
		text string
	}
	var inserts []ins
	n := 0
	next := func(kind string) string {
		n++
		return fmt.Sprintf("c17_%d_%s", n, kind)
	}
	// candidate places
	seenPackage := false
	depth := 0 // brace depth
	for i, t := range toks {
		switch t.tok {
		case token.PACKAGE:
			seenPackage = true
		case token.LBRACE:
			depth++
		case token.RBRACE:
			depth--
		}
		if !seenPackage {
			continue
		}
		// end-of-line comment after an implicit semicolon (end of a statement / declaration line)
		if t.tok == token.SEMICOLON && t.lit == "\n" && i > 0 {
			switch rapid.IntRange(0, 11).Draw(rt, fmt.Sprintf("eol%d", i)) {
			case 0:
				inserts = append(inserts, ins{t.off, " // " + next("eol")})
			case 1:
				// free-standing comment line after this line
				inserts = append(inserts, ins{t.off, "\n\n// " + next("free") + "\n"})
			case 2:
				if depth == 0 {
					// doc comment / directive above the next top-level declaration
					if rapid.Bool().Draw(rt, fmt.Sprintf("dir%d", i)) {
						inserts = append(inserts, ins{t.off, "\n\n// " + next("doc") + " documents what follows.\n// Second line " + next("doc") + "."})
					} else {
						inserts = append(inserts, ins{t.off, "\n\n//go:generate echo " + next("directive")})
					}
				}
			}
		}
		// block comment inside an expression / argument list
		if (t.tok == token.COMMA || t.tok == token.LPAREN) && rapid.IntRange(0, 14).Draw(rt, fmt.Sprintf("blk%d", i)) == 0 {
			inserts = append(inserts, ins{t.end, " /* " + next("block") + " */ "})
		}
	}
	// header comment and package comment
	if rapid.Bool().Draw(rt, "header") {
		inserts = append(inserts, ins{0, "// " + next("header") + " is a file header.\n\n"})
	}
	sort.SliceStable(inserts, func(i, j int) bool { return inserts[i].at < inserts[j].at })
	var out []byte
	last := 0
	for _, in := range inserts {
		out = append(out, src[last:in.at]...)
		out = append(out, in.text...)
		last = in.at
	}
	out = append(out, src[last:]...)
	return out
}

type c17Zones struct {
	Header []string   // comments before the package keyword (incl. package doc)
	Decl   [][]string // per non-import top-level declaration: doc, inner and trailing comments
	Gap    [][]string // Gap[i]: free-standing comments between declaration i-1 (or the import section / package clause) and declaration i; Gap[len] after the last
	All    []string
}

func normComment(t string) string { return strings.Join(strings.Fields(t), " ") }

func c17Analyse(src []byte) (*c17Zones, *ast.File, error) {
	fset := token.NewFileSet()
	f, err := parser.ParseFile(fset, "f.go", src, parser.ParseComments|parser.SkipObjectResolution)
	if err != nil {
		return nil, nil, err
	}
	z := &c17Zones{}
	var decls []ast.Decl
	for _, d := range f.Decls {
		if gd, ok := d.(*ast.GenDecl); ok && gd.Tok == token.IMPORT {
			continue
		}
		decls = append(decls, d)
	}
	z.Decl = make([][]string, len(decls))
	z.Gap = make([][]string, len(decls)+1)
	line := func(p token.Pos) int { return fset.PositionFor(p, false).Line }
	docOf := func(d ast.Decl) *ast.CommentGroup {
		switch x := d.(type) {
		case *ast.FuncDecl:
			return x.Doc
		case *ast.GenDecl:
			return x.Doc
		}
		return nil
	}
	for _, cg := range f.Comments {
		for _, c := range cg.List {
			txt := normComment(c.Text)
			if txt == "//" || txt == "/**/" || txt == "/* */" {
				continue // empty comments carry nothing
			}
			z.All = append(z.All, txt)
			switch {
			case c.End() <= f.Package:
				z.Header = append(z.Header, txt)
				continue
			}
			placed := false
			for i, d := range decls {
				doc := docOf(d)
				start := d.Pos()
				if doc != nil {
					start = doc.Pos()
				}
				switch {
				case c.Pos() >= start && c.End() <= d.End():
					z.Decl[i] = append(z.Decl[i], txt)
					placed = true
				case c.Pos() >= d.End() && line(c.Pos()) == line(d.End()):
					z.Decl[i] = append(z.Decl[i], txt) // trailing comment on the declaration's last line
					placed = true
				case c.End() <= start:
					z.Gap[i] = append(z.Gap[i], txt)
					placed = true
				}
				if placed {
					break
				}
			}
			if !placed {
				z.Gap[len(decls)] = append(z.Gap[len(decls)], txt)
			}
		}
	}
	return z, f, nil
}

func evalC17(cs *c17Case) (sig, msg string, nontrivial bool, judged bool) {
	hostTree, err := parseTree([]byte(cs.File))
	if err != nil {
		return "", "", false, false
	}
	r := run.API("p.patch", []byte(cs.Patch), "f.go", []byte(cs.File))
	if !r.OK() || string(r.Out) == cs.File {
		return "", "", false, false
	}
	actual, err := parseTree(r.Out)
	if err != nil {
		return "", "", false, false
	}
	zin, _, err := c17Analyse([]byte(cs.File))
	if err != nil {
		return "", "", false, false
	}
	zout, _, err := c17Analyse(r.Out)
	if err != nil {
		return "", "", false, false
	}
	judged = true
	show := func() string {
		return fmt.Sprintf("patch:\n%s\n--- input ---\n%s\n--- output ---\n%s", cs.Patch, trunc(cs.File, 2500), trunc(string(r.Out), 2500))
	}
	// (1) nothing invented, nothing duplicated
	count := map[string]int{}
	for _, c := range zin.All {
		count[c]++
	}
	for _, c := range zout.All {
		count[c]--
		if count[c] < 0 {
			return "comment-invented-or-duplicated", fmt.Sprintf("comment %q occurs more often in the output than in the input\n%s", c, show()), false, judged
		}
	}
	// (2) untouched declarations keep their comments, in order
	// A declaration in which nothing was rewritten is one whose code is the
	// same before and after (decided on gopatch's own output, so that
	// patches with several changes can be judged without a model).
	hd := ref.StripImports(hostTree).Field("Decls")
	ed := ref.StripImports(actual).Field("Decls")
	if len(hd.Kids) != len(zin.Decl) || len(ed.Kids) != len(zout.Decl) {
		return "", "", false, judged
	}
	// Declarations correspond in order: input declaration i is untouched if
	// an output declaration with exactly the same code follows the partner of
	// the previous untouched one (exact comparison: a declaration that only
	// gained redundant parentheses was rewritten nevertheless). Declarations
	// that a change removes, adds or turns into another kind simply have no
	// partner.
	partner := make([]int, len(hd.Kids)) // -1: rewritten / removed
	next := 0
	for i := range hd.Kids {
		partner[i] = -1
		for j := next; j < len(ed.Kids); j++ {
			if ref.Equal(hd.Kids[i], ed.Kids[j], ref.Exact) {
				partner[i] = j
				next = j + 1
				break
			}
		}
	}
	untouched := func(i int) bool { return i >= 0 && i < len(partner) && partner[i] >= 0 }
	// A protected zone keeps its comments, in order. Comments of rewritten
	// declarations may be printed into a neighbouring zone (the property
	// does not say where they go), so the zone's output may hold more; a
	// comment that leaves a protected zone is caught here, a duplicate by
	// rule (1).
	eq := func(in, out []string) bool {
		j := 0
		for _, c := range in {
			for j < len(out) && out[j] != c {
				j++
			}
			if j == len(out) {
				return false
			}
			j++
		}
		return true
	}
	if !eq(zin.Header, zout.Header) {
		return "header-comments-changed", fmt.Sprintf("file header / package comments changed:\n  before: %q\n  after:  %q\n%s", zin.Header, zout.Header, show()), false, judged
	}
	for i := range partner {
		if !untouched(i) {
			// neighbours commented on both sides?
			if untouched(i-1) && untouched(i+1) && len(zin.Decl[i-1]) > 0 && len(zin.Decl[i+1]) > 0 {
				nontrivial = true
			}
			continue
		}
		if j := partner[i]; !eq(zin.Decl[i], zout.Decl[j]) {
			return "untouched-declaration-comments-changed", fmt.Sprintf("the comments of top-level declaration #%d (#%d of the output), in which nothing was rewritten, changed:\n  before: %q\n  after:  %q\n%s", i, j, zin.Decl[i], zout.Decl[j], show()), nontrivial, judged
		}
	}
	// (3) free-standing comments between two untouched declarations that are
	// neighbours before and after (and before the first / after the last
	// declaration when those are untouched)
	for i := 0; i <= len(partner); i++ {
		var gi, gj int
		switch {
		case i == 0:
			if len(partner) == 0 || partner[0] != 0 {
				continue
			}
			gi, gj = 0, 0
		case i == len(partner):
			if partner[i-1] != len(ed.Kids)-1 {
				continue
			}
			gi, gj = i, len(ed.Kids)
		default:
			if !untouched(i-1) || !untouched(i) || partner[i] != partner[i-1]+1 {
				continue
			}
			gi, gj = i, partner[i]
		}
		if !eq(zin.Gap[gi], zout.Gap[gj]) {
			return "free-standing-comments-changed", fmt.Sprintf("free-standing comments between untouched declarations #%d and #%d changed:\n  before: %q\n  after:  %q\n%s", i-1, i, zin.Gap[gi], zout.Gap[gj], show()), nontrivial, judged
		}
	}
	return "", "", nontrivial, judged
}

// Changes that rewrite the keyword, the parentheses or the grouping of value
// and type declarations wherever they occur.
var c17Extra = []string{
	"@@\nvar n identifier\nvar v expression\n@@\n-const n = v\n+var n = v\n",
	"@@\nvar n identifier\nvar v expression\n@@\n-var n = v\n+var n, _ = v, 0\n",
	"@@\nvar n identifier\nvar v expression\n@@\n-const (\n-\tn = v\n-)\n+var (\n+\tn = v\n+)\n",
	"@@\nvar n identifier\nvar v expression\n@@\n-var (\n-\tn = v\n-)\n+var n = v\n",
	"@@\nvar n identifier\nvar t expression\n@@\n-type n t\n+type (\n+\tn t\n+)\n",
	"@@\nvar n, m identifier\nvar v, w expression\n@@\n-const (\n-\tn = v\n-\tm = w\n-)\n+var (\n+\tn = v\n+\tm = w\n+)\n",
	"@@\nvar f identifier\n@@\n-func f() {\n+func f(_ int) {\n \t...\n }\n",
	"@@\nvar x expression\n@@\n-return x\n+return (x)\n",
	// a top-level declaration is replaced by one of another kind, or removed
	"@@\nvar f identifier\nvar v expression\n@@\n-func f() string { return v }\n+const f = v\n",
	"@@\nvar f identifier\n@@\n-func f() {\n-\t...\n-}\n+var f = func() {\n+\t...\n+}\n",
	"@@\nvar n identifier\nvar v expression\n@@\n-var n = v\n+func n() any { return v }\n",
	"@@\nvar n identifier\nvar v expression\n@@\n-const n = v\n+func n() any { return v }\n",
	"@@\nvar n identifier\nvar t expression\n@@\n-type n t\n+var n t\n",
	"@@\nvar n identifier\nvar v expression\n@@\n-var n = v\n",
	"@@\nvar n identifier\nvar v expression\n@@\n-const n = v\n",
	"@@\nvar f identifier\n@@\n-func f() {\n-\t...\n-}\n",
	"@@\nvar n identifier\nvar t expression\n@@\n-type n t\n",
}

var c17Opts = modelOpts{
	Mine:         gen.MineOpts{MaxHoles: 2, MaxDots: 2},
	MaxHostLines: 250,
	MinPlants:    0, MaxPlants: 3,
	MinMutants: 0, MaxMutants: 1,
	AllMinusThenPlus: true,
}

// c17Runs builds a file in which an untouched, commented function sits
// between two runs of declarations that one change turns into declarations of
// another kind (or removes): the alignment of the old and the new declaration
// list has many non-matching neighbours to get through.
func c17Runs(rt *rapid.T) *c17Case {
	var b strings.Builder
	b.WriteString("// Package runs is a C17 subject. c17_hdr\npackage runs\n\n")
	n := 0
	tok := func() string { n++; return fmt.Sprintf("c17_r%d", n) }
	pad := func(k int, name string) {
		for i := 0; i < k; i++ {
			fmt.Fprintf(&b, "// %s%d is untouched. %s\nfunc %s%d() int {\n\treturn %d // %s\n}\n\n", name, i, tok(), name, i, i, tok())
		}
	}
	run := func(k int, name string) {
		for i := 0; i < k; i++ {
			switch rapid.IntRange(0, 3).Draw(rt, fmt.Sprintf("%s%dkind", name, i)) {
			case 0:
				fmt.Fprintf(&b, "var %s%d = compute(%d)\n\n", name, i, i)
			case 1:
				fmt.Fprintf(&b, "// %s%d doc. %s\nvar %s%d = compute(%d)\n\n", name, i, tok(), name, i, i)
			case 2:
				fmt.Fprintf(&b, "var %s%d = compute(%d) // %s\n\n", name, i, i, tok())
			default:
				fmt.Fprintf(&b, "const %s%d = %d\n\n", name, i, i)
			}
		}
	}
	// big: more than 256 top-level declarations and long runs of rewritten
	// ones, where the declaration alignment works under a budget
	big := rapid.IntRange(0, 7).Draw(rt, "big") == 0
	maxPad, maxRun := 3, 7
	if big {
		maxPad, maxRun = 60, 170
	}
	// generated source: a //line directive in front of everything, so that
	// positions mean lines the file does not have (small or large numbers)
	lineDir := rapid.IntRange(0, 3).Draw(rt, "lineDirective") == 0
	if lineDir {
		fmt.Fprintf(&b, "//line runs.y:%d\n\n", rapid.SampledFrom([]int{1, 2, 9000}).Draw(rt, "lineDirectiveN"))
	}
	padHead := rapid.IntRange(0, maxPad).Draw(rt, "padHead")
	if lineDir && padHead == 0 {
		padHead = 1
	}
	pad(padHead, "head")
	run(rapid.IntRange(0, maxRun).Draw(rt, "runBefore"), "before")
	// a function directly above keep whose last statement an earlier change
	// makes longer and behind which a later change appends a statement
	appendAfterLong := rapid.IntRange(0, 5).Draw(rt, "appendAfterLong") == 0
	if appendAfterLong {
		b.WriteString("func setup() {\n\tprepare()\n\tstate = load()\n}\n\n")
	}
	tight := !appendAfterLong && rapid.IntRange(0, 2).Draw(rt, "tightKeep") == 0
	if tight {
		// the rewritten declaration stands directly above keep, and keep has
		// a comment behind its opening brace
		s := b.String()
		b.Reset()
		b.WriteString(strings.TrimSuffix(s, "\n"))
		fmt.Fprintf(&b, "var tightbefore = compute(99) // %s\nfunc keep(x bool) { // %s\n\n\tif x {\n\t\t// deep inside keep %s\n\t\ty() // %s\n\t}\n\t// %s\n}\n\n", tok(), tok(), tok(), tok(), tok())
	} else {
		fmt.Fprintf(&b, "// keep is untouched. %s\nfunc keep(x bool) {\n\tif x {\n\t\t// deep inside keep %s\n\t\ty() // %s\n\t}\n\t// %s\n}\n\n", tok(), tok(), tok(), tok())
	}
	if rapid.Bool().Draw(rt, "second") {
		fmt.Fprintf(&b, "type keepT struct {\n\tA int // %s\n\t// %s\n\tB string\n}\n\n", tok(), tok())
	}
	run(rapid.IntRange(0, maxRun).Draw(rt, "runAfter"), "after")
	pad(rapid.IntRange(0, maxPad).Draw(rt, "padTail"), "tail")
	patch := rapid.SampledFrom([]string{
		"@@\nvar n identifier\nvar v expression\n@@\n-var n = v\n+func n() any { return v }\n",
		"@@\nvar n identifier\nvar v expression\n@@\n-var n = v\n+const n = v\n",
		"@@\nvar n identifier\nvar v expression\n@@\n-var n = v\n",
		"@@\nvar n identifier\nvar v expression\n@@\n-var n = v\n+type n struct{ V int }\n",
	}).Draw(rt, "runPatch")
	if rapid.IntRange(0, 3).Draw(rt, "longStep") == 0 {
		// two changes on the same declaration: the first makes it much longer
		patch = "@@\nvar n identifier\nvar v expression\n@@\n-var n = v\n+var n = aVeryLongIdentifierNameThatGoesOnAndOnAndOnAndOnAndOn\n\n" +
			"@@\nvar n identifier\n@@\n-var n = aVeryLongIdentifierNameThatGoesOnAndOnAndOnAndOnAndOn\n+func n() any { return 1 }\n"
	}
	if rapid.IntRange(0, 5).Draw(rt, "longOperand") == 0 {
		// the same inside an expression: an operand becomes much longer,
		// then something else
		patch = "@@\n@@\n-compute\n+aVeryLongIdentifierNameThatGoesOnAndOnAndOnAndOnAndOnAndOnAndOnAndOn\n\n" +
			"@@\n@@\n-aVeryLongIdentifierNameThatGoesOnAndOnAndOnAndOnAndOnAndOnAndOnAndOn\n+recompute()\n"
	}
	if appendAfterLong {
		patch = "@@\n@@\n-load()\n+loadTheDefaultConfigurationFromDiskOrFromTheEnvironmentIfSet\n\n" +
			"@@\n@@\n func setup() {\n   ...\n+  done()\n }\n\n" + patch
	}
	if rapid.Bool().Draw(rt, "alsoConst") {
		patch += "\n@@\nvar n identifier\nvar v expression\n@@\n-const n = v\n+func n() any { return v }\n"
	}
	return &c17Case{Patch: patch, File: b.String()}
}

// c17PlusComments: the '+' side of the patch itself carries Go comments (a
// documented field, a trailing remark, a commented statement). They are part
// of the patch's layout, not of the code it describes; none of them may show
// up in the output ("none invented") - whether or not the file has comments
// of its own.
func c17PlusComments(rt *rapid.T) *c17Case {
	cm := func(s string) string {
		if rapid.IntRange(0, 2).Draw(rt, "hostComments"+s) == 0 {
			return ""
		}
		return s
	}
	file := "package plain\n\n" + cm("// Thing is a thing. c17_p1\n") + "type Thing struct {\n\tID int" + cm(" // c17_p2") + "\n}\n\n" +
		cm("// New makes one. c17_p3\n") + "func New() *Thing {\n\tt := &Thing{}\n\tsetup(t)" + cm(" // c17_p4") + "\n\treturn t\n}\n\nvar limit = 10\n"
	patch := rapid.SampledFrom([]string{
		"@@\nvar T identifier\n@@\n type T struct {\n   ...\n+  // Name is the name of the thing.\n+  Name string // set by New\n }\n",
		"@@\nvar T identifier\n@@\n type T struct {\n+  /* block remark */ Name string\n   ...\n }\n",
		"@@\nvar x expression\n@@\n-setup(x)\n+// prepare first\n+prepare(x) // then set up\n+setup(x)\n",
		"@@\nvar n identifier\nvar v expression\n@@\n-var n = v\n+// n is documented now.\n+var n = v // was undocumented\n",
		"@@\nvar n identifier\nvar v expression\n@@\n-var n = v\n+const (\n+  // grouped\n+  n = v // trailing\n+)\n",
	}).Draw(rt, "plusCommentPatch")
	return &c17Case{Patch: patch, File: file}
}

func TestC17(t *testing.T) {
	c := coll("C17")
	checkN(t, func(rt *rapid.T) {
		fam := rapid.IntRange(0, 18).Draw(rt, "family")
		if fam >= 16 {
			c17iRun(rt)
			return
		}
		if fam <= 2 {
			cs := c17Runs(rt)
			if fam == 2 {
				cs = c17PlusComments(rt)
			}
			fm, err := format.Source([]byte(cs.File))
			if err != nil {
				c.Note("generator:runs-host-unparseable")
				return
			}
			if fm2, err := format.Source(fm); err != nil || string(fm2) != string(fm) {
				c.Note("generator:gofmt-not-idempotent")
				return
			}
			cs.File = string(fm)
			sig, msg, nontriv, judged := evalC17(cs)
			if !judged {
				c.Note("not-judged")
				return
			}
			famName := "family:declaration-runs"
			if fam == 2 {
				famName = "family:comments-in-plus-lines"
				nontriv = true
			}
			c.Case(evid.Hash(cs.Patch, cs.File), nontriv, famName, fmt.Sprintf("nontrivial:%v", nontriv))
			if sig != "" {
				violate(rt, "C17", sig, msg, cs)
			}
			return
		}
		mcs, why := genModelCase(rt, c17Opts)
		if mcs == nil {
			c.Note("generator:" + why)
			return
		}
		inj := c17Inject(rt, []byte(mcs.Host))
		fm, err := format.Source(inj)
		if err != nil {
			c.Note("generator:injected-host-unparseable")
			return
		}
		if fm2, err := format.Source(fm); err != nil || string(fm2) != string(fm) {
			c.Note("generator:gofmt-not-idempotent")
			return
		}
		cs := &c17Case{Spec: mcs.Spec, Patch: mcs.Patch, File: string(fm)}
		// Further changes in the same patch file (comment bookkeeping is
		// carried from one change to the next).
		nMore := rapid.SampledFrom([]int{0, 0, 1, 1, 2}).Draw(rt, "moreChanges")
		for k := 0; k < nMore; k++ {
			switch rapid.IntRange(0, 3).Draw(rt, fmt.Sprintf("moreKind%d", k)) {
			case 0:
				fu := c09FollowUps(gen.Marker+"0", fmt.Sprintf("nxq%d", k))
				cs.Patch += "\n" + fu[rapid.IntRange(0, len(fu)-1).Draw(rt, fmt.Sprintf("fu%d", k))]
			case 1:
				cs.Patch += "\n" + rapid.SampledFrom(c17Extra).Draw(rt, fmt.Sprintf("extra%d", k))
			default:
				o := c17Opts
				o.FixedHost = mcs.HostName
				o.MaxPlants, o.MaxMutants = 0, 0
				if other, _ := genModelCase(rt, o); other != nil {
					if rapid.Bool().Draw(rt, fmt.Sprintf("before%d", k)) {
						cs.Patch = other.Patch + "\n" + cs.Patch
					} else {
						cs.Patch += "\n" + other.Patch
					}
				}
			}
		}
		sig, msg, nontriv, judged := evalC17(cs)
		if !judged {
			c.Note("not-judged")
			return
		}
		zin, _, _ := c17Analyse([]byte(cs.File))
		ncom := 0
		if zin != nil {
			ncom = len(zin.All)
		}
		c.Case(evid.Hash(cs.Patch, cs.File), nontriv, fmt.Sprintf("comments:%d", min(ncom/10*10, 100)), fmt.Sprintf("nontrivial:%v", nontriv))
		if nontriv && c.WantSample() {
			c.Sample(map[string]any{"patch": cs.Patch, "file": trunc(cs.File, 1500), "comments": ncom})
		}
		if sig != "" {
			violate(rt, "C17", sig, msg, cs)
		}
	})
}

func TestReplayC17(t *testing.T) {
	var probe struct {
		Mode string `json:"mode"`
	}
	if !loadReplay(t, "C17", &probe) {
		return
	}
	if probe.Mode == "import-section" {
		var ic c17iCase
		loadReplay(t, "C17", &ic)
		found, _ := evalC17i(&ic)
		for _, f := range found {
			violate(t, "C17", f.Sig, f.Msg, &ic)
		}
		return
	}
	var cs c17Case
	loadReplay(t, "C17", &cs)
	sig, msg, _, _ := evalC17(&cs)
	if sig != "" {
		violate(t, "C17", sig, msg, &cs)
	}
}
