//go:build linux && amd64

package props

import (
	"encoding/json"
	"fmt"
	"os"
	"os/signal"
	"runtime"
	"strings"
	"syscall"
	"unsafe"
)

// A small ptrace-based fault injector, used by the C16 check.
//
// strace's "-e inject=...:when=k" counts per thread, and a Go program's main
// goroutine moves between threads while it is being traced (every traced
// call is slow enough for the scheduler to hand the processor over), so "the
// k-th write" is not a stable address of a fault point. This tracer counts
// the calls that touch a given directory tree (by path argument or by the
// path behind a file-descriptor argument) across all threads, in the order
// in which they are entered, and tampers with exactly the k-th: it either
// makes it fail with a given errno without executing it, or kills the
// process on entry. It logs every matching call.
//
// The test binary re-executes itself as the tracer: when VERIF_C16_TRACER
// holds a configuration, init() runs the command line under the tracer and
// exits with the tracee's status (or dies from the same signal).

const c16TracerEnv = "VERIF_C16_TRACER"

type c16TraceCfg struct {
	Prefix string   `json:"prefix,omitempty"` // calls touching this directory or anything below it match
	Exact  string   `json:"exact,omitempty"`  // calls touching exactly this path match
	Names  []string `json:"names,omitempty"`  // only these system calls are counted (default: all known)
	K      int      `json:"k"`                // 1-based ordinal of the matching call to tamper with; 0 = observe only
	Errno  int      `json:"errno,omitempty"`  // fail the call with this errno ...
	Kill   bool     `json:"kill,omitempty"`   // ... or SIGKILL the process on entry
	Log    string   `json:"log"`
}

type c16Call struct {
	N        int      `json:"n"` // ordinal among matching calls
	Tid      int      `json:"tid"`
	Name     string   `json:"name"`
	Paths    []string `json:"paths"`
	Side     string   `json:"side"` // read | write | ""
	Tampered string   `json:"tampered,omitempty"`
	Ret      int64    `json:"ret"`
}

type c16TraceLog struct {
	Calls   []c16Call `json:"calls"`
	Threads int       `json:"threads"`
	Error   string    `json:"error,omitempty"`
}

// argument kinds
const (
	c16ArgFd = iota + 1
	c16ArgPath
	c16ArgDirfdPath // dirfd in this argument, path in the next
)

type c16SysDesc struct {
	name string
	args map[int]int // argument index -> kind
	side string
}

var c16SysTable = map[uint64]c16SysDesc{
	0:   {"read", map[int]int{0: c16ArgFd}, "read"},
	1:   {"write", map[int]int{0: c16ArgFd}, "write"},
	2:   {"open", map[int]int{0: c16ArgPath}, "open"},
	3:   {"close", map[int]int{0: c16ArgFd}, "close"},
	17:  {"pread64", map[int]int{0: c16ArgFd}, "read"},
	18:  {"pwrite64", map[int]int{0: c16ArgFd}, "write"},
	19:  {"readv", map[int]int{0: c16ArgFd}, "read"},
	20:  {"writev", map[int]int{0: c16ArgFd}, "write"},
	40:  {"sendfile", map[int]int{0: c16ArgFd, 1: c16ArgFd}, "write"},
	74:  {"fsync", map[int]int{0: c16ArgFd}, "write"},
	75:  {"fdatasync", map[int]int{0: c16ArgFd}, "write"},
	76:  {"truncate", map[int]int{0: c16ArgPath}, "write"},
	77:  {"ftruncate", map[int]int{0: c16ArgFd}, "write"},
	82:  {"rename", map[int]int{0: c16ArgPath, 1: c16ArgPath}, "write"},
	85:  {"creat", map[int]int{0: c16ArgPath}, "write"},
	86:  {"link", map[int]int{0: c16ArgPath, 1: c16ArgPath}, "write"},
	87:  {"unlink", map[int]int{0: c16ArgPath}, "write"},
	88:  {"symlink", map[int]int{1: c16ArgPath}, "write"},
	90:  {"chmod", map[int]int{0: c16ArgPath}, "write"},
	91:  {"fchmod", map[int]int{0: c16ArgFd}, "write"},
	92:  {"chown", map[int]int{0: c16ArgPath}, "write"},
	93:  {"fchown", map[int]int{0: c16ArgFd}, "write"},
	94:  {"lchown", map[int]int{0: c16ArgPath}, "write"},
	257: {"openat", map[int]int{0: c16ArgDirfdPath}, "open"},
	260: {"fchownat", map[int]int{0: c16ArgDirfdPath}, "write"},
	263: {"unlinkat", map[int]int{0: c16ArgDirfdPath}, "write"},
	264: {"renameat", map[int]int{0: c16ArgDirfdPath, 2: c16ArgDirfdPath}, "write"},
	265: {"linkat", map[int]int{0: c16ArgDirfdPath, 2: c16ArgDirfdPath}, "write"},
	266: {"symlinkat", map[int]int{1: c16ArgDirfdPath}, "write"},
	268: {"fchmodat", map[int]int{0: c16ArgDirfdPath}, "write"},
	285: {"fallocate", map[int]int{0: c16ArgFd}, "write"},
	316: {"renameat2", map[int]int{0: c16ArgDirfdPath, 2: c16ArgDirfdPath}, "write"},
	326: {"copy_file_range", map[int]int{0: c16ArgFd, 2: c16ArgFd}, "write"},
	452: {"fchmodat2", map[int]int{0: c16ArgDirfdPath}, "write"},
}

func init() {
	raw := os.Getenv(c16TracerEnv)
	if raw == "" || len(os.Args) < 2 {
		return
	}
	os.Unsetenv(c16TracerEnv)
	var cfg c16TraceCfg
	if err := json.Unmarshal([]byte(raw), &cfg); err != nil {
		fmt.Fprintln(os.Stderr, "c16 tracer: bad configuration:", err)
		os.Exit(125)
	}
	os.Exit(c16TracerMain(&cfg, os.Args[1:]))
}

func c16SysArg(r *syscall.PtraceRegs, i int) uint64 {
	switch i {
	case 0:
		return r.Rdi
	case 1:
		return r.Rsi
	case 2:
		return r.Rdx
	case 3:
		return r.R10
	case 4:
		return r.R8
	}
	return r.R9
}

func c16PeekString(tid int, addr uint64) string {
	var out []byte
	buf := make([]byte, 8)
	for len(out) < 4096 {
		n, err := syscall.PtracePeekData(tid, uintptr(addr)+uintptr(len(out)), buf)
		if err != nil || n == 0 {
			break
		}
		for _, b := range buf[:n] {
			if b == 0 {
				return string(out)
			}
			out = append(out, b)
		}
	}
	return string(out)
}

func c16FdPath(pid int, fd int64) string {
	if fd < 0 {
		return ""
	}
	p, err := os.Readlink(fmt.Sprintf("/proc/%d/fd/%d", pid, fd))
	if err != nil {
		return ""
	}
	return strings.TrimSuffix(p, " (deleted)")
}

func c16TracerMain(cfg *c16TraceCfg, argv []string) int {
	runtime.LockOSThread()
	var lg c16TraceLog
	writeLog := func() {
		b, _ := json.Marshal(&lg)
		_ = os.WriteFile(cfg.Log, b, 0o644)
	}
	fail := func(format string, a ...any) int {
		lg.Error = fmt.Sprintf(format, a...)
		writeLog()
		fmt.Fprintln(os.Stderr, "c16 tracer:", lg.Error)
		return 125
	}
	counted := map[string]bool{}
	for _, n := range cfg.Names {
		counted[n] = true
	}
	matches := func(p string) bool {
		if p == "" {
			return false
		}
		if cfg.Exact != "" && p == cfg.Exact {
			return true
		}
		return cfg.Prefix != "" && (p == cfg.Prefix || strings.HasPrefix(p, cfg.Prefix+"/"))
	}

	pid, err := syscall.ForkExec(argv[0], argv, &syscall.ProcAttr{
		Env:   os.Environ(),
		Files: []uintptr{0, 1, 2},
		Sys:   &syscall.SysProcAttr{Ptrace: true},
	})
	if err != nil {
		return fail("start %s: %v", argv[0], err)
	}
	var ws syscall.WaitStatus
	if _, err := syscall.Wait4(pid, &ws, 0, nil); err != nil || !ws.Stopped() {
		return fail("initial wait: %v %v", err, ws)
	}
	const opts = syscall.PTRACE_O_TRACESYSGOOD | syscall.PTRACE_O_TRACECLONE | syscall.PTRACE_O_TRACEFORK | syscall.PTRACE_O_TRACEVFORK | 0x100000 /* PTRACE_O_EXITKILL */
	if err := syscall.PtraceSetOptions(pid, opts); err != nil {
		_ = syscall.Kill(pid, syscall.SIGKILL)
		return fail("ptrace options: %v", err)
	}
	if err := syscall.PtraceSyscall(pid, 0); err != nil {
		return fail("ptrace resume: %v", err)
	}

	type threadState struct {
		inSyscall bool
		started   bool
		pending   *c16Call // matching call being executed
		inject    bool
		side      string
	}
	threads := map[int]*threadState{pid: {started: true}}
	fdSide := map[int64]string{}
	matched := 0
	exitCode, exitSig := 125, syscall.Signal(0)
	for {
		tid, err := syscall.Wait4(-1, &ws, syscall.WALL, nil)
		if err == syscall.EINTR {
			continue
		}
		if err != nil {
			break // ECHILD: everything is gone
		}
		st := threads[tid]
		if st == nil {
			st = &threadState{}
			threads[tid] = st
			lg.Threads++
		}
		switch {
		case ws.Exited():
			if tid == pid {
				exitCode = ws.ExitStatus()
			}
			delete(threads, tid)
			continue
		case ws.Signaled():
			if tid == pid {
				exitSig = ws.Signal()
			}
			delete(threads, tid)
			continue
		case !ws.Stopped():
			continue
		}
		sig := ws.StopSignal()
		deliver := 0
		switch {
		case sig == syscall.SIGTRAP|0x80:
			switch c16SyscallOp(tid) {
			case 1:
				st.inSyscall = true
			case 2:
				st.inSyscall = false
			default: // kernel without PTRACE_GET_SYSCALL_INFO: entry and exit alternate
				st.inSyscall = !st.inSyscall
			}
			var regs syscall.PtraceRegs
			if err := syscall.PtraceGetRegs(tid, &regs); err != nil {
				break
			}
			if st.inSyscall {
				d, ok := c16SysTable[regs.Orig_rax]
				if !ok {
					break
				}
				var paths []string
				fd0 := int64(-1)
				for i := 0; i < 6; i++ {
					switch d.args[i] {
					case c16ArgFd:
						fd := int64(int32(c16SysArg(&regs, i)))
						if fd0 < 0 {
							fd0 = fd
						}
						if p := c16FdPath(pid, fd); matches(p) {
							paths = append(paths, p)
						}
					case c16ArgPath:
						if p := c16PeekString(tid, c16SysArg(&regs, i)); matches(p) {
							paths = append(paths, p)
						}
					case c16ArgDirfdPath:
						p := c16PeekString(tid, c16SysArg(&regs, i+1))
						if p != "" && !strings.HasPrefix(p, "/") {
							dfd := int64(int32(c16SysArg(&regs, i)))
							base := ""
							if dfd == -100 { // AT_FDCWD
								base, _ = os.Readlink(fmt.Sprintf("/proc/%d/cwd", pid))
							} else {
								base = c16FdPath(pid, dfd)
							}
							if base != "" {
								p = base + "/" + p
							}
						}
						if matches(p) {
							paths = append(paths, p)
						}
					}
				}
				if len(paths) == 0 || (len(counted) > 0 && !counted[d.name]) {
					break
				}
				side := d.side
				switch d.side {
				case "open":
					flags := c16SysArg(&regs, 2)
					if d.name == "open" {
						flags = c16SysArg(&regs, 1)
					}
					side = "read"
					if flags&(syscall.O_WRONLY|syscall.O_RDWR|syscall.O_CREAT|syscall.O_TRUNC|syscall.O_APPEND) != 0 {
						side = "write"
					}
				case "close":
					side = fdSide[fd0]
					delete(fdSide, fd0)
				}
				matched++
				call := &c16Call{N: matched, Tid: tid, Name: d.name, Paths: paths, Side: side}
				st.pending = call
				st.side = side
				if cfg.K == matched {
					if cfg.Kill {
						call.Tampered = "kill"
						lg.Calls = append(lg.Calls, *call)
						st.pending = nil
						_ = syscall.Kill(pid, syscall.SIGKILL)
						continue // the tracee never runs again
					}
					call.Tampered = "error"
					st.inject = true
					regs.Orig_rax = ^uint64(0)
					if err := syscall.PtraceSetRegs(tid, &regs); err != nil {
						return fail("set registers: %v", err)
					}
				}
			} else if st.pending != nil {
				if st.inject {
					regs.Rax = uint64(-int64(cfg.Errno))
					if err := syscall.PtraceSetRegs(tid, &regs); err != nil {
						return fail("set registers: %v", err)
					}
					st.inject = false
				}
				st.pending.Ret = int64(regs.Rax)
				if (st.pending.Name == "openat" || st.pending.Name == "open" || st.pending.Name == "creat") && st.pending.Ret >= 0 {
					fdSide[st.pending.Ret] = st.side
				}
				lg.Calls = append(lg.Calls, *st.pending)
				st.pending = nil
			}
		case sig == syscall.SIGTRAP && ws.TrapCause() > 0:
			// PTRACE_EVENT_CLONE and friends: the new thread is attached automatically.
		case sig == syscall.SIGSTOP && !st.started:
			st.started = true // initial stop of an auto-attached thread
		default:
			st.started = true
			deliver = int(sig)
		}
		st.started = true
		_ = syscall.PtraceSyscall(tid, deliver)
	}
	writeLog()
	if exitSig != 0 {
		signal.Reset(exitSig)
		_ = syscall.Kill(os.Getpid(), exitSig)
		select {}
	}
	return exitCode
}

// c16SyscallOp asks the kernel whether a syscall-stop is an entry (1) or an
// exit (2); 0 = unknown.
func c16SyscallOp(tid int) int {
	var buf [96]byte
	const ptraceGetSyscallInfo = 0x420e
	n, _, errno := syscall.Syscall6(syscall.SYS_PTRACE, ptraceGetSyscallInfo, uintptr(tid), uintptr(len(buf)), uintptr(unsafe.Pointer(&buf[0])), 0, 0)
	if errno != 0 || n == 0 {
		return 0
	}
	return int(buf[0])
}

func c16TracerAvailable() string { return "" }
