package props

import (
	"fmt"
	"os"
	"path/filepath"
	"regexp"
	"strings"
	"testing"
	"time"

	"github.com/uber-go/gopatch/verif/corpus"
	"github.com/uber-go/gopatch/verif/evid"
	"github.com/uber-go/gopatch/verif/gen"
	"github.com/uber-go/gopatch/verif/run"
	"pgregory.net/rapid"
)

// C08 — no input makes gopatch crash or hang.

type c08Case struct {
	Mode   string `json:"mode"`
	Patch  []byte `json:"patch"`
	Target string `json:"target"`
	CLI    bool   `json:"cli"`
	// CLIName: the name of the target file in the CLI run ("" = t.go). A
	// name of 249 bytes leaves no room for the name of a temporary file
	// next to it: the rewrite cannot be written, which has to be reported.
	CLIName string `json:"cli_name,omitempty"`
	// ListText: the patch is named in a -P list with this text ("%P" stands
	// for the patch file): blank lines, lines of blanks, odd separators.
	ListText string `json:"list_text,omitempty"`
	// TargetIndex selects the target of a native-fuzzing crasher (the fuzz
	// target takes an index, not the text).
	TargetIndex int `json:"target_index,omitempty"`
}

// c08Stage classifies how deep into gopatch the patch got, from the outcome.
func c08Stage(r *run.APIResult) string {
	switch {
	case r.Hang:
		return "hang"
	case r.Panic != "":
		return "panic"
	case r.ParseErr != "":
		e := r.ParseErr
		switch {
		case strings.Contains(e, `expected "@@"`), strings.Contains(e, "at least one change is required"),
			strings.Contains(e, "invalid name"), strings.Contains(e, "patch cannot be empty"):
			return "rejected:section"
		case strings.Contains(e, `expected "var"`), strings.Contains(e, "expected an identifier"),
			strings.Contains(e, `expected ";"`), strings.Contains(e, ".meta:"):
			return "rejected:meta"
		case strings.HasPrefix(e, "compile:"):
			return "rejected:compile"
		default:
			return "rejected:pgo"
		}
	case r.ApplyErr != "":
		if strings.Contains(r.ApplyErr, "could not parse") {
			return "compiled:target-unparseable"
		}
		return "compiled:apply-error"
	default:
		return "compiled:applied"
	}
}

var hangTimeout = 20 * time.Second

// evalC08 is the oracle: a pure function of the case. sig == "" means the
// property held.
func evalC08(cs *c08Case) (sig, msg, stage string) {
	r := run.API("p.patch", cs.Patch, "t.go", []byte(cs.Target))
	stage = c08Stage(r)
	switch {
	case r.Hang:
		return "hang:" + r.PanicIn, fmt.Sprintf("patch.%s did not return within %v on a %d-byte patch", r.PanicIn, hangTimeout, len(cs.Patch)), stage
	case r.Panic != "":
		site, pm := r.PanicSite()
		return "panic:" + site + ":" + panicClass(pm), fmt.Sprintf("panic in %s: %s", r.PanicIn, trunc(r.Panic, 3000)), stage
	}
	if r.Dur > 5*time.Second {
		return "slow", fmt.Sprintf("took %v on a %d-byte patch and %d-byte target", r.Dur, len(cs.Patch), len(cs.Target)), stage
	}
	if cs.CLI {
		if s, m := c08CLI(cs); s != "" {
			return s, m, stage
		}
	}
	return "", "", stage
}

// c08Lists are texts of -P lists around one patch file.
var c08Lists = []string{
	"%P\n", "%P", "\n%P\n\n", "%P\n   \n", "%P\n\t", " \t \n%P\n", "   \n", "\t", "%P\r\n", "%P\n%P\n", "# remark\n%P\n", "%P # remark\n", " %P\n", "%P \n",
	"\x00\n%P\n", "%P\n" + "\n", "\n\n\n", "", "./%P\n", "%P\n./\n", "%P\n.\n", "%P\n\xff\xfe\n", strings.Repeat(" ", 5000) + "\n%P\n",
}

var numRe = regexp.MustCompile(`0x[0-9a-f]+|\d+`)

// panicClass reduces a panic message to a stable class.
func panicClass(m string) string {
	m = numRe.ReplaceAllString(m, "N")
	if len(m) > 80 {
		m = m[:80]
	}
	return m
}

// c08ConfirmHang re-runs the case through the CLI in a fresh process and
// reports whether it really does not terminate (60 s limit, normal run time
// is a few milliseconds).
func c08ConfirmHang(cs *c08Case) bool {
	dir, cleanup := run.TempDir("c08h-")
	defer cleanup()
	if os.WriteFile(filepath.Join(dir, "p.patch"), cs.Patch, 0o644) != nil || os.WriteFile(filepath.Join(dir, "t.go"), []byte(cs.Target), 0o644) != nil {
		return false
	}
	r := run.CLI(dir, nil, "-p", "p.patch", "--print-only", "t.go")
	return r.TimedOut
}

func c08CLI(cs *c08Case) (sig, msg string) {
	dir, cleanup := run.TempDir("c08-")
	defer cleanup()
	if err := os.WriteFile(filepath.Join(dir, "p.patch"), cs.Patch, 0o644); err != nil {
		return "", ""
	}
	name := "t.go"
	if cs.CLIName != "" {
		name = cs.CLIName
	}
	if err := os.WriteFile(filepath.Join(dir, name), []byte(cs.Target), 0o644); err != nil {
		return "", ""
	}
	args := []string{"-p", "p.patch", name}
	if cs.ListText != "" {
		if err := os.WriteFile(filepath.Join(dir, "list.txt"), []byte(strings.ReplaceAll(cs.ListText, "%P", "p.patch")), 0o644); err != nil {
			return "", ""
		}
		args = []string{"-P", "list.txt", name}
	}
	r := run.CLI(dir, nil, args...)
	switch {
	case r.StartErr != "":
		return "", "" // harness problem, not judged
	case r.TimedOut:
		return "cli-hang", fmt.Sprintf("gopatch did not exit within %v", run.CLITimeout)
	case r.Crashed():
		return "cli-crash", fmt.Sprintf("gopatch crashed (exit %d signal %q): %s", r.Exit, r.Signal, trunc(string(r.Stderr), 2000))
	case r.Exit != 0 && r.Exit != 1:
		return "cli-exit", fmt.Sprintf("exit status %d, expected 0 or 1; stderr: %s", r.Exit, trunc(string(r.Stderr), 500))
	case r.Exit == 1 && len(strings.TrimSpace(string(r.Stderr))) == 0:
		return "cli-silent-failure", "exit status 1 with no diagnostic on stderr"
	}
	return "", ""
}

var c08Hostile = []string{
	"func (", "func", "func(", "foo(func(", "import (", "{}", "{ }", "{\n}", "foo()", "{ ... }", "package p", "import \"a\"", "package p\n\nimport \"a\"", "...", "... ", "...)", "(...", "@@", "@ x @", "@", "#", "-", "+", "\x00", "\xff\xfe",
	"package", "import", "var", "type", "const", "type x struct {", "{", "}", "(", ")", "[", "]", "[]", "x...", "...x", "case", "default:",
	"switch {", "select {", "for ... {", "for {", "if", "else", "go", "defer", "return ...", "chan", "<-", "map[", "interface {", "struct {",
	"`", "\"", "'", "/*", "//", "*/", "\r", "\t", "var x identifier", "var x expression", "var x, x identifier", "var _ identifier",
	"//line f.go:1", "/*line f.go:1:1*/", "var x /*line f.go:3:1*/ expression", "//line f.go:1\nvar x expression", "var x expression //line f.go:9", "/*line :1*/ var /*line :2*/ x /*line :3*/ expression", "//go:build x", "//line", "/*line*/",
	"=>", "func f[", "func (...) f(", "func f(...) (...) {", ":=", "x: ", "goto", "fallthrough", "0x", "1e", "'\\", strings.Repeat("(", 200), strings.Repeat("x.", 300) + "x",
}

// c08Shapes is a target that holds most statement and declaration forms twice:
// once with every optional part present and once with it absent, over the
// vocabulary the repository's patches and the templates use.
const c08Shapes = `package foo

import (
	"errors"
	"fmt"
)

type T struct {
	A int
	T
	b string ` + "`tag`" + `
}

type I interface {
	f()
	fmt.Stringer
}

type G[K comparable, V any] map[K]V

type Alias = T

var x, y = 1, 2

var z int

const (
	c0 = iota
	c1
)

func f() {}

func g(int, ...string) (n int, err error) { return }

func (t T) m() T { return t }

func (*T) p(a, b int) {}

func gen[K comparable](k K) K { return k }

func body(a []int, ch chan int, m map[string]int) (int, error) {
	foo()
	foo(x)
	foo(x, y)
	bar(a...)
	x := foo(1)
	x, y = y, x
	var v T
	var w = T{}
	var u, _ = 1, 2
	_ = T{A: 1}
	_ = []T{{}, {A: 2}}
	_ = a[:]
	_ = a[1:]
	_ = a[:2]
	_ = a[1:2:3]
	_ = m["k"]
	_ = gen[int](1)
	_ = func() {}
	_ = func(x int) int { return x }
	_, _ = v, w
	if x {
	}
	if x := y; x != nil {
		foo(x)
	} else if y {
	} else {
		bar()
	}
	for {
		break
	}
	for x < y {
		continue
	}
	for i := 0; i < 3; i++ {
	}
	for range ch {
	}
	for k := range m {
		_ = k
	}
	for k, v := range m {
		_, _ = k, v
	}
L:
	for {
		break L
	}
	switch {
	default:
	}
	switch x {
	case 1, 2:
		fallthrough
	case 3:
	}
	switch v := any(x).(type) {
	case int:
		_ = v
	}
	switch any(x).(type) {
	}
	select {
	case <-ch:
	case v := <-ch:
		_ = v
	case ch <- 1:
	default:
	}
	go f()
	go func() {}()
	defer f()
	defer foo(x)
	x++
	ch <- 1
	{
	}
	goto L
	if err := errors.New("e"); err != nil {
		return 0, fmt.Errorf("w: %w", err)
	}
	return
}
`

func c08Targets() []string {
	var ts []string
	for _, f := range corpus.RepoInputs() {
		ts = append(ts, string(f.Src))
	}
	ts = append(ts, c08Shapes, "package a\n", "package a\n\nfunc f() {\n\tfoo(1, 2)\n\tx := bar(y)\n\tif x != nil {\n\t\treturn\n\t}\n\tfor i := range x {\n\t\t_ = i\n\t}\n}\n\ntype T struct {\n\tA int\n}\n\nvar v = 1\n")
	return ts
}

// matchingTarget returns a target for the i-th repo patch: the inputs of the
// same testdata archive when there are any.
func c08TargetFor(patchName string, all []string) string {
	dir := filepath.Dir(patchName)
	for _, f := range corpus.RepoInputs() {
		if filepath.Dir(f.Name) == dir {
			return string(f.Src)
		}
	}
	return all[len(all)-1]
}

var tokRe = regexp.MustCompile("(?s)\\.\\.\\.|@@|:=|[A-Za-z_][A-Za-z_0-9]*|[0-9]+|\"[^\"\\n]*\"|`[^`]*`|\\n|[ \\t]+|.")

func c08Tokens(s string) []string { return tokRe.FindAllString(s, -1) }

var c08ModelOpts = modelOpts{
	Mine:         gen.MineOpts{MaxHoles: 2, MaxDots: 2},
	MaxHostLines: 200,
	MinPlants:    0, MaxPlants: 2,
	MinMutants: 0, MaxMutants: 1,
	AddImport: 4,
}

func TestC08(t *testing.T) {
	c := coll("C08")
	run.DefaultTimeout = hangTimeout
	targets := c08Targets()
	patches := corpus.RepoPatches()

	record := func(cs *c08Case, stage string) {
		h := evid.Hash(string(cs.Patch), cs.Target)
		nontriv := strings.HasPrefix(stage, "compiled") || stage == "rejected:pgo" || stage == "rejected:compile" || stage == "panic" || stage == "hang"
		c.Case(h, nontriv, "mode:"+cs.Mode, "stage:"+stage)
		if c.WantSample() {
			c.Sample(map[string]any{"mode": cs.Mode, "patch": trunc(string(cs.Patch), 300), "target_bytes": len(cs.Target), "stage": stage})
		}
	}
	fail := func(ft fataler, cs *c08Case, sig, msg string) {
		if strings.HasPrefix(sig, "hang") {
			// The watchdog can fire on a heavily loaded machine. Confirm in
			// a fresh process with a generous limit before believing it.
			if !c08ConfirmHang(cs) {
				c.Note("watchdog-fired-but-not-confirmed")
				return
			}
			// A hung goroutine keeps spinning: do not let rapid shrink in
			// this process. Record, flush, stop.
			if !isKnown("C08", sig) {
				p := saveReplay("C08", msg, cs)
				c.Violation(msg, p)
				if out := os.Getenv("VERIF_SHARD_OUT"); out != "" {
					_ = c.Flush(out)
				}
				fmt.Printf("VIOLATION C08 [%s]: %s\n", sig, msg)
				os.Exit(1)
			}
			c.Known("hang")
			if out := os.Getenv("VERIF_SHARD_OUT"); out != "" {
				_ = c.Flush(out)
			}
			fmt.Println("known hang encountered; stopping this shard early")
			os.Exit(0)
		}
		violate(ft, "C08", sig, msg, cs)
	}

	// Part 1 (enumeration): every prefix of every repository patch, against
	// the input that belongs to it. Sharded by patch index.
	k, n := shard()
	t.Run("prefixes", func(t *testing.T) {
		for i, p := range patches {
			if i%n != k {
				continue
			}
			tgt := c08TargetFor(p.Name, targets)
			for cut := 0; cut <= len(p.Src); cut++ {
				cs := &c08Case{Mode: "prefix", Patch: p.Src[:cut], Target: tgt}
				sig, msg, stage := evalC08(cs)
				record(cs, stage)
				if sig != "" {
					fail(t, cs, sig, msg)
				}
			}
		}
	})
	// Files that hold next to nothing (a package clause, comments, one import)
	// crossed with changes that match the one name there is and do every
	// thing to imports that a change can do.
	t.Run("tiny-files", func(t *testing.T) {
		if k != 0 {
			return
		}
		tiny := []string{"package a\n", "// doc\npackage a // trailing\n", "package a\n\nimport \"os\"\n", "package a\n\n// only a comment\n", "package a\n// directly below\n", "package a\n\nimport (\n\t_ \"embed\"\n)\n", "package a", "package a\n\nvar a = 1\n"}
		heads := []string{"", "+import \"fmt\"\n\n", "+import f \"fmt\"\n\n", "-import \"os\"\n\n", "-import \"os\"\n+import \"io\"\n\n", " import \"os\"\n\n", "-package a\n+package b\n\n", "-package a\n+package b\n\n+import \"fmt\"\n\n", "+import _ \"embed\"\n+import . \"io\"\n\n"}
		bodies := []string{"-a\n+b\n", "-n\n+n\n", "-n\n+fmt.n\n", "-a\n+fmt.Sprint(a)\n", "-n\n+n.n\n"}
		for _, tg := range tiny {
			for _, h := range heads {
				for _, b := range bodies {
					cs := &c08Case{Mode: "tiny-file", Patch: []byte("@@\nvar n identifier\n@@\n" + h + b), Target: tg, CLI: len(tg)%3 == 0}
					sig, msg, stage := evalC08(cs)
					record(cs, stage)
					if sig != "" {
						fail(t, cs, sig, msg)
					}
				}
			}
		}
	})
	// Every hostile constant as a whole patch body and spliced after a valid header.
	t.Run("hostile", func(t *testing.T) {
		for i, hc := range c08Hostile {
			if i%n != k {
				continue
			}
			for _, frame := range []string{"%s", "@@\n@@\n%s", "@@\n@@\n-%s\n+x\n", "@@\n@@\n-x\n+%s\n", "@@\n%s\n@@\n-x\n+y\n", "@@\nvar x expression\n@@\n %s\n-x\n+y\n", "@ %s @\n@@\n-x\n+y\n", "@@\n@@\n {\n-%s\n }\n", "@@\n@@\n {\n+%s\n }\n", "@@\n@@\n-x\n+{\n+%s\n+}\n", "@@\n@@\n %s\n\n-x\n+y\n"} {
				cs := &c08Case{Mode: "hostile", Patch: []byte(fmt.Sprintf(frame, hc)), Target: targets[len(targets)-1], CLI: i%7 == 0}
				sig, msg, stage := evalC08(cs)
				record(cs, stage)
				if sig != "" {
					fail(t, cs, sig, msg)
				}
			}
		}
	})

	if t.Failed() {
		return // rapid refuses a *testing.T that has already failed
	}
	// Part 2 (generated).
	cliEvery := envInt("VERIF_C08_CLI_EVERY", 40)
	nGen := 0
	checkN(t, func(rt *rapid.T) {
		nGen++
		cs := &c08Case{}
		mode := rapid.IntRange(0, 9).Draw(rt, "mode")
		if mode == 5 || mode == 6 {
			// the mined multi-change mode costs ~100x the others: 1 case in 25
			if rapid.IntRange(0, 4).Draw(rt, "minedShare") != 0 {
				mode = 7
			}
		}
		if mode == 9 && rapid.IntRange(0, 3).Draw(rt, "stressShare") == 0 {
			mode = 10
		}
		if mode == 8 && rapid.IntRange(0, 3).Draw(rt, "manyDotsShare") == 0 {
			mode = 11
		}
		switch mode {
		case 11:
			// Valid patches with many elisions, among them elisions in the
			// parameter lists of nested func literals and a leading "...":
			// the pre-scanner records a dozen or more places to patch up.
			cs.Mode = "many-elisions"
			var b strings.Builder
			b.WriteString("@@\n@@\n")
			switch rapid.IntRange(0, 2).Draw(rt, "leadDots") {
			case 0:
				b.WriteString("-...\n")
			case 1:
				b.WriteString(" ...\n")
			}
			nest := func(d int) string {
				out := "func(...)"
				for i := 1; i < d; i++ {
					out = "func(..., " + out + ")"
				}
				return out
			}
			lines := rapid.IntRange(1, 6).Draw(rt, "manyLines")
			for i := 0; i < lines; i++ {
				d := rapid.IntRange(1, 6).Draw(rt, fmt.Sprintf("nestDepth%d", i))
				extra := strings.Repeat(", ...", rapid.IntRange(0, 6).Draw(rt, fmt.Sprintf("extraDots%d", i)))
				fmt.Fprintf(&b, "-a%d(%s {}%s)\n", i, nest(d), extra)
				if rapid.Bool().Draw(rt, fmt.Sprintf("plusDots%d", i)) {
					fmt.Fprintf(&b, "+b%d(%s {}%s)\n", i, nest(d), extra)
				} else {
					fmt.Fprintf(&b, "+b%d()\n", i)
				}
			}
			cs.Patch = []byte(b.String())
			cs.Target = "package a\n\nfunc h() {\n\ta0(func(x int, g func()) {}, 1, 2)\n\ta1(func() {})\n}\n"
		case 10:
			// Small inputs that are expensive for a naive algorithm: deeply
			// nested code around a site; a pattern with many elisions on a long
			// list of candidates. The run must still finish (hang oracle).
			cs.Mode = "stress"
			if rapid.IntRange(0, 2).Draw(rt, "stressImports") == 0 {
				// One path, listed k times by the change under metavariable
				// names and imported n times by the file: there are up to
				// n^k ways to pair them, and the code may occur under none.
				k := rapid.IntRange(1, 9).Draw(rt, "patchImports")
				n := rapid.IntRange(1, 9).Draw(rt, "fileImports")
				used := rapid.IntRange(0, k).Draw(rt, "usedInCode")
				var pb, fb strings.Builder
				pb.WriteString("@@\n")
				for i := 0; i < k; i++ {
					fmt.Fprintf(&pb, "var m%d identifier\n", i)
				}
				pb.WriteString("@@\n")
				pfx := rapid.SampledFrom([]string{" ", "-"}).Draw(rt, "importLine")
				for i := 0; i < k; i++ {
					fmt.Fprintf(&pb, "%simport m%d \"fmt\"\n", pfx, i)
				}
				// a last import that settles the matter late: the file does
				// not have it, or has it under a name the metavariable is
				// no longer free to take
				last := rapid.SampledFrom([]string{"", "", "absent", "conflict"}).Draw(rt, "lastImport")
				switch last {
				case "absent":
					fmt.Fprintf(&pb, "%simport \"example.com/absent\"\n", pfx)
				case "conflict":
					fmt.Fprintf(&pb, "%simport m0 \"os\"\n", pfx)
				}
				pb.WriteString("\n-nomatch(1")
				for i := 0; i < used; i++ {
					fmt.Fprintf(&pb, ", m%d.X", i)
				}
				pb.WriteString(")\n+other(1)\n")
				fb.WriteString("package p\n\nimport (\n")
				for i := 0; i < n; i++ {
					fmt.Fprintf(&fb, "\tf%d \"fmt\"\n", i)
				}
				if last == "conflict" {
					fb.WriteString("\tzz \"os\"\n")
				}
				fb.WriteString(")\n\nfunc f() {\n")
				for i := 0; i < n; i++ {
					fmt.Fprintf(&fb, "\tf%d.Println()\n", i)
				}
				if rapid.Bool().Draw(rt, "occurs") {
					fb.WriteString("\tnomatch(1")
					for i := 0; i < used; i++ {
						fmt.Fprintf(&fb, ", f%d.X", rapid.IntRange(0, n).Draw(rt, fmt.Sprintf("qual%d", i)))
					}
					fb.WriteString(")\n")
				}
				fb.WriteString("}\n")
				cs.Patch, cs.Target = []byte(pb.String()), fb.String()
				c.Class("stress:import-combinations")
			} else if rapid.Bool().Draw(rt, "stressKind") {
				n := rapid.IntRange(8, 26).Draw(rt, "depth")
				open := rapid.SampledFrom([]string{"if true {", "for {", "{", "switch {\ndefault:", "func() {"}).Draw(rt, "nest")
				cl := map[string]string{"func() {": "}()"}[open]
				if cl == "" {
					cl = "}"
				}
				var b strings.Builder
				b.WriteString("package a\n\nfunc h() {\n")
				for i := 0; i < n; i++ {
					b.WriteString(open + "\n")
				}
				b.WriteString("foo()\n")
				for i := 0; i < n; i++ {
					b.WriteString(cl + "\n")
				}
				b.WriteString("}\n")
				cs.Target = b.String()
				cs.Patch = []byte(rapid.SampledFrom([]string{"@@\n@@\n-foo()\n+bar()\n", "@@\n@@\n-foo()\n+bar()\n+baz()\n", "@@\n@@\n foo()\n+baz()\n", "@@\nvar x identifier\n@@\n-x()\n+x(1)\n"}).Draw(rt, "stressPatch"))
			} else {
				k := rapid.IntRange(3, 11).Draw(rt, "dots")
				n := rapid.IntRange(10, 40).Draw(rt, "listLen")
				elem := rapid.SampledFrom([]string{"a", "a", "x", "1"}).Draw(rt, "elem")
				last := rapid.SampledFrom([]string{"b", "a", "x"}).Draw(rt, "last")
				rep := strings.Repeat("..., "+elem+", ", k)
				meta := ""
				if elem == "x" || last == "x" {
					meta = "var x expression\n"
				}
				if elem == "x" && rapid.Bool().Draw(rt, "distinctMetavars") {
					// a different metavariable behind every elision
					rep, meta = "", "var x expression\n"
					for i := 0; i < k; i++ {
						rep += fmt.Sprintf("..., x%d, ", i)
						meta += fmt.Sprintf("var x%d expression\n", i)
					}
				}
				pat := "f(" + rep + "..., " + last + ")"
				cs.Patch = []byte("@@\n" + meta + "@@\n-" + pat + "\n+g()\n")
				args := make([]string, n)
				for i := range args {
					args[i] = rapid.SampledFrom([]string{"a", "a", "a", "a", "b", "1"}).Draw(rt, fmt.Sprintf("arg%d", i))
				}
				kind := rapid.IntRange(0, 2).Draw(rt, "listKind")
				switch kind {
				case 0:
					cs.Target = "package a\n\nfunc h() {\n\tf(" + strings.Join(args, ", ") + ")\n}\n"
				case 1:
					// the same as statements
					cs.Patch = []byte("@@\n" + meta + "@@\n-{\n" + strings.Repeat("-...\n-"+elem+"()\n", k) + "-...\n-" + last + "()\n-}\n+g()\n")
					cs.Target = "package a\n\nfunc h() {\n\t{\n\t\t" + strings.Join(args, "()\n\t\t") + "()\n\t}\n}\n"
				default:
					cs.Patch = []byte("@@\n" + meta + "@@\n-[]int{" + rep + "..., " + last + "}\n+nil\n")
					cs.Target = "package a\n\nvar v = []int{" + strings.Join(args, ", ") + "}\n"
				}
			}
		case 0:
			cs.Mode = "bytes"
			cs.Patch = rapid.SliceOfN(rapid.Byte(), 0, 200).Draw(rt, "bytes")
			cs.Target = targets[rapid.IntRange(0, len(targets)-1).Draw(rt, "target")]
		case 1:
			cs.Mode = "text"
			// Printable text biased towards patch structure.
			parts := rapid.SliceOfN(rapid.OneOf(
				rapid.SampledFrom(c08Hostile),
				rapid.SampledFrom([]string{"\n", "\n", "\n-", "\n+", "\n ", "@@\n", " ", "x", "y", "foo", "(", ")", ",", "{", "}", "..."}),
				rapid.StringMatching(`[a-z(){}\[\].,:=+\-*/ \n@#]{0,6}`),
			), 0, 30).Draw(rt, "parts")
			cs.Patch = []byte(strings.Join(parts, ""))
			cs.Target = targets[rapid.IntRange(0, len(targets)-1).Draw(rt, "target")]
		case 2, 3, 4:
			cs.Mode = "tokmut"
			p := patches[rapid.IntRange(0, len(patches)-1).Draw(rt, "patch")]
			toks := c08Tokens(string(p.Src))
			nm := rapid.IntRange(1, 3).Draw(rt, "nmut")
			for m := 0; m < nm && len(toks) > 0; m++ {
				i := rapid.IntRange(0, len(toks)-1).Draw(rt, "at")
				switch rapid.IntRange(0, 4).Draw(rt, "op") {
				case 0: // delete
					toks = append(toks[:i:i], toks[i+1:]...)
				case 1: // duplicate
					toks = append(toks[:i+1:i+1], toks[i:]...)
				case 2: // swap with another
					j := rapid.IntRange(0, len(toks)-1).Draw(rt, "with")
					toks[i], toks[j] = toks[j], toks[i]
				case 3: // replace by a hostile constant
					toks[i] = rapid.SampledFrom(c08Hostile).Draw(rt, "hc")
				case 4: // replace by another token of the same patch
					toks[i] = toks[rapid.IntRange(0, len(toks)-1).Draw(rt, "from")]
				}
			}
			cs.Patch = []byte(strings.Join(toks, ""))
			cs.Target = c08TargetFor(p.Name, targets)
			if rapid.IntRange(0, 3).Draw(rt, "otherTarget") == 0 {
				cs.Target = targets[rapid.IntRange(0, len(targets)-1).Draw(rt, "target")]
			}
		case 5, 6:
			// Well-formed multi-change patches on real, densely commented
			// hosts: a mined change followed by changes that match what it
			// introduced, add imports, regroup declarations.
			cs.Mode = "mined-multi"
			mcs, _ := genModelCase(rt, c08ModelOpts)
			if mcs == nil {
				c.Note("generator:no-mined-case")
				return
			}
			host := []byte(mcs.Host)
			if rapid.Bool().Draw(rt, "injectComments") {
				if inj := c17Inject(rt, host); c07Parses(inj) == nil {
					host = inj
				}
			}
			cs.Target = string(host)
			patch := mcs.Patch
			n := rapid.IntRange(1, 3).Draw(rt, "moreChanges")
			for k := 0; k < n; k++ {
				switch rapid.IntRange(0, 3).Draw(rt, fmt.Sprintf("mk%d", k)) {
				case 0:
					fu := c09FollowUps(gen.Marker+"0", fmt.Sprintf("nxq%d", k))
					patch += "\n" + fu[rapid.IntRange(0, len(fu)-1).Draw(rt, fmt.Sprintf("fu%d", k))]
				case 1:
					imp := rapid.SampledFrom([]string{"+import \"context\"", "+import ctx \"context\"", " import \"fmt\"", "-import \"fmt\"\n+import \"context\"", "+import _ \"embed\""}).Draw(rt, fmt.Sprintf("imp%d", k))
					patch += fmt.Sprintf("\n@@\n@@\n%s\n\n-%s0\n+imq%d\n", imp, gen.Marker, k)
				case 2:
					patch += "\n" + rapid.SampledFrom(c17Extra).Draw(rt, fmt.Sprintf("extra%d", k))
				default:
					patch += "\n" + c09FailingChange(gen.Marker+"0")
				}
			}
			cs.Patch = []byte(patch)
		default:
			cs.Mode = "illtyped"
			it := gen.DrawIllTyped(rt)
			cs.Patch = []byte(it.Patch)
			cs.Target = it.Target
			c.Class("shape:" + it.Shape)
		}
		cs.CLI = cliEvery > 0 && nGen%cliEvery == 0
		if cs.CLI && (nGen/cliEvery)%3 == 1 {
			cs.ListText = rapid.SampledFrom(c08Lists).Draw(rt, "listText")
			c.Class("cli:patch-named-in-a-list")
		}
		if cs.CLI && (nGen/cliEvery)%3 == 0 {
			cs.CLIName = strings.Repeat("n", 246) + ".go"
			c.Class("cli:target-name-of-249-bytes")
		}
		sig, msg, stage := evalC08(cs)
		record(cs, stage)
		if sig != "" {
			fail(rt, cs, sig, msg)
		}
	})
}

func TestReplayC08(t *testing.T) {
	var cs c08Case
	if !loadReplay(t, "C08", &cs) {
		return
	}
	run.DefaultTimeout = hangTimeout
	if cs.Mode == "fuzz" && cs.Target == "" {
		ts := c08Targets()
		cs.Target = ts[cs.TargetIndex%len(ts)]
	}
	sig, msg, stage := evalC08(&cs)
	t.Logf("stage=%s sig=%q", stage, sig)
	if sig != "" {
		violate(t, "C08", sig, msg, &cs)
	}
}

// FuzzC08 is the coverage-guided campaign (native go fuzzing) run by the
// thorough tier. The oracle is the same as in TestC08; a campaign cannot be
// pinned to a seed, the saved failing input is the reproducible unit.
func FuzzC08(f *testing.F) {
	run.DefaultTimeout = hangTimeout
	targets := c08Targets()
	for i, p := range corpus.RepoPatches() {
		f.Add(p.Src, uint8(i))
	}
	for i, hc := range c08Hostile {
		f.Add([]byte("@@\n@@\n-"+hc+"\n+x\n"), uint8(i))
		f.Add([]byte("@@\nvar x expression\n@@\n-foo(x)\n+"+hc+"\n"), uint8(i))
	}
	f.Fuzz(func(t *testing.T, patch []byte, ti uint8) {
		if len(patch) > 4096 {
			return
		}
		cs := &c08Case{Mode: "fuzz", Patch: patch, Target: targets[int(ti)%len(targets)]}
		sig, msg, _ := evalC08(cs)
		if sig == "" || isKnown("C08", sig) {
			return
		}
		if strings.HasPrefix(sig, "hang") && !c08ConfirmHang(cs) {
			return
		}
		t.Fatalf("VIOLATION C08 [%s]: %s", sig, trunc(msg, 3000))
	})
}
