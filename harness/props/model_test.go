package props

import (
	"bytes"
	"encoding/json"
	"fmt"
	"go/ast"
	"go/parser"
	"go/token"
	"os"
	"path/filepath"
	"regexp"
	"sort"
	"strings"
	"sync"
	"testing"

	"github.com/uber-go/gopatch/verif/corpus"
	"github.com/uber-go/gopatch/verif/evid"
	"github.com/uber-go/gopatch/verif/gen"
	"github.com/uber-go/gopatch/verif/ref"
	"github.com/uber-go/gopatch/verif/run"
	"pgregory.net/rapid"
)

// Shared machinery of the engine-level checks (C01–C05, C11): generate a
// (patch, file) pair by mining a pattern from real code and planting
// instances and near-misses, run gopatch, compute the reference result and
// classify any discrepancy by the property it contradicts.

type plantInfo struct {
	Tag  string `json:"tag"`
	Ctx  string `json:"ctx"`
	Text string `json:"text"`
}

type modelCase struct {
	Spec     ref.Spec    `json:"spec"`
	Patch    string      `json:"patch"`
	Host     string      `json:"host"`
	Origin   string      `json:"origin"`
	HostName string      `json:"host_name,omitempty"`
	Plants   []plantInfo `json:"plants,omitempty"`
	Edits    []string    `json:"edits,omitempty"`
}

// verdict is the outcome of evaluating a model case.
type verdict struct {
	Note   string
	Status string   // ok | trivial | rejected | unjudged:<why> | foreign:<prop> | discrepancy
	Class  string   // discrepancy class
	Sub    string   // narrower cause, part of the signature when set
	Props  []string // properties whose statement the discrepancy contradicts
	Msg    string

	Kind             ref.PKind
	Sites            int
	SiteSlots        []string
	Optional         int
	Inadmissible     int
	NearMisses       int // planted mutants the reference confirms are not instances
	Holes            int
	RepeatedHoles    int
	MinusDots        int
	PlusDots         int
	Elided           int
	DistinctBindings int
	BoundThenFailed  int
	NestedChoice     int
}

func (v *verdict) contradicts(prop string) bool {
	for _, p := range v.Props {
		if p == prop {
			return true
		}
	}
	return false
}

type hostInfo struct {
	name  string
	src   []byte
	fset  *token.FileSet
	file  *ast.File
	roots map[ref.PKind][]gen.Root
	ip    *gen.InsertionPoints
	lines int
}

var (
	hostsOnce sync.Once
	hostsAll  []*hostInfo
)

// extraHosts are small hand-written files with constructs that are rare in
// the standard-library sample (generics, labels, select, type switches,
// struct tags, channel directions, variadics, aliases, grouped declarations).
var extraHosts = []string{
	`package exotic

import (
	"fmt"
	str "strings"
)

type Pair[K comparable, V any] struct {
	Key K ` + "`json:\"key\"`" + `
	Val V ` + "`json:\"val,omitempty\"`" + `
}

type Alias = Pair[string, int]

type Doer interface {
	Do(ctx Context, args ...string) (int, error)
	Close() error
}

var (
	defaultName = "x"
	counter, limit int = 0, 10
)

const (
	A = iota
	B
	C
)

func Map[K comparable, V any](m map[K]V, f func(K, V) V) map[K]V {
	out := make(map[K]V, len(m))
	for k, v := range m {
		out[k] = f(k, v)
	}
	return out
}

func (p *Pair[K, V]) String() string {
	return fmt.Sprintf("%v=%v", p.Key, p.Val)
}

var weekdays = [...]string{"mon", "tue", "wed"}

func tableOf(n int) [3]int {
	sizes := [...]int{1, 2, n}
	return sizes
}

func worker(in <-chan int, out chan<- string, done chan struct{}) (n int, err error) {
outer:
	for {
		select {
		case v, ok := <-in:
			if !ok {
				break outer
			}
			out <- fmt.Sprint(v)
			n++
		case <-done:
			return n, nil
		default:
			continue outer
		}
	}
	defer close(out)
	go func() {
		done <- struct{}{}
	}()
	switch x := any(n).(type) {
	case int:
		n += x
	case string, []byte:
		n = len(str.TrimSpace(fmt.Sprint(x)))
	}
	if n > limit {
		goto fail
	}
	return n, nil
fail:
	return 0, fmt.Errorf("too many: %d", n)
}

type Config struct {
	Name string
	Opts []Pair[string, int]
}

// closures in statement headers, composite literals wherever they may stand
func headers(items []Config) (string, error) {
	if err := func() error {
		cfg := Config{Name: defaultName}
		p := &Config{}
		_, _ = cfg, p
		return nil
	}(); err != nil {
		return "", err
	}
	for _, c := range func() []Config { return []Config{{Name: "a"}, Config{}} }() {
		switch k := func() string { return Config{}.Name }(); k {
		case (Config{}).Name, c.Name:
			continue
		}
	}
	if (Config{}) == (Config{Name: "x"}) || len(items) > 0 && items[0].Name == (Config{}.Name) {
		return Config{}.Name, nil
	}
	for i := (Config{}).Name; i != ""; i = "" {
	}
	return "", nil
}

func variadic(prefix string, rest ...int) []int {
	xs := append([]int{1, 2}, rest...)
	ys := xs[1:len(xs):cap(xs)]
	m := map[string][]int{"a": {1}, "b": ys}
	_ = m
	f := func(a, b int) int { return a*b + a<<2 }
	return append(ys, f(len(prefix), counter))
}
`,
}

// A host without any import declaration (adding the first import shifts
// every top-level declaration).
const extraHostNoImports = `// Package plain has no imports.
package plain

var first = 1

func one() string {
	return "1"
}

type Box struct {
	V int
}

var second, third = 2, 3

func (b *Box) Get() int {
	if b == nil {
		return first
	}
	return b.V + second
}

const (
	X = iota
	Y
)

func two(a, b int) (string, error) {
	s := one()
	for i := a; i < b; i++ {
		s += one()
	}
	return s, nil
}
`

func loadHosts() []*hostInfo {
	hostsOnce.Do(func() {
		add := func(name string, src []byte) {
			fset := token.NewFileSet()
			f, err := parser.ParseFile(fset, name, src, parser.ParseComments|parser.SkipObjectResolution)
			if err != nil {
				return
			}
			h := &hostInfo{name: name, src: src, fset: fset, file: f, roots: map[ref.PKind][]gen.Root{}}
			h.lines = bytes.Count(src, []byte("\n"))
			for _, r := range gen.Roots(fset, f) {
				h.roots[r.Kind] = append(h.roots[r.Kind], r)
			}
			ip, err := gen.FindInsertionPoints(src)
			if err != nil {
				return
			}
			h.ip = ip
			hostsAll = append(hostsAll, h)
		}
		for i, s := range extraHosts {
			add(fmt.Sprintf("extra%d.go", i), []byte(s))
		}
		add("extra-noimports.go", []byte(extraHostNoImports))
		for _, f := range corpus.GoFiles() {
			add(f.Name, f.Src)
		}
		for _, f := range corpus.RepoInputs() {
			add(f.Name, f.Src)
		}
	})
	return hostsAll
}

type modelOpts struct {
	Mine                   gen.MineOpts
	MaxHostLines           int
	FixedHost              string      // draw the pattern from this host (by name) instead of a drawn one
	Kinds                  []ref.PKind // drawn uniformly
	MinPlants, MaxPlants   int
	MinMutants, MaxMutants int
	AllMinusThenPlus       bool // sometimes use the minus-block / plus-block layout
	AddImport              int  // add a "+import" line to the change in 1 of N cases (0: never)
	PkgGuard               int  // give the change a package clause in 1 of N cases (0: never): one that holds, a rename, or a near-miss of the file's package name
}

// genModelCase draws a case; nil means the drawn combination could not be
// rendered (counted by the caller via why).
func genModelCase(t *rapid.T, o modelOpts) (cs *modelCase, why string) {
	hosts := loadHosts()
	var pool []*hostInfo
	for _, h := range hosts {
		if h.lines <= o.MaxHostLines {
			pool = append(pool, h)
		}
	}
	h := pool[rapid.IntRange(0, len(pool)-1).Draw(t, "host")]
	if o.FixedHost != "" {
		for _, x := range hosts {
			if x.name == o.FixedHost {
				h = x
			}
		}
	}
	if rapid.IntRange(0, 7).Draw(t, "extraHost") == 0 {
		// the hand-written hosts carry constructs that are rare in the sample
		var extras []*hostInfo
		for _, x := range pool {
			if strings.HasPrefix(x.name, "extra") {
				extras = append(extras, x)
			}
		}
		if len(extras) > 0 {
			h = extras[rapid.IntRange(0, len(extras)-1).Draw(t, "whichExtra")]
		}
	}
	kinds := o.Kinds
	if len(kinds) == 0 {
		kinds = []ref.PKind{ref.PExpr, ref.PExpr, ref.PStmts, ref.PStmts, ref.PDecl}
	}
	kind := kinds[rapid.IntRange(0, len(kinds)-1).Draw(t, "kind")]
	roots := h.roots[kind]
	if len(roots) == 0 {
		return nil, "no-root-of-kind"
	}
	root := roots[rapid.IntRange(0, len(roots)-1).Draw(t, "root")]
	m := gen.Mine(t, h.fset, root, o.Mine)
	ro := gen.RenderOpts{}
	if o.AddImport > 0 && rapid.IntRange(0, o.AddImport-1).Draw(t, "addImport") == 0 {
		ro.ImportsPlus = []ref.Import{[]ref.Import{{Path: "context"}, {Path: "example.com/added/pkg"}, {Name: "addq", Path: "example.com/added/named"}, {Path: "fmt"}, {Name: "_", Path: "embed"}}[rapid.IntRange(0, 4).Draw(t, "whichImport")]}
		if rapid.IntRange(0, 3).Draw(t, "twoImports") == 0 {
			ro.ImportsPlus = append(ro.ImportsPlus, ref.Import{Path: "example.com/added/second"})
		}
	}
	if o.AllMinusThenPlus && rapid.IntRange(0, 3).Draw(t, "blockLayout") == 0 {
		ro.AllMinusThenPlus = true
	}
	pkgMode, hostPkg := "", h.file.Name.Name
	if o.PkgGuard > 0 && rapid.IntRange(0, o.PkgGuard-1).Draw(t, "pkgGuard") == 0 {
		pkgMode = rapid.SampledFrom([]string{"holds", "holds", "rename", "file-is-external-test", "guard-longer", "guard-is-external-test", "file-longer"}).Draw(t, "pkgMode")
		switch pkgMode {
		case "holds", "file-is-external-test", "file-longer":
			ro.PkgMinus, ro.PkgPlus = hostPkg, hostPkg
		case "rename":
			ro.PkgMinus, ro.PkgPlus = hostPkg, hostPkg+"q"
		case "guard-longer":
			ro.PkgMinus, ro.PkgPlus = hostPkg+"x", hostPkg+"x"
		case "guard-is-external-test":
			ro.PkgMinus, ro.PkgPlus = hostPkg+"_test", hostPkg+"_test"
		}
	}
	r, err := gen.Render(m, ro)
	if err != nil {
		if ro.AllMinusThenPlus {
			ro.AllMinusThenPlus = false
			r, err = gen.Render(m, ro)
		}
		if err != nil {
			return nil, "layout"
		}
	}
	cs = &modelCase{Spec: *r.Spec, Patch: r.Patch, Origin: h.name + ":" + root.Slot, Edits: m.Edits, HostName: h.name}

	// Plants.
	nInst := rapid.IntRange(o.MinPlants, o.MaxPlants).Draw(t, "nInst")
	nMut := rapid.IntRange(o.MinMutants, o.MaxMutants).Draw(t, "nMut")
	var ats []int
	var texts []string
	points := h.ip.Stmt
	if kind == ref.PDecl {
		points = h.ip.Decl
	}
	if len(points) == 0 {
		nInst, nMut = 0, 0
	}
	// insertion point closest after the start of the mined code
	anchorIdx := 0
	var atIdx []int
	{
		var pos token.Pos
		if root.Node != nil {
			pos = root.Node.Pos()
		} else if len(root.Stmts) > 0 {
			pos = root.Stmts[0].Pos()
		}
		if pos.IsValid() {
			off := h.fset.Position(pos).Offset
			for i, p := range points {
				if p <= off {
					anchorIdx = i
				}
			}
		}
	}
	for i := 0; i < nInst+nMut; i++ {
		label := fmt.Sprintf("pl%d", i)
		inst := gen.Instantiate(t, m, label)
		tag := "instance"
		if i >= nInst {
			tag = gen.Mutate(t, m, inst, label)
			if tag == "" {
				continue
			}
		}
		txt, ctx, err := gen.PlantText(t, kind, inst.Node, label)
		if err != nil || strings.TrimSpace(txt) == "" {
			continue
		}
		// the plant must parse on its own in its position class
		if !plantParses(kind, txt) {
			continue
		}
		// Half of the plants are clustered: next to the code the pattern was
		// mined from, or next to the previous plant (same or neighbouring
		// block), so that several sites and near-misses meet in one list.
		pi := rapid.IntRange(0, len(points)-1).Draw(t, label+"at")
		if rapid.Bool().Draw(t, label+"cluster") {
			anchor := anchorIdx
			if len(atIdx) > 0 && rapid.Bool().Draw(t, label+"nearPrev") {
				anchor = atIdx[len(atIdx)-1]
			}
			pi = anchor + rapid.IntRange(-1, 2).Draw(t, label+"off")
			if pi < 0 {
				pi = 0
			}
			if pi >= len(points) {
				pi = len(points) - 1
			}
		}
		atIdx = append(atIdx, pi)
		at := points[pi]
		ats = append(ats, at)
		texts = append(texts, txt)
		cs.Plants = append(cs.Plants, plantInfo{Tag: tag, Ctx: ctx, Text: txt})
	}
	host := gen.InsertAll(h.src, ats, texts)
	if pkgMode == "file-is-external-test" || pkgMode == "file-longer" {
		// the file's package name merely resembles the one in the patch
		suffix := map[string]string{"file-is-external-test": "_test", "file-longer": "z"}[pkgMode]
		re := regexp.MustCompile(`(?m)^package ` + regexp.QuoteMeta(hostPkg) + `\b`)
		loc := re.FindIndex(host)
		if loc == nil {
			return nil, "package-clause-not-found"
		}
		host = append(append(append([]byte{}, host[:loc[1]]...), suffix...), host[loc[1]:]...)
		if f, err := parser.ParseFile(token.NewFileSet(), "host.go", host, parser.PackageClauseOnly); err != nil || f.Name.Name != hostPkg+suffix {
			return nil, "package-clause-not-found"
		}
	}
	if _, err := parser.ParseFile(token.NewFileSet(), "host.go", host, parser.SkipObjectResolution); err != nil {
		return nil, "planted-host-unparseable"
	}
	cs.Host = string(host)
	return cs, ""
}

func plantParses(kind ref.PKind, txt string) bool {
	var src string
	if kind == ref.PDecl {
		src = "package p\n" + txt
	} else {
		src = "package p\nfunc _() {\n" + txt + "\n}"
	}
	_, err := parser.ParseFile(token.NewFileSet(), "p.go", src, parser.SkipObjectResolution)
	return err == nil
}

func parseTree(src []byte) (*ref.Tree, error) {
	f, err := parser.ParseFile(token.NewFileSet(), "x.go", src, parser.SkipObjectResolution)
	if err != nil {
		return nil, err
	}
	return ref.FromNode(f), nil
}

func importMultiset(t *ref.Tree) []string {
	var out []string
	for _, im := range ref.ImportsOf(t) {
		out = append(out, im.Name+" "+im.Path)
	}
	sort.Strings(out)
	return out
}

// evalModel runs gopatch and the reference on a case.
func evalModel(cs *modelCase) *verdict {
	v := &verdict{}
	p, err := ref.ParseSpec(&cs.Spec)
	if err != nil {
		v.Status = "unjudged:reference-cannot-parse-pattern"
		v.Msg = err.Error()
		return v
	}
	v.Kind = p.Kind
	hostTree, err := parseTree([]byte(cs.Host))
	if err != nil {
		v.Status = "unjudged:host-unparseable"
		return v
	}
	res := p.Apply(hostTree)
	v.Sites = len(res.Sites)
	v.Optional = res.Optional
	v.Inadmissible = res.Inadmissible
	v.BoundThenFailed = res.BoundThenFailed
	v.NestedChoice = res.NestedChoice
	v.Holes = len(cs.Spec.Holes)
	for _, n := range p.HoleOccurrences(p.Minus) {
		if n > 1 {
			v.RepeatedHoles++
		}
	}
	v.MinusDots = len(ref.DotsIDs(p.Minus))
	v.PlusDots = len(ref.DotsIDs(p.Plus))
	bindSeen := map[string]bool{}
	for _, s := range res.Sites {
		v.SiteSlots = append(v.SiteSlots, s.Slot)
		v.Elided += s.Env.ElidedCount()
		var parts []string
		for name, b := range s.Env.Bindings() {
			parts = append(parts, name+"="+ref.Brief(b))
		}
		sort.Strings(parts)
		bindSeen[strings.Join(parts, ";")] = true
	}
	v.DistinctBindings = len(bindSeen)
	// Near-misses: planted mutants that the reference does not count as sites
	// are confirmed by the number of sites being smaller than instances+mutants;
	// measured more precisely below from the plants themselves.
	for _, pl := range cs.Plants {
		if pl.Tag != "instance" {
			if !plantIsInstance(p, pl.Text) {
				v.NearMisses++
			}
		}
	}

	r := run.API("p.patch", []byte(cs.Patch), "host.go", []byte(cs.Host))
	switch {
	case r.Failed():
		v.Status = "foreign:C08"
		site, msg := r.PanicSite()
		v.Msg = fmt.Sprintf("gopatch crashed or hung (%s %s)", site, msg)
		if r.Panic != "" {
			v.Msg += "\n" + trunc(r.Panic, 1500)
		}
		return v
	case r.ParseErr != "":
		v.Status = "rejected"
		v.Msg = r.ParseErr
		return v
	case r.ApplyErr != "":
		switch {
		case res.Err != nil:
			v.Status = "ok"
		case strings.Contains(r.ApplyErr, `unexpected "..."`):
			v.Status = "unjudged:ill-typed-replacement"
		case len(res.Sites) == 0:
			v.Status = "unjudged:error-without-site"
		default:
			// gopatch found a site and then reported an error instead of
			// rewriting. That is right when the rewritten file would not be
			// valid Go (C07's subject). When the reference's own result
			// prints and parses back to itself, the replacement was
			// admissible and the error means instances were left unrewritten.
			v.Status = "unjudged:apply-error"
			if res.Err == nil && !res.Ambiguous {
				exp := ref.Resolve(res.Expected, hostTree, ref.Output)
				if rt, err := ref.RoundTrip(exp); err == nil && ref.Equal(ref.StripImports(rt), ref.StripImports(exp), ref.Output) {
					v.Status = "discrepancy"
					v.Class = "error-instead-of-rewrite"
					v.Props = []string{"C01", "C03"}
					v.Msg = fmt.Sprintf("the reference finds %d admissible site(s) and its result is valid Go, but Apply fails: %s", len(res.Sites), r.ApplyErr)
					// Narrower cause: without the comments of the file the
					// same change goes through and gives the expected result,
					// so it is a comment that the printer put where no
					// comment may stand.
					// Another narrow cause: "f(0 ...)" - a number literal spread
					// into a variadic call. Printed without the positions of
					// the file it reads "0...", which does not scan as Go.
					if numberBeforeSpread.MatchString(cs.Host) && strings.Contains(r.ApplyErr, "found '.'") {
						v.Sub = "number-literal-before-spread"
						return v
					}
					if bare := blankComments(cs.Host); bare != cs.Host {
						r2 := run.API("p.patch", []byte(cs.Patch), "host.go", []byte(bare))
						if r2.OK() {
							if gt, err := parseTree(r2.Out); err == nil && ref.Equal(ref.StripImports(exp), ref.StripImports(gt), ref.Output) {
								v.Sub = "comment-displaced-by-new-code"
								v.Msg += "\n(without the file's comments the change is applied as expected)"
							}
						}
					}
					return v
				}
			}
		}
		v.Msg = r.ApplyErr
		return v
	}
	if res.Err != nil {
		v.Status = "unjudged:reference-error"
		v.Msg = res.Err.Error()
		return v
	}
	if len(res.Sites) == 0 && res.Inadmissible > 0 {
		// The '-' side occurs, but at no place can the replacement be put:
		// whether the file-level parts of the change (package rename, added
		// imports) then take effect is not said by any statement.
		v.Status = "unjudged:only-inadmissible-sites"
		return v
	}
	if res.Ambiguous {
		v.Status = "unjudged:ambiguous"
		return v
	}
	actual, err := parseTree(r.Out)
	if err != nil {
		v.Status = "foreign:C07"
		v.Msg = "gopatch returned text that does not parse: " + err.Error()
		return v
	}
	want := ref.StripImports(res.Expected)
	got := ref.StripImports(actual)
	d := ref.FirstDifference(want, got, ref.Output)
	mode := ref.Output
	if d == nil {
		// Equal up to parentheses: those count too. Inside a rewritten
		// fragment the result may have more of them than expected, not
		// fewer; outside, exactly the expected ones.
		if d = ref.FirstDifference(want, got, ref.OutputSites); d != nil {
			mode = ref.OutputSites
			v.Sub = "parentheses-differ"
		}
	}
	hasDots := v.MinusDots > 0
	if d == nil {
		if len(cs.Spec.ImportsMinus) == 0 {
			// Imports are untouched unless the patch mentions them; a '+'
			// import is present afterwards (once) if the change applied.
			wi, gi := importMultiset(hostTree), importMultiset(actual)
			if res.Applies {
				have := map[string]bool{}
				for _, x := range wi {
					have[x] = true
				}
				for _, ip := range cs.Spec.ImportsPlus {
					key := ip.Name + " " + ip.Path
					if !have[key] {
						wi = append(wi, key)
						have[key] = true
					}
				}
				sort.Strings(wi)
			}
			if strings.Join(wi, "\n") != strings.Join(gi, "\n") {
				v.Status = "discrepancy"
				v.Class = "imports-changed"
				v.Props = []string{"C11"}
				if len(cs.Spec.ImportsPlus) == 0 {
					v.Props = append(v.Props, "C05")
				}
				v.Msg = fmt.Sprintf("imports differ from what the patch dictates:\n  expected: %v\n  actual:   %v", wi, gi)
				return v
			}
		}
		if v.Sites == 0 {
			v.Status = "trivial"
		} else {
			v.Status = "ok"
		}
		return v
	}
	// The expected tree is compared with text that was printed and parsed
	// again. Some trees do not survive that step unchanged (a call placed
	// where a type is expected prints as a conversion, ...): give the
	// expected tree the same treatment before calling it a discrepancy.
	if rt, err := ref.RoundTrip(ref.Resolve(res.Expected, actual, ref.Output)); err != nil {
		v.Status = "unjudged:expected-output-unprintable"
		v.Msg = err.Error()
		return v
	} else if ref.Equal(ref.StripImports(rt), got, mode) {
		v.Status = "ok"
		v.Note = "print-parse-artefact"
		return v
	}
	v.Status = "discrepancy"
	v.Msg = d.String()
	hasMarker := func(t *ref.Tree) bool {
		if t == nil {
			return false
		}
		if t.Kind == ref.KLeaf {
			return strings.Contains(t.Leaf, gen.Marker)
		}
		return ref.ContainsIdentPrefix(t, gen.Marker)
	}
	switch {
	case d.Site > 0 && d.Unrewritten:
		v.Class = "site-unrewritten"
		// C01: every instance is rewritten; C03: a site is left unchanged only
		// when the replacement is not admissible there (the reference has
		// already set inadmissible sites aside).
		v.Props = []string{"C01", "C03"}
		if hasDots {
			v.Props = append(v.Props, "C04")
		}
		if v.RepeatedHoles > 0 {
			v.Props = append(v.Props, "C02")
		}
		s := res.Sites[d.Site-1]
		v.Msg = fmt.Sprintf("instance not rewritten (slot %s, depth %d): %s\n%s", s.Slot, s.Depth, ref.Brief(s.Node), v.Msg)
		if s.NestedChoice {
			v.Sub = "needs-another-choice-in-a-nested-list"
			v.Msg = "(the code is an instance only if a list nested in the pattern is matched in another way than the first that fits: a repeated metavariable further on rules the first one out)\n" + v.Msg
		}
	case d.Site > 0:
		v.Class = "site-wrong"
		v.Props = []string{"C03"}
		if v.PlusDots > 0 {
			v.Props = append(v.Props, "C04")
		}
		// A filler that belongs to another site (and not to this one) shows
		// up here: bindings influenced another match site.
		own := res.Sites[d.Site-1]
		for _, other := range res.Sites {
			if other.Index == own.Index {
				continue
			}
			for _, b := range other.Env.Bindings() {
				if b.Kind != ref.KNode || len(ref.Brief(b)) < 12 {
					continue
				}
				same := func(x *ref.Tree) bool { return x.Kind == ref.KNode && x.RT == b.RT && ref.Equal(b, x, ref.Output) }
				if d.SiteGot != nil && ref.Contains(d.SiteGot, same) && !ref.Contains(own.Repl, same) {
					v.Props = append(v.Props, "C02")
					v.Msg += "\n(the output at this site contains a filler of another site: " + ref.Brief(b) + ")"
					break
				}
			}
			if v.contradicts("C02") {
				break
			}
		}
	case d.Cont > 0 && instanceRewrittenAt(res.Sites[d.Cont-1], d.ContGot):
		// The block's instance was rewritten as expected, yet statements
		// around it (what the implicit elisions stood for) changed.
		v.Class = "around-instance-changed"
		v.Props = []string{"C05", "C04"}
	case d.Cont > 0:
		// The block holds a reference instance, but something else in its
		// statement list was rewritten and/or the instance was not: the
		// change was applied to the wrong run of statements.
		v.Class = "container-misapplied"
		v.Props = []string{"C01"}
		site := res.Sites[d.Cont-1]
		if start, ok := p.RelaxedFirstStart(site.Node); ok && start != site.Start {
			v.Props = append(v.Props, "C02")
		}
	default:
		// Is the difference part of a region that gopatch rewrote (it carries
		// more of the plus side's marker than expected there)?
		extraMarker := hasMarker(d.Got) && !hasMarker(d.Want)
		for i := 0; i < len(d.GotChain) && i < len(d.WantChain) && !extraMarker; i++ {
			if d.WantChain[i].TypeName() == "File" {
				break
			}
			if ref.CountIdentPrefix(d.GotChain[i], gen.Marker) > ref.CountIdentPrefix(ref.Resolve(d.WantChain[i], d.GotChain[i], ref.Output), gen.Marker) {
				extraMarker = true
			}
		}
		if extraMarker {
			v.Class = "nonsite-rewritten"
			v.Props = []string{"C01"}
			// Would the place be an instance if the metavariable rules were
			// dropped? Then the metavariable semantics is what failed.
			if v.Holes > 0 {
				chain := d.WantChain
				if d.Want != nil && d.Want.Kind == ref.KNode {
					chain = append([]*ref.Tree{d.Want}, chain...)
				}
				for _, w := range chain {
					if p.RelaxedMatchesAt(w) {
						v.Props = append(v.Props, "C02")
						break
					}
				}
			}
		} else {
			v.Class = "outside-changed"
			v.Props = []string{"C05"}
		}
	}
	// Independent of where the first difference was found: a top-level
	// declaration in which the reference rewrote nothing must still be in the
	// output (C05: nothing outside the rewritten fragments is removed,
	// duplicated or altered).
	if lost := lostDeclarations(ref.StripImports(hostTree), want, got); lost != "" {
		if !v.contradicts("C05") {
			v.Props = append(v.Props, "C05")
		}
		v.Msg += "\nuntouched top-level declaration missing from the output: " + lost
	}
	return v
}

// lostDeclarations returns a description of the first top-level declaration
// that the reference left untouched and that has no equal in the output.
func lostDeclarations(host, want, got *ref.Tree) string {
	hd, wd, gd := host.Field("Decls"), want.Field("Decls"), got.Field("Decls")
	if hd == nil || wd == nil || gd == nil || hd.Kind != ref.KList || wd.Kind != ref.KList || gd.Kind != ref.KList {
		return ""
	}
	used := make([]bool, len(gd.Kids))
	for i, d := range hd.Kids {
		if i >= len(wd.Kids) || !ref.Equal(wd.Kids[i], d, ref.Output) {
			continue // the reference rewrites something inside it (or declaration patterns changed the list)
		}
		found := false
		for j, g := range gd.Kids {
			if !used[j] && ref.Equal(d, g, ref.Output) {
				used[j], found = true, true
				break
			}
		}
		if !found {
			return ref.Brief(d)
		}
	}
	return ""
}

// plantIsInstance reports whether a planted text contains an instance of
// the pattern (decided by the reference on the plant alone).
func plantIsInstance(p *ref.Pattern, txt string) bool {
	var src string
	if p.Kind == ref.PDecl {
		src = "package p\n" + txt
	} else {
		src = "package p\nfunc _() {\n" + txt + "\n}"
	}
	t, err := parseTree([]byte(src))
	if err != nil {
		return false
	}
	return len(p.Apply(t).Sites) > 0
}

// modelRun is the common body of the engine-level checks.
type modelCheck struct {
	Prop       string
	Opts       modelOpts
	NonTrivial func(cs *modelCase, v *verdict) bool
	// NestedChoice > 0: one case in that many is a synthetic nested-choice case.
	NestedChoice int
	// TypeOperand > 0: one case in that many is a synthetic type-operand case.
	TypeOperand int
}

func (mc *modelCheck) record(c *evid.Collector, cs *modelCase, v *verdict) {
	classes := []string{"status:" + v.Status, "kind:" + string(v.Kind)}
	if v.Class != "" {
		classes = append(classes, "class:"+v.Class)
	}
	classes = append(classes, fmt.Sprintf("holes:%d", v.Holes), fmt.Sprintf("minus-dots:%d", min(v.MinusDots, 3)), fmt.Sprintf("sites:%d", min(v.Sites, 4)))
	if v.NestedChoice > 0 {
		classes = append(classes, "instance-only-by-another-choice-in-a-nested-list")
	}
	for _, s := range v.SiteSlots {
		classes = append(classes, "site-slot:"+s)
	}
	for _, pl := range cs.Plants {
		classes = append(classes, "plant:"+pl.Tag)
	}
	for _, e := range cs.Edits {
		if i := strings.Index(e, "@"); i > 0 {
			e = e[:i]
		}
		classes = append(classes, "edit:"+e)
	}
	nontriv := (v.Status == "ok" || v.Status == "discrepancy") && mc.NonTrivial(cs, v)
	if nontriv {
		classes = append(classes, "nontrivial")
	}
	if v.Note != "" {
		classes = append(classes, "note:"+v.Note)
	}
	c.Case(evid.Hash(cs.Patch, cs.Host), nontriv, classes...)
	if nontriv && c.WantSample() {
		c.Sample(map[string]any{"origin": cs.Origin, "patch": cs.Patch, "plants": cs.Plants, "sites": v.Sites, "near_misses": v.NearMisses, "status": v.Status})
	}
}

// keyedLiteralCase: the pattern is a composite literal written entirely
// with field names; the file holds, in declarations without any site,
// literals of the same and of other types with the same field names in
// another order (not instances: the elements stand in another order).
func keyedLiteralCase(rt *rapid.T) *modelCase {
	order := func(label string, a, b string) string {
		if rapid.Bool().Draw(rt, label) {
			return a + ", " + b
		}
		return b + ", " + a
	}
	var b strings.Builder
	b.WriteString("package keyed\n\ntype Pq struct{ X, Y int }\n\ntype Size struct{ X, Y int }\n\n")
	b.WriteString("var size = Size{" + order("sizeOrder", "X: w()", "Y: h()") + "}\n\n")
	b.WriteString("func untouched() any {\n\treturn []any{Pq{" + order("o1", "X: a", "Y: b") + "}, Size{Y: 2, X: 1}, struct{ Y, X int }{Y: 1, X: 2}}\n}\n\n")
	b.WriteString("func sites() {\n")
	n := rapid.IntRange(1, 3).Draw(rt, "keyedSites")
	for i := 0; i < n; i++ {
		fmt.Fprintf(&b, "\tmkq(Pq{X: %d, Y: f%d()})\n", i, i)
	}
	if rapid.Bool().Draw(rt, "reorderedCall") {
		b.WriteString("\tmkq(Pq{Y: 9, X: 8})\n")
	}
	b.WriteString("}\n\nvar last = map[string]Size{\"k\": {" + order("o2", "X: 3", "Y: 4") + "}}\n")
	return &modelCase{
		Spec:   ref.Spec{Holes: map[string]ref.HoleKind{"hv1": ref.ExprHole, "hv2": ref.ExprHole}, Minus: "mkq(Pq{X: hv1, Y: hv2})", Plus: "mkq2(Pq{X: hv1, Y: hv2})"},
		Patch:  "@@\nvar hv1, hv2 expression\n@@\n-mkq(Pq{X: hv1, Y: hv2})\n+mkq2(Pq{X: hv1, Y: hv2})\n",
		Host:   b.String(),
		Origin: "synthetic:keyed-literal",
	}
}

// declImportCase: a function declaration pattern that also adds an import,
// on a file whose import section is "import \"C\"" alone, several import
// declarations, one group or none: the declarations between the rewritten
// ones must stay where and what they are.
func declImportCase(rt *rapid.T) *modelCase {
	imports := rapid.SampledFrom([]string{
		"",
		"import \"C\"\n\n",
		"import \"fmt\"\n\nimport \"os\"\n\n",
		"import \"C\"\n\nimport \"fmt\"\n\nimport (\n\t\"os\"\n)\n\n",
		"import (\n\t\"fmt\"\n\t\"os\"\n)\n\n",
		"import \"fmt\"\n\n",
	}).Draw(rt, "importSection")
	var b strings.Builder
	b.WriteString("package declimp\n\n" + imports)
	n := rapid.IntRange(2, 5).Draw(rt, "decls")
	for i := 0; i < n; i++ {
		fmt.Fprintf(&b, "func keep%d() string {\n\treturn \"keep%d\"\n}\n\n", i, i)
		if rapid.IntRange(0, 2).Draw(rt, fmt.Sprintf("site%d", i)) > 0 || i == 0 {
			fmt.Fprintf(&b, "func tgt%d() int {\n\treturn 0\n}\n\n", i)
		}
	}
	b.WriteString("var tail = 1\n")
	return &modelCase{
		Spec: ref.Spec{Holes: map[string]ref.HoleKind{"hv1": ref.IdentHole},
			Minus: "func hv1() int {\n\treturn 0\n}", Plus: "func hv1(ctx context.Context) int {\n\treturn 0\n}",
			ImportsPlus: []ref.Import{{Path: "context"}}},
		Patch:  "@@\nvar hv1 identifier\n@@\n+import \"context\"\n\n-func hv1() int {\n-\treturn 0\n-}\n+func hv1(ctx context.Context) int {\n+\treturn 0\n+}\n",
		Host:   b.String(),
		Origin: "synthetic:declaration-with-added-import",
	}
}

// failedAttemptCase: a statement pattern that records a good deal before it
// comes to a choice - 0-6 context statements with several tokens each, 0-9
// imports under metavariable names - then "...", a declaration that binds
// two metavariables, "...", and a return that uses one of them. The file has
// 1-3 declarations of that shape before the one the return refers to: each
// is tried and given up, and what it bound must be forgotten.
func failedAttemptCase(rt *rapid.T) *modelCase {
	k := rapid.IntRange(0, 6).Draw(rt, "contextStatements")
	ni := rapid.SampledFrom([]int{0, 0, 1, 4, 9}).Draw(rt, "imports")
	decoys := rapid.IntRange(1, 3).Draw(rt, "decoys")
	ctx := []string{"ctxA(1, 2)", "ctxB(\"s\", 3, cq.d)", "ctxC(pq.q, rq[0], -1)", "ctxD(func() {})", "ctxE(mq[\"k\"], &tq, 4)", "ctxF(1, 2, 3, 4, 5, 6)"}[:k]
	spec := ref.Spec{Holes: map[string]ref.HoleKind{"hv1": ref.IdentHole, "hv2": ref.ExprHole}}
	var patch, imports strings.Builder
	patch.WriteString("@@\nvar hv1 identifier\nvar hv2 expression\n")
	for i := 0; i < ni; i++ {
		fmt.Fprintf(&patch, "var im%d identifier\n", i)
		spec.Holes[fmt.Sprintf("im%d", i)] = ref.IdentHole
	}
	patch.WriteString("@@\n")
	for i := 0; i < ni; i++ {
		fmt.Fprintf(&patch, " import im%d \"example.com/many/p%d\"\n", i, i)
		fmt.Fprintf(&imports, "import q%d \"example.com/many/p%d\"\n", i, i)
		spec.ImportsMinus = append(spec.ImportsMinus, ref.Import{Name: fmt.Sprintf("im%d", i), Path: fmt.Sprintf("example.com/many/p%d", i)})
		spec.ImportsPlus = append(spec.ImportsPlus, ref.Import{Name: fmt.Sprintf("im%d", i), Path: fmt.Sprintf("example.com/many/p%d", i)})
	}
	if ni > 0 {
		patch.WriteString("\n")
	}
	var minus, plus []string
	for _, c := range ctx {
		patch.WriteString(" " + c + "\n")
		minus = append(minus, c)
		plus = append(plus, c)
	}
	patch.WriteString(" ...\n hv1 := hv2\n ...\n-return hv1\n+return hv2\n")
	minus = append(minus, "DOTS__1", "hv1 := hv2", "DOTS__2", "return hv1")
	plus = append(plus, "DOTS__1", "hv1 := hv2", "DOTS__2", "return hv2")
	spec.Minus, spec.Plus = strings.Join(minus, "\n"), strings.Join(plus, "\n")
	var body strings.Builder
	for _, c := range ctx {
		body.WriteString("\t" + c + "\n")
	}
	names := []string{"a", "b", "c", "d"}
	for i := 0; i <= decoys; i++ {
		if i == 0 {
			fmt.Fprintf(&body, "\t%s := n * 2\n\tuse(%s)\n", names[i], names[i])
		} else {
			fmt.Fprintf(&body, "\t%s := %s + %d\n\tuse(%s)\n", names[i], names[i-1], i, names[i])
		}
	}
	fmt.Fprintf(&body, "\treturn %s\n", names[decoys])
	// a second function with the same shape: sites are independent
	second := ""
	if rapid.Bool().Draw(rt, "secondFunction") {
		second = "\nfunc g(n int) int {\n" + strings.ReplaceAll(body.String(), "n * 2", "n * 3") + "}\n"
	}
	uses := ""
	for i := 0; i < ni; i++ {
		uses += fmt.Sprintf("var _ = q%d.X\n", i)
	}
	return &modelCase{
		Spec:   spec,
		Patch:  patch.String(),
		Host:   "package attempts\n\n" + imports.String() + "\n" + uses + "\nfunc f(n int) int {\n" + body.String() + "}\n" + second,
		Origin: "synthetic:failed-attempts",
	}
}

// nestedChoiceCase: a metavariable occurs in a list with elisions that is
// nested in the pattern, and again after that list. Whether code is an
// instance can then depend on which element of the nested list the
// metavariable is taken to stand for.
func nestedChoiceCase(rt *rapid.T) *modelCase {
	atoms := []string{"1", "2", "a", "b", "k()", "a.b"}
	pick := func(label string) string { return rapid.SampledFrom(atoms).Draw(rt, label) }
	type shape struct{ minus, plus, patchMinus, patchPlus, site string }
	shapes := []shape{
		{"hq(fq(DOTS__1, hv1, DOTS__2), hv1)", "hq2(hv1)", "hq(fq(..., hv1, ...), hv1)", "hq2(hv1)", "hq(fq(%s), %s)"},
		{"hq(hv1, fq(DOTS__1, hv1, DOTS__2))", "hq2(hv1)", "hq(hv1, fq(..., hv1, ...))", "hq2(hv1)", "hq(%[2]s, fq(%[1]s))"},
		{"hq(fq(DOTS__1, hv1), gq(hv1, DOTS__2))", "hq2(hv1, DOTS__2)", "hq(fq(..., hv1), gq(hv1, ...))", "hq2(hv1, ...)", "hq(fq(%s), gq(%s, 9))"},
		{"hq([]int{DOTS__1, hv1, DOTS__2}[0], hv1)", "hq2(hv1)", "hq([]int{..., hv1, ...}[0], hv1)", "hq2(hv1)", "hq([]int{%s}[0], %s)"},
	}
	sh := shapes[rapid.IntRange(0, len(shapes)-1).Draw(rt, "nestedShape")]
	var body strings.Builder
	n := rapid.IntRange(1, 4).Draw(rt, "nestedSites")
	for i := 0; i < n; i++ {
		k := rapid.IntRange(1, 4).Draw(rt, fmt.Sprintf("nestedLen%d", i))
		var list []string
		for j := 0; j < k; j++ {
			list = append(list, pick(fmt.Sprintf("nestedElem%d_%d", i, j)))
		}
		outer := pick(fmt.Sprintf("nestedOuter%d", i))
		if rapid.Bool().Draw(rt, fmt.Sprintf("nestedHit%d", i)) {
			outer = list[rapid.IntRange(0, len(list)-1).Draw(rt, fmt.Sprintf("nestedWhich%d", i))]
		}
		call := fmt.Sprintf(sh.site, strings.Join(list, ", "), outer)
		switch rapid.IntRange(0, 2).Draw(rt, fmt.Sprintf("nestedCtx%d", i)) {
		case 0:
			body.WriteString("\t" + call + "\n")
		case 1:
			body.WriteString("\t_ = " + call + "\n")
		default:
			body.WriteString("\tif ok(" + call + ") {\n\t}\n")
		}
	}
	return &modelCase{
		Spec:   ref.Spec{Holes: map[string]ref.HoleKind{"hv1": ref.ExprHole}, Minus: sh.minus, Plus: sh.plus},
		Patch:  "@@\nvar hv1 expression\n@@\n-" + sh.patchMinus + "\n+" + sh.patchPlus + "\n",
		Host:   "package nested\n\nfunc f(a T, b int) {\n" + body.String() + "}\n",
		Origin: "synthetic:nested-choice",
	}
}

// typeOperandCase: a metavariable that stands for a type is put below a
// type constructor on the '+' side (chan x, *x, []x, func(x), map[x]x). The
// printed result has to mean what the tree means: "chan (<-chan int)" is not
// "chan<- chan int".
func typeOperandCase(rt *rapid.T) *modelCase {
	types := []string{"<-chan int", "chan<- int", "chan int", "int", "*T", "[]T", "func() <-chan int", "map[K]<-chan V", "pkgq.T", "struct{}", "interface{ M() }", "[3]<-chan int"}
	wraps := []struct{ plus, patchPlus string }{
		{"make(chan hv1)", "make(chan hv1)"}, {"make(chan<- hv1)", "make(chan<- hv1)"}, {"make(<-chan hv1)", "make(<-chan hv1)"},
		{"new(*hv1)", "new(*hv1)"}, {"make([]hv1, 0)", "make([]hv1, 0)"}, {"make(map[string]hv1)", "make(map[string]hv1)"},
		{"mk2(func(hv1) hv1 { panic(0) })", "mk2(func(hv1) hv1 { panic(0) })"}, {"make(chan chan hv1)", "make(chan chan hv1)"},
		{"hv1(nil)", "hv1(nil)"}, {"use(hv1(c0), hv1(c1))", "use(hv1(c0), hv1(c1))"},
	}
	w := wraps[rapid.IntRange(0, len(wraps)-1).Draw(rt, "typeWrap")]
	var body strings.Builder
	n := rapid.IntRange(1, 4).Draw(rt, "typeSites")
	for i := 0; i < n; i++ {
		body.WriteString("\t_ = mkq(" + rapid.SampledFrom(types).Draw(rt, fmt.Sprintf("typeArg%d", i)) + ")\n")
	}
	return &modelCase{
		Spec:   ref.Spec{Holes: map[string]ref.HoleKind{"hv1": ref.ExprHole}, Minus: "mkq(hv1)", Plus: w.plus},
		Patch:  "@@\nvar hv1 expression\n@@\n-mkq(hv1)\n+" + w.patchPlus + "\n",
		Host:   "package typeops\n\nfunc f() {\n" + body.String() + "}\n",
		Origin: "synthetic:type-operand",
	}
}

// nameSlotCase: a bare name is replaced by something that is not a name
// (a selector, a call). Where the grammar wants a name - left of ":=", key
// and value of "for ... := range", declared names, labels, selectors' right
// side - the replacement is inadmissible and the place stays as it is.
func nameSlotCase(rt *rapid.T) *modelCase {
	repl := rapid.SampledFrom([]string{"objq.fooq", "getq(fooq)", "fooq[0]", "(*fooq)", "barq"}).Draw(rt, "nameRepl")
	uses := []string{
		"fooq := 1", "fooq, other := 1, 2", "other, fooq := 1, 2", "fooq = 2", "fooq, other = 3, 4", "use(fooq)", "fooq++", "_ = x.fooq", "_ = fooq.x",
		"for fooq := range items {\n\t}", "for _, fooq := range items {\n\t}", "for fooq = range items {\n\t}", "for i, fooq = range items {\n\t}",
		"var fooq int", "var other = fooq", "const fooq = 1", "type fooq int", "fooq:\n\tfor {\n\t\tbreak fooq\n\t}", "_ = T{fooq: 1}", "_ = T{x: fooq}",
		"_ = func(fooq int) int { return fooq }", "if fooq := get(); fooq != nil {\n\t}", "switch fooq := v.(type) {\n\tcase int:\n\t\t_ = fooq\n\t}", "go fooq()", "defer fooq()",
		"select {\n\tcase fooq := <-ch:\n\t\t_ = fooq\n\tcase fooq = <-ch:\n\t}",
	}
	var body strings.Builder
	n := rapid.IntRange(1, 5).Draw(rt, "nameUses")
	for i := 0; i < n; i++ {
		body.WriteString("\t{\n\t" + rapid.SampledFrom(uses).Draw(rt, fmt.Sprintf("nameUse%d", i)) + "\n\t}\n")
	}
	return &modelCase{
		Spec:   ref.Spec{Holes: map[string]ref.HoleKind{}, Minus: "fooq", Plus: repl},
		Patch:  "@@\n@@\n-fooq\n+" + repl + "\n",
		Host:   "package names\n\nfunc f(items []int, v any, ch chan int) {\n" + body.String() + "}\n",
		Origin: "synthetic:name-slot",
	}
}

func (mc *modelCheck) run(t *testing.T) {
	c := coll(mc.Prop)
	checkN(t, func(rt *rapid.T) {
		if mc.TypeOperand > 0 && rapid.IntRange(0, mc.TypeOperand-1).Draw(rt, "nameSlot") == 0 {
			mc.judge(rt, c, nameSlotCase(rt))
			return
		}
		if mc.TypeOperand > 0 && rapid.IntRange(0, mc.TypeOperand-1).Draw(rt, "typeOperand") == 0 {
			mc.judge(rt, c, typeOperandCase(rt))
			return
		}
		if mc.Prop == "C05" {
			switch rapid.IntRange(0, 19).Draw(rt, "c05Synthetic") {
			case 0:
				mc.judge(rt, c, keyedLiteralCase(rt))
				return
			case 1:
				mc.judge(rt, c, declImportCase(rt))
				return
			}
		}
		if mc.Prop == "C02" && rapid.IntRange(0, 19).Draw(rt, "failedAttempts") == 0 {
			mc.judge(rt, c, failedAttemptCase(rt))
			return
		}
		if mc.Prop == "C02" && rapid.IntRange(0, 14).Draw(rt, "importBound") == 0 {
			c02iRun(rt, c)
			return
		}
		if mc.NestedChoice > 0 && rapid.IntRange(0, mc.NestedChoice-1).Draw(rt, "nestedChoice") == 0 {
			mc.judge(rt, c, nestedChoiceCase(rt))
			return
		}
		cs, why := genModelCase(rt, mc.Opts)
		if cs == nil {
			c.Note("generator:" + why)
			return
		}
		mc.judge(rt, c, cs)
	})
}

func (mc *modelCheck) judge(ft fataler, c *evid.Collector, cs *modelCase) {
	v := evalModel(cs)
	mc.record(c, cs, v)
	if v.Status == "discrepancy" || strings.HasPrefix(v.Status, "foreign:") {
		if v.Status == "discrepancy" && v.contradicts(mc.Prop) {
			violate(ft, mc.Prop, v.Class+":"+modelSig(cs, v), fmt.Sprintf("%s (%s)\npatch:\n%s", v.Msg, v.Class, cs.Patch), cs)
			return
		}
		c.Foreign(v.Status + ":" + v.Class + "->" + strings.Join(v.Props, ","))
		if dir := os.Getenv("VERIF_DUMP_FOREIGN"); dir != "" {
			b, _ := json.MarshalIndent(map[string]any{"status": v.Status, "class": v.Class, "props": v.Props, "msg": v.Msg, "case": cs}, "", " ")
			_ = os.WriteFile(filepath.Join(dir, fmt.Sprintf("foreign-%s-%x.json", mc.Prop, evid.Hash(cs.Patch, cs.Host))), b, 0o644)
		}
	}
}

// modelSig adds detail to the signature used for known findings.
func modelSig(cs *modelCase, v *verdict) string {
	if v.Sub != "" {
		return string(v.Kind) + ":" + v.Sub
	}
	return string(v.Kind)
}

var numberBeforeSpread = regexp.MustCompile(`[0-9]\s+\.\.\.\s*\)`)

// blankComments overwrites every comment of a Go file with spaces, keeping
// line breaks, so that all code stays at its position.
func blankComments(src string) string {
	fset := token.NewFileSet()
	f, err := parser.ParseFile(fset, "host.go", src, parser.ParseComments)
	if err != nil {
		return src
	}
	b := []byte(src)
	tf := fset.File(f.Pos())
	for _, cg := range f.Comments {
		for _, c := range cg.List {
			if strings.HasPrefix(c.Text, "//go:") || strings.HasPrefix(c.Text, "// +build") {
				continue
			}
			for i := tf.Offset(c.Pos()); i < tf.Offset(c.End()) && i < len(b); i++ {
				if b[i] != '\n' && b[i] != '\r' {
					b[i] = ' '
				}
			}
		}
	}
	return string(b)
}

func (mc *modelCheck) replay(t *testing.T) {
	var cs modelCase
	if !loadReplay(t, mc.Prop, &cs) {
		return
	}
	v := evalModel(&cs)
	t.Logf("status=%s class=%s props=%v\n%s", v.Status, v.Class, v.Props, v.Msg)
	if v.Status == "discrepancy" && v.contradicts(mc.Prop) {
		violate(t, mc.Prop, v.Class+":"+modelSig(&cs, v), v.Msg, &cs)
	}
}

// instanceRewrittenAt reports whether the got-side container holds the
// expected instantiated statements at the expected place.
func instanceRewrittenAt(site ref.Site, got *ref.Tree) bool {
	if got == nil || got.Kind != ref.KNode || site.Repl == nil {
		return false
	}
	field := "List"
	if got.Field(field) == nil {
		field = "Body"
	}
	gl, wl := got.Field(field), site.Repl.Field(field)
	if gl == nil || wl == nil || gl.Kind != ref.KList || wl.Kind != ref.KList {
		return false
	}
	if site.InstLen == 0 || site.Start+site.InstLen > len(gl.Kids) || site.Start+site.InstLen > len(wl.Kids) {
		return false
	}
	for i := site.Start; i < site.Start+site.InstLen; i++ {
		if !ref.Equal(wl.Kids[i], gl.Kids[i], ref.Output) {
			return false
		}
	}
	return true
}
