//go:build !(linux && amd64)

package props

// The C16 fault injector needs ptrace on linux/amd64.

const c16TracerEnv = "VERIF_C16_TRACER"

type c16TraceCfg struct {
	Prefix string   `json:"prefix,omitempty"`
	Exact  string   `json:"exact,omitempty"`
	Names  []string `json:"names,omitempty"`
	K      int      `json:"k"`
	Errno  int      `json:"errno,omitempty"`
	Kill   bool     `json:"kill,omitempty"`
	Log    string   `json:"log"`
}

type c16Call struct {
	N        int      `json:"n"`
	Tid      int      `json:"tid"`
	Name     string   `json:"name"`
	Paths    []string `json:"paths"`
	Side     string   `json:"side"`
	Tampered string   `json:"tampered,omitempty"`
	Ret      int64    `json:"ret"`
}

type c16TraceLog struct {
	Calls   []c16Call `json:"calls"`
	Threads int       `json:"threads"`
	Error   string    `json:"error,omitempty"`
}

func c16TracerAvailable() string { return "the fault injector needs linux/amd64" }
