package props

import (
	"fmt"
	"path/filepath"
	"regexp"
	"strings"
	"testing"

	"github.com/uber-go/gopatch/verif/evid"
	"github.com/uber-go/gopatch/verif/gen"
	"github.com/uber-go/gopatch/verif/ref"
	"github.com/uber-go/gopatch/verif/run"
	"pgregory.net/rapid"
)

// C06 — no match means no effect.
//
// One case = 1-3 changes and 1-5 Go files, run through the CLI in the default
// mode, with --diff and with --print-only (same drawn -v / --skip-generated /
// --skip-import-processing, patch files or stdin, drawn argument spellings)
// and through the library.
//
// Whether "no change applies to a file" is decided WITHOUT gopatch, per change:
//
//	mined    a pattern generalised from real code: the reference matcher
//	         (harness/ref) finds no site, no inadmissible match and no
//	         ambiguity in the file;
//	special  a hand-written change around a callee name that occurs nowhere
//	         else: the file does not contain that name;
//	guarded  a mined change with a package / import guard line that no file
//	         of the case satisfies (unique path or name): the code pattern may
//	         well occur in the file — it is then the guard that keeps the
//	         change from applying (property C10's table).
//
// A file is judged only if every change of the case is decided "does not
// apply" for it. Files in which something applies are part of the same run
// on purpose (state carried from a matching file to the next one is a
// realistic fault) but are not judged.

type c06Change struct {
	Text   string    `json:"text"`
	Label  string    `json:"label"`
	Kind   string    `json:"kind"` // mined | special | guarded
	Spec   *ref.Spec `json:"spec,omitempty"`
	Needle string    `json:"needle,omitempty"`
	Guard  string    `json:"guard,omitempty"`
	Desc   string    `json:"desc,omitempty"`
}

type c06Case struct {
	Changes []c06Change `json:"changes"`
	Run     c12Case     `json:"run"` // files, arguments, flags (Changes/Descs filled from above)
}

var c06ModelOpts = modelOpts{
	Mine:         gen.MineOpts{MaxHoles: 3, MaxDots: 2},
	MaxHostLines: 200,
	MinPlants:    0, MaxPlants: 2,
	MinMutants: 0, MaxMutants: 3,
	AllMinusThenPlus: true,
	AddImport:        4,
}

var c06Needles = map[string]string{
	"fail-unbound":               "c14fail",
	"fail-some":                  "c14sel",
	"add-import":                 "c14ctx",
	"dots-import":                "c14wrap",
	"replace-import-shadowed":    "example.com/conversion/to",
	"bump":                       "c14bump",
	"captured-name-under-import": "Fatalln",
	"elide-then-delete":          "c14",
	"unparseable-result":         "c14chk",
	"plain-names":                "c14keep",
	"drop-arg":                   "c14emit",
	"module-imports":             "c14modcall",
	"for-cond-elided":            "c14n = c14n +",
}

// c06Exact: for these changes the only possible instance is known, so a file
// that mentions the callee is still decided if it does not hold that text.
var c06Exact = map[string]*regexp.Regexp{
	"plain-names": regexp.MustCompile(`c14keep\(\s*x\s*,\s*y\s*,?\s*\)`),
	// only a loop that starts "for c14i := 0;" can be an instance
	"for-cond-elided": regexp.MustCompile(`for\s+c14i\s*:=\s*0\s*;`),
}

var c06PkgRe = regexp.MustCompile(`(?m)^package ([A-Za-z_][A-Za-z0-9_]*)`)

var c06Guards = []struct{ Label, Lines string }{
	{"import:context-line", " import \"example.com/c06/absent\"\n\n"},
	{"import:minus-line", "-import \"example.com/c06/absent\"\n\n"},
	{"import:named", " import c06name \"fmt\"\n\n"},
	{"import:named-strings", " import c06name \"strings\"\n\n"},
	{"import:dot", " import . \"example.com/c06/absent\"\n\n"},
	{"package", " package c06nosuchpkg\n\n"},
	{"package:file-is-external-test", ""}, // " package X" where the file says "package X_test"; filled in per host
	{"package:file-is-external-test", ""},
	{"package:guard-is-prefix", ""}, // " package X" where the file says "package Xq"

	{"package:minus", "-package c06nosuchpkg\n+package c06renamed\n\n"},
}

// c06DrawChange returns the change and the file it was made for (in which
// its code pattern occurs).
func c06DrawChange(rt *rapid.T, idx int) (*c06Change, string) {
	lbl := fmt.Sprintf("ch%d", idx)
	k := rapid.IntRange(0, 9).Draw(rt, lbl+"kind")
	var ch *c06Change
	var host string
	if k <= 1 {
		sp := &c14Specials[rapid.IntRange(0, len(c14Specials)-1).Draw(rt, lbl+"special")]
		base := sp.Host
		if base == "" {
			base = c14SmallHost(rt, lbl+"host")
		}
		ch = &c06Change{Text: sp.Text, Label: sp.Label, Kind: "special", Needle: c06Needles[sp.Label]}
		host = c14Plant(rt, base, sp, lbl+"plant")
	} else {
		for try := 0; try < 4 && ch == nil; try++ {
			mc, _ := genModelCase(rt, c06ModelOpts)
			if mc == nil || !c14Accepts(mc.Patch) {
				continue
			}
			spec := mc.Spec
			ch = &c06Change{Text: mc.Patch, Label: "mined:" + mc.Origin, Kind: "mined", Spec: &spec}
			host = mc.Host
		}
		if ch == nil {
			sp := &c14Specials[0]
			ch = &c06Change{Text: sp.Text, Label: sp.Label, Kind: "special", Needle: c06Needles[sp.Label]}
			host = c14Plant(rt, c14SmallHost(rt, lbl+"host"), sp, lbl+"plant")
		}
		if ch.Kind == "mined" && k >= 6 {
			g := c06Guards[rapid.IntRange(0, len(c06Guards)-1).Draw(rt, lbl+"guard")]
			if g.Lines == "" {
				// guard = the host's own package name; the host then gets a
				// package name that merely resembles it
				if m := c06PkgRe.FindStringSubmatchIndex(host); m != nil {
					name := host[m[2]:m[3]]
					suffix := "_test"
					if g.Label == "package:guard-is-prefix" {
						suffix = "q"
					}
					renamed := host[:m[3]] + suffix + host[m[3]:]
					if aug := c14AddImport(ch.Text, " package "+name+"\n\n"); aug != ch.Text && c14Accepts(aug) && c14Parses(renamed) {
						ch.Text, ch.Kind, ch.Guard, host = aug, "guarded", g.Label+":"+name, renamed
					}
				}
			} else if aug := c14AddImport(ch.Text, g.Lines); aug != ch.Text && c14Accepts(aug) {
				ch.Text, ch.Kind, ch.Guard = aug, "guarded", g.Label
			}
		}
	}
	if !strings.HasSuffix(ch.Text, "\n") {
		ch.Text += "\n"
	}
	if rapid.IntRange(0, 2).Draw(rt, lbl+"described") > 0 {
		ch.Desc = fmt.Sprintf("c06desc%dq", idx)
		ch.Text = "# " + ch.Desc + " description\n" + ch.Text
	}
	return ch, host
}

func c06DrawCase(rt *rapid.T) *c06Case {
	cs := &c06Case{}
	nch := rapid.SampledFrom([]int{1, 1, 2, 2, 3}).Draw(rt, "nChanges")
	var hosts []string
	if rapid.IntRange(0, 7).Draw(rt, "scoping") == 0 {
		// A change that declares metavariables x and y, followed in the same
		// patch file by one in which x and y are plain names: what the first
		// declares is not in scope in the second.
		nch = 0
		for _, label := range []string{rapid.SampledFrom([]string{"fail-unbound", "fail-some", "bump"}).Draw(rt, "declaring"), "plain-names"} {
			for i := range c14Specials {
				if sp := &c14Specials[i]; sp.Label == label {
					cs.Changes = append(cs.Changes, c06Change{Text: sp.Text, Label: sp.Label, Kind: "special", Needle: c06Needles[sp.Label]})
					hosts = append(hosts, c14Plant(rt, c14SmallHost(rt, label+"host"), sp, label+"plant"))
				}
			}
		}
	}
	for i := 0; i < nch; i++ {
		ch, host := c06DrawChange(rt, i)
		cs.Changes = append(cs.Changes, *ch)
		hosts = append(hosts, host)
	}
	join := func(chs []c06Change) string {
		var b strings.Builder
		for _, ch := range chs {
			b.WriteString(ch.Text)
		}
		return b.String()
	}
	if !c14Accepts(join(cs.Changes)) {
		cs.Changes, hosts = cs.Changes[:1], hosts[:1]
	}
	r := &cs.Run
	for _, ch := range cs.Changes {
		r.Changes = append(r.Changes, ch.Text)
		r.Labels = append(r.Labels, ch.Label)
		r.Descs = append(r.Descs, ch.Desc)
	}
	r.Split = len(cs.Changes)
	if len(cs.Changes) > 1 && rapid.Bool().Draw(rt, "twoPatchFiles") {
		r.Split = rapid.IntRange(1, len(cs.Changes)-1).Draw(rt, "split")
		for _, p := range r.patchFiles() {
			if !c14Accepts(p) {
				r.Split = len(cs.Changes)
				break
			}
		}
	}
	if r.Split == len(cs.Changes) && rapid.IntRange(0, 4).Draw(rt, "stdin") == 0 {
		r.Stdin = true
	}

	// Files.
	n := rapid.IntRange(1, 5).Draw(rt, "nFiles")
	letters := []string{"a", "m", "z", "B"}
	for i := 0; i < n; i++ {
		lbl := fmt.Sprintf("f%d", i)
		var f c14File
		switch k := rapid.IntRange(0, 9).Draw(rt, lbl+"role"); {
		case k <= 4:
			f = c14File{Src: c14SmallHost(rt, lbl+"other"), Role: "other"}
		case k <= 8:
			j := rapid.IntRange(0, len(hosts)-1).Draw(rt, lbl+"of")
			f = c14File{Src: hosts[j], Role: "made-for:" + cs.Changes[j].Kind}
		default:
			f = c14File{Src: c14GenHeaders[rapid.IntRange(0, len(c14GenHeaders)-1).Draw(rt, lbl+"hdr")] + c14SmallHost(rt, lbl+"gen"), Role: "generated"}
		}
		if rapid.IntRange(0, 3).Draw(rt, lbl+"deform") > 0 {
			src, tags := deform(rt, f.Src, lbl)
			if len(tags) > 0 {
				f.Src = src
				f.Role += "+" + strings.Join(tags, "+")
			}
		}
		name := c14Dirs[rapid.IntRange(0, len(c14Dirs)-1).Draw(rt, lbl+"dir")] +
			letters[rapid.IntRange(0, len(letters)-1).Draw(rt, lbl+"letter")] + fmt.Sprint(i)
		if rapid.IntRange(0, 5).Draw(rt, lbl+"test") == 0 {
			name += "_test"
		}
		f.Name = name + ".go"
		f.Mode = c12DrawMode(rt, lbl)
		r.Files = append(r.Files, f)
	}
	r.Other = []c14File{{Name: "NOTES.txt", Src: "nothing to see\n", Role: "text"}}
	r.Verbose = rapid.IntRange(0, 2).Draw(rt, "verbose") == 0
	r.NoFinalLF = rapid.IntRange(0, 4).Draw(rt, "noFinalLF") == 0
	r.SkipGen = rapid.IntRange(0, 2).Draw(rt, "skipGenerated") == 0
	r.SkipImports = rapid.IntRange(0, 3).Draw(rt, "skipImports") == 0
	r.Args = c14DrawArgs(rt, r.Files, "args")
	absMode := rapid.SampledFrom([]string{"none", "none", "all", "mixed"}).Draw(rt, "absMode")
	for i := range r.Args {
		switch absMode {
		case "all":
			r.AbsArg = append(r.AbsArg, true)
		case "mixed":
			r.AbsArg = append(r.AbsArg, rapid.Bool().Draw(rt, fmt.Sprintf("abs%d", i)))
		default:
			r.AbsArg = append(r.AbsArg, false)
		}
	}
	return cs
}

// c06NoApply decides, without gopatch, that change ch does not apply to src.
// ok=false: not decided (the change may apply, or the reference cannot tell).
func c06NoApply(ch *c06Change, src string, tree *ref.Tree) (ok bool, why string) {
	switch ch.Kind {
	case "special":
		if ch.Needle != "" && !strings.Contains(src, ch.Needle) {
			return true, "needle-absent"
		}
		if re := c06Exact[ch.Label]; re != nil && !re.MatchString(src) {
			return true, "only-near-misses"
		}
		return false, "needle-present"
	case "guarded":
		switch {
		case strings.HasPrefix(ch.Guard, "package:file-is-external-test:"), strings.HasPrefix(ch.Guard, "package:guard-is-prefix:"):
			// the guard names package X; any other name, X_test included, is another package
			if ref.PackageOf(tree) != ch.Guard[strings.LastIndex(ch.Guard, ":")+1:] {
				return true, "guard:" + ch.Guard[:strings.LastIndex(ch.Guard, ":")]
			}
		case strings.HasPrefix(ch.Guard, "package"):
			if ref.PackageOf(tree) != "c06nosuchpkg" {
				return true, "guard:" + ch.Guard
			}
		default:
			for _, im := range ref.ImportsOf(tree) {
				if im.Path == "example.com/c06/absent" || im.Name == "c06name" {
					return false, "guard-holds"
				}
			}
			return true, "guard:" + ch.Guard
		}
		return false, "guard-holds"
	case "mined":
		p, err := ref.ParseSpec(ch.Spec)
		if err != nil {
			return false, "reference-cannot-parse-pattern"
		}
		res := p.Apply(tree)
		if res.Err != nil || res.Ambiguous {
			return false, "reference-undecided"
		}
		if len(res.Sites) == 0 && res.Optional == 0 && res.Inadmissible == 0 && !res.Applies {
			return true, "reference:no-site"
		}
		if len(res.Sites) == 0 && res.Optional == 0 && res.Inadmissible > 0 && !res.Applies && len(ch.Spec.ImportsPlus) == 0 && ch.Spec.PkgPlus == ch.Spec.PkgMinus {
			// the '-' side occurs, but nowhere can the replacement be put:
			// gopatch leaves such places alone, so nothing is applied
			return true, "reference:only-inadmissible-sites"
		}
		return false, "reference:site"
	}
	return false, "unknown-kind"
}

type c06Info struct {
	Unjudged   string
	Harness    string
	Foreign    []string
	Classes    []string
	Nontrivial bool
	Judged     []string
}

func (i *c06Info) class(f string, a ...any) { i.Classes = append(i.Classes, fmt.Sprintf(f, a...)) }

func evalC06(cs *c06Case) (sig, msg string, info c06Info) {
	r := &cs.Run
	base, cleanup := run.TempDir("c06-")
	defer cleanup()
	root := filepath.Join(base, "w")
	names, provided := c12Provided(r, root)
	if len(names) == 0 {
		info.Unjudged = "no file covered"
		return
	}
	abs := func(n string) string { return filepath.Join(root, filepath.FromSlash(n)) }

	// Which covered files are decided "nothing applies"?
	judged := map[string]bool{}
	for _, n := range names {
		f := r.file(n)
		tree, err := parseTree([]byte(f.Src))
		if err != nil {
			continue
		}
		all := true
		for i := range cs.Changes {
			ok, why := c06NoApply(&cs.Changes[i], f.Src, tree)
			info.class("decision:%s:%s", cs.Changes[i].Kind, strings.SplitN(why, ":", 2)[0])
			if !ok {
				all = false
			}
		}
		if !all {
			continue
		}
		judged[n] = true
		info.Judged = append(info.Judged, n+"["+f.Role+"]")
		canonical := gofmtStable(f.Src)
		guardedOwn := strings.HasPrefix(f.Role, "made-for:guarded")
		if !canonical {
			info.class("judged:not-gofmt-stable")
		}
		if guardedOwn {
			info.class("judged:pattern-present-guard-fails")
		}
		if !canonical || guardedOwn {
			info.Nontrivial = true
		}
		for _, tag := range strings.Split(f.Role, "+")[1:] {
			info.class("judged-layout:%s", tag)
		}
	}
	if len(judged) == 0 {
		info.Unjudged = "something applies to every file (or the reference cannot tell)"
		return
	}
	allJudged := len(judged) == len(names)
	if allJudged {
		info.class("run:nothing-applies-anywhere")
	} else {
		info.class("run:mixed")
		// is a matching file processed before a judged one?
		seenOther := false
		for _, n := range names {
			if !judged[n] {
				seenOther = true
			} else if seenOther {
				info.class("run:judged-file-after-other-file")
				break
			}
		}
	}
	show := func() string {
		return fmt.Sprintf("judged (nothing applies): %s\n%s", strings.Join(info.Judged, " "), r.describe())
	}
	logLine := func(l string) bool {
		for _, n := range names {
			a := abs(n)
			if l == a+": patched" || l == a+": skipped" || l == "generated file "+a+": skipped" || strings.HasPrefix(l, a+": failed: ") {
				return true
			}
		}
		return false
	}

	for _, mode := range []string{"inplace", "diff", "print"} {
		o := c12Exec(base, r, mode)
		switch {
		case o.Bad == "":
		case strings.HasPrefix(o.Bad, "harness:"):
			info.Harness = mode + ": " + o.Bad
			return
		default:
			info.Foreign = append(info.Foreign, "C08:cli-"+o.Bad)
			info.Unjudged = mode + ": " + o.Bad
			return
		}
		if strings.Contains(o.Stderr, "load patch") {
			info.Unjudged = "patch rejected by the CLI"
			return
		}
		flags := strings.Join(o.Argv, " ")
		// Disk: bytes, mode, mtime, inode of every judged file; no new entries
		// beside them.
		for _, d := range o.TreeDiff {
			for n := range judged {
				if strings.HasPrefix(d, "changed w/"+n+":") || strings.HasPrefix(d, "removed w/"+n) {
					what := "rewritten with the same bytes (mtime / inode changed)"
					if o.Files[n] != r.file(n).Src {
						what = "modified: " + c14FirstDiff(r.file(n).Src, o.Files[n]) + " (before vs after)"
					}
					return "unmatched-file-touched:" + mode, fmt.Sprintf("gopatch %s: no change applies to %s, yet the file was %s\n  %s\n%s", flags, n, what, d, show()), info
				}
			}
			if strings.HasPrefix(d, "created ") && allJudged {
				return "entry-created:" + mode, fmt.Sprintf("gopatch %s: nothing applies to any file, yet an entry appeared: %s\n%s", flags, d, show()), info
			}
		}
		comments, errs := c14SplitStderr(o.Stderr)
		// No description, no diff for a judged file.
		for n := range judged {
			for _, l := range strings.Split(comments, "\n") {
				if strings.HasPrefix(l, provided[n]+":") {
					return "description-for-unmatched-file:" + mode, fmt.Sprintf("gopatch %s prints %q on stderr although no change applies to %s\n%s", flags, trunc(l, 300), n, show()), info
				}
			}
			if errs != "" && strings.Contains(errs, abs(n)) {
				return "error-for-unmatched-file:" + mode, fmt.Sprintf("gopatch %s reports an error for %s, to which no change applies: %s\n%s", flags, n, trunc(errs, 400), show()), info
			}
			if mode == "diff" && (strings.Contains(o.Stdout, "--- "+provided[n]+"\n") || strings.Contains(o.Stdout, "+++ "+provided[n]+"\n")) {
				return "diff-for-unmatched-file", fmt.Sprintf("gopatch %s prints a diff for %s, to which no change applies:\n%s\n%s", flags, n, trunc(o.Stdout, 800), show()), info
			}
		}
		if allJudged {
			if o.Exit != 0 {
				return "exit-status:" + mode, fmt.Sprintf("gopatch %s: nothing applies to any file, exit status %d, stderr %q\n%s", flags, o.Exit, trunc(o.Stderr, 400), show()), info
			}
			if o.Stderr != "" {
				return "stderr-not-empty:" + mode, fmt.Sprintf("gopatch %s: nothing applies to any file, yet stderr is %q\n%s", flags, trunc(o.Stderr, 400), show()), info
			}
		} else if o.Exit != 0 {
			info.class("mixed-run-exit-nonzero")
		}
		// stdout.
		switch mode {
		case "inplace", "diff":
			if allJudged {
				for _, l := range strings.Split(strings.TrimSuffix(o.Stdout, "\n"), "\n") {
					if o.Stdout == "" {
						break
					}
					if !r.Verbose || !logLine(l) {
						return "stdout-not-empty:" + mode, fmt.Sprintf("gopatch %s: nothing applies to any file, yet stdout has %q\n%s", flags, trunc(l, 300), show()), info
					}
				}
			}
		case "print":
			if allJudged {
				// exactly the original bytes in path order (+ log lines with -v;
				// nothing for a generated file that is skipped)
				var slots [][]string
				for _, n := range names {
					f := r.file(n)
					a := abs(n)
					switch {
					case r.SkipGen && c12IsGenerated(f):
						if r.Verbose {
							slots = append(slots, []string{"generated file " + a + ": skipped\n"})
						}
					case r.Verbose:
						slots = append(slots, []string{f.Src + a + ": skipped\n"})
					default:
						slots = append(slots, []string{f.Src})
					}
				}
				if !c12MatchConcat(o.Stdout, slots) {
					var want strings.Builder
					for _, s := range slots {
						want.WriteString(s[0])
					}
					return "print-only-does-not-echo-original", fmt.Sprintf("gopatch %s: nothing applies to any file; stdout must be the original bytes of the files in path order, but: %s (printed vs original)\n%s",
						flags, c14FirstDiff(o.Stdout, want.String()), show()), info
				}
			} else {
				for n := range judged {
					f := r.file(n)
					if r.SkipGen && c12IsGenerated(f) {
						continue
					}
					if !strings.Contains(o.Stdout, f.Src) {
						return "print-only-does-not-echo-original", fmt.Sprintf("gopatch %s: no change applies to %s, but its original bytes do not appear on stdout\n%s", flags, n, show()), info
					}
				}
			}
		}
	}

	// Library.
	pf, res := run.ParseOnly("p.patch", []byte(strings.Join(r.Changes, "")))
	if pf == nil || res.Failed() {
		info.class("library-rejects-joined-patch")
	} else {
		for n := range judged {
			f := r.file(n)
			ra := run.ApplyParsed(pf, n, []byte(f.Src))
			switch {
			case ra.Failed():
				info.Foreign = append(info.Foreign, "C08:api")
			case ra.ApplyErr != "":
				return "api-error-for-unmatched-file", fmt.Sprintf("patch.File.Apply fails for %s, to which no change applies: %s\n%s", n, trunc(ra.ApplyErr, 300), show()), info
			case string(ra.Out) != f.Src:
				return "api-changes-unmatched-file", fmt.Sprintf("patch.File.Apply does not return the input bytes for %s, to which no change applies: %s (input vs returned)\n%s", n, c14FirstDiff(f.Src, string(ra.Out)), show()), info
			}
			info.class("api-compared")
		}
	}
	info.class("judged-files:%d", len(judged))
	info.class("flags:v=%v,gen=%v,imp=%v", r.Verbose, r.SkipGen, r.SkipImports)
	if r.Stdin {
		info.class("patch-on-stdin")
	}
	return "", "", info
}

func TestC06(t *testing.T) {
	c := coll("C06")
	checkN(t, func(rt *rapid.T) {
		cs := c06DrawCase(rt)
		sig, msg, info := evalC06(cs)
		if info.Harness != "" {
			c.Note("harness:" + info.Harness)
			return
		}
		for _, f := range info.Foreign {
			c.Foreign(f)
		}
		if info.Unjudged != "" {
			c.Note("unjudged:" + strings.SplitN(info.Unjudged, ":", 2)[0])
			return
		}
		r := &cs.Run
		parts := append([]string{}, r.Changes...)
		for _, f := range r.Files {
			parts = append(parts, f.Name, f.Src)
		}
		parts = append(parts, r.Args...)
		parts = append(parts, fmt.Sprint(r.AbsArg, r.Verbose, r.SkipGen, r.SkipImports, r.Stdin))
		c.Case(evid.Hash(parts...), info.Nontrivial, info.Classes...)
		if info.Nontrivial && c.WantSample() {
			c.Sample(map[string]any{"changes": r.Labels, "judged": info.Judged, "args": r.Args,
				"flags": fmt.Sprintf("v=%v skip-generated=%v skip-import-processing=%v stdin=%v", r.Verbose, r.SkipGen, r.SkipImports, r.Stdin),
				"patch": trunc(strings.Join(r.Changes, ""), 500)})
		}
		if sig != "" {
			violate(rt, "C06", sig, msg, cs)
		}
	})
}

func TestReplayC06(t *testing.T) {
	var cs c06Case
	if !loadReplay(t, "C06", &cs) {
		return
	}
	sig, msg, _ := evalC06(&cs)
	if sig != "" {
		violate(t, "C06", sig, msg, &cs)
	}
}
