package props

import (
	"fmt"
	"go/format"
	"strings"

	"pgregory.net/rapid"
)

// Text-level deformations that keep a Go file parseable but make it
// non-canonical: anything gofmt, the import sorter or a line-ending
// normaliser would change. Used by C06 (an unmatched file must keep exactly
// these bytes) and C12 (the output modes must agree whatever the layout of
// the input).

type deformation struct {
	Name string
	Fn   func(rt *rapid.T, src, label string) string
}

// pickLines applies f to 1-4 drawn lines of src (lines are kept with their
// terminators).
func pickLines(rt *rapid.T, src, label string, ok func(l string) bool, f func(l string) string) string {
	lines := strings.SplitAfter(src, "\n")
	var cand []int
	for i, l := range lines {
		if ok(l) {
			cand = append(cand, i)
		}
	}
	if len(cand) == 0 {
		return src
	}
	n := rapid.IntRange(1, 4).Draw(rt, label+"n")
	for k := 0; k < n; k++ {
		i := cand[rapid.IntRange(0, len(cand)-1).Draw(rt, fmt.Sprintf("%sl%d", label, k))]
		lines[i] = f(lines[i])
	}
	return strings.Join(lines, "")
}

func splitEOL(l string) (body, eol string) {
	switch {
	case strings.HasSuffix(l, "\r\n"):
		return l[:len(l)-2], "\r\n"
	case strings.HasSuffix(l, "\n"):
		return l[:len(l)-1], "\n"
	}
	return l, ""
}

var deformations = []deformation{
	{"crlf", func(rt *rapid.T, src, label string) string {
		return strings.ReplaceAll(strings.ReplaceAll(src, "\r\n", "\n"), "\n", "\r\n")
	}},
	{"crlf-some-lines", func(rt *rapid.T, src, label string) string {
		return pickLines(rt, src, label, func(l string) bool { return strings.HasSuffix(l, "\n") && !strings.HasSuffix(l, "\r\n") },
			func(l string) string { return l[:len(l)-1] + "\r\n" })
	}},
	{"no-final-newline", func(rt *rapid.T, src, label string) string {
		return strings.TrimRight(src, "\r\n")
	}},
	{"extra-final-newlines", func(rt *rapid.T, src, label string) string {
		return src + strings.Repeat("\n", rapid.IntRange(1, 3).Draw(rt, label+"k"))
	}},
	{"trailing-space", func(rt *rapid.T, src, label string) string {
		return pickLines(rt, src, label, func(l string) bool { return strings.TrimSpace(l) != "" },
			func(l string) string { b, e := splitEOL(l); return b + " \t"[0:1+len(b)%2] + e })
	}},
	{"indent-spaces", func(rt *rapid.T, src, label string) string {
		return pickLines(rt, src, label, func(l string) bool { return strings.HasPrefix(l, "\t") },
			func(l string) string {
				i := 0
				for i < len(l) && l[i] == '\t' {
					i++
				}
				return strings.Repeat("    ", i) + l[i:]
			})
	}},
	{"over-indent", func(rt *rapid.T, src, label string) string {
		return pickLines(rt, src, label, func(l string) bool {
			return strings.HasPrefix(l, "\t") && !strings.HasPrefix(strings.TrimSpace(l), "//")
		},
			func(l string) string { return "\t\t" + l })
	}},
	{"tight-operators", func(rt *rapid.T, src, label string) string {
		return pickLines(rt, src, label, func(l string) bool {
			return strings.Contains(l, " := ") || strings.Contains(l, " = ") || strings.Contains(l, ", ")
		},
			func(l string) string {
				l = strings.Replace(l, " := ", ":=", 1)
				l = strings.Replace(l, " = ", "=", 1)
				return strings.Replace(l, ", ", " ,  ", 1)
			})
	}},
	{"semicolons", func(rt *rapid.T, src, label string) string {
		return pickLines(rt, src, label, func(l string) bool {
			b, _ := splitEOL(l)
			return strings.HasPrefix(l, "\t") && strings.HasSuffix(b, ")")
		},
			func(l string) string { b, e := splitEOL(l); return b + ";" + e })
	}},
	{"blank-lines", func(rt *rapid.T, src, label string) string {
		return pickLines(rt, src, label, func(l string) bool { return strings.HasSuffix(l, "\n") },
			func(l string) string { return l + "\n\n" })
	}},
	{"odd-comments", func(rt *rapid.T, src, label string) string {
		odd := []string{"/**/\n", "//\n", "//nolint:all\n", "/* two\n   lines */\n", "\t\t// over-indented comment\n", "//go:generate echo c06\n", "// TODO(x):no space\n", "/*a*/ /*b*/\n"}
		c := odd[rapid.IntRange(0, len(odd)-1).Draw(rt, label+"which")]
		return pickLines(rt, src, label, func(l string) bool { return strings.HasSuffix(l, "\n") },
			func(l string) string { return l + c })
	}},
	{"legacy-build-tag", func(rt *rapid.T, src, label string) string {
		if strings.Contains(src, "go:build") || strings.Contains(src, "+build") {
			return src
		}
		return "// +build linux darwin\n\n" + src
	}},
	{"build-tag", func(rt *rapid.T, src, label string) string {
		if strings.Contains(src, "go:build") || strings.Contains(src, "+build") {
			return src
		}
		return "//go:build !c06never\n\n" + src
	}},
	{"unsorted-imports", func(rt *rapid.T, src, label string) string {
		lines := strings.SplitAfter(src, "\n")
		for i, l := range lines {
			if strings.TrimSpace(l) != "import (" {
				continue
			}
			j := i + 1
			for j < len(lines) && strings.TrimSpace(lines[j]) != ")" {
				t := strings.TrimSpace(lines[j])
				if t == "" || !strings.HasSuffix(t, "\"") {
					return src // grouped / commented block: leave it
				}
				j++
			}
			if j >= len(lines) || j-i-1 < 2 {
				return src
			}
			specs := lines[i+1 : j]
			for a, b := 0, len(specs)-1; a < b; a, b = a+1, b-1 {
				specs[a], specs[b] = specs[b], specs[a]
			}
			// and a duplicate of the first one, which the import sorter merges
			if rapid.Bool().Draw(rt, label+"dup") {
				lines[j] = specs[0] + lines[j]
			}
			return strings.Join(lines, "")
		}
		return src
	}},
	{"long-line", func(rt *rapid.T, src, label string) string {
		// a line longer than 64 KiB (the default limit of a bufio.Scanner),
		// with more code after it
		if strings.Contains(src, "deformBlob") {
			return src
		}
		nl := "\n"
		if strings.Contains(src, "\r\n") {
			nl = "\r\n"
		}
		return src + nl + "var deformBlob = \"" + strings.Repeat("y", 66000+rapid.IntRange(0, 9000).Draw(rt, label+"len")) + "\"" + nl + nl + "func deformAfterBlob() string { return deformBlob }" + nl
	}},
	{"many-lines", func(rt *rapid.T, src, label string) string {
		// more than a thousand lines, most of them equal to their neighbours
		// but one, and the same run of lines before the first function too
		if strings.Contains(src, "deformMany") {
			return src
		}
		nl := "\n"
		if strings.Contains(src, "\r\n") {
			nl = "\r\n"
		}
		n := rapid.IntRange(300, 700).Draw(rt, label+"n")
		var b strings.Builder
		b.WriteString(nl + "func deformMany() {" + nl)
		for i := 0; i < n; i++ {
			b.WriteString("\tdeformSink()" + nl + nl)
		}
		b.WriteString("}" + nl)
		// and blank lines around the statements of the file itself
		lines := strings.SplitAfter(src, "\n")
		for i, l := range lines {
			if strings.HasPrefix(l, "\t") && !strings.HasPrefix(l, "\t\t") && strings.HasSuffix(strings.TrimSpace(l), ")") && rapid.IntRange(0, 2).Draw(rt, fmt.Sprintf("%sgap%d", label, i)) == 0 {
				lines[i] = nl + l + nl
			}
		}
		return strings.Join(lines, "") + b.String()
	}},
	{"line-directives", func(rt *rapid.T, src, label string) string {
		// generated source (goyacc, cgo): //line directives in front of some
		// functions; positions after them are reported for another file
		// and other lines, often far beyond the end of this file
		return pickLines(rt, src, label, func(l string) bool { return strings.HasPrefix(l, "func ") },
			func(l string) string {
				_, e := splitEOL(l)
				if e == "" {
					e = "\n"
				}
				n := []int{1, 7, 400, 9000}[len(l)%4]
				return fmt.Sprintf("//line gen.y:%d%s", n, e) + l
			})
	}},
	{"import-to-group", func(rt *rapid.T, src, label string) string {
		// import "x"  ->  import ( "x" )  on one line, spaced oddly
		return pickLines(rt, src, label, func(l string) bool { return strings.HasPrefix(l, "import \"") },
			func(l string) string {
				b, e := splitEOL(l)
				return "import (  " + strings.TrimPrefix(b, "import ") + "  )" + e
			})
	}},
}

// deform applies 1-3 drawn deformations to src, keeping each only if the
// result still parses. It returns the text and the names of the
// deformations that were kept and changed something.
func deform(rt *rapid.T, src, label string) (string, []string) {
	n := rapid.IntRange(1, 3).Draw(rt, label+"nDeform")
	var tags []string
	for k := 0; k < n; k++ {
		d := deformations[rapid.IntRange(0, len(deformations)-1).Draw(rt, fmt.Sprintf("%sd%d", label, k))]
		out := d.Fn(rt, src, fmt.Sprintf("%sd%d", label, k))
		if out == src || !c14Parses(out) {
			continue
		}
		src = out
		tags = append(tags, d.Name)
	}
	return src, tags
}

// gofmtStable reports whether format.Source leaves src as it is.
func gofmtStable(src string) bool {
	out, err := format.Source([]byte(src))
	return err == nil && string(out) == src
}
