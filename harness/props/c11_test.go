package props

import (
	"fmt"
	"go/ast"
	"go/parser"
	"go/token"
	"sort"
	"strconv"
	"strings"
	"testing"

	"github.com/uber-go/gopatch/verif/evid"
	"github.com/uber-go/gopatch/verif/gen"
	"github.com/uber-go/gopatch/verif/run"
	"pgregory.net/rapid"
)

// C11 — imports change only as the patch dictates; unrelated imports survive.
//
// Part (a): generated files with 0-8 bystander imports in every form and one
// or two "subject" imports, and patches that add, delete, rename or merely
// match imports, with drawn remaining uses of the affected package names.
// The oracle works on the multiset of (name, path) import specs.
// Part (b): mined patterns carrying '+import' lines on real hosts (shared
// machinery; bystanders of real files must survive, the added import must be
// present once).

type c11Import struct {
	Name string `json:"name,omitempty"`
	Path string `json:"path"`
}

func (i c11Import) key() string { return i.Name + " " + i.Path }

type c11Case struct {
	// Patch side.
	Kind     string `json:"kind"`      // replace | delete | add | match | rename-name
	NameForm string `json:"name_form"` // how the patch names the subject import: unnamed | literal | meta
	Second   string `json:"second"`    // none | delete-second | add-second: a second import line in the patch
	// File side.
	FileName   string      `json:"file_name"` // name under which the file imports the subject path ("" unnamed)
	Bystanders []c11Import `json:"bystanders"`
	Layout     string      `json:"layout"` // group | singles | two-blocks | commented
	SubjectPos int         `json:"subject_pos"`
	Remaining  string      `json:"remaining"` // none | plain | nested-selector | call-selector | index-selector | in-func-lit
	Sites      int         `json:"sites"`
	SecondUsed bool        `json:"second_used"`          // the second deleted import is still used
	PathStyle  string      `json:"path_style,omitempty"` // "" plain | gopkg (gopkg.in/yaml.v2 -> v3) | slashv (example.com/codec/v2 -> v3)
	// FileCase: the file imports a path that differs from the subject path
	// in the case of one letter (Sirupsen / sirupsen): another path, which
	// the patch does not mention. Nothing applies.
	FileCase bool `json:"file_case,omitempty"`
	// ExprMeta (name form "meta", the file names the import): the
	// metavariable that names the import is declared "expression". It
	// still stands for the name the file uses.
	ExprMeta bool `json:"expr_meta,omitempty"`
}

// c11Paths returns the subject path, the path that replaces it, and the
// names by which Go code refers to those packages when they are imported
// without a name (a major-version element is not the package name).
func c11Paths(style string) (oldPath, newPath, oldName, newName string) {
	switch style {
	case "gopkg":
		return "gopkg.in/yaml.v2", "gopkg.in/yaml.v3", "yaml", "yaml"
	case "slashv":
		return "example.com/codec/v2", "example.com/codec/v3", "codec", "codec"
	case "offname":
		// the package name occurs nowhere in the path: only a name in the patch
		// (literal or metavariable) or in the file can supply it
		return "example.com/oldp-go/client", "example.com/newp-go/client", "oldp", "newp"
	}
	return c11Old, c11New, "oldp", "newp"
}

const (
	c11Old    = "example.com/lib/oldp"
	c11New    = "example.com/lib/newp"
	c11Second = "example.com/lib/secp"
	c11Added  = "example.com/lib/addp"
)

// c11Build renders the patch and the file, and returns the oracle's
// expectations.
type c11Expect struct {
	MustHave    []c11Import // must be present exactly once
	MustNotHave []c11Import // must be absent
	Either      []c11Import // not judged
	Applies     bool
}

func c11PkgName(name, path string, metaName string) string {
	if name != "" {
		return name
	}
	if metaName != "" {
		return metaName // documented: spelled like the metavariable when the import is unnamed
	}
	return path[strings.LastIndex(path, "/")+1:]
}

func c11Build(cs *c11Case) (patch, file string, ex c11Expect) {
	c11Old, c11New, oldName, newName := c11Paths(cs.PathStyle)
	// --- patch ---
	var p strings.Builder
	p.WriteString("@@\n")
	if cs.NameForm == "meta" {
		if cs.ExprMeta {
			p.WriteString("var oldp expression\n")
		} else {
			p.WriteString("var oldp identifier\n")
		}
	}
	p.WriteString("var x expression\n@@\n")
	imp := func(name, path string) string {
		if name != "" {
			return fmt.Sprintf("import %s %q", name, path)
		}
		return fmt.Sprintf("import %q", path)
	}
	patchName := ""
	switch cs.NameForm {
	case "literal":
		patchName = cs.FileName // the guard must hold: same literal name
	case "meta":
		patchName = "oldp"
	}
	// name by which the file's code refers to the subject package
	pkg := oldName
	if cs.FileName != "" {
		pkg = cs.FileName
	}
	if cs.NameForm == "meta" && cs.FileName == "" {
		pkg = "oldp"
	}
	newPkg := newName
	switch cs.Kind {
	case "replace":
		p.WriteString("-" + imp(patchName, c11Old) + "\n")
		p.WriteString("+" + imp("", c11New) + "\n")
	case "rename-path-keep-name":
		// documented "changing any import": the name (or its absence) is preserved
		p.WriteString("-" + imp(patchName, c11Old) + "\n")
		p.WriteString("+" + imp(patchName, c11New) + "\n")
		newPkg = pkg
	case "rename-name-keep-path":
		// the same path under a new name; uses that the change does not
		// rewrite keep referring to the old one
		p.WriteString("-" + imp(patchName, c11Old) + "\n")
		p.WriteString("+" + imp("renq", c11Old) + "\n")
		newPkg = "renq"
	case "delete":
		p.WriteString("-" + imp(patchName, c11Old) + "\n")
	case "add":
		p.WriteString("+" + imp("", c11Added) + "\n")
	case "match":
		p.WriteString(" " + imp(patchName, c11Old) + "\n")
	}
	switch cs.Second {
	case "delete-second":
		p.WriteString("-" + imp("", c11Second) + "\n")
	case "add-second":
		p.WriteString("+" + imp("adq", c11Added+"2") + "\n")
	}
	p.WriteString("\n")
	// body: rewrite calls of Do through the subject package
	patPkg := pkg
	if cs.NameForm == "meta" {
		patPkg = "oldp"
	}
	switch cs.Kind {
	case "replace", "rename-path-keep-name", "rename-name-keep-path":
		to := map[bool]string{true: patPkg, false: newPkg}[cs.Kind == "rename-path-keep-name"]
		method := "Do"
		if to == patPkg {
			method = "DoNew" // the package name stays: the rewritten call must still differ
		}
		p.WriteString(fmt.Sprintf("-%s.Do(x)\n+%s.%s(x)\n", patPkg, to, method))
	case "delete":
		p.WriteString(fmt.Sprintf("-%s.Do(x)\n+localDo(x)\n", patPkg))
	case "add":
		p.WriteString(fmt.Sprintf("-%s.Do(x)\n+addp.Do(%s.Wrap(x))\n", patPkg, patPkg))
	case "match":
		p.WriteString(fmt.Sprintf("-%s.Do(x)\n+%s.DoBetter(x)\n", patPkg, patPkg))
	}

	// --- file ---
	subject := c11Import{Name: cs.FileName, Path: c11Old}
	if cs.FileCase {
		i := strings.LastIndexAny(c11Old, "abcdefghijklmnopqrstuvwxyz")
		subject.Path = c11Old[:i] + strings.ToUpper(c11Old[i:i+1]) + c11Old[i+1:]
	}
	specs := append([]c11Import{}, cs.Bystanders...)
	pos := cs.SubjectPos
	if pos > len(specs) {
		pos = len(specs)
	}
	specs = append(specs[:pos:pos], append([]c11Import{subject}, specs[pos:]...)...)
	if cs.Second == "delete-second" {
		specs = append(specs, c11Import{Path: c11Second})
	}
	line := func(i c11Import) string {
		if i.Name != "" {
			return fmt.Sprintf("%s %q", i.Name, i.Path)
		}
		return fmt.Sprintf("%q", i.Path)
	}
	var f strings.Builder
	f.WriteString("// Package foo is a test subject.\npackage foo\n\n")
	switch cs.Layout {
	case "singles":
		for _, s := range specs {
			f.WriteString("import " + line(s) + "\n")
		}
		f.WriteString("\n")
	case "two-blocks":
		half := len(specs) / 2
		for _, blk := range [][]c11Import{specs[:half], specs[half:]} {
			if len(blk) == 0 {
				continue
			}
			f.WriteString("import (\n")
			for _, s := range blk {
				f.WriteString("\t" + line(s) + "\n")
			}
			f.WriteString(")\n\n")
		}
	case "commented":
		f.WriteString("import (\n")
		for i, s := range specs {
			if i%2 == 0 {
				f.WriteString(fmt.Sprintf("\t// doc for import %d\n", i))
			}
			f.WriteString("\t" + line(s))
			if i%3 == 0 {
				f.WriteString(fmt.Sprintf(" // trailing %d", i))
			}
			f.WriteString("\n")
			if i == len(specs)/2 {
				f.WriteString("\n")
			}
		}
		f.WriteString(")\n\n")
	default:
		f.WriteString("import (\n")
		for _, s := range specs {
			f.WriteString("\t" + line(s) + "\n")
		}
		f.WriteString(")\n\n")
	}
	// uses of bystanders that have a usable name
	f.WriteString("func useBystanders() {\n")
	for _, b := range cs.Bystanders {
		n := c11PkgName(b.Name, b.Path, "")
		if b.Name == "_" || b.Name == "." {
			continue
		}
		f.WriteString(fmt.Sprintf("\t%s.Use()\n", n))
	}
	f.WriteString("}\n\n")
	f.WriteString("func sites() {\n")
	for i := 0; i < cs.Sites; i++ {
		f.WriteString(fmt.Sprintf("\t%s.Do(%d)\n", pkg, i))
	}
	if cs.Second == "delete-second" && cs.SecondUsed {
		f.WriteString("\tsecp.Keep()\n")
	}
	f.WriteString("}\n\n")
	switch cs.Remaining {
	case "plain":
		f.WriteString(fmt.Sprintf("func rest() {\n\t%s.Other()\n}\n", pkg))
	case "nested-selector":
		f.WriteString(fmt.Sprintf("func rest() int {\n\treturn %s.Defaults.Timeout\n}\n", pkg))
	case "call-selector":
		f.WriteString(fmt.Sprintf("func rest() string {\n\treturn %s.NewClient().Name\n}\n", pkg))
	case "index-selector":
		f.WriteString(fmt.Sprintf("func rest() string {\n\treturn %s.Table[0].Name\n}\n", pkg))
	case "in-func-lit":
		f.WriteString(fmt.Sprintf("var rest = func() any {\n\treturn func() any { return %s.Deep }\n}\n", pkg))
	case "type-position":
		f.WriteString(fmt.Sprintf("func rest(c *%s.Client, m map[string]%s.Opt) {}\n", pkg, pkg))
	case "shadowed-param":
		// a parameter named like the package: its selectors do not refer to the package
		f.WriteString(fmt.Sprintf("type localT struct{ N int }\n\nfunc (localT) Flush() {}\n\nfunc rest(%s *localT) int {\n\t%s.Flush()\n\treturn %s.N\n}\n", pkg, pkg, pkg))
	case "shadowed-var":
		f.WriteString(fmt.Sprintf("type localT struct{ N int }\n\nfunc rest() int {\n\t%s := localT{}\n\tfor i := 0; i < 2; i++ {\n\t\t%s.N++\n\t}\n\treturn %s.N\n}\n", pkg, pkg, pkg))
	case "shadowed-receiver":
		f.WriteString(fmt.Sprintf("type localT struct{ N int }\n\nfunc (%s localT) Rest() int {\n\treturn %s.N\n}\n", pkg, pkg))
	}

	// --- expectations ---
	// (kind "add" does not mention the subject import: it applies anyway)
	ex.Applies = cs.Sites > 0 && !(cs.FileCase && cs.Kind != "add")
	if !ex.Applies {
		// nothing matches: every import stays
		for _, s := range specs {
			ex.MustHave = append(ex.MustHave, s)
		}
		return p.String(), f.String(), ex
	}
	for _, b := range cs.Bystanders {
		ex.MustHave = append(ex.MustHave, b)
	}
	stillUsed := cs.Remaining != "none" && !strings.HasPrefix(cs.Remaining, "shadowed-")
	switch cs.Kind {
	case "replace":
		ex.MustHave = append(ex.MustHave, c11Import{Path: c11New})
		if newPkg == pkg {
			// the added import supplies the same package name (a version bump
			// of an unnamed import): whatever still says pkg.X refers to it
			ex.MustNotHave = append(ex.MustNotHave, subject)
		} else if stillUsed {
			ex.MustHave = append(ex.MustHave, subject)
		} else {
			ex.MustNotHave = append(ex.MustNotHave, subject)
		}
	case "rename-name-keep-path":
		ex.MustHave = append(ex.MustHave, c11Import{Name: "renq", Path: c11Old})
		if stillUsed {
			ex.MustHave = append(ex.MustHave, subject)
		} else {
			ex.MustNotHave = append(ex.MustNotHave, subject)
		}
	case "rename-path-keep-name":
		// the new import carries the captured / literal name and supplies the
		// same package name: the old one is gone even if the name is still used
		ex.MustHave = append(ex.MustHave, c11Import{Name: cs.FileName, Path: c11New})
		ex.MustNotHave = append(ex.MustNotHave, subject)
	case "delete":
		if stillUsed {
			ex.MustHave = append(ex.MustHave, subject)
		} else {
			ex.MustNotHave = append(ex.MustNotHave, subject)
		}
	case "add":
		// the subject import is not mentioned by the patch: it is a bystander
		ex.MustHave = append(ex.MustHave, subject, c11Import{Path: c11Added})
	case "match":
		// matched on a context line and still used (DoBetter): the property
		// says a matched import that is still referred to is kept
		ex.MustHave = append(ex.MustHave, subject)
	}
	switch cs.Second {
	case "delete-second":
		if cs.SecondUsed {
			ex.MustHave = append(ex.MustHave, c11Import{Path: c11Second})
		} else {
			ex.MustNotHave = append(ex.MustNotHave, c11Import{Path: c11Second})
		}
	case "add-second":
		ex.MustHave = append(ex.MustHave, c11Import{Name: "adq", Path: c11Added + "2"})
	}
	return p.String(), f.String(), ex
}

func c11Imports(src []byte) ([]c11Import, error) {
	f, err := parser.ParseFile(token.NewFileSet(), "f.go", src, parser.ImportsOnly)
	if err != nil {
		return nil, err
	}
	var out []c11Import
	for _, s := range f.Imports {
		i := c11Import{}
		if s.Name != nil {
			i.Name = s.Name.Name
		}
		i.Path, _ = strconv.Unquote(s.Path.Value)
		out = append(out, i)
	}
	return out, nil
}

var _ = ast.Inspect

func evalC11(cs *c11Case) (sig, msg string, ex c11Expect) {
	patch, file, ex := c11Build(cs)
	if _, err := parser.ParseFile(token.NewFileSet(), "f.go", file, 0); err != nil {
		return "", "harness: file does not parse: " + err.Error(), ex
	}
	r := run.API("p.patch", []byte(patch), "f.go", []byte(file))
	switch {
	case r.Failed():
		return "", "foreign:C08", ex
	case r.ParseErr != "":
		return "rejected", fmt.Sprintf("gopatch rejects the patch: %s\n%s", r.ParseErr, patch), ex
	case r.ApplyErr != "":
		return "apply-error", fmt.Sprintf("Apply fails: %s\npatch:\n%s\nfile:\n%s", r.ApplyErr, patch, file), ex
	}
	got, err := c11Imports(r.Out)
	if err != nil {
		return "", "foreign:C07", ex
	}
	count := map[string]int{}
	for _, g := range got {
		count[g.key()]++
	}
	before, _ := c11Imports([]byte(file))
	mentioned := map[string]bool{}
	for _, m := range ex.MustHave {
		mentioned[m.key()] = true
	}
	for _, m := range ex.MustNotHave {
		mentioned[m.key()] = true
	}
	describe := func() string {
		var b, a []string
		for _, i := range before {
			b = append(b, i.key())
		}
		for _, i := range got {
			a = append(a, i.key())
		}
		sort.Strings(b)
		sort.Strings(a)
		return fmt.Sprintf("imports before: %v\nimports after:  %v\npatch:\n%s\nfile:\n%s\noutput:\n%s", b, a, patch, file, r.Out)
	}
	isBystander := func(i c11Import) bool {
		for _, b := range cs.Bystanders {
			if b == i {
				return true
			}
		}
		return false
	}
	for _, m := range ex.MustHave {
		want := 1
		// a bystander listed twice in the file is expected twice
		if isBystander(m) {
			want = 0
			for _, b := range cs.Bystanders {
				if b == m {
					want++
				}
			}
			if count[m.key()] != want {
				return "bystander-changed", fmt.Sprintf("unrelated import %q occurs %d times after the change, %d before\n%s", m.key(), count[m.key()], want, describe()), ex
			}
			continue
		}
		switch {
		case count[m.key()] == 0:
			class := "import-missing"
			if op, _, _, _ := c11Paths(cs.PathStyle); m.Path == op || m.Path == c11Second {
				class = "used-import-deleted"
			}
			if cs.PathStyle != "" {
				class += ":versioned-path"
			}
			return class + ":" + cs.Kind + ":" + cs.Remaining, fmt.Sprintf("import %q must be present after the change but is not\n%s", m.key(), describe()), ex
		case count[m.key()] > 1:
			return "import-duplicated", fmt.Sprintf("import %q occurs %d times\n%s", m.key(), count[m.key()], describe()), ex
		}
	}
	for _, m := range ex.MustNotHave {
		if count[m.key()] > 0 {
			return "unused-import-kept:" + cs.Kind + ":" + cs.Remaining + map[bool]string{true: ":versioned-path"}[cs.PathStyle != ""], fmt.Sprintf("import %q must be gone (nothing refers to it any more) but is still there\n%s", m.key(), describe()), ex
		}
	}
	// nothing unmentioned may be added
	for _, g := range got {
		if !mentioned[g.key()] {
			return "import-invented", fmt.Sprintf("import %q is neither in the input nor in the patch\n%s", g.key(), describe()), ex
		}
	}
	return "", "", ex
}

var (
	c11Kinds     = []string{"replace", "replace", "rename-path-keep-name", "rename-name-keep-path", "delete", "delete", "add", "match"}
	c11Remaining = []string{"none", "none", "plain", "nested-selector", "call-selector", "index-selector", "in-func-lit", "type-position", "shadowed-param", "shadowed-var", "shadowed-receiver"}
	c11Layouts   = []string{"group", "singles", "two-blocks", "commented"}
	c11ByPaths   = []string{"fmt", "os", "example.com/by/aa", "example.com/by/bb", "example.com/lib", "example.com/lib/oldp/sub", "example.com/lib/oldpx", "strings", "example.com/by/cc"}
	c11ByNames   = []string{"", "", "", "nm", "_", ".", "zz"}
	c11FileNames = []string{"", "", "custom", "oldp"}
)

func c11Draw(rt *rapid.T) *c11Case {
	cs := &c11Case{
		Kind:       rapid.SampledFrom(c11Kinds).Draw(rt, "kind"),
		NameForm:   rapid.SampledFrom([]string{"unnamed", "literal", "meta", "meta"}).Draw(rt, "nameForm"),
		Second:     rapid.SampledFrom([]string{"none", "none", "delete-second", "add-second"}).Draw(rt, "second"),
		FileName:   rapid.SampledFrom(c11FileNames).Draw(rt, "fileName"),
		Layout:     rapid.SampledFrom(c11Layouts).Draw(rt, "layout"),
		Remaining:  rapid.SampledFrom(c11Remaining).Draw(rt, "remaining"),
		Sites:      rapid.IntRange(0, 3).Draw(rt, "sites"),
		SecondUsed: rapid.Bool().Draw(rt, "secondUsed"),
		PathStyle:  rapid.SampledFrom([]string{"", "", "", "gopkg", "slashv", "offname"}).Draw(rt, "pathStyle"),
		FileCase:   rapid.IntRange(0, 11).Draw(rt, "fileCase") == 0,
	}
	if cs.PathStyle == "offname" {
		if cs.NameForm == "unnamed" {
			cs.NameForm = "meta"
		}
		if cs.Kind == "replace" || cs.Kind == "add" {
			// the added import is unnamed in the patch: its package name could only be guessed
			cs.Kind = "delete"
		}
	} else if cs.PathStyle != "" && cs.NameForm == "meta" {
		// a metavariable name that matches an unnamed import is spelled like the
		// metavariable in the code; keep versioned paths to the plain forms
		cs.NameForm = "unnamed"
	}
	if cs.Kind == "rename-path-keep-name" && cs.NameForm == "unnamed" {
		// an unnamed import of another path changes the package name: that
		// is the "replace" kind
		cs.Kind = "replace"
	}
	// make the guard hold
	switch cs.NameForm {
	case "unnamed":
		cs.FileName = ""
	case "literal":
		if cs.FileName == "" {
			cs.FileName = "custom"
		}
	}
	if cs.NameForm == "meta" && cs.FileName != "" && cs.FileName != "_" && cs.FileName != "." {
		cs.ExprMeta = rapid.IntRange(0, 4).Draw(rt, "exprMeta") == 0
	}
	n := rapid.IntRange(0, 8).Draw(rt, "nBy")
	usedNames := map[string]bool{c11PkgName(cs.FileName, c11Old, ""): true, "newp": true, "addp": true, "adq": true, "secp": true, "oldp": true, "yaml": true, "codec": true, "custom": true}
	seen := map[string]bool{}
	dots := 0
	for i := 0; i < n; i++ {
		b := c11Import{
			Name: rapid.SampledFrom(c11ByNames).Draw(rt, fmt.Sprintf("bn%d", i)),
			Path: rapid.SampledFrom(c11ByPaths).Draw(rt, fmt.Sprintf("bp%d", i)),
		}
		if b.Name == "." {
			dots++
			if dots > 1 {
				b.Name = ""
			}
		}
		pn := c11PkgName(b.Name, b.Path, "")
		if b.Name != "_" && b.Name != "." {
			if usedNames[pn] {
				continue // bystanders never share a package name with the subject imports
			}
			usedNames[pn] = true
		}
		if seen[b.key()] {
			continue
		}
		seen[b.key()] = true
		cs.Bystanders = append(cs.Bystanders, b)
	}
	cs.SubjectPos = rapid.IntRange(0, len(cs.Bystanders)).Draw(rt, "subjectPos")
	return cs
}

func TestC11(t *testing.T) {
	c := coll("C11")
	checkN(t, func(rt *rapid.T) {
		if rapid.IntRange(0, 3).Draw(rt, "part") == 0 {
			// part (b): real hosts, '+import' lines
			cs, why := genModelCase(rt, c11b.Opts)
			if cs == nil {
				c.Note("generator:" + why)
				return
			}
			c11b.judge(rt, c, cs)
			return
		}
		if rapid.IntRange(0, 5).Draw(rt, "special") == 0 {
			// part (c): hand-built shapes with a complete expected import set
			sc := c11sDraw(rt)
			sig, msg := evalC11s(sc)
			if sig == "" && msg != "" {
				c.Note(msg)
				return
			}
			c.Case(evid.Hash(sc.Patch, sc.File), true, "special:"+strings.SplitN(sc.Shape, ":", 2)[0])
			if sig != "" {
				violate(rt, "C11", sig, msg, sc)
			}
			return
		}
		cs := c11Draw(rt)
		sig, msg, ex := evalC11(cs)
		forms := map[string]bool{}
		for _, b := range cs.Bystanders {
			f := "named"
			switch b.Name {
			case "":
				f = "unnamed"
			case "_":
				f = "blank"
			case ".":
				f = "dot"
			}
			forms[f] = true
		}
		nontriv := ex.Applies && len(cs.Bystanders) >= 2 && len(forms) >= 2 && cs.Kind != "match"
		c.Case(evid.Hash(fmt.Sprint(*cs)), nontriv, "path-style:"+cs.PathStyle, "kind:"+cs.Kind, "name-form:"+cs.NameForm, "remaining:"+cs.Remaining, "layout:"+cs.Layout, "second:"+cs.Second, fmt.Sprintf("bystanders:%d", len(cs.Bystanders)), fmt.Sprintf("applies:%v", ex.Applies))
		if nontriv && c.WantSample() {
			p, f, _ := c11Build(cs)
			c.Sample(map[string]any{"case": cs, "patch": p, "file": f})
		}
		if sig == "" && msg != "" {
			c.Note(msg)
		}
		if sig != "" {
			violate(rt, "C11", sig, msg, cs)
		}
	})
}

var c11b = &modelCheck{
	Prop: "C11",
	Opts: modelOpts{
		Mine:         gen.MineOpts{MaxHoles: 2, MaxDots: 1},
		MaxHostLines: 300,
		MinPlants:    0, MaxPlants: 2,
		MinMutants: 0, MaxMutants: 1,
		AddImport: 1,
	},
	NonTrivial: func(cs *modelCase, v *verdict) bool { return v.Sites >= 1 && len(cs.Spec.ImportsPlus) > 0 },
}

func TestReplayC11(t *testing.T) {
	var probe struct {
		Kind  string `json:"kind"`
		Patch string `json:"patch"`
		Shape string `json:"shape"`
	}
	if !loadReplay(t, "C11", &probe) {
		return
	}
	if probe.Shape != "" {
		var sc c11sCase
		loadReplay(t, "C11", &sc)
		if sig, msg := evalC11s(&sc); sig != "" {
			violate(t, "C11", sig, msg, &sc)
		}
		return
	}
	if probe.Patch != "" {
		c11b.replay(t)
		return
	}
	var cs c11Case
	loadReplay(t, "C11", &cs)
	sig, msg, _ := evalC11(&cs)
	if sig != "" {
		violate(t, "C11", sig, msg, &cs)
	}
}
