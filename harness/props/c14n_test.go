package props

import (
	"fmt"
	"os"
	"os/exec"
	"path/filepath"
	"strings"

	"github.com/uber-go/gopatch/verif/evid"
	"github.com/uber-go/gopatch/verif/run"
	"pgregory.net/rapid"
)

// C14, kind "many": one run over many files under a limit on open file
// descriptors (prlimit --nofile). A file processed late in a long run is to
// come out as it does alone: what gopatch keeps from the files before it
// (open files, memory) must not grow with their number. The last file alone,
// under the same limit, is the control.

type c14ManySpec struct {
	Files  int  `json:"files"`
	Limit  int  `json:"limit"`   // RLIMIT_NOFILE of the runs
	Misses int  `json:"misses"`  // every Misses-th file has no site (0: all have one)
	Broken int  `json:"broken"`  // every Broken-th file does not parse (0: none)
	Subdir bool `json:"subdirs"` // spread the files over subdirectories
}

func c14GenMany(rt *rapid.T) *c14Case {
	sp := &c14ManySpec{
		Files:  rapid.IntRange(90, 260).Draw(rt, "manyFiles"),
		Limit:  rapid.IntRange(32, 64).Draw(rt, "nofile"),
		Misses: rapid.SampledFrom([]int{0, 2, 3, 7}).Draw(rt, "misses"),
		Broken: rapid.SampledFrom([]int{0, 0, 5, 11}).Draw(rt, "broken"),
		Subdir: rapid.Bool().Draw(rt, "subdirs"),
	}
	return &c14Case{Kind: "many", Many: sp}
}

func (sp *c14ManySpec) name(i int) string {
	if sp.Subdir {
		return fmt.Sprintf("d%02d/f%04d.go", i%7, i)
	}
	return fmt.Sprintf("f%04d.go", i)
}

func (sp *c14ManySpec) src(i int) (src string, role string) {
	switch {
	case sp.Broken > 0 && i%sp.Broken == 1 && i != sp.Files-1:
		return fmt.Sprintf("package p%d\n\nfunc f( {\n\tcnt(0)\n}\n", i), "unparseable"
	case sp.Misses > 0 && i%sp.Misses == 1 && i != sp.Files-1:
		return fmt.Sprintf("package p%d\n\nfunc f() int {\n\treturn %d\n}\n", i, i), "nosite"
	}
	return fmt.Sprintf("package p%d\n\nfunc f() {\n\tcnt(0)\n\tcnt(%d)\n}\n", i, i), "site"
}

func evalC14Many(cs *c14Case, info *c14Info) (sig, msg string) {
	sp := cs.Many
	if _, err := exec.LookPath("prlimit"); err != nil {
		info.Unjudged = "prlimit not found"
		return "", ""
	}
	dir, cleanup := run.TempDir("c14n-")
	defer cleanup()
	write := func(root string) error {
		for i := 0; i < sp.Files; i++ {
			p := filepath.Join(root, sp.name(i))
			if err := os.MkdirAll(filepath.Dir(p), 0o755); err != nil {
				return err
			}
			src, _ := sp.src(i)
			if err := os.WriteFile(p, []byte(src), 0o644); err != nil {
				return err
			}
		}
		return nil
	}
	for _, root := range []string{"ref", "all", "solo"} {
		if err := write(filepath.Join(dir, root)); err != nil {
			info.Harness = err.Error()
			return "", ""
		}
	}
	pp := filepath.Join(dir, "cnt.patch")
	_ = os.WriteFile(pp, []byte(c16CntPatch), 0o644)
	wrapper := []string{"prlimit", fmt.Sprintf("--nofile=%d", sp.Limit)}
	// reference: no limit
	rr := run.CLI(dir, nil, "-p", pp, "ref")
	if rr.TimedOut || rr.Crashed() {
		info.Foreign = append(info.Foreign, "foreign:C08")
		info.Unjudged = "reference run crashed"
		return "", ""
	}
	// control: the last file alone, under the limit
	last := sp.name(sp.Files - 1)
	rs := run.CLIWrapped(wrapper, dir, nil, "-p", pp, filepath.Join("solo", last))
	want, _ := os.ReadFile(filepath.Join(dir, "ref", last))
	got, _ := os.ReadFile(filepath.Join(dir, "solo", last))
	if rs.Exit != 0 || string(got) != string(want) {
		info.Unjudged = "limit too low for a single file"
		info.class("many:control-failed")
		return "", ""
	}
	ra := run.CLIWrapped(wrapper, dir, nil, "-p", pp, "all")
	if ra.TimedOut || ra.Crashed() {
		info.Foreign = append(info.Foreign, "foreign:C08")
		info.Unjudged = "grouped run crashed"
		return "", ""
	}
	info.Nontrivial = true
	info.class("many:files:%d", sp.Files/50*50)
	for i := 0; i < sp.Files; i++ {
		w, _ := os.ReadFile(filepath.Join(dir, "ref", sp.name(i)))
		g, _ := os.ReadFile(filepath.Join(dir, "all", sp.name(i)))
		if string(w) != string(g) {
			_, role := sp.src(i)
			return "many-files:result-depends-on-the-files-before", fmt.Sprintf("%s (%s, number %d of %d in path order) comes out differently in a run over all %d files under RLIMIT_NOFILE=%d than in a run without the limit, although the last file alone is processed fine under that limit\nexit status %d (without the limit: %d)\nstderr: %s",
				sp.name(i), role, i+1, sp.Files, sp.Files, sp.Limit, ra.Exit, rr.Exit, trunc(strings.TrimSpace(string(ra.Stderr)), 600))
		}
	}
	if ra.Exit != rr.Exit {
		return "many-files:exit-status-depends-on-the-limit", fmt.Sprintf("exit status %d under RLIMIT_NOFILE=%d, %d without; stderr: %s", ra.Exit, sp.Limit, rr.Exit, trunc(string(ra.Stderr), 600))
	}
	return "", ""
}

var _ = evid.Hash
