package props

import (
	"fmt"
	"go/ast"
	"go/parser"
	"go/token"
	"os"
	"path"
	"path/filepath"
	"regexp"
	"sort"
	"strings"
	"testing"
	"time"

	"github.com/uber-go/gopatch/verif/evid"
	"github.com/uber-go/gopatch/verif/run"
	"pgregory.net/rapid"
)

// C12 — dry-run modes never write, and all output modes agree.
//
// One case = a patch set (1-3 changes, some with a description, in 1-2 patch
// files or on stdin), a tree of 1-6 Go files (matching, not matching,
// unparseable, generated, deformed layouts: CRLF, no final newline, ...) with
// a few entries that are not Go files, an argument list (files, directories,
// relative / absolute / both spellings of one file) and a drawn subset of
// --skip-import-processing, --skip-generated, -v.
//
// The same invocation is run in the default mode, with --print-only, with
// --diff and with both flags, each on an identically re-created tree whose
// complete snapshot (type, mode, size, mtime, inode, sha256 of every entry,
// including the patch files and an otherwise empty $TMPDIR) is taken before
// and after.

type c12Case struct {
	NoFinalLF bool      `json:"no_final_lf,omitempty"` // patch files are written without their last line feed
	Changes   []string  `json:"changes"`               // one text per change, in order
	Labels    []string  `json:"labels"`
	Descs     []string  `json:"descs"` // description token of each change ("" = none)
	Split     int       `json:"split"` // changes[:Split] go to the first patch file
	Stdin     bool      `json:"stdin"` // deliver the (single) patch file on stdin
	Files     []c14File `json:"files"`
	Other     []c14File `json:"other"` // entries that are not Go files gopatch may touch
	Args      []string  `json:"args"`
	AbsArg    []bool    `json:"abs_arg"` // per argument: pass it as an absolute path

	Verbose     bool `json:"verbose"`
	SkipGen     bool `json:"skip_generated"`
	SkipImports bool `json:"skip_imports"`
}

func (cs *c12Case) patchFiles() []string {
	join := func(x []string) string {
		if cs.NoFinalLF {
			// the patch file does not end in a line feed
			return strings.TrimSuffix(strings.Join(x, ""), "\n")
		}
		return strings.Join(x, "")
	}
	if cs.Split <= 0 || cs.Split >= len(cs.Changes) {
		return []string{join(cs.Changes)}
	}
	return []string{join(cs.Changes[:cs.Split]), join(cs.Changes[cs.Split:])}
}

func (cs *c12Case) describe() string {
	var b strings.Builder
	for i, p := range cs.patchFiles() {
		fmt.Fprintf(&b, "patch file %d:\n%s\n", i, trunc(p, 500))
	}
	fmt.Fprintf(&b, "files:")
	for _, f := range cs.Files {
		fmt.Fprintf(&b, " %s[%s]", f.Name, f.Role)
	}
	fmt.Fprintf(&b, "\narguments: %q absolute: %v\nflags: verbose=%v skip-generated=%v skip-import-processing=%v stdin=%v\n", cs.Args, cs.AbsArg, cs.Verbose, cs.SkipGen, cs.SkipImports, cs.Stdin)
	return b.String()
}

func (cs *c12Case) file(name string) *c14File {
	for i := range cs.Files {
		if cs.Files[i].Name == name {
			return &cs.Files[i]
		}
	}
	return nil
}

// ---------------------------------------------------------------------------
// Generation

func c12DrawCase(rt *rapid.T) *c12Case {
	cs := &c12Case{}
	nch := rapid.SampledFrom([]int{1, 1, 2, 2, 3}).Draw(rt, "nChanges")
	var changes []*c14Change
	for i := 0; i < nch; i++ {
		ch := c14DrawChange(rt, i)
		// c14DrawChange may have put its own description line on top; replace
		// it by ours (a unique token per change), on 2 of 3 changes.
		ch.Text = strings.TrimPrefix(ch.Text, fmt.Sprintf("# c14 change %d (%s)\n", i, ch.Label))
		changes = append(changes, ch)
	}
	joined := func(chs []*c14Change) string {
		var b strings.Builder
		for _, ch := range chs {
			b.WriteString(ch.Text)
		}
		return b.String()
	}
	if !c14Accepts(joined(changes)) {
		changes = changes[:1]
	}
	for i, ch := range changes {
		desc := ""
		// A description is the run of '#' lines directly above the header.
		if !strings.HasPrefix(ch.Text, "#") && rapid.IntRange(0, 2).Draw(rt, fmt.Sprintf("ch%ddescribed", i)) > 0 {
			desc = fmt.Sprintf("c12desc%dq", i)
			text := "# " + desc + " first line\n"
			if rapid.Bool().Draw(rt, fmt.Sprintf("ch%dtwoLines", i)) {
				text += "# " + desc + " second line\n"
			}
			ch.Text = text + ch.Text
		}
		cs.Changes = append(cs.Changes, ch.Text)
		cs.Labels = append(cs.Labels, ch.Label)
		cs.Descs = append(cs.Descs, desc)
	}
	cs.Split = len(changes)
	if len(changes) > 1 && rapid.Bool().Draw(rt, "twoPatchFiles") {
		cs.Split = rapid.IntRange(1, len(changes)-1).Draw(rt, "split")
		for _, p := range cs.patchFiles() {
			if !c14Accepts(p) {
				cs.Split = len(changes)
				break
			}
		}
	}
	if cs.Split == len(changes) && rapid.IntRange(0, 4).Draw(rt, "stdin") == 0 {
		cs.Stdin = true
	}
	if rapid.IntRange(0, 24).Draw(rt, "brokenPatch") == 0 {
		// a patch gopatch rejects: dry runs must still leave everything alone
		cs.Changes[len(cs.Changes)-1] = c14Mangle(rt, cs.Changes[len(cs.Changes)-1], "breakPatch")
	}

	cs.Files = c14DrawFiles(rt, changes, rapid.IntRange(1, 6).Draw(rt, "nFiles"))
	letters := []string{"a", "m", "z", "B"}
	for i := range cs.Files {
		lbl := fmt.Sprintf("f%d", i)
		name := c14Dirs[rapid.IntRange(0, len(c14Dirs)-1).Draw(rt, lbl+"dir")] +
			letters[rapid.IntRange(0, len(letters)-1).Draw(rt, lbl+"letter")] + fmt.Sprint(i)
		if rapid.IntRange(0, 5).Draw(rt, lbl+"test") == 0 {
			name += "_test"
		}
		if rapid.IntRange(0, 11).Draw(rt, lbl+"longName") == 0 {
			// a base name next to which no temporary file of the form
			// ".<name>.gopatch-<n>" can be created
			if base := name[strings.LastIndex(name, "/")+1:]; len(base) < 246 {
				name += strings.Repeat("n", 246-len(base))
			}
		}
		cs.Files[i].Name = name + ".go"
		cs.Files[i].Mode = c12DrawMode(rt, lbl)
		if i > 0 && rapid.IntRange(0, 5).Draw(rt, lbl+"hardLink") == 0 {
			// two names of one file (same inode, same bytes)
			t := cs.Files[rapid.IntRange(0, i-1).Draw(rt, lbl+"linkOf")]
			if t.LinkOf == "" {
				cs.Files[i].Src, cs.Files[i].Role, cs.Files[i].Mode, cs.Files[i].LinkOf = t.Src, "hard-link:"+t.Role, t.Mode, t.Name
				continue
			}
		}
		if cs.Files[i].Role != "unparseable" && rapid.IntRange(0, 2).Draw(rt, lbl+"deform") == 0 {
			src, tags := deform(rt, cs.Files[i].Src, lbl)
			if len(tags) > 0 {
				cs.Files[i].Src = src
				cs.Files[i].Role += "+" + strings.Join(tags, "+")
			}
		}
	}
	// Entries gopatch has no business with.
	first := cs.Files[0].Src
	// what an interrupted earlier run of gopatch itself may have left behind:
	// its temporary file next to a target
	f0 := cs.Files[rapid.IntRange(0, len(cs.Files)-1).Draw(rt, "leftoverOf")].Name
	leftover := path.Join(path.Dir(f0), "."+path.Base(f0)+".gopatch-4242424242")
	for _, o := range []c14File{
		{Name: leftover, Src: first[:len(first)/2], Role: "leftover-temp"},
		{Name: path.Join(path.Dir(f0), path.Base(f0)+"~"), Src: first, Role: "editor-backup"},
		{Name: "NOTES.txt", Src: "c14fail(1)\n", Role: "text"},
		{Name: "sub/data.json", Src: "{\"go\": false}\n", Role: "json"},
		{Name: "vendor/v/v.go", Src: first, Role: "vendored"},
		{Name: "testdata/t.go", Src: first, Role: "testdata"},
		{Name: ".hidden/h.go", Src: first, Role: "hidden"},
		{Name: "z.go.orig", Src: first, Role: "backup"},
	} {
		if rapid.IntRange(0, 2).Draw(rt, "other:"+o.Name) == 0 {
			cs.Other = append(cs.Other, o)
		}
	}

	cs.Verbose = rapid.IntRange(0, 2).Draw(rt, "verbose") == 0
	cs.SkipGen = rapid.IntRange(0, 2).Draw(rt, "skipGenerated") == 0
	cs.SkipImports = rapid.IntRange(0, 3).Draw(rt, "skipImports") == 0
	cs.Args = c14DrawArgs(rt, cs.Files, "args")
	absMode := rapid.SampledFrom([]string{"none", "none", "all", "mixed"}).Draw(rt, "absMode")
	for i := range cs.Args {
		switch absMode {
		case "all":
			cs.AbsArg = append(cs.AbsArg, true)
		case "mixed":
			cs.AbsArg = append(cs.AbsArg, rapid.Bool().Draw(rt, fmt.Sprintf("abs%d", i)))
		default:
			cs.AbsArg = append(cs.AbsArg, false)
		}
	}
	return cs
}

// c12DrawMode draws permission bits for a file: mostly the default, sometimes
// read-only or otherwise unusual (the harness runs as root or as the owner:
// the bits are what a tool that looks at them sees).
func c12DrawMode(rt *rapid.T, label string) uint32 {
	switch rapid.IntRange(0, 9).Draw(rt, label+"mode") {
	case 0, 1:
		return 0o444
	case 2:
		return 0o600
	case 3:
		return 0o755
	}
	return 0
}

// ---------------------------------------------------------------------------
// Running

type c12Run struct {
	Mode     string
	Argv     []string
	Exit     int
	Stdout   string
	Stderr   string
	Files    map[string]string // Go files of the case after the run
	TreeDiff []string          // differences of the complete snapshot
	Bad      string
}

var c12Old = time.Date(2003, 4, 5, 6, 7, 8, 0, time.UTC)

// c12Exec re-creates the tree below base and runs gopatch in the given mode
// ("inplace", "print", "diff", "diff+print").
func c12Exec(base string, cs *c12Case, mode string) *c12Run {
	o := &c12Run{Mode: mode, Files: map[string]string{}}
	root := filepath.Join(base, "w")
	tmp := filepath.Join(base, "tmp")
	for _, d := range []string{root, tmp} {
		if err := os.RemoveAll(d); err != nil {
			o.Bad = "harness: " + err.Error()
			return o
		}
		if err := os.MkdirAll(d, 0o755); err != nil {
			o.Bad = "harness: " + err.Error()
			return o
		}
	}
	m := map[string]string{}
	for _, f := range cs.Files {
		m[f.Name] = f.Src
	}
	for _, f := range cs.Other {
		m[f.Name] = f.Src
	}
	if err := run.WriteTree(root, m); err != nil {
		o.Bad = "harness: " + err.Error()
		return o
	}
	for _, f := range cs.Files {
		if f.LinkOf != "" {
			// a second name of the same file
			p := filepath.Join(root, filepath.FromSlash(f.Name))
			_ = os.Remove(p)
			if err := os.Link(filepath.Join(root, filepath.FromSlash(f.LinkOf)), p); err != nil {
				o.Bad = "harness: " + err.Error()
				return o
			}
		}
	}
	for _, f := range cs.Files {
		if f.Mode != 0 {
			if err := os.Chmod(filepath.Join(root, filepath.FromSlash(f.Name)), os.FileMode(f.Mode)); err != nil {
				o.Bad = "harness: " + err.Error()
				return o
			}
		}
	}
	var argv []string
	if cs.SkipGen {
		argv = append(argv, "--skip-generated")
	}
	if cs.SkipImports {
		argv = append(argv, "--skip-import-processing")
	}
	switch mode {
	case "diff":
		argv = append(argv, "-d")
	case "print":
		argv = append(argv, "--print-only")
	case "diff+print":
		argv = append(argv, "--print-only", "--diff")
	}
	if cs.Verbose {
		argv = append(argv, "-v")
	}
	var stdin []byte
	pfs := cs.patchFiles()
	for i, p := range pfs {
		if cs.Stdin && len(pfs) == 1 {
			stdin = []byte(p)
			break
		}
		name := fmt.Sprintf("p%d.patch", i)
		if err := os.WriteFile(filepath.Join(base, name), []byte(p), 0o644); err != nil {
			o.Bad = "harness: " + err.Error()
			return o
		}
		argv = append(argv, "-p", "../"+name)
	}
	for i, a := range cs.Args {
		if i < len(cs.AbsArg) && cs.AbsArg[i] {
			p, dots := c14ArgPath(a)
			a = filepath.Join(root, filepath.FromSlash(p))
			if dots {
				a += "/..."
			}
		}
		argv = append(argv, a)
	}
	o.Argv = argv
	// Everything gets an old modification time, so that a rewrite with equal
	// bytes is visible too.
	_ = filepath.Walk(base, func(p string, info os.FileInfo, err error) error {
		if err == nil && info.Mode().IsRegular() {
			_ = os.Chtimes(p, c12Old, c12Old)
		}
		return nil
	})
	before, err := run.Snapshot(base)
	if err != nil {
		o.Bad = "harness: " + err.Error()
		return o
	}
	r := run.CLIEnv([]string{"TMPDIR=" + tmp}, nil, root, stdin, argv...)
	after, err := run.Snapshot(base)
	if err != nil {
		o.Bad = "harness: " + err.Error()
		return o
	}
	o.TreeDiff = run.DiffSnapshots(before, after)
	o.Exit = r.Exit
	o.Stdout, o.Stderr = string(r.Stdout), string(r.Stderr)
	switch {
	case r.StartErr != "":
		o.Bad = "harness: start: " + r.StartErr
	case r.TimedOut:
		o.Bad = "timeout"
	case r.Crashed():
		o.Bad = "crash"
	case r.Exit != 0 && r.Exit != 1:
		o.Bad = fmt.Sprintf("exit %d", r.Exit)
	}
	for _, f := range cs.Files {
		b, err := os.ReadFile(filepath.Join(root, filepath.FromSlash(f.Name)))
		if err != nil {
			o.Files[f.Name] = "<unreadable: " + err.Error() + ">"
			continue
		}
		o.Files[f.Name] = string(b)
	}
	return o
}

// c12Provided computes, for every file the arguments reach, the path gopatch
// reports it under: relative to the working directory for a relative
// argument, absolute for an absolute one; the last argument reaching a file
// decides.
func c12Provided(cs *c12Case, root string) (names []string, provided map[string]string) {
	provided = map[string]string{}
	for i, a := range cs.Args {
		p, _ := c14ArgPath(a)
		abs := i < len(cs.AbsArg) && cs.AbsArg[i]
		for _, f := range cs.Files {
			if p == "." || f.Name == p || strings.HasPrefix(f.Name, p+"/") {
				if abs {
					provided[f.Name] = filepath.Join(root, filepath.FromSlash(f.Name))
				} else {
					provided[f.Name] = filepath.FromSlash(f.Name)
				}
			}
		}
	}
	for n := range provided {
		names = append(names, n)
	}
	sort.Strings(names)
	return names, provided
}

// c12IsGenerated is the harness's reading of "generated file" for files the
// generator itself marked (c14GenHeaders are all well-formed markers).
func c12IsGenerated(f *c14File) bool {
	af, err := parser.ParseFile(token.NewFileSet(), "x.go", f.Src, parser.ParseComments|parser.PackageClauseOnly)
	if err != nil {
		return false
	}
	if ast.IsGenerated(af) {
		return true
	}
	if af.Doc != nil {
		for _, c := range af.Doc.List {
			if strings.Contains(c.Text, "@generated") {
				return true
			}
		}
	}
	return false
}

// c12Misordered recognises the shape --diff prints when the original and the
// result have no line in common: a hunk deleting every line followed by a
// hunk "@@ -0,0 +1,N @@" inserting every line. The second hunk lies before
// the first one, so a standard patch program rejects the diff ("misordered
// hunks"). It returns the text the diff evidently means.
var c12MisorderedRe = regexp.MustCompile(`^@@ -1,(\d+) \+0,0 @@\n((?:-[^\n]*\n)+)@@ -0,0 \+1,(\d+) @@\n((?:\+[^\n]*\n)+)$`)

func c12Misordered(orig, d string) (meant string, ok bool) {
	m := c12MisorderedRe.FindStringSubmatch(d)
	if m == nil {
		return "", false
	}
	var del, ins strings.Builder
	for _, l := range strings.SplitAfter(m[2], "\n") {
		if l != "" {
			del.WriteString(l[1:])
		}
	}
	for _, l := range strings.SplitAfter(m[4], "\n") {
		if l != "" {
			ins.WriteString(l[1:])
		}
	}
	if del.String() != orig && del.String() != orig+"\n" {
		return "", false
	}
	return ins.String(), true
}

// c12MatchConcat reports whether s is a concatenation of one candidate per
// slot, in order.
func c12MatchConcat(s string, slots [][]string) bool {
	steps := 0
	var rec func(rest string, i int) bool
	rec = func(rest string, i int) bool {
		if i == len(slots) {
			return rest == ""
		}
		steps++
		if steps > 200000 {
			return false
		}
		seen := map[string]bool{}
		for _, c := range slots[i] {
			if seen[c] {
				continue
			}
			seen[c] = true
			if strings.HasPrefix(rest, c) && rec(rest[len(c):], i+1) {
				return true
			}
		}
		return false
	}
	return rec(s, 0)
}

// c12SplitDiff cuts the output of --diff into one unified diff per file; the
// key is the path in the "--- " header. Log lines of -v are dropped first.
func c12SplitDiff(stdout string, logLine func(string) bool) (map[string]string, []string, string) {
	lines := strings.SplitAfter(stdout, "\n")
	out := map[string]string{}
	var order []string
	cur := ""
	for i := 0; i < len(lines); i++ {
		l := lines[i]
		if l == "" {
			continue
		}
		if logLine(strings.TrimSuffix(l, "\n")) {
			continue
		}
		if strings.HasPrefix(l, "--- ") && i+1 < len(lines) && lines[i+1] == "+++ "+strings.TrimPrefix(l, "--- ") {
			cur = strings.TrimSuffix(strings.TrimPrefix(l, "--- "), "\n")
			if _, dup := out[cur]; dup {
				return nil, nil, "two diffs for " + cur
			}
			out[cur] = ""
			order = append(order, cur)
			i++
			continue
		}
		if cur == "" {
			return nil, nil, fmt.Sprintf("text before the first file header: %q", trunc(l, 200))
		}
		out[cur] += l
	}
	return out, order, ""
}

type c12Info struct {
	Unjudged   string
	Harness    string
	Foreign    []string
	Classes    []string
	Nontrivial bool
	Outcomes   []string
	Known      [][2]string // (signature, message) of discrepancies that may be listed findings; the evaluation goes on after them
}

func (i *c12Info) class(f string, a ...any) { i.Classes = append(i.Classes, fmt.Sprintf(f, a...)) }

func evalC12(cs *c12Case) (sig, msg string, info c12Info) {
	base, cleanup := run.TempDir("c12-")
	defer cleanup()
	root := filepath.Join(base, "w")
	names, provided := c12Provided(cs, root)
	if len(names) == 0 {
		info.Unjudged = "no file covered"
		return
	}
	abs := func(n string) string { return filepath.Join(root, filepath.FromSlash(n)) }

	runs := map[string]*c12Run{}
	rejected := false
	for _, mode := range []string{"inplace", "print", "diff", "diff+print"} {
		r := c12Exec(base, cs, mode)
		runs[mode] = r
		switch {
		case r.Bad == "":
		case strings.HasPrefix(r.Bad, "harness:"):
			info.Harness = mode + ": " + r.Bad
			return
		default:
			info.Foreign = append(info.Foreign, "C08:cli-"+r.Bad)
			info.Unjudged = mode + ": " + r.Bad
			return
		}
		// (a) dry runs never write, whatever the patch and the inputs.
		if mode != "inplace" && len(r.TreeDiff) > 0 {
			return "dry-run-wrote:" + mode, fmt.Sprintf("gopatch %s changed the file system:\n  %s\n%s", strings.Join(r.Argv, " "), strings.Join(r.TreeDiff, "\n  "), cs.describe()), info
		}
		if strings.Contains(r.Stderr, "load patch") {
			rejected = true
		}
	}
	if rejected {
		info.class("patch-rejected:dry-runs-checked")
		info.Unjudged = "patch rejected by the CLI"
		return
	}
	w, pr, df := runs["inplace"], runs["print"], runs["diff"]

	// What the default mode did.
	for _, d := range w.TreeDiff {
		// only the covered Go files may change
		ok := false
		for _, n := range names {
			if strings.HasPrefix(d, "changed w/"+n+":") {
				ok = true
			}
		}
		if !ok {
			info.Foreign = append(info.Foreign, "C15/C16:default-mode-touched-other-entry")
			info.Unjudged = "default mode touched " + d
			return
		}
	}
	for _, d := range w.TreeDiff {
		// "changed w/<name>: {Type Mode ...} -> {...}": the permission bits must survive a rewrite
		if i := strings.Index(d, " -> "); i > 0 {
			var m1, m2 string
			if f := strings.Fields(d[:i]); len(f) > 3 {
				m1 = f[3]
			}
			if f := strings.Fields(d[i+4:]); len(f) > 1 {
				m2 = f[1]
			}
			if m1 != m2 {
				info.Foreign = append(info.Foreign, "C16:mode-changed-by-rewrite")
			}
		}
	}
	_, wErr := c14SplitStderr(w.Stderr)
	errored := map[string]bool{} // files named in an error of the default run
	for _, n := range names {
		if wErr != "" && strings.Contains(wErr, abs(n)) {
			errored[n] = true
		}
	}
	if (w.Exit != 0) != (wErr != "") {
		info.Unjudged = "stderr of the default run not understood"
		return
	}
	if w.Exit != 0 && len(errored) == 0 {
		info.Unjudged = "error that names no file"
		return
	}
	nChanged, nSame := 0, 0
	for _, n := range names {
		f := cs.file(n)
		oc := "unchanged"
		switch {
		case errored[n]:
			oc = "error"
		case w.Files[n] != f.Src:
			oc = "changed"
			nChanged++
		case cs.SkipGen && c12IsGenerated(f):
			oc = "generated-skipped"
			nSame++
		default:
			nSame++
		}
		info.class("outcome:%s", oc)
		info.Outcomes = append(info.Outcomes, n+"["+f.Role+"]="+oc)
		if errored[n] && w.Files[n] != f.Src {
			info.Foreign = append(info.Foreign, "C16:error-but-written")
		}
	}
	info.Nontrivial = nChanged > 0 && nSame > 0

	// stdout of the default mode: empty, or only log lines with -v.
	logLine := func(l string) bool {
		for _, n := range names {
			a := abs(n)
			if l == a+": patched" || l == a+": skipped" || l == "generated file "+a+": skipped" || strings.HasPrefix(l, a+": failed: ") {
				return true
			}
		}
		return false
	}
	for _, l := range strings.Split(strings.TrimSuffix(w.Stdout, "\n"), "\n") {
		if l == "" && w.Stdout == "" {
			break
		}
		if !cs.Verbose || !logLine(l) {
			return "default-mode-stdout", fmt.Sprintf("the default mode printed %q on stdout (verbose=%v)\n%s", trunc(l, 300), cs.Verbose, cs.describe()), info
		}
	}
	for i, d := range cs.Descs {
		if d == "" {
			continue
		}
		for _, r := range []*c12Run{w, pr, df} {
			if strings.Contains(r.Stdout, d) {
				return "description-on-stdout:" + r.Mode, fmt.Sprintf("the description of change %d appears on stdout of mode %s:\n%s\n%s", i, r.Mode, trunc(r.Stdout, 600), cs.describe()), info
			}
		}
	}

	// A file that cannot be written back (a name too long for a temporary
	// sibling) fails in the default mode only; what the dry runs show for it
	// has nothing written to be compared with.
	if strings.Contains(w.Stderr, "file name too long") {
		if pr.Exit != df.Exit {
			return "exit-differs", fmt.Sprintf("exit status: --print-only %d, --diff %d\n%s", pr.Exit, df.Exit, cs.describe()), info
		}
		info.class("unjudged:write-failure-in-default-mode")
		return "", "", info
	}

	// Exit status.
	if pr.Exit != w.Exit || df.Exit != w.Exit {
		return "exit-differs", fmt.Sprintf("exit status: default %d, --print-only %d, --diff %d\nstderr (default): %s\nstderr (print): %s\nstderr (diff): %s\n%s",
			w.Exit, pr.Exit, df.Exit, trunc(w.Stderr, 400), trunc(pr.Stderr, 400), trunc(df.Stderr, 400), cs.describe()), info
	}

	// (b1) --print-only == bytes written in place.
	var slots [][]string
	for _, n := range names {
		f := cs.file(n)
		a := abs(n)
		var cands []string
		switch {
		case cs.SkipGen && c12IsGenerated(f) && !errored[n]:
			if cs.Verbose {
				cands = []string{"generated file " + a + ": skipped\n"}
			} else {
				cands = []string{""}
			}
		default:
			bodies := []string{w.Files[n]}
			if errored[n] {
				// a file that could not be processed produces nothing, or is echoed as it is
				bodies = []string{"", f.Src}
			}
			for _, b := range bodies {
				if !cs.Verbose {
					cands = append(cands, b)
					continue
				}
				cands = append(cands, b+a+": patched\n", b+a+": skipped\n")
				if errored[n] {
					cands = append(cands, b)
				}
			}
			if errored[n] && cs.Verbose {
				// "<file>: failed: <cause>" log line
				if i := strings.Index(pr.Stdout, a+": failed: "); i >= 0 {
					j := strings.IndexByte(pr.Stdout[i:], '\n')
					if j > 0 {
						cands = append(cands, pr.Stdout[i:i+j+1])
					}
				}
			}
		}
		slots = append(slots, cands)
	}
	if !c12MatchConcat(pr.Stdout, slots) {
		var want strings.Builder
		for _, s := range slots {
			want.WriteString(s[0])
		}
		return "print-differs-from-written", fmt.Sprintf("stdout of --print-only is not the concatenation (in path order) of the bytes the default mode leaves in the files: %s (printed vs written)\nfiles: %s\n%s",
			c14FirstDiff(pr.Stdout, want.String()), strings.Join(info.Outcomes, " "), cs.describe()), info
	}

	// (b2) original + --diff == bytes written in place.
	diffs, order, bad := c12SplitDiff(df.Stdout, func(l string) bool { return cs.Verbose && logLine(l) })
	if bad != "" {
		return "diff-malformed", fmt.Sprintf("output of --diff not understood: %s\n%s\n%s", bad, trunc(df.Stdout, 800), cs.describe()), info
	}
	byProvided := map[string]string{}
	for _, n := range names {
		byProvided[provided[n]] = n
	}
	var gotOrder []string
	for _, p := range order {
		n, ok := byProvided[p]
		if !ok {
			return "diff-for-unknown-file", fmt.Sprintf("--diff printed a diff for %q, which is not one of the files named by the arguments (%v)\n%s", p, provided, cs.describe()), info
		}
		gotOrder = append(gotOrder, n)
	}
	if !sort.StringsAreSorted(gotOrder) {
		info.Foreign = append(info.Foreign, "C15:output-order")
	}
	for _, n := range names {
		f := cs.file(n)
		d, has := diffs[provided[n]]
		if errored[n] {
			if has && strings.TrimSpace(d) != "" {
				return "diff-for-failed-file", fmt.Sprintf("%s could not be processed (%s) but --diff printed a diff for it:\n%s\n%s", n, trunc(wErr, 300), trunc(d, 600), cs.describe()), info
			}
			continue
		}
		applied := f.Src
		if meant, mis := c12Misordered(f.Src, d); has && mis {
			info.Known = append(info.Known, [2]string{"diff-misordered-hunks:no-common-line",
				fmt.Sprintf("%s [%s]: the original and the result have no line in common; --diff prints a hunk deleting every line followed by '@@ -0,0 +1,N @@' inserting every line, which lies before the first hunk (patch(1): 'misordered hunks')\n--- diff ---\n%s\n%s", n, f.Role, trunc(d, 400), cs.describe())})
			info.class("diff-misordered-hunks")
			applied = meant
		} else if has {
			var err error
			applied, err = applyUnifiedDiff(f.Src, d)
			if err != nil {
				return "diff-does-not-apply" + c12LayoutSig(f.Src), fmt.Sprintf("the diff printed for %s does not apply to the original: %v\n--- diff ---\n%s\n%s", n, err, trunc(d, 1200), cs.describe()), info
			}
			info.class("diff-applied")
		}
		if applied != w.Files[n] && !strings.HasSuffix(f.Src, "\n") {
			// The printed diff treats a last line without a line feed like one
			// that has it: it is the diff of (original + "\n").
			if a2, err := applyUnifiedDiff(f.Src+"\n", d); !has && f.Src+"\n" == w.Files[n] || has && err == nil && a2 == w.Files[n] {
				info.Known = append(info.Known, [2]string{"diff-omits-final-newline:input-lacks-final-newline",
					fmt.Sprintf("%s [%s] does not end in a line feed; the default mode writes one, the diff printed by --diff is that of the original with a line feed appended (no '\\ No newline at end of file'), so original + diff is not what is written\n--- diff ---\n%s\n%s", n, f.Role, trunc(d, 600), cs.describe())})
				info.class("diff-omits-final-newline")
				continue
			}
		}
		if applied != w.Files[n] {
			return "diff-differs-from-written" + c12LayoutSig(f.Src), fmt.Sprintf("original + diff of --diff differs from the bytes the default mode writes for %s [%s]: %s (diff applied vs written)\n--- diff ---\n%s\n%s",
				n, f.Role, c14FirstDiff(applied, w.Files[n]), trunc(d, 1200), cs.describe()), info
		}
	}

	// (b3) the library API.
	if !cs.SkipImports {
		pf, res := run.ParseOnly("p.patch", []byte(strings.Join(cs.Changes, "")))
		if pf == nil || res.Failed() {
			info.Unjudged = "library rejects the joined patch"
			return
		}
		for _, n := range names {
			f := cs.file(n)
			if cs.SkipGen && c12IsGenerated(f) {
				continue // the library has no such option
			}
			ra := run.ApplyParsed(pf, abs(n), []byte(f.Src))
			if ra.Failed() {
				info.Foreign = append(info.Foreign, "C08:api")
				continue
			}
			if (ra.ApplyErr != "") != errored[n] {
				return "api-error-differs", fmt.Sprintf("%s [%s]: library error %q, command line error: %v (%s)\n%s", n, f.Role, trunc(ra.ApplyErr, 300), errored[n], trunc(wErr, 300), cs.describe()), info
			}
			if ra.ApplyErr != "" {
				continue
			}
			info.class("api-compared")
			if string(ra.Out) != w.Files[n] {
				return "api-differs-from-written", fmt.Sprintf("patch.File.Apply returns other bytes for %s [%s] than the default mode writes: %s (library vs written)\n%s",
					n, f.Role, c14FirstDiff(string(ra.Out), w.Files[n]), cs.describe()), info
			}
		}
	}

	// (c) descriptions: stderr only, "path:text", only for files to which the
	// described change applied.
	for _, r := range []*c12Run{pr, df} {
		comments, _ := c14SplitStderr(r.Stderr)
		for _, l := range strings.Split(strings.TrimSuffix(comments, "\n"), "\n") {
			if l == "" {
				continue
			}
			var file string
			for _, n := range names {
				if strings.HasPrefix(l, provided[n]+":") && len(provided[n]) > len(provided[file]) {
					file = n
				}
			}
			ci := -1
			for i, d := range cs.Descs {
				if d != "" && strings.Contains(l, d) {
					ci = i
				}
			}
			if file == "" || ci < 0 {
				// descriptions of repository patches and the like
				known := false
				for _, c := range cs.Changes {
					for _, cl := range strings.Split(c, "\n") {
						if t := strings.TrimSpace(strings.TrimPrefix(strings.TrimSpace(cl), "#")); strings.HasPrefix(strings.TrimSpace(cl), "#") && t != "" && strings.HasSuffix(l, t) {
							known = true
						}
					}
				}
				if known && file != "" {
					info.class("description:repo-patch")
					continue
				}
				return "stderr-line-not-a-description:" + r.Mode, fmt.Sprintf("mode %s exits %d and prints %q on stderr, which is neither an error nor 'file:description' for a file of the run\n%s", r.Mode, r.Exit, trunc(l, 300), cs.describe()), info
			}
			info.class("description-line")
			f := cs.file(file)
			if w.Files[file] == f.Src || errored[file] {
				if s, m := c12ConfirmNoDescription(cs, f, ci, "unchanged"); s != "" {
					return s + ":" + r.Mode, fmt.Sprintf("mode %s prints the description of change %d for %s [%s], %s: %q\n%s", r.Mode, ci, file, f.Role, m, l, cs.describe()), info
				}
				continue
			}
			if s, m := c12ConfirmNoDescription(cs, f, ci, "other-change"); s != "" {
				return s + ":" + r.Mode, fmt.Sprintf("mode %s prints the description of change %d for %s [%s], %s: %q\n%s", r.Mode, ci, file, f.Role, m, l, cs.describe()), info
			}
		}
	}

	info.class("files:%d", len(names))
	info.class("patch-files:%d", len(cs.patchFiles()))
	if cs.Stdin {
		info.class("patch-on-stdin")
	}
	for i, a := range cs.AbsArg {
		if a != cs.AbsArg[0] {
			info.class("args-mixed-absolute-relative")
			break
		}
		if i == len(cs.AbsArg)-1 && a {
			info.class("args-absolute")
		}
	}
	info.class("flags:v=%v,gen=%v,imp=%v", cs.Verbose, cs.SkipGen, cs.SkipImports)
	return "", "", info
}

// c12LayoutSig names the input layouts for which a unified diff made of
// LF-terminated lines cannot express the change (used in signatures, so that
// a known finding is tied to the layout).
func c12LayoutSig(src string) string {
	switch {
	case strings.Contains(src, "\r"):
		return ":input-has-CR"
	case !strings.HasSuffix(src, "\n"):
		return ":input-lacks-final-newline"
	}
	return ""
}

// c12ConfirmNoDescription decides whether printing the description of change
// ci for file f contradicts the statement. The change "applied" to the file
// if, folding the changes one by one through the library (each on the result
// of the previous one), step ci alters the bytes. A step that matches yet
// reproduces the same bytes cannot be told from a non-match that way, so
// before anything is reported the step is repeated through the command line
// with -v, whose log says "patched" or "skipped".
func c12ConfirmNoDescription(cs *c12Case, f *c14File, ci int, why string) (sig, msg string) {
	cur := f.Src
	for i, ch := range cs.Changes {
		pf, res := run.ParseOnly("p.patch", []byte(ch))
		if pf == nil || res.Failed() {
			return "", ""
		}
		ra := run.ApplyParsed(pf, f.Name, []byte(cur))
		if ra.Failed() {
			return "", ""
		}
		if i == ci {
			if ra.ApplyErr == "" && string(ra.Out) != cur {
				return "", "" // it applied
			}
			// Confirm with the command line.
			dir, cleanup := run.TempDir("c12d-")
			defer cleanup()
			_ = os.WriteFile(filepath.Join(dir, "one.patch"), []byte(ch), 0o644)
			_ = os.WriteFile(filepath.Join(dir, "f.go"), []byte(cur), 0o644)
			r := run.CLI(dir, nil, "-p", "one.patch", "-v", "--print-only", "f.go")
			if r.Exit != 0 || !strings.Contains(string(r.Stdout), "f.go: skipped") {
				return "", ""
			}
			return "description-for-file-the-change-did-not-apply-to", "to which that change does not apply (alone, on the file as the earlier changes leave it, gopatch -v reports 'skipped'; " + why + ")"
		}
		if ra.ApplyErr != "" {
			return "", "" // the command line stops here; later changes are not reached
		}
		cur = string(ra.Out)
	}
	return "", ""
}

func c12Record(c *evid.Collector, cs *c12Case, info *c12Info) {
	var parts []string
	parts = append(parts, cs.Changes...)
	for _, f := range cs.Files {
		parts = append(parts, f.Name, f.Src)
	}
	parts = append(parts, cs.Args...)
	parts = append(parts, fmt.Sprint(cs.AbsArg, cs.Verbose, cs.SkipGen, cs.SkipImports, cs.Stdin))
	c.Case(evid.Hash(parts...), info.Nontrivial, info.Classes...)
	for _, f := range info.Foreign {
		c.Foreign(f)
	}
	if info.Nontrivial && c.WantSample() {
		c.Sample(map[string]any{"changes": cs.Labels, "files": info.Outcomes, "args": cs.Args, "abs": cs.AbsArg,
			"flags": fmt.Sprintf("v=%v skip-generated=%v skip-import-processing=%v stdin=%v", cs.Verbose, cs.SkipGen, cs.SkipImports, cs.Stdin),
			"patch": trunc(strings.Join(cs.Changes, ""), 500)})
	}
}

func TestC12(t *testing.T) {
	c := coll("C12")
	checkN(t, func(rt *rapid.T) {
		cs := c12DrawCase(rt)
		sig, msg, info := evalC12(cs)
		if info.Harness != "" {
			c.Note("harness:" + info.Harness)
			return
		}
		if info.Unjudged != "" {
			c.Note("unjudged:" + strings.SplitN(info.Unjudged, ":", 2)[0])
			for _, f := range info.Foreign {
				c.Foreign(f)
			}
			return
		}
		c12Record(c, cs, &info)
		for _, k := range info.Known {
			violate(rt, "C12", k[0], k[1], cs)
		}
		if sig != "" {
			violate(rt, "C12", sig, msg, cs)
		}
	})
}

func TestReplayC12(t *testing.T) {
	var cs c12Case
	if !loadReplay(t, "C12", &cs) {
		return
	}
	sig, msg, info := evalC12(&cs)
	for _, k := range info.Known {
		violate(t, "C12", k[0], k[1], &cs)
	}
	if sig != "" {
		violate(t, "C12", sig, msg, &cs)
	}
}
