package props

import (
	"bytes"
	"fmt"
	"github.com/uber-go/gopatch/verif/ref"
	"go/ast"
	"go/format"
	"go/parser"
	"go/token"
	"strings"
	"testing"

	"github.com/uber-go/gopatch/verif/evid"
	"github.com/uber-go/gopatch/verif/run"
	"pgregory.net/rapid"
)

// C04, parts (c) and (d).
//
// (c) mixed lines: a statement patch of 2-5 consecutive calls cK(...), each on
//     a removed, an added or an unchanged context line. Whatever the elisions
//     on changed lines are paired with, an elision on a context line must
//     reproduce its own arguments ("when the '...' stands on an unchanged
//     context line of the patch ... the elements it stood for reappear at
//     that place, complete, in their original order").
// (d) long lists: argument lists of 40-130 elements with a few repeated ones
//     against patterns of up to 6 symbols (atoms, two metavariables, elisions)
//     and the same backtracking model as part (a), generalised to strings:
//     nothing about the length of a list may change whether and how a
//     pattern matches.

type c04xLine struct {
	Prefix string   `json:"prefix"` // "-", " ", "+"
	Name   string   `json:"name"`
	Dots   bool     `json:"dots"`           // the call is written name(...)
	Lead   string   `json:"lead,omitempty"` // explicit first argument before the elision
	Args   []string `json:"args,omitempty"` // arguments of the call in the file ('-' and ' ' lines)
}

type c04xCase struct {
	Mode  string     `json:"mode"` // mixed-lines | long-list
	Lines []c04xLine `json:"lines,omitempty"`

	Pattern []string   `json:"pattern,omitempty"` // long-list: atoms, "x", "y", "..."
	Lists   [][]string `json:"lists,omitempty"`
}

func (cs *c04xCase) build() (patch, file string) {
	var p, f strings.Builder
	switch cs.Mode {
	case "mixed-lines":
		p.WriteString("@@\n@@\n")
		f.WriteString("package p\n\nfunc f() {\n\tpre()\n")
		for _, l := range cs.Lines {
			call := l.Name + "("
			if l.Lead != "" {
				call += l.Lead
				if l.Dots {
					call += ", "
				}
			}
			if l.Dots {
				call += "..."
			}
			call += ")"
			p.WriteString(l.Prefix + call + "\n")
			if l.Prefix != "+" {
				f.WriteString("\t" + l.Name + "(" + strings.Join(l.Args, ", ") + ")\n")
			}
		}
		f.WriteString("\tpost()\n}\n")
	case "grouped":
		// fields declared in groups ("a, b string"): a pattern element with
		// a single name is not an instance of a group, and elided groups
		// come back as groups. cs.Pattern[0] selects the list kind.
		switch cs.Pattern[0] {
		case "params":
			p.WriteString("@@\n@@\n-func tgt(..., a string, ...) {\n+func tgq(..., a Path, ...) {\n   ...\n }\n")
			f.WriteString("package p\n\n")
			for i, l := range cs.Lists {
				f.WriteString(fmt.Sprintf("func tgt(%s) {\n\tbody%d()\n}\n\n", strings.Join(l, ", "), i))
			}
		case "results":
			p.WriteString("@@\n@@\n-func tgt() (..., a string, ...) {\n+func tgq() (..., a Path, ...) {\n   ...\n }\n")
			f.WriteString("package p\n\n")
			for i, l := range cs.Lists {
				f.WriteString(fmt.Sprintf("func tgt() (%s) {\n\tbody%d()\n\treturn\n}\n\n", strings.Join(l, ", "), i))
			}
		default:
			p.WriteString("@@\nvar T identifier\n@@\n type T struct {\n   ...\n-  a string\n+  a Path\n   ...\n }\n")
			f.WriteString("package p\n\n")
			for i, l := range cs.Lists {
				f.WriteString(fmt.Sprintf("type tgt%d struct {\n\t%s\n}\n\n", i, strings.Join(l, "\n\t")))
			}
		}
	case "orphan":
		// an elision on the '+' side only: there is nothing it could stand for
		p.WriteString("@@\nvar x expression\n@@\n-tgt(" + strings.Join(cs.Pattern, ", ") + ")\n+tgq(" + strings.Join(append(append([]string{}, cs.Pattern...), "..."), ", ") + ")\n")
		f.WriteString("package p\n\nfunc f() {\n")
		for _, l := range cs.Lists {
			f.WriteString("\ttgt(" + strings.Join(l, ", ") + ")\n")
		}
		f.WriteString("}\n")
	case "plus-first", "pair":
		// one call pattern, the same on both sides but for the callee. In
		// "plus-first" it has a single elision and the '+' line stands above
		// the '-' line; in "pair" it has one to three elisions, '-' line
		// first: the k-th elision of one side is the k-th of the other.
		line := func(name string) string {
			var parts []string
			for _, s := range cs.Pattern {
				parts = append(parts, s)
			}
			return name + "(" + strings.Join(parts, ", ") + ")"
		}
		if cs.Mode == "pair" {
			p.WriteString("@@\nvar x, y expression\n@@\n-" + line("tgt") + "\n+" + line("tgq") + "\n")
		} else {
			p.WriteString("@@\nvar x, y expression\n@@\n+" + line("tgq") + "\n-" + line("tgt") + "\n")
		}
		f.WriteString("package p\n\nfunc f() {\n")
		for _, l := range cs.Lists {
			f.WriteString("\ttgt(" + strings.Join(l, ", ") + ")\n")
		}
		f.WriteString("}\n")
	case "long-list":
		p.WriteString("@@\nvar x, y expression\n@@\n-tgt(\n+tgq(\n")
		for _, s := range cs.Pattern {
			switch s {
			case "...":
				p.WriteString("   ...,\n")
			case "x", "y":
				p.WriteString("-  " + s + ",\n")
			default:
				p.WriteString("   " + s + ",\n")
			}
		}
		// the plus side wraps every metavariable occurrence: which element it
		// was bound to, and where, shows in the output
		var plus []string
		for _, s := range cs.Pattern {
			if s == "x" || s == "y" {
				plus = append(plus, "+  wq("+s+"),\n")
			}
		}
		// interleave: rebuild with each '-' hole line directly followed by its '+' line
		p.Reset()
		p.WriteString("@@\nvar x, y expression\n@@\n-tgt(\n+tgq(\n")
		for _, s := range cs.Pattern {
			switch s {
			case "...":
				p.WriteString("   ...,\n")
			case "x", "y":
				p.WriteString("-  " + s + ",\n+  wq(" + s + "),\n")
			default:
				p.WriteString("   " + s + ",\n")
			}
		}
		p.WriteString(" )\n")
		f.WriteString("package p\n\nfunc f() {\n")
		for _, l := range cs.Lists {
			f.WriteString("\ttgt(" + strings.Join(l, ", ") + ")\n")
		}
		f.WriteString("}\n")
	}
	return p.String(), f.String()
}

// c04xModel: the list model of part (a) over string atoms. It returns the
// expected argument list of the rewritten call.
func c04xModel(pat, list []string) ([]string, bool) {
	var rec func(pi, li int, bind map[string]string, out []string) ([]string, bool)
	rec = func(pi, li int, bind map[string]string, out []string) ([]string, bool) {
		if pi == len(pat) {
			if li == len(list) {
				return out, true
			}
			return nil, false
		}
		switch s := pat[pi]; s {
		case "...":
			for take := 0; li+take <= len(list); take++ {
				o := append(append([]string(nil), out...), list[li:li+take]...)
				if r, ok := rec(pi+1, li+take, bind, o); ok {
					return r, true
				}
			}
			return nil, false
		case "x", "y":
			if li >= len(list) {
				return nil, false
			}
			if b, ok := bind[s]; ok {
				if b != list[li] {
					return nil, false
				}
				return rec(pi+1, li+1, bind, append(append([]string(nil), out...), "wq("+list[li]+")"))
			}
			nb := map[string]string{s: list[li]}
			for k, v := range bind {
				nb[k] = v
			}
			return rec(pi+1, li+1, nb, append(append([]string(nil), out...), "wq("+list[li]+")"))
		default:
			if li >= len(list) || list[li] != s {
				return nil, false
			}
			return rec(pi+1, li+1, bind, append(append([]string(nil), out...), s))
		}
	}
	return rec(0, 0, map[string]string{}, nil)
}

// c04xCalls lists the statements of func f in src as (callee, printed arguments).
func c04xCalls(src []byte) ([][2]string, error) {
	fset := token.NewFileSet()
	f, err := parser.ParseFile(fset, "o.go", src, parser.SkipObjectResolution)
	if err != nil {
		return nil, err
	}
	var out [][2]string
	for _, d := range f.Decls {
		fd, ok := d.(*ast.FuncDecl)
		if !ok || fd.Body == nil {
			continue
		}
		for _, st := range fd.Body.List {
			es, ok := st.(*ast.ExprStmt)
			if !ok {
				out = append(out, [2]string{"?", ""})
				continue
			}
			call, ok := es.X.(*ast.CallExpr)
			if !ok {
				out = append(out, [2]string{"?", ""})
				continue
			}
			var name bytes.Buffer
			_ = format.Node(&name, fset, call.Fun)
			var args []string
			for _, a := range call.Args {
				var b bytes.Buffer
				_ = format.Node(&b, fset, a)
				args = append(args, b.String())
			}
			out = append(out, [2]string{name.String(), strings.Join(args, ", ")})
		}
	}
	return out, nil
}

func evalC04x(cs *c04xCase) (sig, msg string, nontrivial bool, note string) {
	patch, file := cs.build()
	r := run.API("p.patch", []byte(patch), "in.go", []byte(file))
	show := func() string {
		return fmt.Sprintf("patch:\n%s\nfile:\n%s\noutput:\n%s", patch, trunc(file, 1500), trunc(string(r.Out), 1500))
	}
	switch cs.Mode {
	case "mixed-lines":
		plusDots := false
		for _, l := range cs.Lines {
			if l.Prefix == "+" && l.Dots {
				plusDots = true
			}
		}
		switch {
		case r.Failed():
			return "", "", false, "foreign:C08"
		case r.ParseErr != "" || r.ApplyErr != "":
			if plusDots {
				return "", "", false, "unjudged:added-line-elision-rejected" // outside the statement
			}
			return "mixed-lines:rejected", fmt.Sprintf("every elision of this patch stands on a removed or a context line, yet gopatch fails: %s%s\n%s", r.ParseErr, r.ApplyErr, show()), false, ""
		}
		if plusDots && string(r.Out) == file {
			// an elision on an added line that has no counterpart: the
			// change is not carried out (outside the statement, like the
			// rejection above)
			return "", "", false, "unjudged:added-line-elision-not-applied"
		}
		got, err := c04xCalls(r.Out)
		if err != nil {
			return "", "", false, "foreign:C07"
		}
		var want [][2]string // callee, args ("*" = not judged)
		want = append(want, [2]string{"pre", ""})
		for _, l := range cs.Lines {
			switch l.Prefix {
			case " ":
				want = append(want, [2]string{l.Name, strings.Join(l.Args, ", ")})
				if l.Dots && len(l.Args) > 0 {
					nontrivial = true
				}
			case "+":
				a := "*"
				if !l.Dots {
					a = l.Lead
				}
				want = append(want, [2]string{l.Name, a})
			}
		}
		want = append(want, [2]string{"post", ""})
		if len(got) != len(want) {
			return "mixed-lines:statements", fmt.Sprintf("expected %d statements in f, got %d: %v\n%s", len(want), len(got), got, show()), nontrivial, ""
		}
		for i := range want {
			if got[i][0] != want[i][0] {
				return "mixed-lines:statements", fmt.Sprintf("statement %d of f: expected a call of %s, got %s\n%s", i, want[i][0], got[i][0], show()), nontrivial, ""
			}
			if want[i][1] != "*" && got[i][1] != want[i][1] {
				return "mixed-lines:context-line-arguments", fmt.Sprintf("the call %s(...) stands on an unchanged context line; its arguments must reappear unchanged (%q), got %q\n%s", want[i][0], want[i][1], got[i][1], show()), nontrivial, ""
			}
		}
		return "", "", nontrivial, ""
	case "grouped":
		switch {
		case r.Failed():
			return "", "", false, "foreign:C08"
		case r.ParseErr != "" || r.ApplyErr != "":
			return "grouped:rejected", fmt.Sprintf("gopatch fails: %s%s\n%s", r.ParseErr, r.ApplyErr, show()), false, ""
		}
		// expected text: a list holding the element "a string" on its own
		// is rewritten to "a Path" there, everything else stays as it is
		want := file
		for i, l := range cs.Lists {
			hit := false
			nl := append([]string{}, l...)
			for j, e := range nl {
				if e == "a string" {
					nl[j], hit = "a Path", true
					break
				}
			}
			if !hit {
				continue
			}
			nontrivial = true
			switch cs.Pattern[0] {
			case "params":
				want = strings.Replace(want, fmt.Sprintf("func tgt(%s) {\n\tbody%d()", strings.Join(l, ", "), i), fmt.Sprintf("func tgq(%s) {\n\tbody%d()", strings.Join(nl, ", "), i), 1)
			case "results":
				want = strings.Replace(want, fmt.Sprintf("func tgt() (%s) {\n\tbody%d()", strings.Join(l, ", "), i), fmt.Sprintf("func tgq() (%s) {\n\tbody%d()", strings.Join(nl, ", "), i), 1)
			default:
				want = strings.Replace(want, fmt.Sprintf("type tgt%d struct {\n\t%s\n}", i, strings.Join(l, "\n\t")), fmt.Sprintf("type tgt%d struct {\n\t%s\n}", i, strings.Join(nl, "\n\t")), 1)
			}
		}
		wt, err1 := parseTree([]byte(want))
		gt, err2 := parseTree(r.Out)
		if err1 != nil || err2 != nil {
			return "", "", false, "foreign:C07"
		}
		if d := ref.FirstDifference(wt, gt, ref.Output); d != nil {
			return "grouped:wrong-result", fmt.Sprintf("a field list with grouped names: the element \"a string\" is an instance only where it is declared on its own, and elided groups are reproduced as they are: %s\n%s", d.String(), show()), nontrivial, ""
		}
		return "", "", nontrivial, ""
	case "orphan":
		switch {
		case r.Failed():
			return "", "", false, "foreign:C08"
		case r.ParseErr != "" || r.ApplyErr != "":
			return "", "", true, "" // refused: fine
		case string(r.Out) == file:
			return "", "", true, "" // not carried out: fine
		}
		return "orphan:elision-without-counterpart-accepted", fmt.Sprintf("the '...' of the '+' line has no '...' on the '-' side to stand for, yet the change is carried out (the elision silently stands for nothing)\n%s", show()), true, ""
	case "plus-first", "pair":
		switch {
		case r.Failed():
			return "", "", false, "foreign:C08"
		case r.ParseErr != "":
			return "plus-first:rejected", fmt.Sprintf("gopatch rejects the pattern: %s\n%s", r.ParseErr, show()), false, ""
		case r.ApplyErr != "":
			return "plus-first:apply-error", fmt.Sprintf("Apply fails: %s\n%s", r.ApplyErr, show()), false, ""
		}
		got, err := c04xCalls(r.Out)
		if err != nil {
			return "", "", false, "foreign:C07"
		}
		if len(got) != len(cs.Lists) {
			return "plus-first:statements", fmt.Sprintf("expected %d calls, got %d\n%s", len(cs.Lists), len(got), show()), false, ""
		}
		for i, l := range cs.Lists {
			_, ok := c04xModel(cs.Pattern, l)
			wantName, wantArgs := "tgt", strings.Join(l, ", ")
			if ok {
				// the plus side is the minus side under another callee:
				// metavariables and the elided run reappear unchanged, so the
				// arguments are those of the input
				wantName = "tgq"
				if len(l) > len(cs.Pattern)-1 {
					nontrivial = true
				}
			}
			if got[i][0] != wantName {
				return "plus-first:match", fmt.Sprintf("list %d %v, pattern %v: model says match=%v, gopatch wrote %s(...)\n%s", i, l, cs.Pattern, ok, got[i][0], show()), nontrivial, ""
			}
			if got[i][1] != wantArgs {
				return cs.Mode + ":elided-run-lost", fmt.Sprintf("both sides have the same elisions in the same order, each stands for what its counterpart matched: list %d %v, pattern %v: expected arguments %q, got %q\n%s", i, l, cs.Pattern, wantArgs, got[i][1], show()), nontrivial, ""
			}
		}
		return "", "", nontrivial, ""
	case "long-list":
		switch {
		case r.Failed():
			return "", "", false, "foreign:C08"
		case r.ParseErr != "":
			return "long-list:rejected", fmt.Sprintf("gopatch rejects the pattern: %s\n%s", r.ParseErr, show()), false, ""
		case r.ApplyErr != "":
			return "long-list:apply-error", fmt.Sprintf("Apply fails: %s\n%s", r.ApplyErr, show()), false, ""
		}
		got, err := c04xCalls(r.Out)
		if err != nil {
			return "", "", false, "foreign:C07"
		}
		if len(got) != len(cs.Lists) {
			return "long-list:statements", fmt.Sprintf("expected %d calls, got %d\n%s", len(cs.Lists), len(got), show()), false, ""
		}
		for i, l := range cs.Lists {
			exp, ok := c04xModel(cs.Pattern, l)
			wantName, wantArgs := "tgt", strings.Join(l, ", ")
			if ok {
				wantName, wantArgs = "tgq", strings.Join(exp, ", ")
				if strings.Join(exp, ", ") != strings.Join(l, ", ") || len(l) > 30 || len(cs.Pattern) > 6 {
					nontrivial = true
				}
			}
			if got[i][0] != wantName {
				cl := "long-list:should-match-but-did-not"
				if !ok {
					cl = "long-list:matched-but-should-not"
				}
				return cl, fmt.Sprintf("list %d (%d elements), pattern %v: model says match=%v, gopatch wrote %s(...)\n%s", i, len(l), cs.Pattern, ok, got[i][0], show()), nontrivial, ""
			}
			if got[i][1] != wantArgs {
				return "long-list:wrong-arguments", fmt.Sprintf("list %d (%d elements), pattern %v: expected arguments\n  %s\ngot\n  %s\n%s", i, len(l), cs.Pattern, wantArgs, got[i][1], show()), nontrivial, ""
			}
		}
		return "", "", nontrivial, ""
	}
	return "", "", false, "unknown-mode"
}

func c04xDraw(rt *rapid.T) *c04xCase {
	if rapid.Bool().Draw(rt, "mode") {
		cs := &c04xCase{Mode: "mixed-lines"}
		n := rapid.IntRange(2, 5).Draw(rt, "nLines")
		hasCtx, hasChange := false, false
		for i := 0; i < n; i++ {
			l := c04xLine{Name: fmt.Sprintf("c%d", i)}
			l.Prefix = rapid.SampledFrom([]string{"-", " ", " ", "+"}).Draw(rt, fmt.Sprintf("pfx%d", i))
			if i == n-1 && !hasCtx {
				l.Prefix = " "
			}
			if i == n-1 && !hasChange && l.Prefix == " " && hasCtx {
				l.Prefix = "-"
			}
			l.Dots = rapid.IntRange(0, 4).Draw(rt, fmt.Sprintf("dots%d", i)) > 0
			if l.Prefix == "+" {
				l.Dots = rapid.IntRange(0, 2).Draw(rt, fmt.Sprintf("plusDots%d", i)) == 0
			}
			if rapid.IntRange(0, 3).Draw(rt, fmt.Sprintf("lead%d", i)) == 0 {
				l.Lead = "first"
			}
			if l.Prefix != "+" {
				k := rapid.IntRange(0, 3).Draw(rt, fmt.Sprintf("argc%d", i))
				if !l.Dots {
					k = 0
				}
				if l.Lead != "" {
					l.Args = append(l.Args, l.Lead)
				}
				for j := 0; j < k; j++ {
					l.Args = append(l.Args, rapid.SampledFrom([]string{"a", "b", "ctx", "req", "1", "\"run\"", "f(x)", "nil"}).Draw(rt, fmt.Sprintf("arg%d_%d", i, j)))
				}
			}
			switch l.Prefix {
			case " ":
				hasCtx = true
			default:
				hasChange = true
			}
			cs.Lines = append(cs.Lines, l)
		}
		if !hasChange {
			cs.Lines[0].Prefix = "-"
		}
		return cs
	}
	if rapid.IntRange(0, 9).Draw(rt, "grouped") == 0 {
		cs := &c04xCase{Mode: "grouped", Pattern: []string{rapid.SampledFrom([]string{"params", "results", "fields"}).Draw(rt, "groupedKind")}}
		pool := []string{"a string", "a, b string", "b, a string", "c, d int", "e int", "x, y, z float64", "a int", "f func(a string)"}
		n := rapid.IntRange(1, 4).Draw(rt, "nLists")
		for i := 0; i < n; i++ {
			k := rapid.IntRange(1, 4).Draw(rt, fmt.Sprintf("len%d", i))
			var l []string
			used := map[string]bool{}
			for j := 0; j < k; j++ {
				e := rapid.SampledFrom(pool).Draw(rt, fmt.Sprintf("e%d_%d", i, j))
				// a name may be declared once per list
				clash := false
				for _, nm := range strings.FieldsFunc(strings.SplitN(e, " ", 2)[0]+","+strings.Join(strings.Split(strings.SplitN(e, " ", 2)[0], ","), ","), func(r rune) bool { return r == ',' || r == ' ' }) {
					if used[nm] {
						clash = true
					}
				}
				names := strings.Split(e[:strings.LastIndex(e, " ")], ", ")
				if strings.HasPrefix(e, "f func") {
					names = []string{"f"}
				}
				for _, nm := range names {
					if used[nm] {
						clash = true
					}
				}
				if clash {
					continue
				}
				for _, nm := range names {
					used[nm] = true
				}
				l = append(l, e)
			}
			if len(l) == 0 {
				l = []string{"e int"}
			}
			cs.Lists = append(cs.Lists, l)
		}
		return cs
	}
	if rapid.IntRange(0, 11).Draw(rt, "orphan") == 0 {
		cs := &c04xCase{Mode: "orphan"}
		cs.Pattern = append([]string{}, rapid.SampledFrom([][]string{{}, {"a"}, {"x"}, {"a", "x"}}).Draw(rt, "orphanPattern")...)
		cs.Lists = [][]string{append([]string{}, cs.Pattern...)}
		for i, e := range cs.Lists[0] {
			if e == "x" {
				cs.Lists[0][i] = "f(c)"
			}
		}
		cs.Lists = append(cs.Lists, []string{"b", "b"})
		return cs
	}
	if rapid.IntRange(0, 5).Draw(rt, "pair") == 0 {
		cs := &c04xCase{Mode: "pair"}
		n := rapid.IntRange(1, 4).Draw(rt, "nLists")
		for i := 0; i < n; i++ {
			k := rapid.IntRange(0, 6).Draw(rt, fmt.Sprintf("len%d", i))
			var l []string
			for j := 0; j < k; j++ {
				l = append(l, rapid.SampledFrom([]string{"a", "b", "1", "f(c)"}).Draw(rt, fmt.Sprintf("e%d_%d", i, j)))
			}
			cs.Lists = append(cs.Lists, l)
		}
		cs.Pattern = append([]string{}, rapid.SampledFrom([][]string{
			{"...", "a", "..."}, {"...", "x", "..."}, {"a", "...", "b", "..."}, {"...", "x", "...", "y"}, {"...", "a", "...", "b", "..."}, {"x", "...", "x", "..."}, {"...", "..."},
		}).Draw(rt, "pairPattern")...)
		return cs
	}
	if rapid.IntRange(0, 5).Draw(rt, "plusFirst") == 0 {
		cs := &c04xCase{Mode: "plus-first"}
		n := rapid.IntRange(1, 4).Draw(rt, "nLists")
		for i := 0; i < n; i++ {
			k := rapid.IntRange(0, 4).Draw(rt, fmt.Sprintf("len%d", i))
			var l []string
			for j := 0; j < k; j++ {
				l = append(l, rapid.SampledFrom([]string{"a", "b", "1", "f(c)"}).Draw(rt, fmt.Sprintf("e%d_%d", i, j)))
			}
			cs.Lists = append(cs.Lists, l)
		}
		before := rapid.SampledFrom([][]string{{}, {"a"}, {"x"}, {"x", "b"}}).Draw(rt, "before")
		after := rapid.SampledFrom([][]string{{}, {}, {"b"}, {"y"}}).Draw(rt, "after")
		cs.Pattern = append(append(append([]string{}, before...), "..."), after...)
		return cs
	}
	if rapid.IntRange(0, 2).Draw(rt, "deepPattern") == 0 {
		// Patterns beyond the bound of the exhaustive part: up to 9 symbols
		// with up to 5 elisions, repeated metavariables, short lists over a
		// three-letter alphabet (many candidate positions, many repeats).
		cs := &c04xCase{Mode: "long-list"}
		nl := rapid.IntRange(2, 5).Draw(rt, "nLists")
		for i := 0; i < nl; i++ {
			n := rapid.IntRange(2, 9).Draw(rt, fmt.Sprintf("len%d", i))
			l := make([]string, n)
			for j := range l {
				l[j] = rapid.SampledFrom([]string{"a", "b", "c"}).Draw(rt, fmt.Sprintf("e%d_%d", i, j))
			}
			cs.Lists = append(cs.Lists, l)
		}
		np := rapid.IntRange(4, 9).Draw(rt, "patLen")
		dots := 0
		for i := 0; i < np; i++ {
			k := rapid.IntRange(0, 9).Draw(rt, fmt.Sprintf("sym%d", i))
			switch {
			case k <= 4 && dots < 5 && (len(cs.Pattern) == 0 || cs.Pattern[len(cs.Pattern)-1] != "..."):
				cs.Pattern = append(cs.Pattern, "...")
				dots++
			case k <= 6:
				cs.Pattern = append(cs.Pattern, "x")
			case k <= 8:
				cs.Pattern = append(cs.Pattern, "y")
			default:
				cs.Pattern = append(cs.Pattern, rapid.SampledFrom([]string{"a", "b"}).Draw(rt, fmt.Sprintf("atom%d", i)))
			}
		}
		return cs
	}
	cs := &c04xCase{Mode: "long-list"}
	alphabet := make([]string, 40)
	for i := range alphabet {
		alphabet[i] = fmt.Sprintf("e%d", i)
	}
	nl := rapid.IntRange(1, 3).Draw(rt, "nLists")
	for i := 0; i < nl; i++ {
		n := rapid.SampledFrom([]int{40, 64, 65, 66, 90, 128, 130, 12, 3}).Draw(rt, fmt.Sprintf("len%d", i))
		l := make([]string, n)
		for j := range l {
			// mostly distinct elements, a few repeats
			if rapid.IntRange(0, 9).Draw(rt, fmt.Sprintf("rep%d_%d", i, j)) == 0 && j > 0 {
				l[j] = l[rapid.IntRange(0, j-1).Draw(rt, fmt.Sprintf("repOf%d_%d", i, j))]
			} else {
				l[j] = fmt.Sprintf("u%d", j)
			}
		}
		cs.Lists = append(cs.Lists, l)
	}
	first := cs.Lists[0]
	np := rapid.IntRange(1, 6).Draw(rt, "patLen")
	for i := 0; i < np; i++ {
		switch rapid.IntRange(0, 9).Draw(rt, fmt.Sprintf("sym%d", i)) {
		case 0, 1, 2, 3:
			if len(cs.Pattern) == 0 || cs.Pattern[len(cs.Pattern)-1] != "..." {
				cs.Pattern = append(cs.Pattern, "...")
				continue
			}
			fallthrough
		case 4, 5:
			cs.Pattern = append(cs.Pattern, "x")
		case 6:
			cs.Pattern = append(cs.Pattern, "y")
		case 7, 8:
			// an element of the first list, preferably far from its start
			cs.Pattern = append(cs.Pattern, first[rapid.IntRange(len(first)/2, len(first)-1).Draw(rt, fmt.Sprintf("atom%d", i))])
		default:
			cs.Pattern = append(cs.Pattern, "nosuch")
		}
	}
	return cs
}

func c04xRun(t *testing.T) {
	c := coll("C04")
	checkN(t, func(rt *rapid.T) {
		cs := c04xDraw(rt)
		sig, msg, nontriv, note := evalC04x(cs)
		if note != "" {
			c.Note(note)
			return
		}
		p, f := cs.build()
		c.Case(evid.Hash(p, f), nontriv, "part:"+cs.Mode)
		if nontriv && c.WantSample() {
			c.Sample(map[string]any{"part": cs.Mode, "patch": trunc(p, 400), "file": trunc(f, 300)})
		}
		if sig != "" {
			violate(rt, "C04", sig, msg, cs)
		}
	})
}
