package props

import (
	"encoding/json"
	"fmt"
	"os"
	"strings"
	"testing"

	"github.com/uber-go/gopatch/verif/evid"
	"github.com/uber-go/gopatch/verif/run"
	"pgregory.net/rapid"
)

// C02, import part: an identifier metavariable that names an import of the
// change and occurs again in its code. The import section binds it for the
// whole file - to the name under which the file imports the path or, when the
// file imports it without a name, to the metavariable's own spelling
// (documented: "gopatch will use that as the name of the package"). Calls of
// the same shape through any other qualifier are not instances: a binding
// must not be made afresh at every site.

type c02iCase struct {
	ImportBound bool     `json:"import_bound"`
	FileName    string   `json:"file_name"`  // name under which the file imports the path ("" none)
	Qualifiers  []string `json:"qualifiers"` // qualifier of each call in the file, in order
	LineKind    string   `json:"line_kind"`  // context | minus: the import line of the change
	Repeated    bool     `json:"repeated"`   // the metavariable occurs twice in the code pattern
	Others      int      `json:"others"`     // further imports the file has
	// Before: a second import of the same path, under this name, that stands
	// before the other one in the file ("" none). The code is looked for
	// under each of the two names in turn; the first that has an instance
	// is the binding for the file.
	Before string `json:"before,omitempty"`
}

const c02iPath = "example.com/bound/pkg"

func c02iDraw(rt *rapid.T) *c02iCase {
	cs := &c02iCase{ImportBound: true}
	cs.FileName = rapid.SampledFrom([]string{"", "", "pk", "alias", "mailer"}).Draw(rt, "fileName")
	pool := []string{"pk", "alias", "mailer", "queue", "q.sub", "other"}
	n := rapid.IntRange(2, 6).Draw(rt, "nCalls")
	for i := 0; i < n; i++ {
		cs.Qualifiers = append(cs.Qualifiers, rapid.SampledFrom(pool).Draw(rt, fmt.Sprintf("q%d", i)))
	}
	// make sure the bound name and a look-alike both occur
	cs.Qualifiers[0] = cs.bound()
	if cs.Qualifiers[1] == cs.bound() {
		cs.Qualifiers[1] = map[bool]string{true: "queue", false: "mailer"}[cs.bound() == "mailer"]
	}
	cs.LineKind = rapid.SampledFrom([]string{"context", "minus"}).Draw(rt, "lineKind")
	cs.Repeated = rapid.Bool().Draw(rt, "repeated")
	cs.Others = rapid.IntRange(0, 3).Draw(rt, "others")
	if cs.FileName != "" && rapid.IntRange(0, 2).Draw(rt, "twice") == 0 {
		cs.Before = "first"
		if rapid.Bool().Draw(rt, "usedUnderFirst") {
			cs.Qualifiers[len(cs.Qualifiers)-1] = "first"
		}
	}
	return cs
}

// bound is the name the metavariable stands for in this file.
func (cs *c02iCase) bound() string {
	if cs.FileName == "" {
		return "pk" // the spelling of the metavariable
	}
	if cs.Before != "" {
		for _, q := range cs.Qualifiers {
			if q == cs.Before {
				return cs.Before
			}
		}
	}
	return cs.FileName
}

// other is the name of the file's other import of the path, if any: calls
// through it are not judged.
func (cs *c02iCase) other() string {
	if cs.Before == "" {
		return ""
	}
	if cs.bound() == cs.Before {
		return cs.FileName
	}
	return cs.Before
}

func (cs *c02iCase) build() (patch, file string) {
	pfx := " "
	if cs.LineKind == "minus" {
		pfx = "-"
	}
	var p strings.Builder
	p.WriteString("@@\nvar pk identifier\nvar m expression\n@@\n")
	p.WriteString(fmt.Sprintf("%simport pk %q\n", pfx, c02iPath))
	if cs.LineKind == "minus" {
		p.WriteString(fmt.Sprintf("+import pk %q\n", c02iPath+"/v2"))
	}
	if cs.Repeated {
		p.WriteString("\n-pk.Send(m, pk.Default)\n+pk.Deliver(m, pk.Default)\n")
	} else {
		p.WriteString("\n-pk.Send(m)\n+pk.Deliver(m)\n")
	}
	var f strings.Builder
	f.WriteString("package subject\n\nimport (\n")
	others := []string{`"fmt"`, `mailer2 "example.com/mail"`, `"example.com/queue/v3"`}
	for i := 0; i < cs.Others; i++ {
		f.WriteString("\t" + others[i] + "\n")
	}
	if cs.Before != "" {
		f.WriteString(fmt.Sprintf("\t%s %q\n", cs.Before, c02iPath))
	}
	if cs.FileName == "" {
		f.WriteString(fmt.Sprintf("\t%q\n", c02iPath))
	} else {
		f.WriteString(fmt.Sprintf("\t%s %q\n", cs.FileName, c02iPath))
	}
	f.WriteString(")\n\nfunc calls(msg string) {\n")
	for i, q := range cs.Qualifiers {
		if cs.Repeated {
			f.WriteString(fmt.Sprintf("\t%s.Send(msg+\"%d\", %s.Default)\n", q, i, q))
		} else {
			f.WriteString(fmt.Sprintf("\t%s.Send(msg + \"%d\")\n", q, i))
		}
	}
	f.WriteString("}\n")
	return p.String(), f.String()
}

func evalC02i(cs *c02iCase) (sig, msg string, sites, lookalikes int) {
	patch, file := cs.build()
	r := run.API("p.patch", []byte(patch), "f.go", []byte(file))
	switch {
	case r.Failed():
		return "", "foreign:C08", 0, 0
	case r.ParseErr != "":
		return "import-bound:rejected", fmt.Sprintf("gopatch rejects the patch: %s\n%s", r.ParseErr, patch), 0, 0
	case r.ApplyErr != "":
		return "import-bound:apply-error", fmt.Sprintf("Apply fails: %s\npatch:\n%s\nfile:\n%s", r.ApplyErr, patch, file), 0, 0
	}
	out := string(r.Out)
	for i, q := range cs.Qualifiers {
		arg := fmt.Sprintf("msg+\"%d\"", i)
		if !cs.Repeated {
			arg = fmt.Sprintf("msg + \"%d\"", i)
		}
		if q == cs.other() && q != "" {
			continue
		}
		isSite := q == cs.bound()
		if isSite {
			sites++
		} else {
			lookalikes++
		}
		sent := strings.Contains(out, q+".Send("+arg) || strings.Contains(out, q+".Send(msg+\""+fmt.Sprint(i)+"\"")
		delivered := strings.Contains(out, q+".Deliver("+arg) || strings.Contains(out, q+".Deliver(msg+\""+fmt.Sprint(i)+"\"")
		switch {
		case isSite && !delivered:
			return "import-bound:site-unrewritten", fmt.Sprintf("call %d goes through %q, the name the metavariable is bound to by the import section, and is not rewritten\npatch:\n%s\nfile:\n%s\noutput:\n%s", i, q, patch, file, out), sites, lookalikes
		case !isSite && (delivered || !sent):
			return "import-bound:rebound-at-site", fmt.Sprintf("call %d goes through %q, but the import section binds the metavariable to %q for the whole file: it is not an instance, yet it was rewritten\npatch:\n%s\nfile:\n%s\noutput:\n%s", i, q, cs.bound(), patch, file, out), sites, lookalikes
		}
	}
	return "", "", sites, lookalikes
}

func c02iRun(rt *rapid.T, c *evid.Collector) {
	cs := c02iDraw(rt)
	sig, msg, sites, look := evalC02i(cs)
	if msg == "foreign:C08" {
		c.Foreign("foreign:C08")
		return
	}
	c.Case(evid.Hash(fmt.Sprint(*cs)), sites >= 1 && look >= 1, "family:import-bound-metavariable", "file-import-named:"+fmt.Sprint(cs.FileName != ""), "import-line:"+cs.LineKind, fmt.Sprintf("path-imported-twice:%v", cs.Before != ""), fmt.Sprintf("repeated-in-code:%v", cs.Repeated), "nontrivial")
	if c.WantSample() {
		p, f := cs.build()
		c.Sample(map[string]any{"family": "import-bound-metavariable", "patch": p, "file": f, "sites": sites, "near_misses": look})
	}
	if sig != "" {
		violate(rt, "C02", sig, msg, cs)
	}
}

// c02iReplay replays a case of this family; ok is false when the replay file
// holds a case of the model family.
func c02iReplay(t *testing.T) (ok bool) {
	p := os.Getenv("VERIF_REPLAY")
	if p == "" {
		return false
	}
	b, err := os.ReadFile(p)
	if err != nil {
		return false
	}
	var r Replay
	if json.Unmarshal(b, &r) != nil {
		return false
	}
	var cs c02iCase
	if json.Unmarshal(r.Case, &cs) != nil || !cs.ImportBound {
		return false
	}
	if sig, msg, _, _ := evalC02i(&cs); sig != "" {
		violate(t, "C02", sig, msg, &cs)
	}
	return true
}
