package props

import (
	"fmt"
	"go/ast"
	"go/format"
	"go/parser"
	"go/token"
	"os"
	"path/filepath"
	"strconv"
	"strings"
	"testing"

	"github.com/uber-go/gopatch/verif/evid"
	"github.com/uber-go/gopatch/verif/gen"
	"github.com/uber-go/gopatch/verif/ref"
	"github.com/uber-go/gopatch/verif/run"
	"pgregory.net/rapid"
)

// C09 — changes and patch files are applied strictly in order.
//
// Oracle (differential): one combined run over the whole sequence vs the
// chain of single-change runs, each starting from the bytes the previous one
// wrote; compared as canonical syntax trees with parentheses looked through.

type c09Case struct {
	Changes []string `json:"changes"` // patch text of each change, in order
	Split   []int    `json:"split"`   // number of changes per patch file, in order
	Channel string   `json:"channel"` // one-file | multi-p | list | stdin | p-then-list
	File    string   `json:"file"`
	Family  string   `json:"family"`
	// Repeat: the last patch file has the text of the first one and is not
	// written again: the same path is named twice (-p a -p b -p a, or twice
	// in the -P list). The chain runs its changes a second time.
	Repeat bool `json:"repeat,omitempty"`
	// ListNoLF: the -P list file does not end in a line feed.
	ListNoLF bool `json:"list_no_lf,omitempty"`

	formatted bool // the file was put through gofmt for a second look
	oneFile   bool // generator's wish: all changes in one patch file
}

func c09Run(dir string, stdin []byte, args ...string) *run.CLIResult {
	return run.CLI(dir, stdin, args...)
}

// c09Chain runs the changes one at a time. It returns the final bytes, the
// index of the first failing step (-1: none) and how many steps changed the file.
func c09Chain(cs *c09Case) (out []byte, failed int, applied int, stderr string, harnessErr string) {
	dir, cleanup := run.TempDir("c09c-")
	defer cleanup()
	cur := []byte(cs.File)
	target := filepath.Join(dir, "f.go")
	for i, ch := range cs.Changes {
		if err := os.WriteFile(target, cur, 0o644); err != nil {
			return nil, -1, 0, "", err.Error()
		}
		pp := filepath.Join(dir, fmt.Sprintf("c%d.patch", i))
		if err := os.WriteFile(pp, []byte(ch), 0o644); err != nil {
			return nil, -1, 0, "", err.Error()
		}
		r := c09Run(dir, nil, "-p", pp, "f.go")
		if r.StartErr != "" || r.TimedOut || r.Crashed() {
			return nil, -1, 0, "", "foreign:C08 " + trunc(string(r.Stderr), 300)
		}
		if r.Exit != 0 {
			return cur, i, applied, string(r.Stderr), ""
		}
		nb, err := os.ReadFile(target)
		if err != nil {
			return nil, -1, 0, "", err.Error()
		}
		if string(nb) != string(cur) {
			applied++
		}
		cur = nb
	}
	return cur, -1, applied, "", ""
}

func c09Combined(cs *c09Case) (out []byte, exit int, stderr string, harnessErr string) {
	dir, cleanup := run.TempDir("c09k-")
	defer cleanup()
	target := filepath.Join(dir, "f.go")
	if err := os.WriteFile(target, []byte(cs.File), 0o644); err != nil {
		return nil, 0, "", err.Error()
	}
	var files []string
	k := 0
	for fi, n := range cs.Split {
		var b strings.Builder
		for j := 0; j < n && k < len(cs.Changes); j++ {
			if j > 0 {
				b.WriteString("\n")
			}
			b.WriteString(cs.Changes[k])
			k++
		}
		p := filepath.Join(dir, fmt.Sprintf("p%d.patch", fi))
		if cs.Repeat && fi == len(cs.Split)-1 && fi > 0 {
			first, _ := os.ReadFile(files[0])
			if string(first) == b.String() {
				files = append(files, files[0])
				continue
			}
		}
		if err := os.WriteFile(p, []byte(b.String()), 0o644); err != nil {
			return nil, 0, "", err.Error()
		}
		files = append(files, p)
	}
	var args []string
	var stdin []byte
	switch cs.Channel {
	case "stdin":
		stdin, _ = os.ReadFile(files[0])
	case "list":
		lp := filepath.Join(dir, "patches.txt")
		end := "\n"
		if cs.ListNoLF {
			end = ""
		}
		_ = os.WriteFile(lp, []byte(strings.Join(files, "\n")+end), 0o644)
		args = append(args, "-P", lp)
	case "p-then-list":
		// -p flags are loaded before the -P list: first file via -p, the rest via -P
		args = append(args, "-p", files[0])
		if len(files) > 1 {
			lp := filepath.Join(dir, "patches.txt")
			end := "\n"
			if cs.ListNoLF {
				end = ""
			}
			_ = os.WriteFile(lp, []byte(strings.Join(files[1:], "\n\n")+end), 0o644)
			args = append(args, "-P", lp)
		}
	default:
		for _, f := range files {
			args = append(args, "-p", f)
		}
	}
	args = append(args, "f.go")
	r := c09Run(dir, stdin, args...)
	if r.StartErr != "" || r.TimedOut || r.Crashed() {
		return nil, 0, "", "foreign:C08 " + trunc(string(r.Stderr), 300)
	}
	nb, err := os.ReadFile(target)
	if err != nil {
		return nil, 0, "", err.Error()
	}
	return nb, r.Exit, string(r.Stderr), ""
}

type c09Info struct {
	Applied int
	Failed  int
	Depends bool // some change matches only because of its predecessor
	Harness string
}

func evalC09(cs *c09Case) (sig, msg string, info c09Info) {
	chainOut, failed, applied, chainErr, herr := c09Chain(cs)
	info.Applied, info.Failed = applied, failed
	if herr != "" {
		info.Harness = herr
		return "", herr, info
	}
	combOut, exit, combErr, herr := c09Combined(cs)
	if herr != "" {
		info.Harness = herr
		return "", herr, info
	}
	show := func() string {
		var b strings.Builder
		fmt.Fprintf(&b, "channel %s, changes per patch file %v\n", cs.Channel, cs.Split)
		for i, ch := range cs.Changes {
			fmt.Fprintf(&b, "--- change %d ---\n%s", i, ch)
		}
		fmt.Fprintf(&b, "--- file ---\n%s", trunc(cs.File, 1200))
		return b.String()
	}
	// Dependence: does some change apply in the chain although it does not
	// apply to the original file on its own?
	if failed < 0 && applied >= 2 {
		for i := 1; i < len(cs.Changes); i++ {
			r := run.API("c.patch", []byte(cs.Changes[i]), "f.go", []byte(cs.File))
			if r.OK() && string(r.Out) == cs.File {
				info.Depends = true
			}
		}
	}
	if failed >= 0 {
		switch {
		case exit == 0:
			if strings.Contains(chainErr, "reformat \"") {
				// the step's result cannot be written out as Go; in the
				// combined run nobody tries to
				return "failed-step-not-reported:intermediate-text-invalid", fmt.Sprintf("step %d fails on its own (%s) but the combined run exits 0\n%s", failed, strings.TrimSpace(chainErr), show()), info
			}
			return "failed-step-not-reported", fmt.Sprintf("step %d fails on its own (%s) but the combined run exits 0\n%s", failed, strings.TrimSpace(chainErr), show()), info
		case string(combOut) != cs.File:
			return "failed-step-file-modified", fmt.Sprintf("step %d fails (%s); the combined run reports a failure (%s) but the file was modified:\n%s\n%s", failed, strings.TrimSpace(chainErr), strings.TrimSpace(combErr), trunc(string(combOut), 800), show()), info
		}
		return "", "", info
	}
	if exit != 0 {
		return "combined-fails", fmt.Sprintf("every single step succeeds but the combined run exits %d: %s\n%s", exit, strings.TrimSpace(combErr), show()), info
	}
	wt, err1 := parseTree(chainOut)
	gt, err2 := parseTree(combOut)
	if err1 != nil || err2 != nil {
		return "", "foreign:C07", info
	}
	if cs.Channel == "one-file" && len(cs.Split) == 1 {
		// the library: one parsed patch file holding all the changes
		ra := run.API("p.patch", []byte(strings.Join(cs.Changes, "\n")), "f.go", []byte(cs.File))
		if ra.OK() {
			if at, err := parseTree(ra.Out); err == nil {
				if d := ref.FirstDifference(gt, at, ref.Output); d != nil {
					return "api-differs-from-cli", fmt.Sprintf("patch.File.Apply with all the changes in one patch differs from the command line run over the same patch (want = command line, got = library): %s\n%s\n--- command line ---\n%s\n--- library ---\n%s", d.String(), show(), trunc(string(combOut), 1200), trunc(string(ra.Out), 1200)), info
				}
			}
		}
	}
	if d := ref.FirstDifference(wt, gt, ref.Output); d != nil {
		// Narrower cause: the file is not in gofmt's form (0XFF, "(error)"
		// as a result, ...). Each run of the chain prints the file, which
		// puts it into that form, while the combined run keeps working on
		// the tree as parsed. With the file formatted beforehand the two
		// agree.
		if fm, err := format.Source([]byte(cs.File)); err == nil && string(fm) != cs.File && !cs.formatted {
			c2 := *cs
			c2.File, c2.formatted = string(fm), true
			if s2, _, i2 := evalC09(&c2); s2 == "" && i2.Harness == "" {
				return "combined-differs-from-chain:file-not-in-gofmt-form", fmt.Sprintf("(with the file formatted by gofmt beforehand the combined run and the chain agree)\nthe combined run differs from running the changes one after the other (want = chain, got = combined): %s\n%s\n--- chain result ---\n%s\n--- combined result ---\n%s", d.String(), show(), trunc(string(chainOut), 1200), trunc(string(combOut), 1200)), info
			}
		}
		if name := c09SpelledOutLocal(cs); name != "" && c09OnlyImportsDiffer(chainOut, combOut) {
			return "combined-differs-from-chain:plus-line-spells-out-a-local-named-like-an-import", fmt.Sprintf("(only the imports differ; a '+' line spells out %q, which is a local variable and the name of an import in this file)\nthe combined run differs from running the changes one after the other (want = chain, got = combined): %s\n%s\n--- chain result ---\n%s\n--- combined result ---\n%s", name, d.String(), show(), trunc(string(chainOut), 1200), trunc(string(combOut), 1200)), info
		}
		return "combined-differs-from-chain", fmt.Sprintf("the combined run differs from running the changes one after the other (want = chain, got = combined): %s\n%s\n--- chain result ---\n%s\n--- combined result ---\n%s", d.String(), show(), trunc(string(chainOut), 1200), trunc(string(combOut), 1200)), info
	}
	return "", "", info
}

// c09SpelledOutLocal returns a name that is, in the file, both the name of
// an import and the name of a local variable or parameter, and that a '+'
// line of some change spells out in front of a selector ("+conn.fd").
func c09SpelledOutLocal(cs *c09Case) string {
	f, err := parser.ParseFile(token.NewFileSet(), "f.go", cs.File, 0)
	if err != nil {
		return ""
	}
	imported := map[string]bool{}
	for _, sp := range f.Imports {
		if sp.Name != nil {
			imported[sp.Name.Name] = true
		} else if p, err := strconv.Unquote(sp.Path.Value); err == nil {
			imported[p[strings.LastIndex(p, "/")+1:]] = true
		}
	}
	found := ""
	ast.Inspect(f, func(n ast.Node) bool {
		if id, ok := n.(*ast.Ident); ok && id.Obj != nil && id.Obj.Kind == ast.Var && imported[id.Name] {
			for _, ch := range cs.Changes {
				for _, ln := range strings.Split(ch, "\n") {
					if strings.HasPrefix(ln, "+") && strings.Contains(ln, id.Name+".") {
						found = id.Name
					}
				}
			}
		}
		return found == ""
	})
	return found
}

// c09OnlyImportsDiffer reports whether two files are the same but for their
// import declarations.
func c09OnlyImportsDiffer(a, b []byte) bool {
	strip := func(src []byte) *ref.Tree {
		f, err := parser.ParseFile(token.NewFileSet(), "f.go", src, 0)
		if err != nil {
			return nil
		}
		var decls []ast.Decl
		for _, d := range f.Decls {
			if g, ok := d.(*ast.GenDecl); ok && g.Tok == token.IMPORT {
				continue
			}
			decls = append(decls, d)
		}
		f.Decls = decls
		return ref.FromNode(f)
	}
	ta, tb := strip(a), strip(b)
	return ta != nil && tb != nil && ref.FirstDifference(ta, tb, ref.Output) == nil
}

// ---- generators -------------------------------------------------------------------

// follow-up changes on a marker introduced by the previous change
func c09FollowUps(prev, next string) []string {
	return []string{
		fmt.Sprintf("@@\n@@\n-%s\n+%s\n", prev, next),
		fmt.Sprintf("@@\nvar a expression\n@@\n-%s(a)\n+%s(a, a)\n", prev, next),
		fmt.Sprintf("@@\n@@\n-%s()\n+%s(0)\n", prev, next),
		fmt.Sprintf("@@\n@@\n-%s(...)\n+%s(...)\n", prev, next),
		fmt.Sprintf("@@\nvar a, b expression\n@@\n-%s(a, b)\n+%s(b, a)\n", prev, next),
		fmt.Sprintf("@@\nvar a expression\n@@\n-%s(a, ...)\n+%s(..., a)\n", prev, next),
		fmt.Sprintf("@@\nvar a identifier\n@@\n-a.%s\n+a.%s\n", prev, next),
		fmt.Sprintf("@@\nvar a expression\n@@\n-%s.a\n+%s.a\n", prev, next),
	}
}

func c09FailingChange(prev string) string {
	return fmt.Sprintf("@@\nvar zz expression\n@@\n-%s\n+%s(zz)\n", prev, prev)
}

// synthetic call chains over a small file
func c09Synthetic(rt *rapid.T) *c09Case {
	cs := &c09Case{Family: "synthetic-calls"}
	var f strings.Builder
	f.WriteString("package p\n\nfunc calls() {\n")
	n := rapid.IntRange(2, 6).Draw(rt, "nCalls")
	for i := 0; i < n; i++ {
		argc := rapid.IntRange(0, 3).Draw(rt, fmt.Sprintf("argc%d", i))
		var args []string
		for j := 0; j < argc; j++ {
			args = append(args, rapid.SampledFrom([]string{"1", "x", "h(1)", "kk(2, 3)", "a1", "b2", "s[0]", "t[i+1]", "first", "second", "y+1", "outer(h(1))", "box(kk(2, 3), first)", "s[h(2)]", "outer(h(1))", "0", "nil"}).Draw(rt, fmt.Sprintf("arg%d_%d", i, j)))
		}
		fn := rapid.SampledFrom([]string{"f0", "f0", "f0", "g0", "pair"}).Draw(rt, fmt.Sprintf("fn%d", i))
		call := fmt.Sprintf("%s(%s)", fn, strings.Join(args, ", "))
		switch rapid.IntRange(0, 3).Draw(rt, fmt.Sprintf("ctx%d", i)) {
		case 0:
			f.WriteString("\t" + call + "\n")
		case 1:
			f.WriteString("\t_ = " + call + "\n")
		case 2:
			f.WriteString("\tuse(" + call + ", " + call + ")\n")
		default:
			f.WriteString("\tif ok(" + call + ") {\n\t\t" + call + "\n\t}\n")
		}
	}
	f.WriteString("}\n")
	cs.File = f.String()
	pats := []struct{ minus, plus, meta string }{
		{"%s(...)", "%s(...)", ""},
		{"%s()", "%s()", ""},
		{"%s(a)", "%s(a)", "var a expression\n"},
		{"%s(a)", "%s(a, a)", "var a expression\n"},
		{"%s(a, b)", "%s(b, a)", "var a, b expression\n"},
		{"%s(a, b)", "%s(wrapq(a), wrapq(b))", "var a, b expression\n"},
		{"%s(a, ...)", "%s(...)", "var a expression\n"},
		{"%s(..., a)", "%s(a, ...)", "var a expression\n"},
		{"%s(a, ...)", "%s(a)", "var a expression\n"},
		{"%s", "%s", ""},
	}
	steps := rapid.IntRange(2, 6).Draw(rt, "steps")
	cur := rapid.SampledFrom([]string{"f0", "g0", "pair"}).Draw(rt, "start")
	for i := 0; i < steps; i++ {
		next := fmt.Sprintf("f%d", i+1)
		p := pats[rapid.IntRange(0, len(pats)-1).Draw(rt, fmt.Sprintf("pat%d", i))]
		switch rapid.IntRange(0, 9).Draw(rt, fmt.Sprintf("kind%d", i)) {
		case 0: // a change on something that never occurs
			cs.Changes = append(cs.Changes, fmt.Sprintf("@@\n%s@@\n-%s\n+%s\n", p.meta, fmt.Sprintf(p.minus, "nosuchfn"), fmt.Sprintf(p.plus, "other")))
			continue
		case 1: // rewrite the wrapper introduced by an earlier step
			cs.Changes = append(cs.Changes, "@@\nvar x expression\n@@\n-wrapq(x)\n+boxq(x)\n")
			continue
		case 2: // a failing step
			if rapid.IntRange(0, 2).Draw(rt, fmt.Sprintf("fail%d", i)) == 0 {
				cs.Changes = append(cs.Changes, c09FailingChange(cur))
				continue
			}
		case 3: // rewrite something strictly inside the arguments of the calls
			inner := []string{
				"@@\nvar a expression\n@@\n-h(a)\n+hq(a)\n",
				"@@\nvar a, b expression\n@@\n-kk(a, b)\n+kk(b, a)\n",
				"@@\nvar a expression\n@@\n-s[a]\n+s[a+0]\n",
				"@@\n@@\n-first\n+firstq\n",
				"@@\nvar a expression\n@@\n-hq(a)\n+h(h(a))\n",
			}
			cs.Changes = append(cs.Changes, inner[rapid.IntRange(0, len(inner)-1).Draw(rt, fmt.Sprintf("inner%d", i))])
			continue
		case 4: // a change that binds its metavariable at the current calls and then fails to match
			near := []string{
				"@@\nvar a expression\n@@\n-%s(a, nosuchq)\n+neverq(a)\n",
				"@@\nvar a expression\n@@\n-%s(a, a, a, a)\n+neverq(a)\n",
				"@@\nvar a, b expression\n@@\n-%s(a, b, nosuchq)\n+neverq(b, a)\n",
				"@@\nvar a expression\n@@\n-use(%s(a), nosuchq)\n+neverq(a)\n",
			}
			cs.Changes = append(cs.Changes, fmt.Sprintf(near[rapid.IntRange(0, len(near)-1).Draw(rt, fmt.Sprintf("near%d", i))], cur))
			continue
		}
		cs.Changes = append(cs.Changes, fmt.Sprintf("@@\n%s@@\n-%s\n+%s\n", p.meta, fmt.Sprintf(p.minus, cur), fmt.Sprintf(p.plus, next)))
		cur = next
	}
	return cs
}

// c09GuardPool: changes that alter, or are guarded by, the package clause and
// the imports of the file. Whether a later change applies depends on what the
// earlier ones did to the clause / the import block ("later changes see code
// introduced by earlier ones, and never see code earlier ones removed").
var c09GuardPool = []string{
	"@@\n@@\n-package foo\n+package bar\n\n Foo()\n",
	"@@\n@@\n-package bar\n+package foo\n\n Foo()\n",
	"@@\n@@\n package bar\n\n-Foo()\n+BarOnly()\n",
	"@@\n@@\n package foo\n\n-Foo()\n+FooOnly()\n",
	"@@\nvar x expression\n@@\n-import \"example.com/oldlog\"\n+import \"example.com/newlog\"\n\n-oldlog.Print(x)\n+newlog.Print(x)\n",
	"@@\nvar x expression\n@@\n-import \"example.com/newlog\"\n+import \"example.com/oldlog\"\n\n-newlog.Print(x)\n+oldlog.Print(x)\n",
	"@@\n@@\n import \"example.com/oldlog\"\n\n-flushLogs()\n+oldlog.Flush()\n",
	"@@\n@@\n import \"example.com/newlog\"\n\n-flushLogs()\n+newlog.Flush()\n",
	"@@\n@@\n+import \"context\"\n\n-Foo()\n+FooCtx(context.TODO())\n",
	"@@\n@@\n import \"context\"\n\n-fmt.Println()\n+fmt.Println(context.TODO())\n",
	"@@\nvar x expression\n@@\n-import \"fmt\"\n\n-fmt.Println(x)\n+println(x)\n",
	"@@\n@@\n-import \"fmt\"\n\n-fmt.Println()\n+println()\n",
	"@@\n@@\n import \"fmt\"\n\n-tail()\n+fmt.Print(tail())\n",
	"@@\nvar lg identifier\n@@\n import lg \"example.com/oldlog\"\n\n-lg.Print(1)\n+lg.Print(2)\n",
	"@@\n@@\n-import \"example.com/oldlog\"\n+import lg2 \"example.com/oldlog\"\n\n-oldlog.Print(2)\n+lg2.Print(3)\n",
	"@@\n@@\n import lg2 \"example.com/oldlog\"\n\n-tail()\n+lg2.Tail()\n",
}

func c09Guards(rt *rapid.T) *c09Case {
	cs := &c09Case{Family: "guards"}
	var f strings.Builder
	f.WriteString("package " + rapid.SampledFrom([]string{"foo", "foo", "bar"}).Draw(rt, "pkg") + "\n\n")
	imps := []string{"\"fmt\""}
	switch rapid.IntRange(0, 3).Draw(rt, "log") {
	case 0, 1:
		imps = append(imps, "\"example.com/oldlog\"")
	case 2:
		imps = append(imps, "\"example.com/newlog\"")
	}
	if rapid.Bool().Draw(rt, "grouped") {
		f.WriteString("import (\n")
		for _, i := range imps {
			f.WriteString("\t" + i + "\n")
		}
		f.WriteString(")\n\n")
	} else {
		for _, i := range imps {
			f.WriteString("import " + i + "\n")
		}
		f.WriteString("\n")
	}
	f.WriteString("func run() {\n")
	lines := []string{"oldlog.Print(1)", "newlog.Print(1)", "flushLogs()", "Foo()", "fmt.Println()", "fmt.Println(1)", "tail()"}
	for i, l := range lines {
		if strings.HasPrefix(l, "oldlog.") && len(imps) > 1 && imps[1] != "\"example.com/oldlog\"" || strings.HasPrefix(l, "newlog.") && (len(imps) < 2 || imps[1] != "\"example.com/newlog\"") || strings.HasPrefix(l, "oldlog.") && len(imps) < 2 {
			continue
		}
		if rapid.IntRange(0, 4).Draw(rt, fmt.Sprintf("line%d", i)) > 0 {
			f.WriteString("\t" + l + "\n")
		}
	}
	f.WriteString("}\n")
	cs.File = f.String()
	steps := rapid.IntRange(2, 5).Draw(rt, "steps")
	for i := 0; i < steps; i++ {
		cs.Changes = append(cs.Changes, c09GuardPool[rapid.IntRange(0, len(c09GuardPool)-1).Draw(rt, fmt.Sprintf("g%d", i))])
	}
	return cs
}

// c09Focused: every step concerns the same few calls fK(<nested argument>,
// <tail>): a step may bind a metavariable to the nested argument and then fail
// to match, rewrite something strictly inside that argument, or reproduce the
// argument under a new callee. Whatever a compiled change remembers about a
// node from an earlier step must not show in a later one.
func c09Focused(rt *rapid.T) *c09Case {
	cs := &c09Case{Family: "synthetic-focused"}
	nested := []string{"outer(h(1))", "box(kk(2, 3), first)", "s[h(2)]", "outer(outer(h(3)))", "w.m(h(4))"}
	tails := []string{"0", "nil", "x", "1"}
	var f strings.Builder
	f.WriteString("package p\n\nfunc calls() {\n")
	n := rapid.IntRange(1, 3).Draw(rt, "nCalls")
	for i := 0; i < n; i++ {
		call := fmt.Sprintf("f0(%s, %s)", rapid.SampledFrom(nested).Draw(rt, fmt.Sprintf("arg%d", i)), rapid.SampledFrom(tails).Draw(rt, fmt.Sprintf("tail%d", i)))
		switch rapid.IntRange(0, 2).Draw(rt, fmt.Sprintf("ctx%d", i)) {
		case 0:
			f.WriteString("\t" + call + "\n")
		case 1:
			f.WriteString("\t_ = " + call + "\n")
		default:
			f.WriteString("\tif ok(" + call + ") {\n\t}\n")
		}
	}
	f.WriteString("}\n")
	cs.File = f.String()
	cur := "f0"
	steps := rapid.IntRange(3, 6).Draw(rt, "steps")
	for i := 0; i < steps; i++ {
		switch rapid.IntRange(0, 3).Draw(rt, fmt.Sprintf("kind%d", i)) {
		case 0: // binds a, then fails on the tail
			t := rapid.SampledFrom([]string{"nosuchq", "\"no\"", "7777"}).Draw(rt, fmt.Sprintf("miss%d", i))
			cs.Changes = append(cs.Changes, fmt.Sprintf("@@\nvar a expression\n@@\n-%s(a, %s)\n+neverq(a)\n", cur, t))
		case 1: // rewrites strictly inside the nested argument
			inner := []string{
				"@@\nvar a expression\n@@\n-h(a)\n+hq(a)\n",
				"@@\nvar a expression\n@@\n-hq(a)\n+h(a, a)\n",
				"@@\nvar a, b expression\n@@\n-kk(a, b)\n+kk(b, a)\n",
				"@@\n@@\n-first\n+firstq\n",
			}
			cs.Changes = append(cs.Changes, rapid.SampledFrom(inner).Draw(rt, fmt.Sprintf("inner%d", i)))
		default: // reproduces the argument under a new callee
			next := fmt.Sprintf("f%d", i+1)
			forms := []string{
				"@@\nvar a, b expression\n@@\n-%s(a, b)\n+%s(a, b)\n",
				"@@\nvar a, b expression\n@@\n-%s(a, b)\n+%s(b, a)\n",
				"@@\nvar a expression\n@@\n-%s(a, ...)\n+%s(a, ...)\n",
				"@@\nvar a, b expression\n@@\n-%s(a, b)\n+%s(a, a, b)\n",
			}
			cs.Changes = append(cs.Changes, fmt.Sprintf(rapid.SampledFrom(forms).Draw(rt, fmt.Sprintf("form%d", i)), cur, next))
			if rapid.IntRange(0, 3).Draw(rt, fmt.Sprintf("swapback%d", i)) == 0 {
				// the swapped form puts the tail first: keep the pattern shape simple by not chaining further on it
			}
			cur = next
		}
	}
	return cs
}

// c09Emptied: a step empties a list through an elision that stands for
// nothing (the results of a function, the arguments of a call, the values of
// a return, the fields of a struct); a later step is about the form without
// that list. Applying the steps one gopatch run at a time goes through text
// in between, where an empty list and no list are the same thing.
func c09Emptied(rt *rapid.T) *c09Case {
	cs := &c09Case{Family: "synthetic-emptied"}
	var f strings.Builder
	f.WriteString("package p\n\n")
	n := rapid.IntRange(2, 5).Draw(rt, "nFuncs")
	for i := 0; i < n; i++ {
		res := rapid.SampledFrom([]string{"", " error", " (int, error)", " (n int, err error)"}).Draw(rt, fmt.Sprintf("res%d", i))
		ret := map[string]string{"": "return", " error": "return nil", " (int, error)": "return 0, nil", " (n int, err error)": "return 0, nil", " (error)": "return nil"}[res]
		args := rapid.SampledFrom([]string{"", "errq", "1, errq", "x, y, errq"}).Draw(rt, fmt.Sprintf("args%d", i))
		fmt.Fprintf(&f, "func fn%d()%s {\n\tuse(%s)\n\t%s\n}\n\n", i, res, args, ret)
	}
	if rapid.Bool().Draw(rt, "lit") {
		f.WriteString("var lit = func() error { return nil }\n\ntype T struct {\n\tA int\n\tErr error\n}\n\ntype I interface {\n\tM() error\n}\n")
	}
	literal := rapid.IntRange(0, 3).Draw(rt, "oddLiteral") == 0
	if literal {
		// not in gofmt's form: gofmt writes 0xFF and 1e3
		f.WriteString("\nvar mask = 0XFF + 1E3\n")
	}
	cs.File = f.String()
	emptying := []string{
		"@@\nvar f identifier\n@@\n-func f() (..., error) {\n+func f() (...) {\n   ...\n }\n",
		"@@\n@@\n-use(..., errq)\n+use(...)\n",
		"@@\n@@\n-return ..., nil\n+return ...\n",
		"@@\nvar f identifier\n@@\n-func f() (..., err error) {\n+func f() (...) {\n   ...\n }\n",
		"@@\n@@\n-func() (..., error) {\n+func() (...) {\n   ...\n }\n",
		"@@\nvar T identifier\n@@\n type T struct {\n   ...\n-  Err error\n }\n",
	}
	about := []string{
		"@@\nvar f identifier\n@@\n-func f() {\n+func f() bool {\n   ...\n }\n",
		"@@\n@@\n-use()\n+useNothing()\n",
		"@@\n@@\n-return\n+return // c09\n+panic(\"c09\")\n",
		"@@\nvar f identifier\n@@\n-func f() {\n+func f(c09ctx int) {\n   ...\n }\n",
		"@@\n@@\n-func() {\n+func(c09 int) {\n   ...\n }\n",
		"@@\nvar f identifier\n@@\n-func f() (...) {\n+func f() (int, ...) {\n   ...\n }\n",
	}
	steps := rapid.IntRange(2, 5).Draw(rt, "steps")
	for i := 0; i < steps; i++ {
		pool := about
		if i == 0 || rapid.Bool().Draw(rt, fmt.Sprintf("emptying%d", i)) {
			pool = emptying
		}
		cs.Changes = append(cs.Changes, rapid.SampledFrom(pool).Draw(rt, fmt.Sprintf("step%d", i)))
	}
	if literal {
		cs.Changes = append(cs.Changes, rapid.SampledFrom([]string{"@@\n@@\n-0xFF\n+255\n", "@@\n@@\n-1e3\n+1000\n", "@@\n@@\n-0XFF\n+255\n"}).Draw(rt, "literalStep"))
	}
	return cs
}

// c09Unprintable: a step leaves code that cannot be written out as Go (a
// composite literal bare in the header of an if, for or switch), and a later
// step turns it into something that can. Run on its own the first step fails.
func c09Unprintable(rt *rapid.T) *c09Case {
	cs := &c09Case{Family: "synthetic-unprintable"}
	hdr := rapid.SampledFrom([]string{"if cond(%s) {\n\t}", "for cond(%s) {\n\t}", "switch cond(%s) {\n\t}", "if v := 1; cond(%s) {\n\t\t_ = v\n\t}"}).Draw(rt, "header")
	lit := rapid.SampledFrom([]string{"T{1}", "T{}", "[]int{1, 2}", "map[string]int{}", "pkg.T{A: 1}"}).Draw(rt, "literal")
	cs.File = "package p\n\nfunc g() {\n\t" + fmt.Sprintf(hdr, lit) + "\n\tother(1)\n}\n"
	breaking := rapid.SampledFrom([]string{
		"@@\nvar x expression\n@@\n-cond(x)\n+x == zero\n",
		"@@\nvar x expression\n@@\n-cond(x)\n+x.ok\n",
		"@@\nvar x expression\n@@\n-cond(x)\n+!x\n",
	}).Draw(rt, "breaking")
	repairing := rapid.SampledFrom([]string{
		"@@\nvar x expression\n@@\n-x == zero\n+isZero(x)\n",
		"@@\nvar x expression\n@@\n-x.ok\n+ok(x)\n",
		"@@\nvar x expression\n@@\n-!x\n+not(x)\n",
		"@@\n@@\n-T\n+(T)\n",
	}).Draw(rt, "repairing")
	unrelated := "@@\n@@\n-other(1)\n+other(2)\n"
	cs.Changes = []string{breaking}
	if rapid.Bool().Draw(rt, "unrelatedBetween") {
		cs.Changes = append(cs.Changes, unrelated)
	}
	cs.Changes = append(cs.Changes, repairing)
	if rapid.Bool().Draw(rt, "unrelatedFirst") {
		cs.Changes = append([]string{unrelated}, cs.Changes...)
	}
	return cs
}

// c09Shadow: a later change names a package that it imports, and the file
// has a local of that name, inside code that an earlier change rebuilds (by
// carrying it over in a metavariable) or leaves alone. Whatever gopatch makes
// of the local, it has to make the same of it whether the earlier change ran
// in the same process or in a run of its own.
func c09Shadow(rt *rapid.T) *c09Case {
	cs := &c09Case{Family: "synthetic-shadowed-package"}
	if rapid.IntRange(0, 3).Draw(rt, "spelledOut") == 0 {
		// The earlier change spells the local's name out on its '+' line; the
		// later one takes away the last use of the package of that name.
		cs.Family = "synthetic-shadowed-package-spelled-out"
		cs.File = "package p\n\nimport (\n\tconn \"example.com/conn\"\n\t\"example.com/other\"\n)\n\nfunc use(conn *T) int {\n\treturn other.Get(conn)\n}\n\nfunc mk() {\n\tconn.Dial()\n}\n"
		cs.Changes = []string{
			"@@\n@@\n-other.Get(conn)\n+conn.fd\n",
			"@@\n@@\n import conn \"example.com/conn\"\n\n-conn.Dial()\n+dial()\n",
		}
		return cs
	}
	pk := rapid.SampledFrom([][2]string{{"http", "net/http"}, {"strings", "strings"}, {"rand", "math/rand"}}).Draw(rt, "pkg")
	name, path := pk[0], pk[1]
	var f strings.Builder
	fmt.Fprintf(&f, "package p\n\nimport %q\n\n", path)
	fmt.Fprintf(&f, "func real(u string) {\n\treport(%s.Get(u))\n\tplain(%s.Get(u))\n}\n\n", name, name)
	switch rapid.IntRange(0, 2).Draw(rt, "shadowKind") {
	case 0:
		fmt.Fprintf(&f, "func shadowed(u string) {\n\t%s := fetcher{}\n\treport(%s.Get(u))\n\tplain(%s.Get(u))\n}\n", name, name, name)
	case 1:
		fmt.Fprintf(&f, "func shadowed(%s fetcher, u string) {\n\treport(%s.Get(u))\n\tplain(%s.Get(u))\n}\n", name, name, name)
	default:
		fmt.Fprintf(&f, "func shadowed(u string) {\n\tvar %s fetcher\n\tif ok(u) {\n\t\treport(%s.Get(u))\n\t}\n\tplain(%s.Get(u))\n}\n", name, name, name)
	}
	cs.File = f.String()
	first := rapid.SampledFrom([]string{
		"@@\nvar x expression\n@@\n-report(x)\n+log(x)\n",
		"@@\nvar x expression\n@@\n-report(x)\n+log(x, x)\n",
		"@@\nvar x expression\n@@\n-plain(x)\n+plainer(x)\n",
		"@@\n@@\n-ok(u)\n+okay(u)\n",
	}).Draw(rt, "first")
	second := rapid.SampledFrom([]string{
		"@@\nvar x expression\n@@\n import %q\n\n-%s.Get(x)\n+%s.Head(x)\n",
		"@@\nvar x expression\n@@\n import %q\n\n-%s.Get(x)\n+%s.Get(x, nil)\n",
	}).Draw(rt, "second")
	cs.Changes = []string{first, fmt.Sprintf(second, path, name, name)}
	if rapid.Bool().Draw(rt, "third") {
		cs.Changes = append(cs.Changes, "@@\nvar x expression\n@@\n-log(x)\n+logged(x)\n")
	}
	return cs
}

// c09GeneratedDecls: an earlier change writes declarations (names spelled out
// on its '+' lines); a later change binds an identifier metavariable at such
// a declaration and again at a use of the name that was in the file all
// along, possibly with other candidates for the declaration before the right
// one. Code written by an earlier change of the same run has to be matched
// like code read from a file.
func c09GeneratedDecls(rt *rapid.T) *c09Case {
	cs := &c09Case{Family: "synthetic-generated-declarations"}
	if rapid.Bool().Draw(rt, "redeclare") {
		cs.File = "package p\n\nfunc f(addr string) error {\n\tctx := context.Background()\n\tprepare(addr)\n\treturn run(ctx, addr)\n}\n"
		cs.Changes = []string{
			"@@\n@@\n-ctx := context.Background()\n+ctx := context.TODO()\n",
			rapid.SampledFrom([]string{
				"@@\nvar c identifier\n@@\n-c := context.TODO()\n+c := context.WithoutCancel(context.TODO())\n ...\n-return run(c, addr)\n+return runAll(c, addr)\n",
				"@@\nvar c identifier\n@@\n c := context.TODO()\n ...\n-return run(c, addr)\n+return runAll(c, addr)\n",
				"@@\nvar c identifier\nvar v expression\n@@\n c := v\n prepare(addr)\n-return run(c, addr)\n+return runAll(c, addr)\n",
			}).Draw(rt, "second"),
		}
		return cs
	}
	names := []string{"in", "out", "tmp", "aux"}
	n := rapid.IntRange(2, 4).Draw(rt, "nDecls")
	used := names[rapid.IntRange(0, n-1).Draw(rt, "used")]
	cs.File = "package p\n\nfunc g(conn T) error {\n\tsetup()\n\tmu.Lock()\n\tprepare(conn)\n\treturn send(conn, " + used + ")\n}\n"
	first := "@@\n@@\n-setup()\n"
	for _, nm := range names[:n] {
		first += "+" + nm + " := newBuf()\n"
	}
	cs.Changes = []string{first, rapid.SampledFrom([]string{
		"@@\nvar b identifier\n@@\n-b := newBuf()\n+b := newBufN(8)\n ...\n mu.Lock()\n ...\n-return send(conn, b)\n+return sendAll(conn, b)\n",
		"@@\nvar b identifier\n@@\n b := newBuf()\n ...\n-return send(conn, b)\n+return sendAll(conn, b)\n",
		"@@\nvar b identifier\n@@\n b := newBuf()\n ...\n mu.Lock()\n ...\n prepare(conn)\n-return send(conn, b)\n+return sendAll(conn, b)\n",
	}).Draw(rt, "second")}
	return cs
}

// c09Unplaceable: a change with a package clause (a rename) or imports on its
// '-' and '+' lines whose code occurs in the file only where the '+' code
// cannot stand (a field name, the name after a dot): it rewrites nothing, in
// a run of its own as in a run with others. The other changes do rewrite the
// file.
func c09Unplaceable(rt *rapid.T) *c09Case {
	cs := &c09Case{Family: "synthetic-unplaceable"}
	cs.File = "package store\n\nimport \"example.com/opts\"\n\ntype Options struct{ Timeout int }\n\nfunc f(o Options) int {\n\tOpen(1)\n\topts.Use()\n\treturn o.Timeout\n}\n"
	a := rapid.SampledFrom([]string{
		"@@\n@@\n-package store\n+package storev2\n\n-Timeout\n+Options.Timeout\n",
		"@@\n@@\n-import \"example.com/opts\"\n+import \"example.com/options\"\n\n-Timeout\n+options.Timeout\n",
		"@@\n@@\n-package store\n+package storev2\n\n-import \"example.com/opts\"\n+import \"example.com/options\"\n\n-Timeout\n+options.Default.Timeout\n",
	}).Draw(rt, "unplaceable")
	b := "@@\nvar x expression\n@@\n-Open(x)\n+OpenContext(ctx, x)\n"
	c := "@@\n@@\n package store\n\n-opts.Use()\n+opts.Used()\n"
	switch rapid.IntRange(0, 3).Draw(rt, "order") {
	case 0:
		cs.Changes = []string{a, b}
	case 1:
		cs.Changes = []string{b, a}
	case 2:
		cs.Changes = []string{a, b, c}
	default:
		cs.Changes = []string{b, a, c}
	}
	return cs
}

// c09Signatures: an earlier change writes the result list of a function
// (none, one unnamed, one named, several; spelled out or what an elision
// leaves over), a later change has that signature on its context lines,
// spelled the way the intermediate file shows it or with "(...)". What the
// earlier change leaves in the tree has to look to the later one like the
// text a run of its own would have read.
func c09Signatures(rt *rapid.T) *c09Case {
	cs := &c09Case{Family: "synthetic-signatures"}
	cs.File = "package p\n\nfunc load(path string, n int) error {\n\tprepare(path)\n\treturn run(path, n)\n}\n\nfunc save(path string) (n int, err error) {\n\tprepare(path)\n\treturn 0, nil\n}\n\nfunc other() {}\n"
	var first string
	var seconds []string
	if rapid.Bool().Draw(rt, "elided") {
		first = rapid.SampledFrom([]string{
			"@@\n@@\n-func save(...) (n int, ...) {\n+func save(...) (...) {\n   ...\n }\n",
			"@@\n@@\n-func save(...) (..., err error) {\n+func save(...) (...) {\n   ...\n }\n",
			"@@\n@@\n-func save(...) (n int, err error) {\n+func save(...) {\n   ...\n }\n",
			"@@\n@@\n-func save(...) (n int, ...) {\n+func save(...) (n, m int, ...) {\n   ...\n }\n",
		}).Draw(rt, "first")
		seconds = []string{"(...)", "(err error)", "(n int)", "", "(n, m int, err error)", "(n, m int, ...)"}
		res := rapid.SampledFrom(seconds).Draw(rt, "secondResults")
		if res != "" {
			res += " "
		}
		cs.Changes = []string{first, "@@\n@@\n func save(...) " + res + "{\n+  defer annotate()\n   ...\n }\n"}
	} else {
		to := rapid.SampledFrom([]string{"(err error)", "(error)", "(int, error)", "", "(_ error)", "(e1, e2 error)"}).Draw(rt, "to")
		if to != "" {
			to += " "
		}
		first = "@@\n@@\n-func load(...) error {\n+func load(...) " + to + "{\n   ...\n }\n"
		res := rapid.SampledFrom([]string{"(err error)", "error", "(error)", "(int, error)", "", "(...)", "(_ error)", "(e1, e2 error)", "(e1 error, ...)"}).Draw(rt, "secondResults")
		if res != "" {
			res += " "
		}
		cs.Changes = []string{first, "@@\n@@\n func load(...) " + res + "{\n+  defer annotate()\n   ...\n }\n"}
	}
	if rapid.Bool().Draw(rt, "third") {
		cs.Changes = append(cs.Changes, "@@\nvar x expression\n@@\n-prepare(x)\n+prepared(x)\n")
	}
	return cs
}

// c09Precedence: an earlier change puts an expression where the printer has
// to add parentheses around it (a sum as the operand of a product, of a
// selector, of a call, of a unary operator), and a later change is written
// against the text of the intermediate file, parentheses included.
func c09Precedence(rt *rapid.T) *c09Case {
	cs := &c09Case{Family: "synthetic-precedence"}
	type shape struct{ file, first, second string }
	shapes := []shape{
		{"return a * x", "@@\n@@\n-x\n+b + c\n", "@@\n@@\n-a * (b + c)\n+ok\n"},
		{"return a * wrap(b + c)", "@@\nvar v expression\n@@\n-wrap(v)\n+v\n", "@@\n@@\n-a * (b + c)\n+ok\n"},
		{"return wrap(b+c) * a", "@@\nvar v expression\n@@\n-wrap(v)\n+v\n", "@@\nvar y expression\n@@\n-(y) * a\n+twice(y)\n"},
		{"return a - wrap(b - c)", "@@\nvar v expression\n@@\n-wrap(v)\n+v\n", "@@\n@@\n-a - (b - c)\n+ok\n"},
		{"return wrap(p).field", "@@\nvar v expression\n@@\n-wrap(v)\n+*v\n", "@@\n@@\n-(*p).field\n+p.field\n"},
		{"return wrap(b + c).String()", "@@\nvar v expression\n@@\n-wrap(v)\n+v\n", "@@\n@@\n-(b + c).String()\n+str(b + c)\n"},
		{"return -wrap(b + c)", "@@\nvar v expression\n@@\n-wrap(v)\n+v\n", "@@\n@@\n--(b + c)\n+neg(b, c)\n"},
		{"return wrap(fs)[0](1)", "@@\nvar v expression\n@@\n-wrap(v)\n+*v\n", "@@\n@@\n-(*fs)[0]\n+first(fs)\n"},
		{"return eq(wrap(a+b), (a+b)*2)", "@@\nvar v expression\n@@\n-wrap(v)\n+v * 2\n", "@@\nvar y expression\n@@\n-eq(y, y)\n+same(y)\n"},
		{"return a * x", "@@\n@@\n-x\n+b * c\n", "@@\n@@\n-a * b * c\n+ok\n"},
		// a function type as the operand of a conversion
		{"return conv(func(), h)", "@@\nvar t, v expression\n@@\n-conv(t, v)\n+t(v)\n", "@@\nvar y expression\n@@\n-(func())(y)\n+g(y)\n"},
		// an elision reproduced twice: the code it stood for hangs in two
		// places, and a later change applies in both
		{"return send(conn(1), msg)", "@@\n@@\n-send(...)\n+send(...) || resend(...)\n", "@@\nvar y expression\n@@\n-conn(y)\n+dial(y)\n"},
		{"return notify(wrap(a), 1)", "@@\n@@\n-notify(...)\n+both(notify(...), audit(...))\n", "@@\nvar y expression\n@@\n-wrap(y)\n+y\n"},
		// a change that drops an elision, then a change with two elisions on
		// its changed lines (their pairing is the later change's own affair)
		{"return foo(must(fail(1)), nil, 2)", "@@\n@@\n-must(fail(...))\n+panicNow()\n", "@@\n@@\n-foo(..., nil, ...)\n+bar(..., nil, ...)\n"},
		{"return foo(1, nil, 2)", "@@\n@@\n-must(fail(...))\n+panicNow()\n", "@@\n@@\n-foo(..., nil, ...)\n+bar(..., nil, ...)\n"},
		// a receive-only channel type as the operand of a conversion
		{"return conv(<-chan int, fs)", "@@\nvar t, v expression\n@@\n-conv(t, v)\n+t(v)\n", "@@\nvar y expression\n@@\n-(<-chan int)(y)\n+recvOnly(y)\n"},
		// what an elision leaves of a list of type arguments: one
		{"return foo[int, string](1)", "@@\n@@\n-foo[int, ..., string]\n+bar[..., string]\n", "@@\n@@\n-bar[string]\n+baz\n"},
		{"return foo[int, string, bool](1)", "@@\n@@\n-foo[int, ...]\n+bar[...]\n", "@@\n@@\n-bar[string, bool]\n+baz\n"},
	}
	sh := shapes[rapid.IntRange(0, len(shapes)-1).Draw(rt, "shape")]
	// what one change does to the elisions of another can only happen
	// within one patch file
	cs.oneFile = strings.Contains(sh.first, "must(fail(") && rapid.Bool().Draw(rt, "oneFileWish")
	cs.File = "package p\n\nfunc f(a, x, b, c int, p *T, fs *[]func(int) int) any {\n\tprepare()\n\t" + sh.file + "\n}\n"
	cs.Changes = []string{sh.first, sh.second}
	if rapid.Bool().Draw(rt, "third") {
		cs.Changes = append(cs.Changes, "@@\n@@\n-prepare()\n+prepared()\n")
	}
	return cs
}

var c09Opts = modelOpts{
	Mine:         gen.MineOpts{MaxHoles: 2, MaxDots: 1},
	MaxHostLines: 150,
	MinPlants:    0, MaxPlants: 2,
	MinMutants: 0, MaxMutants: 1,
}

func c09Mined(rt *rapid.T) *c09Case {
	mcs, _ := genModelCase(rt, c09Opts)
	if mcs == nil {
		return nil
	}
	cs := &c09Case{Family: "mined", File: mcs.Host, Changes: []string{mcs.Patch}}
	// which markers does the first change introduce?
	marker := ""
	for i := 0; i < 4; i++ {
		m := fmt.Sprintf("%s%d", gen.Marker, i)
		if strings.Contains(mcs.Spec.Plus, m) {
			marker = m
			break
		}
	}
	steps := rapid.IntRange(1, 4).Draw(rt, "steps")
	cur := marker
	for i := 0; i < steps; i++ {
		switch {
		case cur != "" && rapid.IntRange(0, 9).Draw(rt, fmt.Sprintf("k%d", i)) < 6:
			next := fmt.Sprintf("nxq%d", i)
			fu := c09FollowUps(cur, next)
			cs.Changes = append(cs.Changes, fu[rapid.IntRange(0, len(fu)-1).Draw(rt, fmt.Sprintf("fu%d", i))])
			if rapid.IntRange(0, 3).Draw(rt, fmt.Sprintf("adv%d", i)) > 0 {
				cur = next
			}
		case cur != "" && rapid.IntRange(0, 5).Draw(rt, fmt.Sprintf("f%d", i)) == 0:
			cs.Changes = append(cs.Changes, c09FailingChange(cur))
		default:
			// an independent change mined from the same host
			o := c09Opts
			o.FixedHost = mcs.HostName
			o.MaxPlants, o.MaxMutants = 0, 0
			if other, _ := genModelCase(rt, o); other != nil {
				cs.Changes = append(cs.Changes, other.Patch)
			}
		}
	}
	if len(cs.Changes) < 2 {
		return nil
	}
	return cs
}

func TestC09(t *testing.T) {
	c := coll("C09")
	checkN(t, func(rt *rapid.T) {
		var cs *c09Case
		switch rapid.IntRange(0, 3).Draw(rt, "family") {
		case 0:
			if k := rapid.IntRange(0, 6).Draw(rt, "synthKind"); k <= 1 {
				cs = c09Focused(rt)
			} else if k <= 4 {
				switch rapid.IntRange(0, 10).Draw(rt, "otherSynthetic") {
				case 0:
					cs = c09Unprintable(rt)
				case 1:
					cs = c09Shadow(rt)
				case 2:
					cs = c09GeneratedDecls(rt)
				case 3:
					cs = c09Unplaceable(rt)
				case 4:
					cs = c09Signatures(rt)
				case 5, 6, 7, 8:
					cs = c09Precedence(rt)
				default:
					cs = c09Emptied(rt)
				}
			} else {
				cs = c09Synthetic(rt)
			}
		case 1:
			cs = c09Guards(rt)
		default:
			cs = c09Mined(rt)
		}
		if cs == nil || len(cs.Changes) < 2 {
			c.Note("generator:no-chain")
			return
		}
		// split into patch files and choose the channel
		n := len(cs.Changes)
		rest := n
		oneFile := rapid.IntRange(0, 2).Draw(rt, "oneFile") == 0 || cs.oneFile
		for rest > 0 {
			k := rapid.IntRange(1, rest).Draw(rt, fmt.Sprintf("split%d", len(cs.Split)))
			if oneFile {
				k = rest
			}
			cs.Split = append(cs.Split, k)
			rest -= k
		}
		if len(cs.Split) > 1 && rapid.IntRange(0, 5).Draw(rt, "repeatFirstFile") == 0 {
			cs.Repeat = true
			cs.Changes = append(cs.Changes, cs.Changes[:cs.Split[0]]...)
			cs.Split = append(cs.Split, cs.Split[0])
			n = len(cs.Changes)
		}
		if len(cs.Split) == 1 {
			cs.Channel = rapid.SampledFrom([]string{"one-file", "stdin", "list"}).Draw(rt, "channel1")
		} else {
			cs.Channel = rapid.SampledFrom([]string{"multi-p", "multi-p", "list", "p-then-list"}).Draw(rt, "channelN")
		}
		if cs.Channel == "list" || cs.Channel == "p-then-list" {
			cs.ListNoLF = rapid.IntRange(0, 2).Draw(rt, "listNoFinalLF") == 0
		}
		sig, msg, info := evalC09(cs)
		if info.Harness != "" {
			c.Note("harness:" + strings.SplitN(info.Harness, " ", 2)[0])
			return
		}
		nontriv := (info.Applied >= 2 && info.Depends) || (info.Failed >= 0 && info.Applied >= 1)
		c.Case(evid.Hash(strings.Join(cs.Changes, "\x00"), cs.File, cs.Channel, fmt.Sprint(cs.Split)), nontriv,
			"family:"+cs.Family, "channel:"+cs.Channel, fmt.Sprintf("patch-file-named-twice:%v", cs.Repeat), fmt.Sprintf("list-without-final-lf:%v", cs.ListNoLF), fmt.Sprintf("changes:%d", n), fmt.Sprintf("patch-files:%d", len(cs.Split)),
			fmt.Sprintf("applied:%d", min(info.Applied, 4)), fmt.Sprintf("failing-step:%v", info.Failed >= 0), fmt.Sprintf("depends-on-predecessor:%v", info.Depends))
		if nontriv && c.WantSample() {
			c.Sample(map[string]any{"changes": cs.Changes, "split": cs.Split, "channel": cs.Channel, "file_bytes": len(cs.File), "applied": info.Applied, "failed_step": info.Failed})
		}
		if sig != "" {
			violate(rt, "C09", sig, msg, cs)
		}
	})
}

func TestReplayC09(t *testing.T) {
	var cs c09Case
	if !loadReplay(t, "C09", &cs) {
		return
	}
	sig, msg, _ := evalC09(&cs)
	if sig != "" {
		violate(t, "C09", sig, msg, &cs)
	}
}
