package props

import (
	"encoding/json"
	"fmt"
	"os"
	"path/filepath"
	"regexp"
	"strconv"
	"sync"
	"testing"

	"github.com/uber-go/gopatch/verif/evid"
	"pgregory.net/rapid"
)

// One collector per property, flushed by TestMain.
var (
	collMu sync.Mutex
	colls  = map[string]*evid.Collector{}
)

func coll(prop string) *evid.Collector {
	collMu.Lock()
	defer collMu.Unlock()
	c, ok := colls[prop]
	if !ok {
		c = evid.New(prop)
		colls[prop] = c
	}
	return c
}

func TestMain(m *testing.M) {
	loadKnown()
	code := m.Run()
	if !flushEvidence() {
		code = 2
	}
	os.Exit(code)
}

// flushEvidence writes what the collectors hold to $VERIF_SHARD_OUT.
func flushEvidence() bool {
	out := os.Getenv("VERIF_SHARD_OUT")
	if out == "" {
		return true
	}
	ok := true
	collMu.Lock()
	defer collMu.Unlock()
	for prop, c := range colls {
		p := out
		if len(colls) > 1 {
			p = out + "." + prop
		}
		if err := c.Flush(p); err != nil {
			fmt.Fprintln(os.Stderr, "flush evidence:", err)
			ok = false
		}
	}
	return ok
}

// tier is "quick" or "thorough".
func tier() string {
	if t := os.Getenv("VERIF_TIER"); t != "" {
		return t
	}
	return "quick"
}

func thorough() bool { return tier() == "thorough" }

// shard returns this process's shard index and the number of shards; used to
// partition enumerations.
func shard() (k, n int) {
	k, _ = strconv.Atoi(os.Getenv("VERIF_SHARD"))
	n, _ = strconv.Atoi(os.Getenv("VERIF_SHARDS"))
	if n <= 0 {
		n = 1
	}
	return k, n
}

// envInt reads an integer knob set by the driver.
func envInt(name string, def int) int {
	if v, err := strconv.Atoi(os.Getenv(name)); err == nil {
		return v
	}
	return def
}

// replayOut is where a failing case is written (overwritten on every failing
// execution so that the last one, rapid's minimal case, is what remains).
func replayOut(prop string) string {
	if p := os.Getenv("VERIF_REPLAY_OUT"); p != "" {
		return p
	}
	return filepath.Join(os.TempDir(), "verif-replay-"+prop+".json")
}

// Replay is the on-disk form of a failing case.
type Replay struct {
	Property string          `json:"property"`
	Message  string          `json:"message"`
	Case     json.RawMessage `json:"case"`
}

func saveReplay(prop, msg string, cs any) string {
	b, err := json.Marshal(cs)
	if err != nil {
		b = []byte(fmt.Sprintf("%q", fmt.Sprintf("unmarshalable case: %v", err)))
	}
	doc, _ := json.MarshalIndent(Replay{Property: prop, Message: msg, Case: b}, "", " ")
	p := replayOut(prop)
	_ = os.WriteFile(p, doc, 0o644)
	return p
}

// loadReplay reads $VERIF_REPLAY into cs; ok is false when no replay was
// requested.
func loadReplay(t *testing.T, prop string, cs any) bool {
	p := os.Getenv("VERIF_REPLAY")
	if p == "" {
		t.Skip("no VERIF_REPLAY")
		return false
	}
	b, err := os.ReadFile(p)
	if err != nil {
		t.Fatalf("read replay: %v", err)
	}
	var r Replay
	if err := json.Unmarshal(b, &r); err != nil {
		t.Fatalf("decode replay: %v", err)
	}
	if r.Property != prop {
		t.Fatalf("replay is for %s, not %s", r.Property, prop)
	}
	if err := json.Unmarshal(r.Case, cs); err != nil {
		t.Fatalf("decode replay case: %v", err)
	}
	return true
}

// fataler is satisfied by *rapid.T and *testing.T.
type fataler interface {
	Fatalf(format string, args ...any)
}

// violate records a violation (unless it is a listed known finding) and
// fails the current execution. sig is the stable signature matched against
// known-findings.json.
func violate(t fataler, prop, sig, msg string, cs any) {
	c := coll(prop)
	if id, ok := matchKnown(prop, sig); ok {
		c.Known(id)
		return
	}
	p := saveReplay(prop, msg, cs)
	c.Violation(msg, p)
	// Put the evidence on disk now: shrinking a case that fails by not
	// coming back can outlast the time limit of the test process, and a
	// process that is killed writes nothing.
	flushEvidence()
	t.Fatalf("VIOLATION %s [%s]: %s", prop, sig, msg)
}

// Known findings -----------------------------------------------------------

type knownFinding struct {
	Property    string `json:"property"`
	ID          string `json:"id"`
	Status      string `json:"status"` // "known" or "fixed"
	Signature   string `json:"signature"`
	Description string `json:"description"`
	Commit      string `json:"commit,omitempty"`
	re          *regexp.Regexp
}

var known []*knownFinding

func loadKnown() {
	p := os.Getenv("VERIF_KNOWN")
	if p == "" {
		p = "/verif/known-findings.json"
		if r := os.Getenv("VERIF_ROOT"); r != "" {
			p = r + "/known-findings.json"
		}
	}
	b, err := os.ReadFile(p)
	if err != nil {
		return
	}
	var doc struct {
		Findings []*knownFinding `json:"findings"`
	}
	if err := json.Unmarshal(b, &doc); err != nil {
		fmt.Fprintln(os.Stderr, "known-findings.json:", err)
		os.Exit(2)
	}
	for _, k := range doc.Findings {
		if k.Status != "known" {
			continue // fixed entries suppress nothing
		}
		re, err := regexp.Compile(k.Signature)
		if err != nil {
			fmt.Fprintln(os.Stderr, "known-findings.json: bad signature:", err)
			os.Exit(2)
		}
		k.re = re
		known = append(known, k)
	}
}

func matchKnown(prop, sig string) (string, bool) {
	for _, k := range known {
		if k.Property == prop && k.re.MatchString(sig) {
			return k.ID, true
		}
	}
	return "", false
}

// isKnown reports whether sig is a listed known finding of prop, without
// recording anything.
func isKnown(prop, sig string) bool {
	_, ok := matchKnown(prop, sig)
	return ok
}

// checkN runs a rapid property. The number of cases and the PRNG start value
// come from the driver via -rapid.checks / -rapid.seed.
func checkN(t *testing.T, prop func(*rapid.T)) {
	t.Helper()
	rapid.Check(t, prop)
}

// trunc shortens long strings in messages.
func trunc(s string, n int) string {
	if len(s) <= n {
		return s
	}
	return s[:n] + fmt.Sprintf("…(+%d bytes)", len(s)-n)
}
