//go:build !race

package props

// c14RaceEnabled reports whether the test binary was built with -race.
const c14RaceEnabled = false
