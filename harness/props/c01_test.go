package props

import (
	"fmt"
	"os"
	"testing"

	"github.com/uber-go/gopatch/verif/gen"
	"pgregory.net/rapid"
)

// C01 — a change rewrites exactly the code that is an instance of its '-' pattern.

var c01 = &modelCheck{
	Prop:         "C01",
	NestedChoice: 12,
	Opts: modelOpts{
		Mine:         gen.MineOpts{MaxHoles: 3, MaxDots: 2},
		MaxHostLines: 220,
		MinPlants:    0, MaxPlants: 3,
		MinMutants: 1, MaxMutants: 5,
		AllMinusThenPlus: true,
		PkgGuard:         8,
	},
	NonTrivial: func(cs *modelCase, v *verdict) bool { return v.Sites >= 1 && v.NearMisses >= 1 },
}

func TestC01(t *testing.T)       { c01.run(t) }
func TestReplayC01(t *testing.T) { c01.replay(t) }

// TestModelDebug prints generated cases (development aid).
func TestModelDebug(t *testing.T) {
	if os.Getenv("VERIF_DEBUG") == "" {
		t.Skip()
	}
	n := 0
	rapid.Check(t, func(rt *rapid.T) {
		cs, why := genModelCase(rt, c01.Opts)
		if cs == nil {
			fmt.Println("SKIP", why)
			return
		}
		v := evalModel(cs)
		n++
		fmt.Printf("==== case %d origin=%s status=%s class=%s sites=%d nm=%d opt=%d inadm=%d\n%s", n, cs.Origin, v.Status, v.Class, v.Sites, v.NearMisses, v.Optional, v.Inadmissible, cs.Patch)
		for _, p := range cs.Plants {
			fmt.Printf("  plant[%s %s]: %q\n", p.Tag, p.Ctx, p.Text)
		}
		if v.Msg != "" {
			fmt.Println("  MSG:", v.Msg)
		}
	})
}
