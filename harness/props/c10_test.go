package props

import (
	"bytes"
	"fmt"
	"strings"
	"testing"

	"github.com/uber-go/gopatch/verif/evid"
	"github.com/uber-go/gopatch/verif/run"
	"pgregory.net/rapid"
)

// C10 — package and import clauses in a change guard the whole file.
//
// A finite table (patch-side import form x file-side form x file layout x
// package clause x guard line kind x second guard) is enumerated completely;
// the oracle is the table in the property statement. Random extras follow.

const (
	c10Path  = "example.com/guarded/p"
	c10Path2 = "example.com/second/q"
)

type c10Case struct {
	PatchForm string   `json:"patch_form"` // absent | unnamed | named | meta | dot | blank
	FileForms []string `json:"file_forms"` // forms under which the file imports c10Path, in order: unnamed | nm | other | dot | blank | mv
	Layout    string   `json:"layout"`
	Pkg       string   `json:"pkg"`                  // absent | same | different | near-misses, see c10PkgNames
	Body      string   `json:"body,omitempty"`       // "" expr->expr | expr-to-stmts | stmts | decl
	PathStyle string   `json:"path_style,omitempty"` // "" plain | gopkg | slashv | goprefix: the guarded path (its last element is not the package name)
	Spelling  string   `json:"spelling,omitempty"`   // "" | raw | escaped: how the FILE spells the guarded path literal
	LineKind  string   `json:"line_kind"`            // context | minus
	Second    string   `json:"second"`               // none | satisfied | unsatisfied | wrongform
	// Extra unrelated imports (random part).
	Extra []string `json:"extra,omitempty"`

	// MetaPkg: the change also declares an identifier metavariable that is
	// called like the package of its package clause (a variable "client" in
	// package client). The clause is still a guard.
	MetaPkg bool `json:"meta_pkg,omitempty"`
	// Prelude: an earlier change of the same patch file, which never applies
	// (its code occurs nowhere), with the same import clause as this one but
	// the other reading of its name:
	//   meta-of-named    the earlier change declares "nm" a metavariable
	//   literal-of-meta  the earlier change uses "mv" as a literal name
	// Metavariables are declared per change.
	Prelude string `json:"prelude,omitempty"`
	// RenameTo ('-' package clause only): the change renames the package,
	// to the name the file has ("file") or to another one ("other"). The
	// '-' clause is still the guard: a file that already is of the new
	// package is not a file of the old one.
	RenameTo string `json:"rename_to,omitempty"`
}

// c10GuardedPath returns the guarded import path and the package name a tool
// would guess for it.
func c10GuardedPath(style string) (path, guess string) {
	switch style {
	case "gopkg":
		return "gopkg.in/guarded.v2", "guarded"
	case "slashv":
		return "example.com/guarded/v3", "guarded"
	case "goprefix":
		return "example.com/go-guarded", "guarded"
	}
	return c10Path, "p"
}

// c10Spell writes an import path literal the way the case asks for.
func c10Spell(path, spelling string) string {
	switch spelling {
	case "upper":
		// another path: the same letters, one of them in the other case
		i := strings.LastIndexAny(path, "abcdefghijklmnopqrstuvwxyz")
		return "\"" + path[:i] + strings.ToUpper(path[i:i+1]) + path[i+1:] + "\""
	case "raw":
		return "`" + path + "`"
	case "escaped":
		i := len(path) / 2
		return "\"" + path[:i] + fmt.Sprintf("\\x%02x", path[i]) + path[i+1:] + "\""
	}
	return fmt.Sprintf("%q", path)
}

func c10ImportLine(form, path string) string {
	return c10ImportLineSpelled(form, path, "", "")
}

func c10ImportLineSpelled(form, path, spelling, guess string) string {
	lit := c10Spell(path, spelling)
	switch form {
	case "guess":
		// explicitly named with the name the package has anyway
		return guess + " " + lit
	case "unnamed":
		return lit
	case "nm":
		return "nm " + lit
	case "other":
		return "other " + lit
	case "dot":
		return ". " + lit
	case "blank":
		return "_ " + lit
	case "mv":
		return "mv " + lit
	}
	return ""
}

func c10ImportLineOld(form, path string) string {
	switch form {
	case "unnamed":
		return fmt.Sprintf("%q", path)
	case "nm":
		return fmt.Sprintf("nm %q", path)
	case "other":
		return fmt.Sprintf("other %q", path)
	case "dot":
		return fmt.Sprintf(". %q", path)
	case "blank":
		return fmt.Sprintf("_ %q", path)
	case "mv":
		return fmt.Sprintf("mv %q", path)
	}
	return ""
}

// c10PkgNames gives, per package-clause case, the name in the patch's guard
// ("" = no package clause), the name in the file, and whether the guard holds
// ("the change applies only to files of that package": the names are equal;
// a package foo_test, a longer or shorter name or another spelling is another
// package).
func c10PkgNames(pkg string) (guard, file string, holds bool) {
	switch pkg {
	case "same":
		return "foo", "foo", true
	case "different":
		return "notfoo", "foo", false
	case "file-test":
		return "foo", "foo_test", false
	case "guard-test":
		return "foo_test", "foo", false
	case "both-test":
		return "foo_test", "foo_test", true
	case "guard-prefix":
		return "fo", "foo", false
	case "guard-longer":
		return "foox", "foo", false
	case "case":
		return "Foo", "foo", false
	}
	return "", "foo", true
}

// c10Bodies: the code part of the change; every variant rewrites code that
// occurs in func use() and leaves "tgq(1)" behind.
var c10BodyText = map[string]string{
	"":              "\n-tgt(1)\n+tgq(1)\n",
	"expr-to-stmts": "\n-tgt(1)\n+tgq(1)\n+tgq(3)\n",
	"stmts":         "\n-tgt(1)\n-tgt(2)\n+tgq(1)\n",
	"decl":          "\n-func use() {\n-\ttgt(1)\n-\ttgt(2)\n-}\n+func use() {\n+\ttgq(1)\n+}\n",
	// the code refers to the package through the metavariable that names the
	// import (patch form "meta" only); the file calls it under the name of
	// the last of its imports of the path
	"uses-mv": "\n-mv.tgt(1)\n+mv.tgq(1)\n",
}

// c10Build renders the patch and the file.
func c10Build(cs *c10Case) (patch, file string) {
	c10Path, guess := c10GuardedPath(cs.PathStyle)
	var p strings.Builder
	switch cs.Prelude {
	case "meta-of-named":
		p.WriteString(fmt.Sprintf("@@\nvar nm identifier\n@@\n import nm %q\n\n-c10never(1)\n+c10never(2)\n\n", c10Path))
	case "literal-of-meta":
		p.WriteString(fmt.Sprintf("@@\n@@\n import mv %q\n\n-c10never(1)\n+c10never(2)\n\n", c10Path))
	}
	p.WriteString("@@\n")
	if cs.PatchForm == "meta" {
		p.WriteString("var mv identifier\n")
	}
	if cs.Second == "meta-too" {
		p.WriteString("var mvq identifier\n")
	}
	if gp, _, _ := c10PkgNames(cs.Pkg); cs.MetaPkg && gp != "" {
		p.WriteString("var " + gp + " identifier\n")
	}
	p.WriteString("@@\n")
	pfx := " "
	if cs.LineKind == "minus" {
		pfx = "-"
	}
	guardPkg, filePkg, _ := c10PkgNames(cs.Pkg)
	if guardPkg != "" {
		p.WriteString(pfx + "package " + guardPkg + "\n")
		if cs.LineKind == "minus" {
			switch cs.RenameTo {
			case "file":
				p.WriteString("+package " + filePkg + "\n")
			case "other":
				p.WriteString("+package renamed\n")
			}
		}
		p.WriteString("\n")
	}
	switch cs.PatchForm {
	case "unnamed":
		p.WriteString(pfx + fmt.Sprintf("import %q\n", c10Path))
	case "named":
		p.WriteString(pfx + fmt.Sprintf("import nm %q\n", c10Path))
	case "meta":
		p.WriteString(pfx + fmt.Sprintf("import mv %q\n", c10Path))
	case "dot":
		p.WriteString(pfx + fmt.Sprintf("import . %q\n", c10Path))
	case "blank":
		p.WriteString(pfx + fmt.Sprintf("import _ %q\n", c10Path))
	}
	switch cs.Second {
	case "satisfied", "unsatisfied", "wrongform":
		p.WriteString(pfx + fmt.Sprintf("import %q\n", c10Path2))
	case "meta-too":
		// the guarded path once more, under another metavariable: one
		// import of the file may answer for both lines
		p.WriteString(pfx + fmt.Sprintf("import mvq %q\n", c10Path))
	case "repeat":
		// the first guard written twice
		switch cs.PatchForm {
		case "unnamed":
			p.WriteString(pfx + fmt.Sprintf("import %q\n", c10Path))
		case "named":
			p.WriteString(pfx + fmt.Sprintf("import nm %q\n", c10Path))
		case "meta":
			p.WriteString(pfx + fmt.Sprintf("import mv %q\n", c10Path))
		case "dot":
			p.WriteString(pfx + fmt.Sprintf("import . %q\n", c10Path))
		case "blank":
			p.WriteString(pfx + fmt.Sprintf("import _ %q\n", c10Path))
		}
	}
	p.WriteString(c10BodyText[cs.Body])

	// file
	var specs []string
	for _, f := range cs.FileForms {
		specs = append(specs, c10ImportLineSpelled(f, c10Path, cs.Spelling, guess))
	}
	switch cs.Second {
	case "satisfied":
		specs = append(specs, fmt.Sprintf("%q", c10Path2))
	case "wrongform":
		specs = append(specs, fmt.Sprintf("q2 %q", c10Path2))
	}
	unrelatedBefore := []string{`"fmt"`, fmt.Sprintf("%q", c10Path+"2"), `str "strings"`}
	unrelatedAfter := []string{fmt.Sprintf("%q", "x/"+c10Path), `_ "embed"`, fmt.Sprintf("pp %q", "example.com/guarded")}
	var f strings.Builder
	f.WriteString("// A file.\npackage " + filePkg + "\n\n")
	writeGroup := func(sp []string) {
		if len(sp) == 0 {
			return
		}
		f.WriteString("import (\n")
		for _, s := range sp {
			f.WriteString("\t" + s + "\n")
		}
		f.WriteString(")\n\n")
	}
	writeSingles := func(sp []string) {
		for _, s := range sp {
			f.WriteString("import " + s + "\n")
		}
		if len(sp) > 0 {
			f.WriteString("\n")
		}
	}
	extra := cs.Extra
	switch cs.Layout {
	case "singles":
		writeSingles(append(append([]string{}, extra...), specs...))
	case "group":
		writeGroup(append(append([]string{}, extra...), specs...))
	case "group-among":
		all := append(append(append([]string{}, unrelatedBefore...), specs...), unrelatedAfter...)
		writeGroup(append(all, extra...))
	case "two-blocks":
		writeGroup(append(append([]string{}, unrelatedBefore...), extra...))
		writeGroup(append(append([]string{}, specs...), unrelatedAfter[0]))
	case "singles-among":
		writeSingles(unrelatedBefore[:2])
		writeSingles(specs)
		writeSingles(append(append([]string{}, unrelatedAfter[:1]...), extra...))
	case "after-unrelated-group":
		writeGroup(append(append([]string{}, unrelatedAfter...), extra...))
		writeSingles(specs)
	case "first-then-group":
		writeSingles(specs)
		writeGroup(append(append([]string{}, unrelatedBefore...), extra...))
	case "reversed-group":
		rev := append([]string{}, specs...)
		for i, j := 0, len(rev)-1; i < j; i, j = i+1, j-1 {
			rev[i], rev[j] = rev[j], rev[i]
		}
		writeGroup(append(append(append([]string{}, unrelatedAfter...), rev...), extra...))
	}
	if cs.Body == "uses-mv" {
		name := ""
		for _, ff := range cs.FileForms {
			switch ff {
			case "nm", "other", "mv":
				name = ff
			case "guess":
				name = guess
			}
		}
		f.WriteString("func use() {\n\t" + name + ".tgt(1)\n\ttgt(2)\n}\n")
		return p.String(), f.String()
	}
	f.WriteString("func use() {\n\ttgt(1)\n\ttgt(2)\n}\n")
	return p.String(), f.String()
}

// c10Expect is the oracle: does the change apply? Written from the property
// statement: "an unnamed import matches only an unnamed import, a literally
// named import only that exact name, and a name that is an identifier
// metavariable matches any name or none"; the package must be the file's;
// every guard must hold.
func c10Expect(cs *c10Case) bool {
	if _, _, holds := c10PkgNames(cs.Pkg); !holds {
		return false
	}
	has := func(form string) bool {
		for _, f := range cs.FileForms {
			if f == form {
				return true
			}
		}
		return false
	}
	if cs.Spelling == "upper" && cs.PatchForm != "absent" {
		return false // the file imports another path
	}
	switch cs.PatchForm {
	case "absent":
	case "unnamed":
		if !has("unnamed") {
			return false
		}
	case "named":
		if !has("nm") {
			return false
		}
	case "dot":
		if !has("dot") {
			return false
		}
	case "blank":
		if !has("blank") {
			return false
		}
	case "meta":
		if len(cs.FileForms) == 0 {
			return false
		}
	}
	switch cs.Second {
	case "unsatisfied", "wrongform":
		return false
	case "meta-too":
		if len(cs.FileForms) == 0 || cs.Spelling == "upper" {
			return false
		}
	}
	return true
}

func evalC10(cs *c10Case) (sig, msg string, applies bool) {
	patch, file := c10Build(cs)
	want := c10Expect(cs)
	r := run.API("p.patch", []byte(patch), "f.go", []byte(file))
	switch {
	case r.Failed():
		return "", "foreign:C08", want
	case r.ParseErr != "":
		return "rejected", fmt.Sprintf("gopatch rejects a patch of the fixed table: %s\npatch:\n%s", r.ParseErr, patch), want
	case r.ApplyErr != "":
		return "apply-error", fmt.Sprintf("Apply fails: %s\npatch:\n%s\nfile:\n%s", r.ApplyErr, patch, file), want
	}
	got := bytes.Contains(r.Out, []byte("tgq(1)"))
	desc := fmt.Sprintf("prelude %q, metavariable named like the package: %v, package renamed to %q, ", cs.Prelude, cs.MetaPkg, cs.RenameTo) + fmt.Sprintf("patch form %s (%s line), file imports the path as %v (path style %q, literal spelled %q), layout %s, package clause %s, second guard %s, body %q", cs.PatchForm, cs.LineKind, cs.FileForms, cs.PathStyle, cs.Spelling, cs.Layout, cs.Pkg, cs.Second, cs.Body)
	switch {
	case want && !got:
		multi := ""
		if len(cs.FileForms) > 1 {
			multi = ":path-imported-twice"
		}
		return "guards-hold-but-not-applied" + multi, fmt.Sprintf("all guards hold but the change did not apply: %s\npatch:\n%s\nfile:\n%s", desc, patch, file), want
	case !want && got:
		return "guard-fails-but-applied", fmt.Sprintf("a guard fails but the change applied: %s\npatch:\n%s\nfile:\n%s\noutput:\n%s", desc, patch, file, r.Out), want
	case !want && !bytes.Equal(r.Out, []byte(file)):
		return "guard-fails-but-file-changed", fmt.Sprintf("a guard fails, the code pattern was not rewritten, yet the file changed: %s\noutput:\n%s", desc, r.Out), want
	}
	if want && bytes.Contains(r.Out, []byte("tgt(1)")) {
		return "partially-applied", fmt.Sprintf("guards hold but an instance is left: %s\noutput:\n%s", desc, r.Out), want
	}
	return "", "", want
}

var (
	c10PatchForms = []string{"absent", "unnamed", "named", "meta", "dot", "blank"}
	c10FileSets   = [][]string{
		{}, {"unnamed"}, {"nm"}, {"other"}, {"dot"}, {"blank"}, {"mv"},
		{"unnamed", "nm"}, {"nm", "unnamed"}, {"nm", "other"}, {"other", "nm"}, {"blank", "unnamed"}, {"unnamed", "blank"}, {"dot", "nm"}, {"other", "dot"},
		{"guess"}, {"guess", "unnamed"}, {"nm", "guess"},
	}
	c10Styles    = []string{"", "gopkg", "slashv", "goprefix"}
	c10Spellings = []string{"", "raw", "escaped", "upper"}
	c10Layouts   = []string{"singles", "group", "group-among", "two-blocks", "singles-among", "after-unrelated-group", "first-then-group", "reversed-group"}
	c10Pkgs      = []string{"absent", "same", "different", "file-test", "guard-test", "both-test", "guard-prefix", "guard-longer", "case"}
	c10Bodies    = []string{"", "expr-to-stmts", "stmts", "decl"}
	c10Kinds     = []string{"context", "minus"}
	c10Seconds   = []string{"none", "satisfied", "unsatisfied", "wrongform", "meta-too", "repeat"}
)

func c10Record(cs *c10Case, applies bool) {
	c := coll("C10")
	cl := "expect:no-effect"
	if applies {
		cl = "expect:applies"
	}
	c.Case(evid.Hash(fmt.Sprint(*cs)), true, cl, "patch-form:"+cs.PatchForm, "layout:"+cs.Layout, "pkg:"+cs.Pkg, "body:"+cs.Body, "path-style:"+cs.PathStyle, "spelling:"+cs.Spelling, "second:"+cs.Second, fmt.Sprintf("file-specs:%d", len(cs.FileForms)))
	if c.WantSample() {
		p, f := c10Build(cs)
		c.Sample(map[string]any{"case": cs, "patch": p, "file": f, "expected_applies": applies})
	}
}

func TestC10(t *testing.T) {
	k, n := shard()
	idx := 0
	for _, style := range c10Styles {
		for _, spelling := range c10Spellings {
			for _, body := range c10Bodies {
				if (style != "" || spelling != "") && body != "" {
					continue
				}
				for _, pf := range c10PatchForms {
					for _, fs := range c10FileSets {
						for _, lo := range c10Layouts {
							for _, pk := range c10Pkgs {
								for _, lk := range c10Kinds {
									for _, sd := range c10Seconds {
										if body != "" && (lo != "group" && lo != "singles-among" || sd != "none" && sd != "unsatisfied") {
											continue // the other body shapes are crossed with two layouts and two second guards only
										}
										if (style != "" || spelling != "") && (lo != "group" && lo != "singles-among" || sd != "none" || pk != "absent" && pk != "same") {
											continue // other path styles / spellings: two layouts, no second guard, two package cases
										}
										idx++
										if idx%n != k {
											continue
										}
										if pf == "absent" && pk == "absent" && sd == "none" {
											continue // no guard at all
										}
										variants := []*c10Case{{PatchForm: pf, FileForms: fs, Layout: lo, Pkg: pk, LineKind: lk, Second: sd, Body: body, PathStyle: style, Spelling: spelling}}
										if body == "" && style == "" && spelling == "" && (sd == "none" || sd == "satisfied") && pf == "meta" && (lo == "group" || lo == "singles-among" || lo == "reversed-group") {
											named := len(fs) > 0
											for _, ff := range fs {
												if ff != "nm" && ff != "other" && ff != "mv" && ff != "guess" {
													named = false
												}
											}
											if named {
												v := *variants[0]
												v.Body = "uses-mv"
												variants = append(variants, &v)
											}
										}
										if body == "" && style == "" && spelling == "" && sd == "none" && (lo == "group" || lo == "singles-among") {
											if pk != "absent" {
												v := *variants[0]
												v.MetaPkg = true
												variants = append(variants, &v)
											}
											if pk != "absent" && lk == "minus" {
												for _, to := range []string{"file", "other"} {
													v := *variants[0]
													v.RenameTo = to
													variants = append(variants, &v)
												}
											}
											if pf == "named" {
												v := *variants[0]
												v.Prelude = "meta-of-named"
												variants = append(variants, &v)
											}
											if pf == "meta" {
												v := *variants[0]
												v.Prelude = "literal-of-meta"
												variants = append(variants, &v)
											}
										}
										for _, cs := range variants {
											sig, msg, applies := evalC10(cs)
											c10Record(cs, applies)
											if sig != "" {
												violate(softFataler{t}, "C10", sig, msg, cs)
												if t.Failed() {
													return
												}
											}
										}
									}
								}
							}
						}
					}
				}
			}
		}
	}
	if t.Failed() {
		return
	}
	// Random extras: more unrelated imports in drawn forms.
	checkN(t, func(rt *rapid.T) {
		cs := &c10Case{
			PatchForm: rapid.SampledFrom(c10PatchForms).Draw(rt, "pf"),
			FileForms: rapid.SampledFrom(c10FileSets).Draw(rt, "fs"),
			Layout:    rapid.SampledFrom(c10Layouts).Draw(rt, "lo"),
			Pkg:       rapid.SampledFrom(c10Pkgs).Draw(rt, "pk"),
			LineKind:  rapid.SampledFrom(c10Kinds).Draw(rt, "lk"),
			Second:    rapid.SampledFrom(c10Seconds).Draw(rt, "sd"),
			Body:      rapid.SampledFrom(c10Bodies).Draw(rt, "body"),
			PathStyle: rapid.SampledFrom(c10Styles).Draw(rt, "style"),
			Spelling:  rapid.SampledFrom(c10Spellings).Draw(rt, "spelling"),
			MetaPkg:   rapid.IntRange(0, 3).Draw(rt, "metaPkg") == 0,
		}
		if cs.LineKind == "minus" && cs.Pkg != "absent" {
			cs.RenameTo = rapid.SampledFrom([]string{"", "", "file", "other"}).Draw(rt, "renameTo")
		}
		switch cs.PatchForm {
		case "named":
			cs.Prelude = rapid.SampledFrom([]string{"", "meta-of-named"}).Draw(rt, "prelude")
		case "meta":
			cs.Prelude = rapid.SampledFrom([]string{"", "literal-of-meta"}).Draw(rt, "prelude")
		}
		nExtra := rapid.IntRange(0, 5).Draw(rt, "nExtra")
		if rapid.IntRange(0, 9).Draw(rt, "longImportList") == 0 {
			// a long import list in front of the guarded imports
			n := rapid.IntRange(60, 400).Draw(rt, "nLong")
			for i := 0; i < n; i++ {
				cs.Extra = append(cs.Extra, fmt.Sprintf("%q", fmt.Sprintf("example.com/many/p%03d", i)))
			}
		}
		for i := 0; i < nExtra; i++ {
			name := rapid.SampledFrom([]string{"", "", "ex", "_", ".", "nm", "mv"}).Draw(rt, fmt.Sprintf("en%d", i))
			path := rapid.SampledFrom([]string{"example.com/extra/a", "example.com/guarded", "example.com/guarded/p/sub", "p", "guarded/p", "os", "example.com/second"}).Draw(rt, fmt.Sprintf("ep%d", i))
			spec := fmt.Sprintf("%q", path)
			if name != "" {
				spec = name + " " + spec
			}
			cs.Extra = append(cs.Extra, spec)
		}
		if cs.PatchForm == "absent" && cs.Pkg == "absent" && cs.Second == "none" {
			cs.Pkg = "same"
		}
		sig, msg, applies := evalC10(cs)
		c10Record(cs, applies)
		if sig != "" {
			violate(rt, "C10", sig, msg, cs)
		}
	})
}

func TestReplayC10(t *testing.T) {
	var cs c10Case
	if !loadReplay(t, "C10", &cs) {
		return
	}
	sig, msg, _ := evalC10(&cs)
	if sig != "" {
		violate(t, "C10", sig, msg, &cs)
	}
}
