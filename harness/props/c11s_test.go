package props

import (
	"fmt"
	"sort"
	"strings"

	"github.com/uber-go/gopatch/verif/run"
	"pgregory.net/rapid"
)

// C11, part (c): hand-built shapes around the edges of the import rules. Every
// case states the complete expected import multiset.

type c11sCase struct {
	Shape    string   `json:"shape"`
	Patch    string   `json:"patch"`
	File     string   `json:"file"`
	Expected []string `json:"expected"` // "name path" per import spec, sorted
}

func c11sImports(specs []string, grouped bool) string {
	if len(specs) == 0 {
		return ""
	}
	if !grouped {
		var b strings.Builder
		for _, s := range specs {
			b.WriteString("import " + s + "\n")
		}
		return b.String() + "\n"
	}
	return "import (\n\t" + strings.Join(specs, "\n\t") + "\n)\n\n"
}

func c11sKey(spec string) string {
	f := strings.Fields(spec)
	if len(f) == 1 {
		return " " + strings.Trim(f[0], "\"")
	}
	return f[0] + " " + strings.Trim(f[1], "\"")
}

func c11sDraw(rt *rapid.T) *c11sCase {
	by := []string{}
	for i, b := range []string{`"fmt"`, `str "strings"`, `_ "embed"`, `"example.com/by/aa"`} {
		if rapid.Bool().Draw(rt, fmt.Sprintf("by%d", i)) {
			by = append(by, b)
		}
	}
	grouped := rapid.Bool().Draw(rt, "grouped")
	uses := func() string {
		var b strings.Builder
		b.WriteString("func useBystanders() {\n")
		for _, s := range by {
			switch {
			case strings.HasPrefix(s, `"fmt"`):
				b.WriteString("\tfmt.Println()\n")
			case strings.HasPrefix(s, "str "):
				b.WriteString("\tstr.ToUpper(\"\")\n")
			case strings.Contains(s, "by/aa"):
				b.WriteString("\taa.Use()\n")
			}
		}
		b.WriteString("}\n\n")
		return b.String()
	}
	expect := func(specs ...string) []string {
		var out []string
		for _, s := range append(append([]string{}, by...), specs...) {
			out = append(out, c11sKey(s))
		}
		sort.Strings(out)
		return out
	}
	at := func(specs []string, extra ...string) []string {
		// the subject imports at a drawn position among the bystanders
		pos := rapid.IntRange(0, len(specs)).Draw(rt, "pos")
		out := append([]string{}, specs[:pos]...)
		out = append(out, extra...)
		return append(out, specs[pos:]...)
	}
	cs := &c11sCase{}
	switch rapid.IntRange(0, 10).Draw(rt, "shape") {
	case 4:
		// two changes: the first introduces a package (import and use), the
		// second has that import on a context or '-' line and rewrites
		// something else; the package is still used afterwards (or, with
		// the '-' line and the use rewritten too, it is not)
		kind := rapid.SampledFrom([]string{"context", "minus-still-used", "minus-unused"}).Draw(rt, "secondKind")
		cs.Shape = "import-added-by-an-earlier-change:" + kind
		cs.Patch = "@@\nvar x expression\n@@\n+import \"example.com/lib/addp\"\n\n-legacyDo(x)\n+addp.Do(x)\n\n"
		switch kind {
		case "context":
			cs.Patch += "@@\nvar y expression\n@@\n import \"example.com/lib/addp\"\n\n-otherDo(y)\n+betterDo(y)\n"
			cs.Expected = expect(`"example.com/lib/addp"`)
		case "minus-still-used":
			cs.Patch += "@@\nvar y expression\n@@\n-import \"example.com/lib/addp\"\n\n-otherDo(y)\n+betterDo(y)\n"
			cs.Expected = expect(`"example.com/lib/addp"`)
		default:
			cs.Patch += "@@\nvar y expression\n@@\n-import \"example.com/lib/addp\"\n\n-addp.Do(y)\n+finalDo(y)\n"
			cs.Expected = expect()
		}
		cs.File = "package foo\n\n" + c11sImports(by, grouped) + uses() + "func sites() {\n\tlegacyDo(1)\n\totherDo(2)\n}\n"
	case 5:
		// two changes: one of them has imports on its '-' and '+' lines but
		// its code occurs only where the '+' code cannot stand (a declared
		// name, for a selector): it rewrites nothing, so its imports are
		// not carried out either; the other change rewrites the file.
		first := rapid.Bool().Draw(rt, "unplaceableFirst")
		oldUsed := rapid.Bool().Draw(rt, "oldUsed")
		cs.Shape = fmt.Sprintf("imports-of-a-change-that-rewrites-nothing:first=%v:old-used=%v", first, oldUsed)
		a := "@@\n@@\n-import \"example.com/lib/oldp\"\n+import \"example.com/lib/newp\"\n\n-Timeout\n+newp.Timeout\n\n"
		b := "@@\nvar x expression\n@@\n-legacyDo(x)\n+localDo(x)\n\n"
		if first {
			cs.Patch = a + b
		} else {
			cs.Patch = b + a
		}
		use := ""
		if oldUsed {
			use = "\toldp.Keep()\n"
		}
		cs.File = "package foo\n\n" + c11sImports(at(by, `"example.com/lib/oldp"`), grouped) + uses() + "var Timeout = 3\n\nfunc sites() {\n\tlegacyDo(1)\n" + use + "}\n"
		cs.Expected = expect(`"example.com/lib/oldp"`)
	case 6:
		// a blank or dot import on a context line: it is part of the file
		// before and after the change, although nothing refers to it by
		// name (written literally, or through an identifier metavariable)
		name := rapid.SampledFrom([]string{"_", "."}).Draw(rt, "blankOrDot")
		viaMeta := rapid.Bool().Draw(rt, "viaMetavariable")
		cs.Shape = fmt.Sprintf("context-import-named:%s:via-metavariable=%v", name, viaMeta)
		if viaMeta {
			cs.Patch = "@@\nvar n identifier\nvar x expression\n@@\n import n \"example.com/lib/oldp\"\n\n-legacyDo(x)\n+localDo(x)\n"
		} else {
			cs.Patch = "@@\nvar x expression\n@@\n import " + name + " \"example.com/lib/oldp\"\n\n-legacyDo(x)\n+localDo(x)\n"
		}
		cs.File = "package foo\n\n" + c11sImports(at(by, name+` "example.com/lib/oldp"`), grouped) + uses() + "func sites() {\n\tlegacyDo(1)\n}\n"
		cs.Expected = expect(name + ` "example.com/lib/oldp"`)
	case 7:
		// the change has no import lines at all; its code pattern is a bare
		// string literal or a bare name that also occurs in the import
		// declaration (as a path, as the name of an import)
		what := rapid.SampledFrom([]string{"path", "alias"}).Draw(rt, "what")
		cs.Shape = "code-pattern-matches-inside-import-declaration:" + what
		if what == "path" {
			cs.Patch = "@@\n@@\n-\"example.com/lib/oldp\"\n+\"example.com/lib/newp\"\n"
			cs.File = "package foo\n\n" + c11sImports(at(by, `"example.com/lib/oldp"`), grouped) + uses() + "var registered = \"example.com/lib/oldp\"\n\nfunc sites() {\n\toldp.Do(1)\n}\n"
			cs.Expected = expect(`"example.com/lib/oldp"`)
		} else {
			cs.Patch = "@@\n@@\n-oldq\n+newq\n"
			cs.File = "package foo\n\n" + c11sImports(at(by, `oldq "example.com/lib/oldp"`), grouped) + uses() + "func sites() {\n\toldq.Do(1)\n}\n"
			cs.Expected = expect(`oldq "example.com/lib/oldp"`)
		}
	case 8:
		// the '+' side asks for the very import the file has (the '-' side
		// matches it through a metavariable or under its name), and the
		// rewritten code does not refer to the package: it was not added,
		// being there; it must not be deleted either
		fileName := rapid.SampledFrom([]string{"", "", "zq"}).Draw(rt, "fileName")
		cs.Shape = "plus-import-is-the-one-the-file-has:file-name=" + fileName
		plus := "\"example.com/lib/oldp\""
		spec := plus
		if fileName != "" {
			plus = fileName + " " + plus
			spec = plus
		}
		cs.Patch = "@@\nvar pk identifier\nvar x expression\n@@\n-import pk \"example.com/lib/oldp\"\n+import " + plus + "\n\n-legacyDo(x)\n+localDo(x)\n"
		cs.File = "package foo\n\n" + c11sImports(at(by, spec), grouped) + uses() + "func sites() {\n\tlegacyDo(1)\n}\n"
		cs.Expected = expect(spec)
	case 9:
		// a blank (dot) import on a context line, and the change adds
		// another blank (dot) import: both are there afterwards
		name := rapid.SampledFrom([]string{"_", "."}).Draw(rt, "blankOrDot")
		cs.Shape = "context-import-and-added-import-both-named:" + name
		cs.Patch = "@@\nvar x expression\n@@\n import " + name + " \"example.com/lib/oldp\"\n+import " + name + " \"example.com/lib/newp\"\n\n-legacyDo(x)\n+localDo(x)\n"
		cs.File = "package foo\n\n" + c11sImports(at(by, name+` "example.com/lib/oldp"`), grouped) + uses() + "func sites() {\n\tlegacyDo(1)\n}\n"
		cs.Expected = expect(name+` "example.com/lib/oldp"`, name+` "example.com/lib/newp"`)
	case 10:
		// a blank (dot) import is turned into an ordinary or named import of
		// the same path: the blank one goes
		name := rapid.SampledFrom([]string{"_", "."}).Draw(rt, "blankOrDot")
		to := rapid.SampledFrom([]string{"", "chk"}).Draw(rt, "newName")
		cs.Shape = "blank-import-becomes-named:" + name + "->" + to
		plus, use := "\"example.com/lib/oldp\"", "oldp"
		if to != "" {
			plus, use = to+" "+plus, to
		}
		cs.Patch = "@@\nvar x expression\n@@\n-import " + name + " \"example.com/lib/oldp\"\n+import " + plus + "\n\n-legacyDo(x)\n+" + use + ".Do(x)\n"
		cs.File = "package foo\n\n" + c11sImports(at(by, name+` "example.com/lib/oldp"`), grouped) + uses() + "func sites() {\n\tlegacyDo(1)\n}\n"
		cs.Expected = expect(plus)
	case 0:
		// the path of a '+' import is already imported, but under a name the
		// patch does not mention: that import is a bystander, the '+' import
		// is added as written
		name := rapid.SampledFrom([]string{"_", ".", "zq"}).Draw(rt, "otherName")
		cs.Shape = "added-path-already-imported-as:" + name
		cs.Patch = "@@\nvar x expression\n@@\n+import \"example.com/lib/addp\"\n\n-legacyDo(x)\n+addp.Do(x)\n"
		use := ""
		if name == "zq" {
			use = "\tzq.Keep()\n"
		}
		cs.File = "package foo\n\n" + c11sImports(at(by, name+` "example.com/lib/addp"`), grouped) + uses() + "func sites() {\n\tlegacyDo(1)\n" + use + "}\n"
		cs.Expected = expect(name+` "example.com/lib/addp"`, `"example.com/lib/addp"`)
	case 1:
		// a blank or dot import on a '-' line: nothing can refer to it by name, it goes
		name := rapid.SampledFrom([]string{"_", "."}).Draw(rt, "blankOrDot")
		withPlus := rapid.Bool().Draw(rt, "withPlus")
		cs.Shape = "delete-import-named:" + name + fmt.Sprintf(":plus=%v", withPlus)
		cs.Patch = "@@\nvar x expression\n@@\n-import " + name + " \"example.com/lib/oldp\"\n"
		body := "\n-legacyDo(x)\n+localDo(x)\n"
		exp := []string{}
		if withPlus {
			cs.Patch += "+import \"example.com/lib/newp\"\n"
			body = "\n-legacyDo(x)\n+newp.Do(x)\n"
			exp = append(exp, `"example.com/lib/newp"`)
		}
		cs.Patch += body
		cs.File = "package foo\n\n" + c11sImports(at(by, name+` "example.com/lib/oldp"`), grouped) + uses() + "func sites() {\n\tlegacyDo(1)\n}\n"
		cs.Expected = expect(exp...)
	case 2:
		// the same path imported under two names, both on '-' lines
		aUsed := rapid.Bool().Draw(rt, "aUsed")
		cs.Shape = fmt.Sprintf("same-path-two-names:first-still-used=%v", aUsed)
		cs.Patch = "@@\nvar x expression\n@@\n-import ax \"example.com/lib/oldp\"\n-import bx \"example.com/lib/oldp\"\n\n-legacyDo(x)\n+localDo(x)\n"
		use, exp := "", []string{}
		if aUsed {
			use = "\tax.Keep()\n"
			exp = append(exp, `ax "example.com/lib/oldp"`)
		}
		specs := at(by, `ax "example.com/lib/oldp"`, `bx "example.com/lib/oldp"`)
		if rapid.Bool().Draw(rt, "swap") {
			for i := range specs {
				if strings.HasPrefix(specs[i], "ax ") {
					specs[i], specs[i+1] = specs[i+1], specs[i]
					break
				}
			}
		}
		cs.File = "package foo\n\n" + c11sImports(specs, grouped) + uses() + "func sites() {\n\tlegacyDo(1)\n" + use + "}\n"
		cs.Expected = expect(exp...)
	default:
		// the captured code contains a local named like the package: after the
		// rewrite nothing refers to the package any more (or, control, it does)
		real := rapid.Bool().Draw(rt, "realUseInside")
		cs.Shape = fmt.Sprintf("shadowing-local-inside-captured-code:real-use=%v", real)
		cs.Patch = "@@\nvar x expression\n@@\n-import \"example.com/lib/oldp\"\n+import \"example.com/lib/newp\"\n\n-oldp.Do(x)\n+newp.Do(x)\n"
		arg := rapid.SampledFrom([]string{
			"func(oldp *localT) int { return oldp.N }",
			"func() int {\n\t\toldp := localT{}\n\t\treturn oldp.N\n\t}",
			"func(oldp localT) { oldp.Flush() }",
		}).Draw(rt, "arg")
		exp := []string{`"example.com/lib/newp"`}
		if real {
			arg = "func() any { return oldp.Other() }"
			exp = append(exp, `"example.com/lib/oldp"`)
		}
		cs.File = "package foo\n\n" + c11sImports(at(by, `"example.com/lib/oldp"`), grouped) + uses() +
			"type localT struct{ N int }\n\nfunc (localT) Flush() {}\n\nfunc sites() {\n\toldp.Do(" + arg + ")\n}\n"
		cs.Expected = expect(exp...)
	}
	return cs
}

func evalC11s(cs *c11sCase) (sig, msg string) {
	r := run.API("p.patch", []byte(cs.Patch), "f.go", []byte(cs.File))
	switch {
	case r.Failed():
		return "", "foreign:C08"
	case r.ParseErr != "":
		return "special:rejected:" + cs.Shape, fmt.Sprintf("gopatch rejects the patch: %s\n%s", r.ParseErr, cs.Patch)
	case r.ApplyErr != "":
		return "special:apply-error:" + cs.Shape, fmt.Sprintf("Apply fails: %s\npatch:\n%s\nfile:\n%s", r.ApplyErr, cs.Patch, cs.File)
	}
	if string(r.Out) == cs.File {
		return "special:not-applied:" + cs.Shape, fmt.Sprintf("the change did not apply\npatch:\n%s\nfile:\n%s", cs.Patch, cs.File)
	}
	got, err := c11Imports(r.Out)
	if err != nil {
		return "", "foreign:C07"
	}
	var have []string
	for _, g := range got {
		have = append(have, g.key())
	}
	sort.Strings(have)
	if strings.Join(have, "\n") != strings.Join(cs.Expected, "\n") {
		return "special:" + cs.Shape, fmt.Sprintf("imports after the change (name path):\n  expected: %q\n  actual:   %q\npatch:\n%s\nfile:\n%s\noutput:\n%s", cs.Expected, have, cs.Patch, cs.File, r.Out)
	}
	return "", ""
}
