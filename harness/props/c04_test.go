package props

import (
	"fmt"
	"os"
	"strings"
	"testing"

	"github.com/uber-go/gopatch/verif/evid"
	"github.com/uber-go/gopatch/verif/gen"
	"github.com/uber-go/gopatch/verif/ref"
	"github.com/uber-go/gopatch/verif/run"
)

// C04 — elision '...' matches any run of elements and reproduces it unchanged.
//
// Part (a): exhaustive small-scope enumeration against a tiny list model.
// Part (b): the mined-pattern machinery with elision-heavy patterns.

// ---- the list model ---------------------------------------------------------

// Pattern symbols: 'a', 'b' explicit atoms; 'x', 'y' metavariables; '.' elision.
// List symbols: 'a', 'b', 'c'.

type c04Match struct {
	runs [][]byte // one per '.' in pattern order
	bind map[byte]byte
}

// c04Model matches pattern against list by backtracking: each elision takes
// the shortest run that allows a match, left to right; metavariables bind
// atoms consistently.
func c04Model(pat, list []byte) (*c04Match, bool) {
	var rec func(pi, li int, bind map[byte]byte, runs [][]byte) (*c04Match, bool)
	rec = func(pi, li int, bind map[byte]byte, runs [][]byte) (*c04Match, bool) {
		if pi == len(pat) {
			if li == len(list) {
				return &c04Match{runs: runs, bind: bind}, true
			}
			return nil, false
		}
		switch s := pat[pi]; s {
		case '.':
			for take := 0; li+take <= len(list); take++ {
				r := append(append([][]byte(nil), runs...), list[li:li+take])
				if m, ok := rec(pi+1, li+take, bind, r); ok {
					return m, true
				}
			}
			return nil, false
		case 'x', 'y':
			if li >= len(list) {
				return nil, false
			}
			if b, ok := bind[s]; ok {
				if b != list[li] {
					return nil, false
				}
				return rec(pi+1, li+1, bind, runs)
			}
			nb := map[byte]byte{s: list[li]}
			for k, v := range bind {
				nb[k] = v
			}
			return rec(pi+1, li+1, nb, runs)
		default:
			if li >= len(list) || list[li] != s {
				return nil, false
			}
			return rec(pi+1, li+1, bind, runs)
		}
	}
	return rec(0, 0, map[byte]byte{}, nil)
}

// c04Instantiate builds the output list: the plus pattern (minus pattern
// with the first explicit atom replaced by the marker 'M') instantiated.
func c04Instantiate(pat []byte, m *c04Match) []byte {
	var out []byte
	di := 0
	marked := false
	for _, s := range pat {
		switch s {
		case '.':
			out = append(out, m.runs[di]...)
			di++
		case 'x', 'y':
			out = append(out, m.bind[s])
		default:
			if !marked {
				out = append(out, 'M')
				marked = true
			} else {
				out = append(out, s)
			}
		}
	}
	return out
}

func c04AllLists(maxLen int) [][]byte {
	lists := [][]byte{{}}
	prev := [][]byte{{}}
	for l := 1; l <= maxLen; l++ {
		var next [][]byte
		for _, p := range prev {
			for _, s := range []byte("abc") {
				next = append(next, append(append([]byte(nil), p...), s))
			}
		}
		lists = append(lists, next...)
		prev = next
	}
	return lists
}

func c04AllPatterns(maxLen, maxDots int) [][]byte {
	var out [][]byte
	var rec func(cur []byte, dots int)
	rec = func(cur []byte, dots int) {
		out = append(out, append([]byte(nil), cur...))
		if len(cur) == maxLen {
			return
		}
		for _, s := range []byte("abxy.") {
			if s == '.' {
				if dots == maxDots {
					continue
				}
				rec(append(cur, s), dots+1)
			} else {
				rec(append(cur, s), dots)
			}
		}
	}
	rec(nil, 0)
	return out
}

// ---- rendering per list kind ------------------------------------------------------

type c04Kind struct {
	name string
	// elem renders a list/pattern symbol as an element of this kind.
	elem func(s byte) string
	// sep separates elements ("," or "" for line-separated kinds).
	comma bool
	// metaDecl declares the metavariables used ('x','y').
	holeKind string
	// patternLines returns the minus and plus lines of the change body for
	// element lines (already rendered, one per element, dots as "...").
	pattern func(minusElems, plusElems []string) (minus, plus []string)
	// site renders one site for a concrete list; rewritten selects the
	// renamed form.
	site func(idx int, elems []string, rewritten bool) string
}

func c04Sym(kind *c04Kind, s byte) string {
	switch s {
	case '.':
		return "..."
	case 'x':
		return kind.elem('1')
	case 'y':
		return kind.elem('2')
	}
	return kind.elem(s)
}

func joinElems(elems []string, comma bool, indent string) string {
	var b strings.Builder
	for _, e := range elems {
		b.WriteString(indent + e)
		if comma {
			b.WriteString(",")
		}
		b.WriteString("\n")
	}
	return b.String()
}

var c04Kinds = []*c04Kind{
	{
		name: "call-args", comma: true, holeKind: "expression",
		elem: func(s byte) string {
			switch s {
			case '1':
				return "hvx"
			case '2':
				return "hvy"
			case 'M':
				return "mkq"
			}
			return string(s) + "q"
		},
		pattern: func(me, pe []string) ([]string, []string) {
			return append(append([]string{"tgt("}, commaLines(me)...), ")"), append(append([]string{"tgq("}, commaLines(pe)...), ")")
		},
		site: func(i int, e []string, rw bool) string {
			name := "tgt"
			if rw {
				name = "tgq"
			}
			return fmt.Sprintf("func s%d() {\n\t_ = %s(%s)\n}\n", i, name, strings.Join(e, ", "))
		},
	},
	{
		name: "composite-elts", comma: true, holeKind: "expression",
		elem: func(s byte) string {
			switch s {
			case '1':
				return "hvx"
			case '2':
				return "hvy"
			case 'M':
				return "mkq"
			}
			return string(s) + "q"
		},
		pattern: func(me, pe []string) ([]string, []string) {
			return append(append([]string{"tgt{"}, commaLines(me)...), "}"), append(append([]string{"tgq{"}, commaLines(pe)...), "}")
		},
		site: func(i int, e []string, rw bool) string {
			name := "tgt"
			if rw {
				name = "tgq"
			}
			return fmt.Sprintf("func s%d() {\n\t_ = %s{%s}\n}\n", i, name, strings.Join(e, ", "))
		},
	},
	{
		name: "return-results", comma: true, holeKind: "expression",
		elem: func(s byte) string {
			switch s {
			case '1':
				return "hvx"
			case '2':
				return "hvy"
			case 'M':
				return "mkq"
			}
			return string(s) + "q"
		},
		pattern: func(me, pe []string) ([]string, []string) {
			ret := func(e []string) []string {
				if len(e) == 0 {
					return []string{"return"}
				}
				l := commaLines(e)
				last := l[len(l)-1]
				l[len(l)-1] = strings.TrimSuffix(last, ",")
				l[0] = "return " + l[0]
				return l
			}
			// a marker statement makes every site recognisable
			return append([]string{"tgt()"}, ret(me)...), append([]string{"tgq()"}, ret(pe)...)
		},
		site: func(i int, e []string, rw bool) string {
			name := "tgt"
			if rw {
				name = "tgq"
			}
			r := "return"
			if len(e) > 0 {
				r += " " + strings.Join(e, ", ")
			}
			return fmt.Sprintf("func s%d() {\n\t%s()\n\t%s\n}\n", i, name, r)
		},
	},
	{
		name: "params", comma: true, holeKind: "expression",
		elem: func(s byte) string {
			switch s {
			case '1':
				return "hvx"
			case '2':
				return "hvy"
			case 'M':
				return "Mkq"
			}
			return strings.ToUpper(string(s)) + "q"
		},
		pattern: func(me, pe []string) ([]string, []string) {
			return append(append([]string{"func tgt("}, commaLines(me)...), ") {", "}"), append(append([]string{"func tgq("}, commaLines(pe)...), ") {", "}")
		},
		site: func(i int, e []string, rw bool) string {
			name := "tgt"
			if rw {
				name = "tgq"
			}
			return fmt.Sprintf("func %s(%s) {\n}\n", name, strings.Join(e, ", "))
		},
	},
	{
		name: "named-params", comma: true, holeKind: "expression",
		elem: func(s byte) string {
			switch s {
			case '1':
				return "hnx hvx"
			case '2':
				return "hny hvy"
			case 'M':
				return "pm Mkq"
			}
			return "p" + string(s) + " " + strings.ToUpper(string(s)) + "q"
		},
		pattern: func(me, pe []string) ([]string, []string) {
			return append(append([]string{"func tgt("}, commaLines(me)...), ") {", "}"), append(append([]string{"func tgq("}, commaLines(pe)...), ") {", "}")
		},
		site: func(i int, e []string, rw bool) string {
			name := "tgt"
			if rw {
				name = "tgq"
			}
			// every atom of a kind has the same parameter name, which is legal syntax
			return fmt.Sprintf("func %s(%s) {\n}\n", name, strings.Join(e, ", "))
		},
	},
	{
		name: "results", comma: true, holeKind: "expression",
		elem: func(s byte) string {
			switch s {
			case '1':
				return "hvx"
			case '2':
				return "hvy"
			case 'M':
				return "Mkq"
			}
			return strings.ToUpper(string(s)) + "q"
		},
		pattern: func(me, pe []string) ([]string, []string) {
			return append(append([]string{"func tgt() ("}, commaLines(me)...), ") {", "}"), append(append([]string{"func tgq() ("}, commaLines(pe)...), ") {", "}")
		},
		site: func(i int, e []string, rw bool) string {
			name := "tgt"
			if rw {
				name = "tgq"
			}
			return fmt.Sprintf("func %s() (%s) {\n}\n", name, strings.Join(e, ", "))
		},
	},
	{
		// The same patterns against result lists written the way gofmt
		// leaves them: no parentheses around a single unnamed result, and
		// nothing at all where a function has no result.
		name: "results-gofmt", comma: true, holeKind: "expression",
		elem: func(s byte) string {
			switch s {
			case '1':
				return "hvx"
			case '2':
				return "hvy"
			case 'M':
				return "Mkq"
			}
			return strings.ToUpper(string(s)) + "q"
		},
		pattern: func(me, pe []string) ([]string, []string) {
			return append(append([]string{"func tgt() ("}, commaLines(me)...), ") {", "}"), append(append([]string{"func tgq() ("}, commaLines(pe)...), ") {", "}")
		},
		site: func(i int, e []string, rw bool) string {
			name := "tgt"
			if rw {
				name = "tgq"
			}
			switch len(e) {
			case 0:
				return fmt.Sprintf("func %s() {\n}\n", name)
			case 1:
				return fmt.Sprintf("func %s() %s {\n}\n", name, e[0])
			}
			return fmt.Sprintf("func %s() (%s) {\n}\n", name, strings.Join(e, ", "))
		},
	},
	{
		name: "struct-fields", comma: false, holeKind: "identifier",
		elem: func(s byte) string {
			switch s {
			case '1':
				return "hvx int"
			case '2':
				return "hvy int"
			case 'M':
				return "Mkq int"
			}
			return "F" + string(s) + " int"
		},
		pattern: func(me, pe []string) ([]string, []string) {
			return append(append([]string{"type tgt struct {"}, me...), "}"), append(append([]string{"type tgq struct {"}, pe...), "}")
		},
		site: func(i int, e []string, rw bool) string {
			name := "tgt"
			if rw {
				name = "tgq"
			}
			return fmt.Sprintf("type %s struct {\n%s}\n", name, joinElems(e, false, "\t"))
		},
	},
	{
		name: "interface-methods", comma: false, holeKind: "identifier",
		elem: func(s byte) string {
			switch s {
			case '1':
				return "hvx()"
			case '2':
				return "hvy()"
			case 'M':
				return "Mkq()"
			}
			return "M" + string(s) + "()"
		},
		pattern: func(me, pe []string) ([]string, []string) {
			return append(append([]string{"type tgt interface {"}, me...), "}"), append(append([]string{"type tgq interface {"}, pe...), "}")
		},
		site: func(i int, e []string, rw bool) string {
			name := "tgt"
			if rw {
				name = "tgq"
			}
			return fmt.Sprintf("type %s interface {\n%s}\n", name, joinElems(e, false, "\t"))
		},
	},
	{
		name: "block-stmts", comma: false, holeKind: "expression",
		elem: func(s byte) string {
			switch s {
			case '1':
				return "use(hvx)"
			case '2':
				return "use(hvy)"
			case 'M':
				return "use(mkq)"
			}
			return "use(" + string(s) + "q)"
		},
		// An "if tgt {" wrapper gives the statement list explicit bounds (no
		// implicit elisions around it).
		pattern: func(me, pe []string) ([]string, []string) {
			return append(append([]string{"if tgt {"}, me...), "}"), append(append([]string{"if tgq {"}, pe...), "}")
		},
		site: func(i int, e []string, rw bool) string {
			name := "tgt"
			if rw {
				name = "tgq"
			}
			return fmt.Sprintf("func s%d() {\n\tif %s {\n%s\t}\n}\n", i, name, joinElems(e, false, "\t\t"))
		},
	},
}

func commaLines(e []string) []string {
	out := make([]string, len(e))
	for i, s := range e {
		out[i] = s + ","
	}
	return out
}

// c04Case is one (kind, pattern) pair evaluated against every list.
type c04Case struct {
	Kind    string `json:"kind"`
	Pattern string `json:"pattern"`
	MaxList int    `json:"max_list"`
	// Implicit: for block statements, match with implicit leading/trailing
	// elisions (pattern given as bare statements) instead of inside "if tgt {".
	Implicit bool `json:"implicit,omitempty"`
}

func c04KindByName(n string) *c04Kind {
	for _, k := range c04Kinds {
		if k.name == n {
			return k
		}
	}
	return nil
}

// c04Build renders the patch, the input file and the expected file.
func c04Build(cs *c04Case) (patch, input, expected string, nonTrivial, matches int) {
	kind := c04KindByName(cs.Kind)
	pat := []byte(cs.Pattern)
	lists := c04AllLists(cs.MaxList)

	var me, pe []string
	marked := false
	usesX, usesY := false, false
	for _, s := range pat {
		m := c04Sym(kind, s)
		p := m
		switch s {
		case 'x':
			usesX = true
		case 'y':
			usesY = true
		case 'a', 'b':
			if !marked {
				p = kind.elem('M')
				marked = true
			}
		}
		me = append(me, m)
		pe = append(pe, p)
	}
	var minus, plus []string
	if cs.Implicit {
		minus, plus = append([]string(nil), me...), append([]string(nil), pe...)
		// make every rewritten site recognisable even without an explicit atom
		plus = append(plus, "use(tgq)")
	} else {
		minus, plus = kind.pattern(me, pe)
	}
	spec := &ref.Spec{Holes: map[string]ref.HoleKind{}, Minus: strings.Join(minus, "\n"), Plus: strings.Join(plus, "\n")}
	if usesX {
		spec.Holes["hvx"] = ref.HoleKind(kind.holeKind)
		if kind.name == "named-params" {
			spec.Holes["hnx"] = ref.IdentHole
		}
	}
	if usesY {
		spec.Holes["hvy"] = ref.HoleKind(kind.holeKind)
		if kind.name == "named-params" {
			spec.Holes["hny"] = ref.IdentHole
		}
	}
	// Dots are written literally here: every "..." line of the minus side has
	// an identical line on the plus side, so the line diff puts them on
	// context lines, in order. Assemble works on placeholder text, so give
	// each elision its id.
	n := 0
	number := func(lines []string) []string {
		out := make([]string, len(lines))
		k := 0
		for i, l := range lines {
			if strings.HasPrefix(l, "...") {
				k++
				out[i] = strings.Replace(l, "...", fmt.Sprintf("%s%d", ref.DotsPrefix, k), 1)
			} else {
				out[i] = l
			}
		}
		if k > n {
			n = k
		}
		return out
	}
	spec.Minus = strings.Join(number(minus), "\n")
	spec.Plus = strings.Join(number(plus), "\n")
	r, err := gen.Assemble(spec, gen.RenderOpts{})
	if err != nil {
		return "", "", "", 0, 0
	}
	patch = r.Patch

	var in, ex strings.Builder
	in.WriteString("package p\n\n")
	ex.WriteString("package p\n\n")
	hasDots := strings.Contains(cs.Pattern, ".")
	for i, l := range lists {
		elems := make([]string, len(l))
		for j, s := range l {
			elems[j] = kind.elem(s)
		}
		if cs.Implicit {
			// bare statements inside a function body
			in.WriteString(fmt.Sprintf("func s%d() {\n%s}\n", i, joinElems(elems, false, "\t")))
			mpat := append(append([]byte{'.'}, pat...), '.')
			m, ok := c04Model(mpat, l)
			if !ok {
				ex.WriteString(fmt.Sprintf("func s%d() {\n%s}\n", i, joinElems(elems, false, "\t")))
				continue
			}
			matches++
			nonTrivial++
			inner := &c04Match{runs: m.runs[1 : len(m.runs)-1], bind: m.bind}
			out := c04Instantiate(pat, inner)
			var oe []string
			for _, s := range m.runs[0] {
				oe = append(oe, kind.elem(s))
			}
			for _, s := range out {
				oe = append(oe, kind.elem(s))
			}
			oe = append(oe, "use(tgq)")
			for _, s := range m.runs[len(m.runs)-1] {
				oe = append(oe, kind.elem(s))
			}
			ex.WriteString(fmt.Sprintf("func s%d() {\n%s}\n", i, joinElems(oe, false, "\t")))
			continue
		}
		in.WriteString(kind.site(i, elems, false))
		m, ok := c04Model(pat, l)
		if !ok {
			ex.WriteString(kind.site(i, elems, false))
			if hasDots && len(l) >= 2 {
				nonTrivial++ // a non-match that needs more than one candidate to be rejected
			}
			continue
		}
		matches++
		consumed := 0
		for _, r := range m.runs {
			consumed += len(r)
		}
		if hasDots && consumed > 0 {
			nonTrivial++
		}
		out := c04Instantiate(pat, m)
		oe := make([]string, len(out))
		for j, s := range out {
			oe[j] = kind.elem(s)
		}
		ex.WriteString(kind.site(i, oe, true))
	}
	return patch, in.String(), ex.String(), nonTrivial, matches
}

func evalC04(cs *c04Case) (sig, msg string, nonTrivial, matches int) {
	patch, input, expected, nt, mt := c04Build(cs)
	if patch == "" {
		return "", "", 0, 0
	}
	r := run.API("p.patch", []byte(patch), "in.go", []byte(input))
	switch {
	case r.Failed():
		return "", "foreign:C08 " + trunc(r.Panic, 300), nt, mt
	case r.ParseErr != "":
		// Every pattern of this fixed family is well-formed patch syntax; a
		// rejection means its lists cannot be matched at all.
		return "rejected:" + cs.Kind, fmt.Sprintf("gopatch rejects the pattern %q of kind %s: %s\npatch:\n%s", cs.Pattern, cs.Kind, r.ParseErr, patch), nt, mt
	case r.ApplyErr != "":
		return "apply-error:" + cs.Kind, fmt.Sprintf("Apply fails for pattern %q of kind %s: %s\npatch:\n%s", cs.Pattern, cs.Kind, r.ApplyErr, patch), nt, mt
	}
	want, err := parseTree([]byte(expected))
	if err != nil {
		return "", "harness: expected file does not parse: " + err.Error(), 0, 0
	}
	got, err := parseTree(r.Out)
	if err != nil {
		return "", "foreign:C07 output does not parse", nt, mt
	}
	d := ref.FirstDifference(want, got, ref.Output)
	if d == nil {
		return "", "", nt, mt
	}
	// which site?
	site := -1
	for i, p := range d.Path {
		if (p == "File.Decls") && i+1 < len(d.Path) {
			fmt.Sscanf(d.Path[i+1], "[%d]", &site)
			break
		}
	}
	lists := c04AllLists(cs.MaxList)
	listDesc := "?"
	if site >= 0 && site < len(lists) {
		listDesc = string(lists[site])
	}
	class := "wrong-output"
	mpat := []byte(cs.Pattern)
	if cs.Implicit {
		mpat = append(append([]byte{'.'}, mpat...), '.')
	}
	if site >= 0 && site < len(lists) {
		if _, ok := c04Model(mpat, lists[site]); !ok {
			class = "matched-but-should-not"
		} else if d.Got != nil && !ref.ContainsIdentPrefix(got.Field("Decls").Kids[site], "tgq") {
			class = "should-match-but-did-not"
		}
	}
	return class + ":" + cs.Kind, fmt.Sprintf("kind %s, pattern %q (a,b atoms; x,y metavariables; . elision), list %q: %s\n%s\npatch:\n%s", cs.Kind, cs.Pattern, listDesc, class, d.String(), patch), nt, mt
}

func TestC04(t *testing.T) {
	c := coll("C04")
	k, n := shard()
	maxPat := envInt("VERIF_C04_MAXPAT", 4)
	maxPatArgs := envInt("VERIF_C04_MAXPAT_ARGS", 5)
	maxList := envInt("VERIF_C04_MAXLIST", 5)
	kinds := strings.Split(envStr("VERIF_C04_KINDS", "call-args,block-stmts,block-stmts/implicit,struct-fields,results-gofmt"), ",")
	if thorough() {
		kinds = nil
		for _, kd := range c04Kinds {
			kinds = append(kinds, kd.name)
		}
		kinds = append(kinds, "block-stmts/implicit")
	}
	idx := 0
	failed := false
	for _, kn := range kinds {
		implicit := false
		if strings.HasSuffix(kn, "/implicit") {
			implicit = true
			kn = strings.TrimSuffix(kn, "/implicit")
		}
		mp := maxPat
		if kn == "call-args" {
			mp = maxPatArgs
		}
		for _, pat := range c04AllPatterns(mp, 3) {
			idx++
			if idx%n != k {
				continue
			}
			if implicit && len(pat) == 0 {
				continue
			}
			if implicit && (pat[0] == '.' || pat[len(pat)-1] == '.') {
				continue // an explicit elision next to the implicit one: runs are not determined
			}
			cs := &c04Case{Kind: kn, Pattern: string(pat), MaxList: maxList, Implicit: implicit}
			sig, msg, nt, mt := evalC04(cs)
			classes := []string{"kind:" + kn, fmt.Sprintf("dots:%d", strings.Count(cs.Pattern, "."))}
			if implicit {
				classes = append(classes, "implicit")
			}
			c.Case(evid.Hash(cs.Kind, cs.Pattern, fmt.Sprint(implicit)), nt > 0, classes...)
			c.ClassN("list-pairs", len(c04AllLists(maxList)))
			c.ClassN("list-pairs-nontrivial", nt)
			c.ClassN("list-pairs-matching", mt)
			if sig == "" && msg != "" {
				c.Note(strings.SplitN(msg, " ", 2)[0])
			}
			if c.WantSample() && nt > 0 {
				p, _, _, _, _ := c04Build(cs)
				c.Sample(map[string]any{"kind": kn, "pattern": cs.Pattern, "implicit": implicit, "lists": len(c04AllLists(maxList)), "matching": mt, "patch": p})
			}
			if sig != "" {
				if !isKnown("C04", sig) {
					failed = true
				}
				func() {
					defer func() { recover() }()
					violate(softFataler{t}, "C04", sig, msg, cs)
				}()
				if failed {
					break
				}
			}
		}
		if failed {
			break
		}
	}
	if failed {
		t.Fail()
		return
	}
	// Part (b): elision-heavy mined patterns.
	c04b.run(t)
	if t.Failed() {
		return
	}
	// Parts (c) and (d): elisions on mixed lines; long lists.
	c04xRun(t)
}

// softFataler records the failure without stopping the goroutine abruptly.
type softFataler struct{ t *testing.T }

func (s softFataler) Fatalf(format string, args ...any) { s.t.Errorf(format, args...) }

func envStr(name, def string) string {
	if v := os.Getenv(name); v != "" {
		return v
	}
	return def
}

var c04b = &modelCheck{
	Prop:         "C04",
	NestedChoice: 20,
	Opts: modelOpts{
		Mine:         gen.MineOpts{MaxHoles: 2, MaxDots: 3, DotsBias: true},
		MaxHostLines: 200,
		MinPlants:    1, MaxPlants: 4,
		MinMutants: 0, MaxMutants: 3,
		AllMinusThenPlus: true,
	},
	NonTrivial: func(cs *modelCase, v *verdict) bool { return v.MinusDots >= 1 && v.Sites >= 1 && v.Elided >= 1 },
}

func TestReplayC04(t *testing.T) {
	// Two case shapes: the enumeration's (kind, pattern) and the model case.
	var probe struct {
		Kind    string `json:"kind"`
		Pattern any    `json:"pattern"`
		Patch   string `json:"patch"`
		Mode    string `json:"mode"`
	}
	if !loadReplay(t, "C04", &probe) {
		return
	}
	if probe.Mode != "" {
		var xc c04xCase
		loadReplay(t, "C04", &xc)
		if sig, msg, _, _ := evalC04x(&xc); sig != "" {
			violate(t, "C04", sig, msg, &xc)
		}
		return
	}
	if probe.Patch != "" {
		c04b.replay(t)
		return
	}
	var cs c04Case
	loadReplay(t, "C04", &cs)
	sig, msg, _, _ := evalC04(&cs)
	if sig != "" {
		violate(t, "C04", sig, msg, &cs)
	}
}
