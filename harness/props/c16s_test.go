package props

import (
	"bytes"
	"fmt"
	"os"
	"os/exec"
	"path/filepath"
	"syscall"
	"time"

	"github.com/uber-go/gopatch/verif/evid"
	"github.com/uber-go/gopatch/verif/run"
	"pgregory.net/rapid"
)

// C16, mode "signal": a run over many files is interrupted by SIGINT, SIGTERM
// or SIGHUP once the file at a drawn position has been rewritten. The run was
// cut short: every file holds its original or its complete patched bytes, and
// an exit status of 0 is possible only if every file was patched (the signal
// came too late to stop anything).

type c16SignalSpec struct {
	Signal string `json:"signal"` // INT | TERM | HUP
	Files  int    `json:"files"`
	After  int    `json:"after"` // the signal is sent once file number After (in path order) has changed
	Pad    int    `json:"pad"`
}

func c16GenSignal(rt *rapid.T) *c16Case {
	sp := &c16SignalSpec{
		Signal: rapid.SampledFrom([]string{"INT", "TERM", "HUP"}).Draw(rt, "signal"),
		Files:  rapid.IntRange(200, 600).Draw(rt, "files"),
		Pad:    rapid.IntRange(5, 40).Draw(rt, "pad"),
	}
	sp.After = rapid.IntRange(0, sp.Files/4).Draw(rt, "after")
	return &c16Case{Mode: "signal", Signal: sp}
}

func c16SignalName(i int) string { return fmt.Sprintf("f%04d.go", i) }

// c16EvalSignal returns a finding signature and message ("" if none), and
// how the run ended.
func c16EvalSignal(cs *c16Case) (sig, msg, ending string, patched int) {
	sp := cs.Signal
	dir, cleanup := run.TempDir("c16s-")
	defer cleanup()
	tree := filepath.Join(dir, "tree")
	refTree := filepath.Join(dir, "ref")
	_ = os.MkdirAll(tree, 0o755)
	_ = os.MkdirAll(refTree, 0o755)
	orig := make([]string, sp.Files)
	for i := range orig {
		orig[i] = c16Src(i, []string{"cnt(0)", fmt.Sprintf("cnt(%d)", i)}, sp.Pad)
		for _, d := range []string{tree, refTree} {
			if err := os.WriteFile(filepath.Join(d, c16SignalName(i)), []byte(orig[i]), 0o644); err != nil {
				return "", "", "setup:" + err.Error(), 0
			}
		}
	}
	pp := filepath.Join(dir, "cnt.patch")
	_ = os.WriteFile(pp, []byte(c16CntPatch), 0o644)
	// undisturbed run: defines the patched bytes
	if r := run.CLI(dir, nil, "-p", pp, "ref"); r.Exit != 0 || r.TimedOut {
		return "", "", "setup:reference run failed: " + trunc(string(r.Stderr), 300), 0
	}
	want := make([]string, sp.Files)
	for i := range want {
		b, err := os.ReadFile(filepath.Join(refTree, c16SignalName(i)))
		if err != nil || string(b) == orig[i] {
			return "", "", "setup:reference run did not patch " + c16SignalName(i), 0
		}
		want[i] = string(b)
	}
	cmd := exec.Command(run.Bin(), "-p", pp, "tree")
	cmd.Dir = dir
	var se bytes.Buffer
	cmd.Stderr = &se
	cmd.Env = append(os.Environ(), "GOTRACEBACK=none")
	if err := cmd.Start(); err != nil {
		return "", "", "setup:" + err.Error(), 0
	}
	done := make(chan error, 1)
	go func() { done <- cmd.Wait() }()
	watch := filepath.Join(tree, c16SignalName(sp.After))
	var werr error
	exited := false
	deadline := time.Now().Add(60 * time.Second)
poll:
	for time.Now().Before(deadline) {
		select {
		case werr = <-done:
			exited = true
			break poll
		default:
		}
		if b, err := os.ReadFile(watch); err == nil && string(b) != orig[sp.After] {
			break
		}
		time.Sleep(200 * time.Microsecond)
	}
	if !exited {
		sigs := map[string]syscall.Signal{"INT": syscall.SIGINT, "TERM": syscall.SIGTERM, "HUP": syscall.SIGHUP}
		_ = cmd.Process.Signal(sigs[sp.Signal])
		select {
		case werr = <-done:
		case <-time.After(60 * time.Second):
			_ = cmd.Process.Kill()
			<-done
			return "", "", "foreign:C08 no exit within 60 s of the signal", 0
		}
	}
	exit, signaled := 0, false
	if ee, ok := werr.(*exec.ExitError); ok {
		exit = ee.ExitCode()
		if ws, ok := ee.Sys().(syscall.WaitStatus); ok && ws.Signaled() {
			signaled = true
		}
	} else if werr != nil {
		return "", "", "setup:" + werr.Error(), 0
	}
	firstOrig := -1
	for i := range orig {
		b, err := os.ReadFile(filepath.Join(tree, c16SignalName(i)))
		switch {
		case err != nil:
			return "file-lost:after-signal", fmt.Sprintf("%s cannot be read after a run interrupted by SIG%s: %v", c16SignalName(i), sp.Signal, err), "", patched
		case string(b) == want[i]:
			patched++
		case string(b) == orig[i]:
			if firstOrig < 0 {
				firstOrig = i
			}
		default:
			return "mixed-state:after-signal", fmt.Sprintf("%s holds neither its original nor its patched bytes after a run interrupted by SIG%s (%d bytes; original %d, patched %d)", c16SignalName(i), sp.Signal, len(b), len(orig[i]), len(want[i])), "", patched
		}
	}
	switch {
	case signaled:
		ending = "killed-by-the-signal"
	case exit != 0:
		ending = "exit-nonzero"
	case exited:
		ending = "finished-before-the-signal"
	default:
		ending = "exit-0-after-the-signal"
	}
	if !signaled && exit == 0 && patched < sp.Files {
		return "exit-0-with-unprocessed-files:after-signal", fmt.Sprintf("SIG%s was sent after %s had been rewritten; gopatch exited with status 0 although %d of %d files were not patched (first: %s); stderr: %q",
			sp.Signal, c16SignalName(sp.After), sp.Files-patched, sp.Files, c16SignalName(firstOrig), trunc(se.String(), 300)), ending, patched
	}
	return "", "", ending, patched
}

func c16RunSignal(ft fataler, c *evid.Collector, cs *c16Case) {
	sig, msg, ending, patched := c16EvalSignal(cs)
	if len(ending) > 6 && (ending[:6] == "setup:") {
		ft.Fatalf("harness problem: %s", ending)
	}
	if len(ending) > 8 && ending[:8] == "foreign:" {
		c.Foreign(ending)
		return
	}
	sp := cs.Signal
	nontriv := patched > 0 && patched < sp.Files
	classes := []string{"part:generated", "mode:signal", "signal:" + sp.Signal, "ending:" + ending, fmt.Sprintf("interrupted-midway:%v", nontriv)}
	if nontriv {
		classes = append(classes, "nontrivial")
	}
	c.Case(evid.Hash(fmt.Sprint(*sp)), nontriv, classes...)
	if nontriv && c.WantSample() {
		c.Sample(map[string]any{"mode": "signal", "signal": sp.Signal, "files": sp.Files, "sent_after_file": sp.After, "patched": patched, "ending": ending})
	}
	if sig != "" {
		violate(ft, "C16", sig, msg, cs)
	}
}
