//go:build race

package props

// c14RaceEnabled reports whether the test binary was built with -race (the
// C14 entry of cmd/vcheck/props.go asks the driver for that).
const c14RaceEnabled = true
