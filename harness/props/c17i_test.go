package props

import (
	"fmt"
	"go/format"
	"os"
	"path/filepath"
	"strings"

	"github.com/uber-go/gopatch/verif/evid"
	"github.com/uber-go/gopatch/verif/run"
	"pgregory.net/rapid"
)

// C17, import section: comments on and around the package clause and the
// import declarations, with a patch that deletes, replaces or adds one
// import (or none). Every comment carries a unique token, and the builder
// knows what each is attached to, so the oracle needs no comment analysis of
// its own on the input side.

type c17iComment struct {
	Tok  string `json:"tok"`
	Kind string `json:"kind"`           // header | pkg-doc | pkg-trailing | free | cgo-preamble | decl-doc | spec-doc | spec-trailing | func-doc | func-inner
	Path string `json:"path,omitempty"` // import path the comment is attached to
	Decl int    `json:"decl,omitempty"` // 1-based number of the import declaration it stands in or on
}

type c17iCase struct {
	Mode       string        `json:"mode"` // "import-section"
	Patch      string        `json:"patch"`
	File       string        `json:"file"`
	Comments   []c17iComment `json:"comments"`
	Target     string        `json:"target,omitempty"` // path of the import the patch removes
	Op         string        `json:"op"`
	TargetDecl int           `json:"target_decl,omitempty"` // the import declaration the removed import stands in
	ViaCLI     bool          `json:"via_cli,omitempty"`     // run through the command line with --skip-import-processing
	TightDoc   bool          `json:"tight_doc,omitempty"`   // the doc comment of f stands directly below the package clause (no blank line)
	TightBelow bool          `json:"tight_below,omitempty"` // the comment below the package clause stands directly below it although gofmt would put a blank line there

	// build constraint lines, put in front of the file after it went
	// through gofmt (which would rewrite them)
	buildLines string
}

func c17iDraw(rt *rapid.T) *c17iCase {
	cs := &c17iCase{Mode: "import-section"}
	n := 0
	curDecl := 0
	declOf := map[string]int{}
	tok := func(kind, path string) string {
		n++
		t := fmt.Sprintf("c17_i%d", n)
		cs.Comments = append(cs.Comments, c17iComment{Tok: t, Kind: kind, Path: path, Decl: curDecl})
		return t
	}
	maybe := func(label string) bool { return rapid.IntRange(0, 2).Draw(rt, label) > 0 }
	// One case in twelve is about the first declaration of a file without
	// imports: comments tied to the package clause, with and without a blank
	// line, in front of a function that two changes first rewrite and then
	// replace.
	sc := rapid.IntRange(0, 11).Draw(rt, "firstDeclarationScenario") == 0
	var b strings.Builder
	// build constraints: old style only, new style only, both, both but
	// disagreeing
	switch rapid.IntRange(0, 11).Draw(rt, "buildTag") {
	case 0:
		cs.buildLines = "// +build linux\n\n"
		cs.Comments = append(cs.Comments, c17iComment{Tok: "+build linux", Kind: "build-tag"})
	case 1:
		cs.buildLines = "//go:build linux\n\n"
		cs.Comments = append(cs.Comments, c17iComment{Tok: "go:build linux", Kind: "build-tag"})
	case 2:
		cs.buildLines = "//go:build linux\n// +build linux\n\n"
		cs.Comments = append(cs.Comments, c17iComment{Tok: "go:build linux", Kind: "build-tag"}, c17iComment{Tok: "+build linux", Kind: "build-tag"})
	case 3:
		cs.buildLines = "//go:build linux\n// +build !linux\n\n"
		cs.Comments = append(cs.Comments, c17iComment{Tok: "go:build linux", Kind: "build-tag"}, c17iComment{Tok: "+build !linux", Kind: "build-tag"})
	}
	if maybe("header") {
		fmt.Fprintf(&b, "// Copyright someone. %s\n\n", tok("header", ""))
	}
	if maybe("pkgdoc") {
		fmt.Fprintf(&b, "// Package subject is a C17 subject. %s\n", tok("pkg-doc", ""))
	}
	b.WriteString("package subject")
	if (!sc && maybe("pkgtrail")) || (sc && rapid.IntRange(0, 2).Draw(rt, "scTrail") == 0) {
		fmt.Fprintf(&b, " // %s", tok("pkg-trailing", ""))
	}
	b.WriteString("\n")
	if (!sc && rapid.IntRange(0, 3).Draw(rt, "pkgBelow") == 0) || (sc && rapid.IntRange(0, 3).Draw(rt, "scBelow") > 0) {
		// a second comment tied to the package clause: on the line below it
		b.WriteString(rapid.SampledFrom([]string{"//go:generate stringer -type=Kind ", "// see the package documentation "}).Draw(rt, "pkgBelowText") + tok("pkg-below", "") + "\n")
	}
	b.WriteString("\n")
	if !sc && rapid.IntRange(0, 3).Draw(rt, "free1") == 0 {
		fmt.Fprintf(&b, "// free-standing after the package clause %s\n\n", tok("free", ""))
	}
	if !sc && rapid.IntRange(0, 5).Draw(rt, "cgo") == 0 {
		fmt.Fprintf(&b, "// #include <stdlib.h> %s\nimport \"C\"\n\n", tok("cgo-preamble", "C"))
	}
	// import declarations
	type spec struct{ name, path string }
	// sorted by path, so that gofmt's sorting of a block leaves the specs
	// (and the comments this builder attaches to them) where they are
	pool := []spec{{"", "alpha/aa"}, {"", "beta/bb"}, {"dd", "delta/dd"}, {"", "eps/ee"}, {"", "gamma/cc"}, {"_", "omega/ff"}, {".", "psi/gg"}}
	first := rapid.IntRange(0, len(pool)-1).Draw(rt, "first")
	nSpecs := rapid.IntRange(1, min(5, len(pool)-first)).Draw(rt, "nSpecs")
	if sc || rapid.IntRange(0, 7).Draw(rt, "noImports") == 0 {
		nSpecs = 0 // a file without imports: the patch adds the first one
	}
	specs := pool[first : first+nSpecs]
	render := func(s spec) string {
		if s.name != "" {
			return s.name + " \"" + s.path + "\""
		}
		return "\"" + s.path + "\""
	}
	for i := 0; i < len(specs); {
		curDecl++
		size := 1
		if rapid.Bool().Draw(rt, fmt.Sprintf("block%d", i)) {
			size = rapid.IntRange(1, len(specs)-i).Draw(rt, fmt.Sprintf("blockSize%d", i))
			if maybe(fmt.Sprintf("declDoc%d", i)) {
				fmt.Fprintf(&b, "// doc of an import block %s\n", tok("decl-doc", specs[i].path))
			}
			b.WriteString("import (\n")
			for j := i; j < i+size; j++ {
				if rapid.IntRange(0, 3).Draw(rt, fmt.Sprintf("specDoc%d", j)) == 0 {
					fmt.Fprintf(&b, "\t// about %s %s\n", specs[j].path, tok("spec-doc", specs[j].path))
				}
				b.WriteString("\t" + render(specs[j]))
				if maybe(fmt.Sprintf("specTrail%d", j)) {
					fmt.Fprintf(&b, " // %s", tok("spec-trailing", specs[j].path))
				}
				b.WriteString("\n")
				if j+1 < i+size && rapid.IntRange(0, 4).Draw(rt, fmt.Sprintf("groupGap%d", j)) == 0 {
					b.WriteString("\n")
				}
			}
			b.WriteString(")\n\n")
		} else {
			if rapid.IntRange(0, 2).Draw(rt, fmt.Sprintf("specDoc%d", i)) == 0 {
				fmt.Fprintf(&b, "// about %s %s\n", specs[i].path, tok("spec-doc", specs[i].path))
			}
			b.WriteString("import " + render(specs[i]))
			if maybe(fmt.Sprintf("specTrail%d", i)) {
				fmt.Fprintf(&b, " // %s", tok("spec-trailing", specs[i].path))
			}
			b.WriteString("\n")
			if rapid.IntRange(0, 2).Draw(rt, fmt.Sprintf("tight%d", i)) > 0 {
				b.WriteString("\n")
			}
		}
		for j := i; j < i+size && j < len(specs); j++ {
			declOf[specs[j].path] = curDecl
		}
		i += size
	}
	curDecl = 0
	b.WriteString("\n")
	if !sc && rapid.IntRange(0, 2).Draw(rt, "free2") == 0 {
		fmt.Fprintf(&b, "// free-standing after the imports %s\n\n", tok("free", "before-f"))
	}
	if (!sc && rapid.IntRange(0, 3).Draw(rt, "fDoc") > 0) || (sc && rapid.Bool().Draw(rt, "scDoc")) {
		fmt.Fprintf(&b, "// f is documented. %s\n", tok("func-doc", "f"))
	}
	fmt.Fprintf(&b, "func f() {\n\tfoo() // %s\n\tkeep()\n}\n\n", tok("func-inner", "f"))
	fmt.Fprintf(&b, "// g is not touched. %s\nfunc g() {\n\tkeep() // %s\n}\n", tok("func-doc", ""), tok("func-inner", ""))
	cs.File = b.String()

	var tg spec
	op := rapid.IntRange(0, 6).Draw(rt, "op")
	if sc && rapid.IntRange(0, 2).Draw(rt, "scPlainAdd") == 0 {
		// one change that adds the first import; with the doc comment of f
		// directly below the package clause (see c17iRun)
		cs.Op = "add-import"
		cs.Patch = "@@\n@@\n+import \"newer/path\"\n\n-foo()\n+path.Foo()\n"
		cs.TightDoc = true
		return cs
	}
	if len(specs) == 0 && !strings.Contains(cs.File, "import \"C\"") && (sc || rapid.Bool().Draw(rt, "renameThenReplace")) {
		// No imports: f is the first declaration. Two changes: the package
		// is renamed (and f rewritten inside), then f is replaced by a
		// declaration of another kind. The comments of the package clause
		// stay what and where they are.
		cs.Op = "rename-package-then-replace-first-declaration"
		cs.Patch = "@@\n@@\n-package subject\n+package subject2\n\n-foo()\n+bar()\n\n@@\n@@\n-func f() {\n-  ...\n-}\n+var f = 1\n"
		if rapid.Bool().Draw(rt, "addFirstImportInstead") {
			// the first change adds the file's first import instead
			cs.Op = "add-first-import-then-replace-first-declaration"
			cs.Patch = "@@\n@@\n+import \"newer/path\"\n\n-foo()\n+path.Foo()\n\n@@\n@@\n-func f() {\n-  ...\n-}\n+var f = 1\n"
		}
		return cs
	}
	if len(specs) > 0 {
		tg = specs[rapid.IntRange(0, len(specs)-1).Draw(rt, "target")]
	} else if op <= 2 || op == 6 {
		op = 3 + op%2 // nothing to delete or replace: add
	}
	switch op {
	case 6:
		// two changes: code first, then an import is deleted (with a single
		// import that is the file's first declaration)
		cs.Op, cs.Target, cs.TargetDecl = "delete-import-after-code-change", tg.path, declOf[tg.path]
		cs.Patch = "@@\n@@\n-foo()\n+bar()\n\n@@\n@@\n-import " + render(tg) + "\n\n keep()\n"
	case 0, 1:
		cs.Op, cs.Target = "delete-import", tg.path
		cs.Patch = "@@\n@@\n-import " + render(tg) + "\n\n foo()\n"
	case 2:
		cs.Op, cs.Target = "replace-import", tg.path
		cs.Patch = "@@\n@@\n-import " + render(tg) + "\n+import \"newer/path\"\n\n foo()\n"
	case 3:
		cs.Op = "add-import"
		cs.Patch = "@@\n@@\n+import \"newer/path\"\n\n-foo()\n+path.Foo()\n"
	case 4:
		cs.Op = "add-named-import"
		cs.Patch = "@@\n@@\n+import np \"newer/path\"\n\n-foo()\n+np.Foo()\n"
	default:
		cs.Op = "no-import-change"
		cs.Patch = "@@\n@@\n-foo()\n+bar()\n"
	}
	return cs
}

func evalC17i(cs *c17iCase) (found []c17iFinding, judged bool) {
	if cs.ViaCLI {
		// the command line with --skip-import-processing: the other way a
		// rewritten file is turned into text
		dir, cleanup := run.TempDir("c17i-")
		defer cleanup()
		_ = os.WriteFile(filepath.Join(dir, "p.patch"), []byte(cs.Patch), 0o644)
		_ = os.WriteFile(filepath.Join(dir, "f.go"), []byte(cs.File), 0o644)
		rc := run.CLI(dir, nil, "-p", "p.patch", "--print-only", "--skip-import-processing", "f.go")
		out := string(rc.Stdout)
		if rc.Exit != 0 || rc.StartErr != "" || rc.TimedOut || out == cs.File || !c14Parses(out) {
			return nil, false
		}
		found = c17iJudge(cs, out)
		for i := range found {
			if !strings.HasPrefix(found[i].Sig, "build-constraint:") {
				found[i].Sig += ":" + cs.Op + ":skip-import-processing"
			}
		}
		return found, true
	}
	r := run.API("p.patch", []byte(cs.Patch), "f.go", []byte(cs.File))
	if !r.OK() || string(r.Out) == cs.File {
		return nil, false
	}
	if !c14Parses(string(r.Out)) {
		return nil, false // C07's
	}
	found = c17iJudge(cs, string(r.Out))
	if len(found) == 0 {
		return found, true
	}
	// Narrower cause: the same run without the import processing step
	// (golang.org/x/tools/imports, which merges all import declarations of a
	// file into the first one) does not show the same thing.
	dir, cleanup := run.TempDir("c17i-")
	defer cleanup()
	_ = os.WriteFile(filepath.Join(dir, "p.patch"), []byte(cs.Patch), 0o644)
	_ = os.WriteFile(filepath.Join(dir, "f.go"), []byte(cs.File), 0o644)
	rc := run.CLI(dir, nil, "-p", "p.patch", "--print-only", "--skip-import-processing", "f.go")
	without := map[string]bool{}
	rerun := rc.Exit == 0 && rc.StartErr == "" && !rc.TimedOut && c14Parses(string(rc.Stdout))
	if rerun {
		for _, f := range c17iJudge(cs, string(rc.Stdout)) {
			without[f.Sig] = true
		}
	}
	for i := range found {
		f := &found[i]
		if strings.HasPrefix(f.Sig, "build-constraint:") {
			continue
		}
		base := f.Sig
		f.Sig += ":" + cs.Op
		if rerun && !without[base] {
			f.Sig += ":only-with-import-processing"
			f.Msg = "(with --skip-import-processing this does not happen)\n" + f.Msg
		}
	}
	return found, true
}

type c17iFinding struct{ Sig, Msg string }

// c17iJudge returns everything there is to object to in out, at most one
// finding per signature.
func c17iJudge(cs *c17iCase, out string) (found []c17iFinding) {
	have := map[string]bool{}
	add := func(sig, msg string) {
		if !have[sig] {
			have[sig] = true
			found = append(found, c17iFinding{sig, msg})
		}
	}
	lines := strings.Split(out, "\n")
	show := func() string {
		return fmt.Sprintf("patch:\n%s\n--- input ---\n%s\n--- output ---\n%s", cs.Patch, cs.File, out)
	}
	lineOf := func(needle string) int {
		for i, l := range lines {
			if strings.Contains(l, needle) {
				return i
			}
		}
		return -1
	}
	// the code line a comment line leads to: the first following line that is
	// neither blank nor a comment
	nextCode := func(i int) string {
		for j := i + 1; j < len(lines); j++ {
			t := strings.TrimSpace(lines[j])
			if t == "" {
				return "" // a blank line detaches a doc comment
			}
			if strings.HasPrefix(t, "//") {
				continue
			}
			return t
		}
		return ""
	}
	for _, c := range cs.Comments {
		k := strings.Count(out, c.Tok+"\n") + strings.Count(out, c.Tok+" ")
		ofTarget := cs.Target != "" && c.Path == cs.Target
		if strings.HasSuffix(cs.Op, "-then-replace-first-declaration") && (c.Path == "f" || c.Kind == "free") {
			// f is replaced; a free-standing comment in front of it is not
			// tied to the package clause
			ofTarget = true
		}
		if cs.Op == "delete-import-after-code-change" && (c.Path == "f" || c.Path == "before-f" || (c.Decl != 0 && c.Decl == cs.TargetDecl)) {
			// f is rewritten by the first change: its comments, and the
			// free-standing one between it and the deleted import, do not
			// belong to an untouched declaration
			ofTarget = true
		}
		if k > 1 {
			add("import-section:duplicated:"+c.Kind, fmt.Sprintf("the %s comment %s occurs %d times in the output\n%s", c.Kind, c.Tok, k, show()))
			continue
		}
		if k == 0 && c.Kind == "build-tag" {
			add("build-constraint:rewritten-by-printer", fmt.Sprintf("the build constraint line %q is not in the output\n%s", c.Tok, show()))
			continue
		}
		if k == 0 {
			if ofTarget && c.Kind != "decl-doc" {
				continue // a comment of the import that the patch removes
			}
			if ofTarget && c.Kind == "decl-doc" {
				continue // the declaration may have gone with its only import
			}
			add("import-section:lost:"+c.Kind, fmt.Sprintf("the %s comment %s (attached to %q) is not in the output; the patch (%s %q) does not touch what it belongs to\n%s", c.Kind, c.Tok, c.Path, cs.Op, cs.Target, show()))
			continue
		}
		if ofTarget {
			continue
		}
		i := lineOf(c.Tok)
		l := strings.TrimSpace(lines[i])
		detached := func(why string) {
			add("import-section:detached:"+c.Kind, fmt.Sprintf("the %s comment %s (attached to %q) is now %s: line %q\n%s", c.Kind, c.Tok, c.Path, why, lines[i], show()))
		}
		switch c.Kind {
		case "func-doc", "spec-doc", "decl-doc", "pkg-doc", "header", "cgo-preamble":
			// a comment that stood on lines of its own does not end up
			// behind code
			if !strings.HasPrefix(l, "//") {
				detached("at the end of a line of code")
				continue
			}
		}
		switch c.Kind {
		case "pkg-trailing":
			if !strings.HasPrefix(l, "package subject") {
				detached("not on the line of the package clause")
			}
		case "pkg-below":
			// (gofmt may already have put a blank line above it in the input)
			inLines := strings.Split(cs.File, "\n")
			wasBelow := false
			for j, l := range inLines {
				if strings.Contains(l, c.Tok) && j > 0 && strings.HasPrefix(strings.TrimSpace(inLines[j-1]), "package subject") {
					wasBelow = true
				}
			}
			if wasBelow && !cs.TightBelow && (i == 0 || !strings.HasPrefix(strings.TrimSpace(lines[i-1]), "package subject")) {
				detached("not on the line below the package clause")
			}
		case "pkg-doc":
			if nc := nextCode(i); nc != "package subject" && nc != "package subject2" && !strings.HasPrefix(nc, "package subject ") && !strings.HasPrefix(nc, "package subject2 ") {
				detached("not directly above the package clause")
			}
		case "header":
			if i > lineOf("package subject") {
				detached("below the package clause")
			}
		case "spec-trailing":
			if !strings.Contains(l, "\""+c.Path+"\"") {
				detached("not on the line of its import")
			}
		case "spec-doc":
			// directly above its import, or above the declaration that
			// holds it
			nc := nextCode(i)
			ok := strings.Contains(nc, "\""+c.Path+"\"")
			if !ok && nc == "import (" {
				for j := i + 1; j < len(lines) && strings.TrimSpace(lines[j]) != ")"; j++ {
					if strings.Contains(lines[j], "\""+c.Path+"\"") {
						ok = true
					}
				}
			}
			if !ok {
				detached("neither directly above its import nor above the declaration that holds it")
			}
		case "cgo-preamble":
			if nc := nextCode(i); nc != "import \"C\"" && !(strings.HasPrefix(nc, "import \"C\" ") && strings.HasPrefix(strings.TrimSpace(strings.TrimPrefix(nc, "import \"C\"")), "//")) {
				detached("not directly above import \"C\" (it is the cgo preamble)")
			}
		case "func-doc":
			if !strings.HasPrefix(nextCode(i), "func ") {
				detached("not directly above its function")
			}
		case "func-inner":
			if !strings.HasPrefix(lines[i], "\t") || strings.HasPrefix(l, "//") {
				detached("not at the end of its statement")
			}
		case "free":
			if strings.HasPrefix(lines[i], "\t") && !strings.HasPrefix(l, "//") {
				detached("trailing some code")
			}
		}
	}
	// nothing invented: every comment of the output carries a token of the input
	for i, l := range lines {
		if j := strings.Index(l, "//"); j >= 0 && !strings.Contains(l[:j], "\"") {
			known := false
			for _, c := range cs.Comments {
				if strings.Contains(l[j:], c.Tok) {
					known = true
				}
			}
			if !known && (strings.HasPrefix(l, "//go:build ") || strings.HasPrefix(l, "// +build ")) {
				add("build-constraint:invented-by-printer", fmt.Sprintf("output line %d holds a build constraint line that the input does not: %q\n%s", i+1, l, show()))
				continue
			}
			if !known {
				add("import-section:invented", fmt.Sprintf("output line %d holds a comment that the input does not: %q\n%s", i+1, l, show()))
				continue
			}
		}
	}
	return found
}

func c17iRun(rt *rapid.T) {
	c := coll("C17")
	cs := c17iDraw(rt)
	fm, err := format.Source([]byte(cs.File))
	if err != nil {
		c.Note("generator:import-section-host-unparseable")
		return
	}
	if fm2, err := format.Source(fm); err != nil || string(fm2) != string(fm) {
		c.Note("generator:gofmt-not-idempotent")
		return
	}
	cs.File = cs.buildLines + string(fm)
	// gofmt puts a blank line between the package clause and a comment
	// below it. Files are written without it, too ("package p" directly
	// followed by a //go:generate line): in half of the cases it is taken
	// out again. Whether the comment stays on that line is then not judged
	// (printing the file puts the blank line back), that it stays is.
	if strings.Contains(cs.File, "package subject\n\n") && rapid.Bool().Draw(rt, "tightBelow") {
		for _, c := range cs.Comments {
			if c.Kind == "pkg-below" {
				cs.File = strings.Replace(cs.File, "package subject\n\n", "package subject\n", 1)
				cs.TightBelow = true
			}
		}
	}
	if cs.TightDoc {
		// (only where nothing else is tied to the package clause: a comment
		// on its line or below it would become part of f's doc comment)
		cs.File = strings.Replace(cs.File, "package subject\n\n// f is documented.", "package subject\n// f is documented.", 1)
	}
	cs.ViaCLI = rapid.IntRange(0, 3).Draw(rt, "viaCLI") == 0
	found, judged := evalC17i(cs)
	if !judged {
		c.Note("not-judged:import-section")
		return
	}
	c.Case(evid.Hash(cs.Patch, cs.File), true, "family:import-section", "import-op:"+cs.Op)
	if c.WantSample() && rapid.IntRange(0, 20).Draw(rt, "sample") == 0 {
		c.Sample(map[string]any{"family": "import-section", "patch": cs.Patch, "file": cs.File})
	}
	for _, f := range found {
		if os.Getenv("VERIF_SURVEY") != "" {
			c.Note("survey:" + f.Sig)
			if d := os.Getenv("VERIF_SURVEY_DIR"); d != "" {
				fn := filepath.Join(d, strings.ReplaceAll(f.Sig, ":", "_")+".txt")
				if _, err := os.Stat(fn); err != nil {
					_ = os.WriteFile(fn, []byte(f.Msg), 0o644)
				}
			}
			continue
		}
		violate(rt, "C17", f.Sig, f.Msg, cs)
	}
}
