package props

import (
	"bytes"
	"fmt"
	"os"
	"path/filepath"
	"regexp"
	"sort"
	"strings"
	"testing"
	"unicode/utf8"

	"github.com/uber-go/gopatch/verif/corpus"
	"github.com/uber-go/gopatch/verif/evid"
	"github.com/uber-go/gopatch/verif/run"
	"pgregory.net/rapid"
)

// C19 — header and metavariable diagnostics point at the offending token.
//
// Two kinds of cases:
//
//	headmeta: an otherwise valid patch of 1-4 changes into which exactly one
//	          header or metavariable-section fault was injected. The generator
//	          knows the line and byte column of the offending token. Judged
//	          through patch.Parse (always) and through the CLI (a sample).
//	reject:   some other broken patch (body syntax errors, truncation, token
//	          mutations of repository patches). Only judged through the CLI,
//	          and only for "the diagnostic names the patch file; nothing is
//	          rewritten"; positions are not judged.

type c19Case struct {
	Mode        string   `json:"mode"`  // "headmeta" or "reject"
	Name        string   `json:"name"`  // patch file name: given to patch.Parse, and the relative path used with the CLI
	Patch       []byte   `json:"patch"` // the patch under test
	Base        []byte   `json:"base"`  // headmeta: the same patch without the fault; must be accepted, otherwise the case is not judged
	Fault       string   `json:"fault"` // fault class (stable label)
	Line        int      `json:"line"`  // headmeta: 1-based line of the offending token
	Col         int      `json:"col"`   // headmeta: 1-based byte column of the offending token
	AltCol      int      `json:"alt_col,omitempty"`
	FaultChange int      `json:"fault_change"` // index of the change that carries the fault
	Changes     int      `json:"changes"`
	CLI         bool     `json:"cli"`
	Via         string   `json:"via,omitempty"` // CLI: "p" (-p rel), "abs" (-p absolute), "P" (-P list file), "p2" (after a good -p patch)
	Tags        []string `json:"tags,omitempty"`
	// BOM: the patch file starts with a UTF-8 byte order mark. Either that
	// is what the diagnostic points at (1:1), or the mark is put up with
	// and the fault is reported where it is (three bytes further right on
	// line 1) - nothing else.
	BOM bool `json:"bom,omitempty"`
}

// The Go file the CLI is pointed at. Every body template of the generator
// matches something in it, so that a gopatch which went on to apply the
// changes that precede the faulty one would rewrite it.
const c19Target = `package a

func f() error {
	foo(1)
	v := old(2)
	if err != nil {
		return err
	}
	old.Call(3)
	foo(a, b)
	return nil
}
`

const c19GoodPatch = "@@\n@@\n-foo(1)\n+bar(1)\n"

// ---------------------------------------------------------------------------
// Oracle

type c19Outcome struct {
	Status    string // "judged", "base-rejected", "accepted" (reject mode: not a rejected patch), "foreign"
	FillerPre int    // comment/blank lines before the fault line
	CLIRan    bool
	LibNames  bool // reject mode: the library's own error text contains the patch name
}

// c19Pos renders the position prefix of a diagnostic.
func c19Pos(name string, line, col int) string {
	return fmt.Sprintf("%s:%d:%d:", name, line, col)
}

// c19HasPos reports whether text contains "name:line:col:" not preceded by
// something that would make it part of a longer path or number.
func c19HasPos(text, name string, line, col int) bool {
	return strings.Contains(text, c19Pos(name, line, col))
}

func c19FillerBefore(patch []byte, line int) int {
	n := 0
	for i, l := range bytes.Split(patch, []byte("\n")) {
		if i+1 >= line {
			break
		}
		t := bytes.TrimSpace(l)
		if len(t) == 0 || t[0] == '#' {
			n++
		}
	}
	return n
}

// evalC19 is the oracle: a pure function of the case. sig == "" means the
// property held (or the case is not judged, see out.Status).
func evalC19(cs *c19Case) (sig, msg string, out c19Outcome) {
	out.Status = "judged"
	switch cs.Mode {
	case "headmeta":
		out.FillerPre = c19FillerBefore(cs.Patch, cs.Line)
		// Precondition: without the fault the patch is accepted.
		if _, rb := run.ParseOnly(cs.Name, cs.Base); rb.Failed() || rb.ParseErr != "" {
			out.Status = "base-rejected"
			return "", "", out
		}
		// History: the same process has just parsed a patch with the same
		// text three lines further down, under another name. What a
		// diagnostic says is a function of the patch it is about.
		run.ParseOnly("decoy-"+cs.Name, append([]byte("# decoy\n# decoy\n# decoy\n"), cs.Patch...))
		if cs.BOM {
			_, r := run.ParseOnly(cs.Name, append([]byte("\xef\xbb\xbf"), cs.Patch...))
			if r.Failed() {
				out.Status = "foreign"
				return "", "", out
			}
			col := cs.Col
			if cs.Line == 1 {
				col += 3
			}
			if r.ParseErr == "" {
				return "accepted:" + cs.Fault + ":bom", fmt.Sprintf("patch.Parse accepted a patch (behind a byte order mark) with a %s fault\npatch:\n%s", cs.Fault, c19Show(cs.Patch)), out
			}
			if !c19HasPos(r.ParseErr, cs.Name, 1, 1) && !c19HasPos(r.ParseErr, cs.Name, cs.Line, col) && !(cs.AltCol > 0 && c19HasPos(r.ParseErr, cs.Name, cs.Line, cs.AltCol+col-cs.Col)) {
				return "position:" + cs.Fault + ":bom", fmt.Sprintf("%s fault behind a byte order mark: the mark is at %s, the offending token at %s, but patch.Parse reported %q\npatch (without the mark):\n%s", cs.Fault, c19Pos(cs.Name, 1, 1), c19Pos(cs.Name, cs.Line, col), r.ParseErr, c19Show(cs.Patch)), out
			}
		}
		_, r := run.ParseOnly(cs.Name, cs.Patch)
		if r.Failed() {
			out.Status = "foreign" // crash or hang: property C08
			return "", "", out
		}
		want := c19Pos(cs.Name, cs.Line, cs.Col)
		if r.ParseErr == "" {
			return "accepted:" + cs.Fault, fmt.Sprintf("patch.Parse accepted a patch with a %s fault at %s\npatch:\n%s", cs.Fault, want, c19Show(cs.Patch)), out
		}
		ok := c19HasPos(r.ParseErr, cs.Name, cs.Line, cs.Col) || (cs.AltCol > 0 && c19HasPos(r.ParseErr, cs.Name, cs.Line, cs.AltCol))
		if !ok {
			return "position:" + cs.Fault, fmt.Sprintf("%s fault: the offending token is at %s but patch.Parse reported %q\npatch:\n%s", cs.Fault, want, r.ParseErr, c19Show(cs.Patch)), out
		}
	case "reject":
		_, r := run.ParseOnly(cs.Name, cs.Patch)
		if r.Failed() {
			out.Status = "foreign"
			return "", "", out
		}
		if r.ParseErr == "" {
			out.Status = "accepted" // not a rejected patch: nothing to judge
			return "", "", out
		}
		out.LibNames = strings.Contains(r.ParseErr, cs.Name)
	default:
		out.Status = "foreign"
		return "", "", out
	}
	if cs.CLI {
		out.CLIRan = true
		s, m, st := c19CLI(cs)
		if st != "" {
			out.Status = st
		}
		return s, m, out
	}
	return "", "", out
}

func c19Show(p []byte) string {
	var b strings.Builder
	for i, l := range strings.Split(string(p), "\n") {
		fmt.Fprintf(&b, "%3d| %q\n", i+1, l)
	}
	return trunc(b.String(), 2500)
}

// c19CLI runs the gopatch binary on the case. status is non-empty when the
// outcome is not judged.
func c19CLI(cs *c19Case) (sig, msg, status string) {
	dir, cleanup := run.TempDir("c19-")
	defer cleanup()
	files := map[string]string{"t.go": c19Target, cs.Name: string(cs.Patch)}
	path := cs.Name
	var args []string
	switch cs.Via {
	case "abs":
		path = filepath.Join(dir, cs.Name)
		args = []string{"-p", path, "t.go"}
	case "P":
		files["patches.list"] = cs.Name + "\n"
		args = []string{"-P", "patches.list", "t.go"}
	case "p2":
		files["good.patch"] = c19GoodPatch
		args = []string{"-p", "good.patch", "-p", path, "t.go"}
	case "p+P":
		// the rejected patch with -p, a good one in a -P list
		files["good.patch"] = c19GoodPatch
		files["patches.list"] = "good.patch\n"
		args = []string{"-p", path, "-P", "patches.list", "t.go"}
	case "P+p":
		files["good.patch"] = c19GoodPatch
		files["patches.list"] = "good.patch\n"
		args = []string{"-P", "patches.list", "-p", path, "t.go"}
	default:
		args = []string{"-p", path, "t.go"}
	}
	if err := run.WriteTree(dir, files); err != nil {
		return "", "", "harness-error"
	}
	before, err := run.Snapshot(dir)
	if err != nil {
		return "", "", "harness-error"
	}
	r := run.CLI(dir, nil, args...)
	after, err2 := run.Snapshot(dir)
	stderr := string(r.Stderr)
	// Messages must not depend on the temporary directory, on time stamps or
	// on inode numbers: rapid only shrinks failures it can reproduce verbatim.
	clean := func(s string) string { return strings.ReplaceAll(s, dir, "<tmp>") }
	desc := fmt.Sprintf("gopatch %s (fault %s)\nstderr: %s\npatch %s:\n%s", clean(strings.Join(args, " ")), cs.Fault, clean(trunc(stderr, 1500)), cs.Name, c19Show(cs.Patch))
	switch {
	case r.StartErr != "" || err2 != nil:
		return "", "", "harness-error"
	case r.TimedOut || r.Crashed():
		return "", "", "foreign" // property C08
	}
	if d := run.DiffSnapshots(before, after); len(d) > 0 {
		for i := range d {
			if j := strings.Index(d[i], ": "); j > 0 {
				d[i] = d[i][:j] // drop sizes, time stamps, inode numbers
			}
		}
		return "cli-rewrote:" + cs.Mode, fmt.Sprintf("files changed although the patch is rejected: %s\n%s", strings.Join(d, "; "), desc), ""
	}
	if got, err := os.ReadFile(filepath.Join(dir, "t.go")); err != nil || string(got) != c19Target {
		return "cli-rewrote:" + cs.Mode, "the target file is not byte-identical after a rejected patch\n" + desc, ""
	}
	if r.Exit == 0 {
		if cs.Mode == "headmeta" {
			return "cli-exit0:" + cs.Fault, "exit status 0 for a patch with a header/metavariable fault\n" + desc, ""
		}
		// reject mode: the library rejects what the CLI accepts; the
		// property only speaks about rejected patches.
		return "", "", "accepted"
	}
	if !strings.Contains(stderr, path) {
		return "cli-no-path:" + cs.Mode, fmt.Sprintf("the diagnostics do not name the patch file %q\n%s", clean(path), desc), ""
	}
	if cs.Mode == "headmeta" {
		ok := c19HasPos(stderr, path, cs.Line, cs.Col) || (cs.AltCol > 0 && c19HasPos(stderr, path, cs.Line, cs.AltCol))
		if !ok {
			return "cli-position:" + cs.Fault, fmt.Sprintf("the offending token is at %s but the CLI did not report that position\n%s", clean(c19Pos(path, cs.Line, cs.Col)), desc), ""
		}
	}
	return "", "", ""
}

// ---------------------------------------------------------------------------
// Generator: patch model

// c19Tok is one token of a metavariable declaration line.
type c19Tok struct {
	Pre  string // white space before the token; contains a newline when a name list continues on the next line
	Text string
	Role byte // 'v' var keyword, 'n' name, 'c' comma, 't' type, 's' semicolon, 'x' injected
	Mark bool // the offending token
}

// c19Stmt is one entry of a metavariable section: a filler or injected raw
// line, or a run of ';'-separated declarations ending at a newline.
type c19Stmt struct {
	IsRaw   bool
	Raw     string
	RawMark int // IsRaw: 1-based byte column to mark; 0 = none
	Toks    []c19Tok
	Trail   string // white space before the newline
	EOLMark bool   // the offending token is the newline that ends the statement
}

type c19Change struct {
	pre     []string // filler lines before the header
	header  string
	stmts   []c19Stmt
	body    []string
	exprs   []string // declared expression metavariables
	idents  []string // declared identifier metavariables
	spare   []string // unused names
	hasSemi bool
	hasCont bool
}

// c19Out writes the faulty and the fault-free rendering side by side and
// tracks the position in the faulty one.
type c19Out struct {
	f, b        []byte
	line, col   int
	mLine, mCol int
	marked      int
}

func (o *c19Out) F(s string) {
	o.f = append(o.f, s...)
	for i := 0; i < len(s); i++ {
		if s[i] == '\n' {
			o.line++
			o.col = 1
		} else {
			o.col++
		}
	}
}
func (o *c19Out) B(s string) { o.b = append(o.b, s...) }
func (o *c19Out) W(s string) { o.F(s); o.B(s) }
func (o *c19Out) Mark(off int) {
	o.mLine, o.mCol = o.line, o.col+off
	o.marked++
}

func c19EmitStmts(emit func(string), mark func(int), stmts []c19Stmt) {
	for _, s := range stmts {
		if s.IsRaw {
			if s.RawMark > 0 {
				mark(s.RawMark - 1)
			}
			emit(s.Raw + "\n")
			continue
		}
		for _, t := range s.Toks {
			emit(t.Pre)
			if t.Mark {
				mark(0)
			}
			emit(t.Text)
		}
		emit(s.Trail)
		if s.EOLMark {
			mark(0)
		}
		emit("\n")
	}
}

func c19CopyStmts(in []c19Stmt) []c19Stmt {
	out := make([]c19Stmt, len(in))
	for i, s := range in {
		out[i] = s
		out[i].Toks = append([]c19Tok(nil), s.Toks...)
	}
	return out
}

var (
	c19NamePool  = []string{"x", "y", "z", "v", "n", "e1", "é", "世界", "ünï", "a_b", "X", "q"}
	c19HdrNames  = []string{"a", "fix_1", "é", "世界", "_", "Name9", "x", "ab"}
	c19Comments  = []string{"# pasted from a Windows editor\r", "#\r", "# comment", "#", "# @@", "#@ x @", "# var x expression", "  # indented", "\t#tab", "# -foo(x)", "#  é 世界"}
	c19WS1       = []string{" ", " ", " ", " ", "  ", "\t", " \t", "   ", " ", " ", " ", " ", " /* c */ ", "/*line evil.go:100:1*/ ", " /*line :7*/", " /* größer-als 世界 */ ", "/*é*/ "}
	c19WS0       = []string{"", "", "", " ", "  ", "\t", "", "", "", "", "", "/*line evil.go:100:1*/", "/**/", "/*ü*/"}
	c19HdrWS     = []string{"", "", "", " ", "  ", "\t"} // in a header only blanks separate
	c19Indent    = []string{"", "", "", " ", "  ", "\t", "\t\t", " \t ", "    "}
	c19AfterCom  = []string{" ", " ", " ", " ", "", "  ", "\t", "\n", "\n  ", "\n\t", "\n\n  ", "\n# wrapped\n "}
	c19BadTypes  = []string{"expresion", "Identifier", "Expression", "foo", "expr", "int", "ident", "é", "identifiers", "_"}
	c19BadKw     = []string{"vax", "Var", "VAR", "variable", "let", "val", "func", "type", "const", "va", "é"}
	c19NonIdent  = []string{"12", "0x1F", "1.5", "\"s\"", "'c'", "`r`", "type", "func", "var", "(", ")", ".", "*", ":=", "...", "-", "+", "\"é\""}
	c19Extra     = []string{"foo", "expression", "identifier", "12", "\"s\"", ",", ")", "x y", "var", "=", "é"}
	c19Illegal   = []string{"?", "$", "#", "@", "\\", "€", "¿", "\x01", "@@"}
	c19AtLines   = []string{"@ a", "@@ ", " @@", "@a@", "@ a @", "\t@@", "@", "  @ b @"}
	c19HdrFirstR = []string{"@@ ", " @@", "@ a @ ", " @ a @", "@ a", "@a", "@@x", "x@@", "@", "@ a @ b", "\t@@", "@@\t"}
	c19HdrFirstI = []string{"foo", "  foo bar", "-x", "+y", "var x expression", "package a", "\tfoo", "=", "é", " -foo(x)", "...", "x @@"}
	c19HdrLater  = []string{"@@ ", "@ a @ ", "@ a", "@a", "@@x", "@", "@ a @ b", "@@\t", "@ é", "@x @ y"}
	c19BodyBreak = [][]string{
		{"-foo(x", "+bar(x)"}, {"-foo(x))", "+bar(x)"}, {"-foo(x)", "+bar("}, {"-if x {", "+if y {"}, {" }"}, {"-x +", "+y"},
		{"-foo(\"abc)", "+bar()"}, {"-x :=", "+y"}, {"-foo(x]", "+bar(x)"}, {"-{", "+}"}, {"-foo(x)", "+bar(x) )"},
		{"-foo(x)", "+bar(x"}, {" foo(", "-x", "+y"}, {"-[", "+]"}, {"-foo(x) bar(y)", "+z"}, {"-'", "+x"}, {"-func f( {", "+func g() {", " }"},
	}
)

type c19Gen struct {
	rt *rapid.T
}

func (g *c19Gen) pick(label string, xs []string) string {
	return rapid.SampledFrom(xs).Draw(g.rt, label)
}
func (g *c19Gen) n(label string, lo, hi int) int { return rapid.IntRange(lo, hi).Draw(g.rt, label) }
func (g *c19Gen) oneIn(label string, k int) bool {
	return rapid.IntRange(0, k-1).Draw(g.rt, label) == 0
}

// filler draws 0..max comment/blank lines. Blank lines are only drawn when
// allowed (not before the first header). In the metavariable section a blank
// line may consist of white space.
func (g *c19Gen) filler(label string, max int, blank, wsBlank bool) []string {
	k := g.n(label+"N", 0, max)
	var ls []string
	for i := 0; i < k; i++ {
		switch {
		case blank && g.oneIn(label+"Blank", 2):
			if wsBlank && g.oneIn(label+"WS", 4) {
				ls = append(ls, g.pick(label+"WSv", []string{" ", "\t", "  "}))
			} else {
				ls = append(ls, "")
			}
		default:
			ls = append(ls, g.pick(label+"C", c19Comments))
		}
	}
	return ls
}

func (ch *c19Change) nextName(g *c19Gen, allowBlank bool) string {
	if allowBlank && g.oneIn("underscore", 8) {
		return "_"
	}
	if len(ch.spare) == 0 {
		return "_"
	}
	nm := ch.spare[0]
	ch.spare = ch.spare[1:]
	return nm
}

func (g *c19Gen) decl(ch *c19Change, first bool, minNames int, firstOfChange bool) []c19Tok {
	lead := g.pick("afterSemi", c19WS0)
	if first {
		lead = g.pick("indent", c19Indent)
	}
	ts := []c19Tok{{Pre: lead, Text: "var", Role: 'v'}}
	hi := 3
	if minNames > hi {
		hi = minNames
	}
	k := g.n("names", minNames, hi)
	typ := g.pick("type", []string{"expression", "identifier"})
	for i := 0; i < k; i++ {
		pre := g.pick("ws", c19WS1)
		if i > 0 {
			ts = append(ts, c19Tok{Pre: g.pick("preComma", c19WS0), Text: ",", Role: 'c'})
			pre = g.pick("afterComma", c19AfterCom)
			if strings.Contains(pre, "\n") {
				ch.hasCont = true
			}
		}
		nm := ch.nextName(g, !(firstOfChange && i == 0))
		ts = append(ts, c19Tok{Pre: pre, Text: nm, Role: 'n'})
		if nm != "_" {
			if typ == "expression" {
				ch.exprs = append(ch.exprs, nm)
			} else {
				ch.idents = append(ch.idents, nm)
			}
		}
	}
	ts = append(ts, c19Tok{Pre: g.pick("ws", c19WS1), Text: typ, Role: 't'})
	return ts
}

func (g *c19Gen) stmt(ch *c19Change, minNames int, firstOfChange bool) c19Stmt {
	nd := rapid.SampledFrom([]int{1, 1, 1, 2, 2, 3}).Draw(g.rt, "decls")
	var s c19Stmt
	for d := 0; d < nd; d++ {
		if d > 0 {
			s.Toks = append(s.Toks, c19Tok{Pre: g.pick("preSemi", c19WS0), Text: ";", Role: 's'})
			ch.hasSemi = true
		}
		s.Toks = append(s.Toks, g.decl(ch, d == 0, minNames, firstOfChange && d == 0)...)
	}
	if g.oneIn("trailSemi", 4) {
		s.Toks = append(s.Toks, c19Tok{Pre: g.pick("preSemi", c19WS0), Text: ";", Role: 's'})
		ch.hasSemi = true
	}
	s.Trail = g.pick("trail", c19WS0)
	return s
}

func (g *c19Gen) header(i int) string {
	if g.oneIn("unnamed", 2) {
		return "@@"
	}
	return "@" + g.pick("hl", c19HdrWS) + g.pick("hname", c19HdrNames) + fmt.Sprint(i) + g.pick("hr", c19HdrWS) + "@"
}

// change draws change i. needDecl forces at least one declaration line;
// minNames forces that many names in every declaration.
func (g *c19Gen) change(i int, needDecl bool, minNames int) *c19Change {
	ch := &c19Change{}
	ch.spare = rapid.Permutation(c19NamePool).Draw(g.rt, "namePool")
	if i == 0 {
		ch.pre = g.filler("pre", 2, false, false)
	} else {
		ch.pre = g.filler("pre", 3, true, false)
	}
	ch.header = g.header(i)
	lo := 0
	if needDecl {
		lo = 1
	}
	nst := g.n("stmts", lo, 3)
	for _, l := range g.filler("metaFill", 2, true, true) {
		ch.stmts = append(ch.stmts, c19Stmt{IsRaw: true, Raw: l})
	}
	for s := 0; s < nst; s++ {
		ch.stmts = append(ch.stmts, g.stmt(ch, minNames, s == 0))
		for _, l := range g.filler("metaFill", 2, true, true) {
			ch.stmts = append(ch.stmts, c19Stmt{IsRaw: true, Raw: l})
		}
	}
	// Body.
	e := "1"
	if len(ch.exprs) > 0 {
		e = ch.exprs[g.n("bodyE", 0, len(ch.exprs)-1)]
	}
	id := "v"
	if len(ch.idents) > 0 {
		id = ch.idents[g.n("bodyI", 0, len(ch.idents)-1)]
	}
	var tmpl []string
	switch g.n("body", 0, 4) {
	case 0:
		tmpl = []string{"-foo(" + e + ")", "+bar(" + e + ")"}
	case 1:
		tmpl = []string{"-" + id + " := old(" + e + ")", "+" + id + " := renamed(" + e + ")"}
	case 2:
		tmpl = []string{" if err != nil {", "-\treturn err", "+\treturn wrap(err)", " }"}
	case 3:
		tmpl = []string{"-foo(...)", "+bar(...)"}
	default:
		tmpl = []string{"-old.Call(" + e + ")", "+new.Call(" + e + ", nil)"}
	}
	ch.body = g.bodyWithFiller(tmpl)
	return ch
}

func (g *c19Gen) bodyWithFiller(tmpl []string) []string {
	var body []string
	body = append(body, g.filler("bodyFill", 1, true, false)...)
	for _, l := range tmpl {
		body = append(body, l)
		if g.oneIn("bodyFillHere", 4) {
			body = append(body, g.filler("bodyFill", 1, true, false)...)
		}
	}
	return body
}

// Fault classes of the header and the metavariable section.
var c19HeaderFaults = []string{"name-bad-rune", "header-text"}
var c19MetaFaults = []string{"type-unknown", "dup", "kw-bad", "kw-missing", "type-missing", "extra-token", "name-bad-token", "type-bad-token", "comma-missing", "comma-extra", "illegal-char", "at-line"}

type c19TokRef struct{ s, t int }

func c19Refs(stmts []c19Stmt, role byte) []c19TokRef {
	var rs []c19TokRef
	for si, s := range stmts {
		if s.IsRaw {
			continue
		}
		for ti, t := range s.Toks {
			if t.Role == role {
				rs = append(rs, c19TokRef{si, ti})
			}
		}
	}
	return rs
}

func c19DeclIndex(s c19Stmt, ti int) int {
	d := 0
	for i := 0; i < ti; i++ {
		if s.Toks[i].Role == 's' {
			d++
		}
	}
	return d
}

func c19Insert(toks []c19Tok, at int, ins ...c19Tok) []c19Tok {
	out := make([]c19Tok, 0, len(toks)+len(ins))
	out = append(out, toks[:at]...)
	out = append(out, ins...)
	out = append(out, toks[at:]...)
	return out
}

// metaFault returns the faulty and the fault-free statement lists and the
// variant label.
func (g *c19Gen) metaFault(ch *c19Change, kind string) (faulty, base []c19Stmt, variant string) {
	faulty = c19CopyStmts(ch.stmts)
	base = ch.stmts
	pickRef := func(label string, role byte) c19TokRef {
		rs := c19Refs(faulty, role)
		return rs[g.n(label, 0, len(rs)-1)]
	}
	switch kind {
	case "type-unknown":
		r := pickRef("site", 't')
		t := &faulty[r.s].Toks[r.t]
		t.Text, t.Mark = g.pick("badType", c19BadTypes), true
	case "type-bad-token":
		r := pickRef("site", 't')
		t := &faulty[r.s].Toks[r.t]
		t.Text, t.Mark = g.pick("nonIdent", c19NonIdent), true
	case "name-bad-token":
		r := pickRef("site", 'n')
		t := &faulty[r.s].Toks[r.t]
		t.Text, t.Mark = g.pick("nonIdent", c19NonIdent), true
	case "kw-bad":
		r := pickRef("site", 'v')
		t := &faulty[r.s].Toks[r.t]
		t.Text, t.Mark = g.pick("badKw", c19BadKw), true
	case "kw-missing":
		r := pickRef("site", 'v')
		toks := faulty[r.s].Toks
		lead := toks[r.t].Pre
		toks = append(toks[:r.t:r.t], toks[r.t+1:]...)
		toks[r.t].Pre, toks[r.t].Mark = lead, true
		faulty[r.s].Toks = toks
	case "type-missing":
		r := pickRef("site", 't')
		toks := faulty[r.s].Toks
		toks = append(toks[:r.t:r.t], toks[r.t+1:]...)
		if r.t < len(toks) {
			toks[r.t].Mark = true // the ';' that follows
			variant = "semi"
		} else {
			faulty[r.s].EOLMark = true
			variant = "newline"
		}
		faulty[r.s].Toks = toks
	case "extra-token":
		r := pickRef("site", 't')
		x := c19Tok{Pre: g.pick("ws", c19WS1), Text: g.pick("extra", c19Extra), Role: 'x', Mark: true}
		faulty[r.s].Toks = c19Insert(faulty[r.s].Toks, r.t+1, x)
	case "comma-missing":
		r := pickRef("site", 'c')
		toks := faulty[r.s].Toks
		toks = append(toks[:r.t:r.t], toks[r.t+1:]...)
		// toks[r.t] is the name that followed the comma: it is now read as
		// the type, and the token after it is the offending one.
		if p := toks[r.t].Pre; p == "" || strings.Contains(p, "\n") {
			toks[r.t].Pre = " "
		}
		toks[r.t+1].Mark = true
		faulty[r.s].Toks = toks
	case "comma-extra":
		r := pickRef("site", 'n')
		x := c19Tok{Pre: g.pick("preComma", c19WS0), Text: ",", Role: 'x', Mark: true}
		faulty[r.s].Toks = c19Insert(faulty[r.s].Toks, r.t, x)
	case "illegal-char":
		var sites []c19TokRef
		for si, s := range faulty {
			if s.IsRaw {
				continue
			}
			for ti := 1; ti <= len(s.Toks); ti++ {
				sites = append(sites, c19TokRef{si, ti})
			}
		}
		r := sites[g.n("site", 0, len(sites)-1)]
		x := c19Tok{Pre: g.pick("preIllegal", c19WS0), Text: g.pick("illegal", c19Illegal), Role: 'x', Mark: true}
		faulty[r.s].Toks = c19Insert(faulty[r.s].Toks, r.t, x)
		variant = fmt.Sprintf("U+%04X", []rune(x.Text)[0])
	case "at-line":
		at := g.n("site", 0, len(faulty))
		raw := g.pick("atLine", c19AtLines)
		ins := c19Stmt{IsRaw: true, Raw: raw, RawMark: strings.Index(raw, "@") + 1}
		faulty = append(faulty[:at:at], append([]c19Stmt{ins}, faulty[at:]...)...)
	case "dup":
		names := c19Refs(faulty, 'n')
		var srcs []int
		for i, r := range names {
			if faulty[r.s].Toks[r.t].Text != "_" {
				srcs = append(srcs, i)
			}
		}
		si := srcs[g.n("dupSrc", 0, len(srcs)-1)]
		ti := g.n("dupAfter", si, len(names)-1)
		src, tgt := names[si], names[ti]
		dup := faulty[src.s].Toks[src.t].Text
		fresh := "fresh"
		if len(ch.spare) > 0 {
			fresh = ch.spare[0]
		}
		comma := c19Tok{Pre: g.pick("preComma", c19WS0), Text: ",", Role: 'c'}
		nameF := c19Tok{Pre: g.pick("afterComma", c19AfterCom), Text: dup, Role: 'n', Mark: true}
		nameB := nameF
		nameB.Text, nameB.Mark = fresh, false
		switch {
		case src.s != tgt.s:
			variant = "later-line"
		case c19DeclIndex(faulty[src.s], src.t) != c19DeclIndex(faulty[tgt.s], tgt.t):
			variant = "later-semi-decl"
		case strings.Contains(nameF.Pre, "\n"):
			variant = "same-decl-next-line"
		default:
			variant = "same-decl"
		}
		base = c19CopyStmts(ch.stmts)
		base[tgt.s].Toks = c19Insert(base[tgt.s].Toks, tgt.t+1, comma, nameB)
		faulty[tgt.s].Toks = c19Insert(faulty[tgt.s].Toks, tgt.t+1, comma, nameF)
	default:
		panic("unknown meta fault " + kind)
	}
	return faulty, base, variant
}

// headerFault returns the faulty line, whether it is inserted before the
// (valid) header rather than replacing it, the byte offset of the offending
// token in it and an alternative offset (or -1).
func (g *c19Gen) headerFault(kind string, i int) (line string, insert bool, off, alt int, variant string) {
	alt = -1
	switch kind {
	case "name-bad-rune":
		hl, hr := g.pick("hl", c19HdrWS), g.pick("hr", c19HdrWS)
		prefix := g.pick("badPrefix", []string{"", "", "a", "ab_", "é", "世界x", "_", "éé"})
		var bad string
		if prefix == "" {
			bad = g.pick("badRune", []string{"9", "0", "-", ".", "€", "@", "+", "٣"})
		} else {
			bad = g.pick("badRune", []string{"-", "-", ".", " ", "€", "@", "+", "(", "/", "\t"})
		}
		suffix := g.pick("badSuffix", []string{"", "b", "x9", "-c", " d", "é"})
		if (bad == " " || bad == "\t") && suffix == "" {
			suffix = "b"
		}
		variant = "ascii-prefix"
		if prefix == "" {
			variant = "first-rune"
		} else if len(prefix) != utf8.RuneCountInString(prefix) {
			variant = "multibyte-prefix"
		}
		if hl != "" {
			variant += "+spaces"
		}
		return "@" + hl + prefix + bad + suffix + hr + "@", false, 1 + len(hl) + len(prefix), -1, variant
	case "header-text":
		switch {
		case i > 0:
			line = g.pick("hdrLater", c19HdrLater)
			variant = "later-at-line"
		case g.oneIn("hdrInsert", 2):
			line = g.pick("hdrFirstI", c19HdrFirstI)
			variant = "first-inserted-line"
			insert = true
		default:
			line = g.pick("hdrFirstR", c19HdrFirstR)
			variant = "first-replaced-header"
		}
		if t := strings.TrimLeft(line, " \t"); len(t) != len(line) {
			alt = len(line) - len(t)
			variant += "+indented"
		}
		return line, insert, 0, alt, variant
	}
	panic("unknown header fault " + kind)
}

// c19GenPatch draws a patch with one fault of the given class ("body" for a
// body syntax error, "" for no fault).
func c19GenPatch(rt *rapid.T, fault string) *c19Case {
	g := &c19Gen{rt: rt}
	cs := &c19Case{Mode: "headmeta"}
	nch := rapid.SampledFrom([]int{1, 1, 2, 2, 2, 3, 3, 4}).Draw(rt, "changes")
	fc := g.n("faultChange", 0, nch-1)
	cs.Changes, cs.FaultChange = nch, fc
	isMeta := false
	for _, k := range c19MetaFaults {
		if k == fault {
			isMeta = true
		}
	}
	o := &c19Out{line: 1, col: 1}
	tags := map[string]bool{}
	for i := 0; i < nch; i++ {
		here := i == fc && fault != ""
		minNames := 1
		if here && fault == "comma-missing" {
			minNames = 2
		}
		ch := g.change(i, here && isMeta && fault != "at-line", minNames)
		for _, l := range ch.pre {
			o.W(l + "\n")
		}
		if ch.header != "@@" {
			tags["named-header"] = true
		} else {
			tags["unnamed-header"] = true
		}
		if ch.hasSemi {
			tags["layout:semicolon"] = true
		}
		if ch.hasCont {
			tags["layout:names-continued"] = true
		}
		variant := ""
		// Header.
		if here && !isMeta && fault != "body" {
			line, insert, off, alt, v := g.headerFault(fault, i)
			variant = v
			o.Mark(off)
			if alt >= 0 {
				cs.AltCol = o.col + alt
			}
			o.F(line + "\n")
			if insert {
				o.F(ch.header + "\n")
			}
			o.B(ch.header + "\n")
		} else {
			o.W(ch.header + "\n")
		}
		// Metavariables.
		if here && isMeta {
			faulty, base, v := g.metaFault(ch, fault)
			variant = v
			c19EmitStmts(o.F, o.Mark, faulty)
			c19EmitStmts(o.B, func(int) {}, base)
		} else {
			c19EmitStmts(o.W, func(int) {}, ch.stmts)
		}
		o.W("@@\n")
		// Body.
		if here && fault == "body" {
			bi := g.n("bodyBreak", 0, len(c19BodyBreak)-1)
			variant = fmt.Sprint(bi)
			for _, l := range g.bodyWithFiller(c19BodyBreak[bi]) {
				o.F(l + "\n")
			}
			for _, l := range ch.body {
				o.B(l + "\n")
			}
		} else {
			for _, l := range ch.body {
				o.W(l + "\n")
			}
		}
		if here && variant != "" {
			tags["variant:"+fault+":"+variant] = true
		}
	}
	if g.oneIn("noFinalNewline", 6) {
		o.f = bytes.TrimSuffix(o.f, []byte("\n"))
		o.b = bytes.TrimSuffix(o.b, []byte("\n"))
		tags["no-final-newline"] = true
	}
	cs.Patch, cs.Base, cs.Fault = o.f, o.b, fault
	cs.Line, cs.Col = o.mLine, o.mCol
	if fault == "body" || fault == "" {
		cs.Line, cs.Col, cs.AltCol = 0, 0, 0
	} else if o.marked != 1 {
		panic(fmt.Sprintf("c19 generator: %d marks for fault %s", o.marked, fault))
	}
	for _, t := range []string{"named-header", "unnamed-header", "layout:semicolon", "layout:names-continued", "no-final-newline"} {
		if tags[t] {
			cs.Tags = append(cs.Tags, t)
		}
	}
	for _, k := range sortedKeysBool(tags) {
		if strings.HasPrefix(k, "variant:") {
			cs.Tags = append(cs.Tags, k)
		}
	}
	return cs
}

func sortedKeysBool(m map[string]bool) []string {
	ks := make([]string, 0, len(m))
	for k := range m {
		ks = append(ks, k)
	}
	sort.Strings(ks)
	return ks
}

var c19TokRe = regexp.MustCompile("(?s)\\.\\.\\.|@@|:=|[A-Za-z_][A-Za-z_0-9]*|[0-9]+|\"[^\"\\n]*\"|\\n|[ \\t]+|.")

var c19Consts = []string{"", "\n", "# only a comment\n", "@@\n", "@@", "@@\n@@", "foo", "@@\nvar x expression\n", "@ a @\n", "@@\n@@\n-foo(\n", "\n@@\n@@\n-x\n+y\n", "@@\n@@\n@@\n", "-x\n+y\n"}

// c19GenReject draws a patch that is (probably) rejected for a reason other
// than an injected header/metavariable fault.
func c19GenReject(rt *rapid.T, repoPatches []corpus.File) *c19Case {
	var cs *c19Case
	switch rapid.IntRange(0, 9).Draw(rt, "rejectKind") {
	case 0, 1, 2, 3:
		cs = c19GenPatch(rt, "body")
		cs.Fault = "body"
	case 4:
		cs = c19GenPatch(rt, "")
		cut := rapid.IntRange(0, len(cs.Patch)).Draw(rt, "cut")
		cs.Patch = cs.Patch[:cut]
		cs.Fault = "truncated"
	case 5:
		// Drop the "@@" that ends a metavariable section.
		cs = c19GenPatch(rt, "")
		lines := strings.SplitAfter(string(cs.Patch), "\n")
		var ends []int
		seenHeader := false
		for i, l := range lines {
			t := strings.TrimSuffix(l, "\n")
			if len(t) > 0 && t[0] == '@' {
				if t == "@@" && seenHeader {
					ends = append(ends, i)
					seenHeader = false
				} else {
					seenHeader = true
				}
			}
		}
		if len(ends) > 0 {
			i := ends[rapid.IntRange(0, len(ends)-1).Draw(rt, "dropEnd")]
			lines = append(lines[:i:i], lines[i+1:]...)
		}
		cs.Patch = []byte(strings.Join(lines, ""))
		cs.Fault = "no-terminator"
	case 6:
		cs = &c19Case{Patch: []byte(rapid.SampledFrom(c19Consts).Draw(rt, "const")), Fault: "const"}
	default:
		p := repoPatches[rapid.IntRange(0, len(repoPatches)-1).Draw(rt, "repoPatch")]
		toks := c19TokRe.FindAllString(string(p.Src), -1)
		nm := rapid.IntRange(1, 2).Draw(rt, "nmut")
		for m := 0; m < nm && len(toks) > 0; m++ {
			i := rapid.IntRange(0, len(toks)-1).Draw(rt, "at")
			switch rapid.IntRange(0, 3).Draw(rt, "op") {
			case 0:
				toks = append(toks[:i:i], toks[i+1:]...)
			case 1:
				toks = append(toks[:i+1:i+1], toks[i:]...)
			case 2:
				toks[i] = rapid.SampledFrom([]string{"(", ")", "{", "}", "[", "]", "@@", "@", "var", ",", ";", "...", "\"", "func", "#", "\n"}).Draw(rt, "junk")
			default:
				toks[i] = toks[rapid.IntRange(0, len(toks)-1).Draw(rt, "from")]
			}
		}
		cs = &c19Case{Patch: []byte(strings.Join(toks, "")), Fault: "tokmut"}
	}
	cs.Mode, cs.Base, cs.CLI = "reject", nil, true
	return cs
}

func c19DrawVia(rt *rapid.T, cs *c19Case) {
	cs.Name = rapid.SampledFrom([]string{"p.patch", "p.patch", "fix.patch", "sub/dir/my.patch", "patches/é.patch", "a.b/c", "x-y_z.patch", "fix%20bug.patch", "100%.patch", "50%done/fix %s.patch", "a:b.patch", "with space/p q.patch"}).Draw(rt, "name")
	cs.Via = rapid.SampledFrom([]string{"p", "p", "p", "abs", "P", "p2", "p+P", "P+p"}).Draw(rt, "via")
}

// ---------------------------------------------------------------------------

func c19Record(cs *c19Case, out c19Outcome) {
	c := coll("C19")
	nontriv := cs.Mode == "headmeta" && out.Status == "judged" && cs.Line > 1 && (out.FillerPre >= 1 || cs.FaultChange >= 1)
	classes := []string{"mode:" + cs.Mode, "status:" + out.Status, "fault:" + cs.Fault}
	if cs.Mode == "headmeta" {
		classes = append(classes, fmt.Sprintf("changes:%d", cs.Changes), fmt.Sprintf("fault-change:%d", cs.FaultChange))
		switch {
		case out.FillerPre == 0:
			classes = append(classes, "filler-before:0")
		case out.FillerPre <= 2:
			classes = append(classes, "filler-before:1-2")
		default:
			classes = append(classes, "filler-before:3+")
		}
		switch {
		case cs.Col == 1:
			classes = append(classes, "col:1")
		case cs.Col <= 8:
			classes = append(classes, "col:2-8")
		default:
			classes = append(classes, "col:9+")
		}
		if cs.Line == 1 {
			classes = append(classes, "line:1")
		}
		// Multi-byte text before the offending token on its line: byte and
		// rune columns differ.
		if ls := strings.Split(string(cs.Patch), "\n"); cs.Line-1 < len(ls) && cs.Col-1 <= len(ls[cs.Line-1]) {
			pre := ls[cs.Line-1][:cs.Col-1]
			if len(pre) != utf8.RuneCountInString(pre) {
				classes = append(classes, "multibyte-before-token")
			}
			if strings.Contains(pre, "\t") {
				classes = append(classes, "tab-before-token")
			}
		}
		classes = append(classes, cs.Tags...)
	}
	if cs.Mode == "reject" {
		classes = append(classes, "reject:"+cs.Fault+":"+out.Status)
		if out.Status == "judged" && !out.LibNames {
			// Only the CLI's wrapper can supply the path for these.
			classes = append(classes, "reject:library-text-lacks-name")
		}
	}
	if out.CLIRan {
		classes = append(classes, "cli:"+cs.Via)
	}
	c.Case(evid.Hash(cs.Mode, cs.Name, string(cs.Patch), fmt.Sprint(cs.Line, ":", cs.Col), fmt.Sprint(cs.CLI), cs.Via), nontriv, classes...)
	if c.WantSample() {
		c.Sample(map[string]any{"mode": cs.Mode, "fault": cs.Fault, "name": cs.Name, "patch": trunc(string(cs.Patch), 400), "line": cs.Line, "col": cs.Col, "cli": cs.CLI, "via": cs.Via, "status": out.Status})
	}
}

func TestC19(t *testing.T) {
	repoPatches := corpus.RepoPatches()
	cliEvery := envInt("VERIF_C19_CLI_EVERY", 5)
	rejectEvery := envInt("VERIF_C19_REJECT_EVERY", 6)
	faults := append(append([]string{}, c19HeaderFaults...), c19MetaFaults...)
	// The header classes get extra weight: there are only two of them.
	faults = append(faults, c19HeaderFaults...)
	faults = append(faults, c19HeaderFaults...)
	faults = append(faults, "dup", "dup", "type-unknown")

	checkN(t, func(rt *rapid.T) {
		var cs *c19Case
		if rejectEvery > 0 && len(repoPatches) > 0 && rapid.IntRange(0, rejectEvery-1).Draw(rt, "reject") == 0 {
			cs = c19GenReject(rt, repoPatches)
		} else {
			cs = c19GenPatch(rt, rapid.SampledFrom(faults).Draw(rt, "fault"))
			cs.CLI = cliEvery > 0 && rapid.IntRange(0, cliEvery-1).Draw(rt, "cli") == 0
			cs.BOM = rapid.IntRange(0, 9).Draw(rt, "bom") == 0
		}
		c19DrawVia(rt, cs)
		sig, msg, out := evalC19(cs)
		c19Record(cs, out)
		if sig != "" {
			violate(rt, "C19", sig, msg, cs)
		}
	})
}

func TestReplayC19(t *testing.T) {
	var cs c19Case
	if !loadReplay(t, "C19", &cs) {
		return
	}
	sig, msg, out := evalC19(&cs)
	t.Logf("status=%s sig=%q", out.Status, sig)
	if sig != "" {
		violate(t, "C19", sig, msg, &cs)
	}
}
