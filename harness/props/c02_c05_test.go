package props

import (
	"testing"

	"github.com/uber-go/gopatch/verif/gen"
	"github.com/uber-go/gopatch/verif/ref"
)

// C02 — metavariables bind by kind and bind consistently.
var c02 = &modelCheck{
	Prop:         "C02",
	NestedChoice: 12,
	Opts: modelOpts{
		Mine:         gen.MineOpts{MaxHoles: 3, MaxDots: 1, RepeatBias: true},
		MaxHostLines: 160,
		MinPlants:    1, MaxPlants: 4,
		MinMutants: 1, MaxMutants: 5,
		AllMinusThenPlus: true,
	},
	// a repeated metavariable or an identifier metavariable, at least one
	// site, and at least one confirmed near-miss in the same file
	NonTrivial: func(cs *modelCase, v *verdict) bool {
		hasIdentHole := false
		for _, k := range cs.Spec.Holes {
			if k == ref.IdentHole {
				hasIdentHole = true
			}
		}
		return v.Sites >= 1 && v.NearMisses >= 1 && (v.RepeatedHoles > 0 || hasIdentHole)
	},
}

func TestC02(t *testing.T) { c02.run(t) }
func TestReplayC02(t *testing.T) {
	if !c02iReplay(t) {
		c02.replay(t)
	}
}

// C03 — rewritten code is the '+' pattern instantiated with what was captured.
var c03 = &modelCheck{
	Prop:         "C03",
	TypeOperand:  25,
	NestedChoice: 20,
	Opts: modelOpts{
		Mine:         gen.MineOpts{MaxHoles: 3, NoDots: true, DupBias: true, Unwrap: true},
		MaxHostLines: 160,
		MinPlants:    2, MaxPlants: 5,
		MinMutants: 0, MaxMutants: 2,
		AllMinusThenPlus: true,
	},
	// at least two sites with different bindings
	NonTrivial: func(cs *modelCase, v *verdict) bool { return v.Sites >= 2 && v.DistinctBindings >= 2 },
}

func TestC03(t *testing.T)       { c03.run(t) }
func TestReplayC03(t *testing.T) { c03.replay(t) }

// C05 — everything outside the rewritten fragments is preserved.
var c05 = &modelCheck{
	Prop: "C05",
	Opts: modelOpts{
		Mine:         gen.MineOpts{MaxHoles: 2, MaxDots: 2},
		MaxHostLines: 400,
		MinPlants:    0, MaxPlants: 3,
		MinMutants: 0, MaxMutants: 2,
		AddImport: 5,
		PkgGuard:  5,
	},
	NonTrivial: func(cs *modelCase, v *verdict) bool { return v.Sites >= 1 },
}

func TestC05(t *testing.T)       { c05.run(t) }
func TestReplayC05(t *testing.T) { c05.replay(t) }
