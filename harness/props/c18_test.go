package props

import (
	"fmt"
	"go/parser"
	"go/token"
	"os"
	"path/filepath"
	"regexp"
	"sort"
	"strings"
	"sync"
	"syscall"
	"testing"
	"time"

	"github.com/uber-go/gopatch/verif/evid"
	"github.com/uber-go/gopatch/verif/run"
	"pgregory.net/rapid"
)

// C18 — --skip-generated protects generated files, and only them.
//
// The file under test is always gen.go. Its body contains one site (cnt(0)) of
// a described change, so "processed" is visible in every output mode. The
// oracle is a three-valued reference predicate computed from the bytes of the
// file with a hand-written lexer (no go/ast, no go/parser): must-skip,
// must-process, either.

// ---------------------------------------------------------------------------
// Case

type c18Case struct {
	Src      string   `json:"src"`     // content of gen.go
	Markers  []string `json:"markers"` // marker fragments (single lines) present in Src; used for the marker-free variant
	Flag     bool     `json:"flag"`    // --skip-generated
	Mode     string   `json:"mode"`    // "inplace", "diff", "print"
	Verbose  bool     `json:"verbose"` // -v
	Siblings bool     `json:"siblings"`
	Spec     string   `json:"spec"` // "dot" (directory) or "files" (explicit list)

	// Labels for the evidence histogram; the oracle does not read them.
	Shape  string `json:"shape,omitempty"`
	Marker string `json:"marker,omitempty"`
	Style  string `json:"style,omitempty"`
	Place  string `json:"place,omitempty"`
}

const (
	c18Patch = "# Bump the counter.\n# Second line of the description.\n@@\nvar x expression\n@@\n-cnt(x)\n+cnt(x + 1)\n"
	c18Tail  = "\nfunc cnt(n int) int { return n }\n\nfunc genOnlyFn() int {\n\treturn cnt(0)\n}\n"
	c18AA    = "package p\n\nfunc aa() int {\n\treturn cnt(0) + cnt(2)\n}\n"
	c18ZZ    = "// Package doc in a sibling.\npackage p\n\nfunc zz() int {\n\treturn cnt(40)\n}\n"
)

// ---------------------------------------------------------------------------
// Reference predicate

type c18Comment struct {
	Text    string
	Line    int // line of the first byte
	Col     int // byte column of the first byte, 1 = first on the line
	EndLine int
	Block   bool
}

// c18Lex returns the comments before the package clause and the line of the
// package keyword. Before the package clause a Go file consists of white
// space and comments only.
func c18Lex(src string) (cs []c18Comment, pkgLine int, ok bool) {
	i, line, col := 0, 1, 1
	for i < len(src) {
		switch {
		case src[i] == '\n':
			i++
			line++
			col = 1
		case src[i] == ' ' || src[i] == '\t':
			i++
			col++
		case strings.HasPrefix(src[i:], "//"):
			j := strings.IndexByte(src[i:], '\n')
			if j < 0 {
				j = len(src) - i
			}
			cs = append(cs, c18Comment{Text: src[i : i+j], Line: line, Col: col, EndLine: line})
			i += j
			col += j
		case strings.HasPrefix(src[i:], "/*"):
			j := strings.Index(src[i+2:], "*/")
			if j < 0 {
				return nil, 0, false
			}
			text := src[i : i+2+j+2]
			c := c18Comment{Text: text, Line: line, Col: col, Block: true}
			if nl := strings.Count(text, "\n"); nl > 0 {
				line += nl
				col = len(text) - strings.LastIndexByte(text, '\n')
			} else {
				col += len(text)
			}
			c.EndLine = line
			cs = append(cs, c)
			i += len(text)
		default:
			rest := src[i:]
			if strings.HasPrefix(rest, "package") && len(rest) > 7 && (rest[7] == ' ' || rest[7] == '\t' || rest[7] == '\n') {
				return cs, line, true
			}
			return nil, 0, false
		}
	}
	return nil, 0, false
}

var (
	// The README / go.dev/s/generatedcode wording.
	c18WF = regexp.MustCompile(`^// Code generated .* DO NOT EDIT\.$`)
	// Well-formed text that is not a whole line of its own.
	c18WFTail  = regexp.MustCompile(`// Code generated .* DO NOT EDIT\.$`)
	c18WFBlock = regexp.MustCompile(`Code generated .* DO NOT EDIT\.[ \t]*(\*/)?[ \t]*$`)
	// @generated as a word of its own.
	c18AtWord = regexp.MustCompile(`(^|[ \t/*])@generated($|[ \t\n]|\*/)`)
)

type c18Verdict struct {
	V      string // "skip", "process", "either"
	Why    string
	HasDoc bool
}

// c18Classify is the reference predicate, written from the README ("has
// @generated or ^// Code generated .* DO NOT EDIT\.$ in the comment header")
// and the property statement.
//
//	must skip:    a // comment starting in column 1 before the package clause whose
//	              text matches ^// Code generated .* DO NOT EDIT\.$, or the word
//	              @generated inside the package doc comment (the comment group
//	              that ends on the line directly above `package`).
//	either:       (not must-skip and) the well-formed text sits in a /* */
//	              comment, or after other text on its line (indentation, another
//	              comment, extra slashes); or the substring @generated occurs in a
//	              comment before the package clause that is not the package doc,
//	              or inside the package doc glued to other characters.
//	must process: everything else (near-miss spellings, markers after the
//	              package clause or in the body, no marker).
func c18Classify(src string) (c18Verdict, bool) {
	cs, pkgLine, ok := c18Lex(src)
	if !ok {
		return c18Verdict{}, false
	}
	// Package doc group: the maximal run of adjacent comments that ends on the
	// line directly above the package keyword.
	docFrom := len(cs)
	if n := len(cs); n > 0 && cs[n-1].EndLine == pkgLine-1 {
		docFrom = n - 1
		for docFrom > 0 && cs[docFrom].Line <= cs[docFrom-1].EndLine+1 {
			docFrom--
		}
	}
	v := c18Verdict{HasDoc: docFrom < len(cs)}
	var skip, either []string
	for i, c := range cs {
		inDoc := i >= docFrom
		if !c.Block {
			switch {
			case c.Col == 1 && c18WF.MatchString(c.Text):
				skip = append(skip, "well-formed // line")
			case c18WFTail.MatchString(c.Text):
				either = append(either, "well-formed text not at the start of its line")
			}
		} else {
			for _, l := range strings.Split(c.Text, "\n") {
				if c18WFBlock.MatchString(l) {
					either = append(either, "well-formed text in a block comment")
					break
				}
			}
		}
		if strings.Contains(c.Text, "@generated") {
			if inDoc && c18AtWord.MatchString(c.Text) {
				skip = append(skip, "@generated in the package doc")
			} else if inDoc {
				either = append(either, "@generated glued to other text in the package doc")
			} else {
				either = append(either, "@generated outside the package doc")
			}
		}
	}
	switch {
	case len(skip) > 0:
		v.V, v.Why = "skip", strings.Join(skip, "; ")
	case len(either) > 0:
		v.V, v.Why = "either", strings.Join(either, "; ")
	default:
		v.V, v.Why = "process", "no well-formed marker before the package clause"
	}
	return v, true
}

// c18Valid says whether the file is Go that gopatch can load, and
// cross-checks the hand-written lexer against go/parser (comment texts and
// positions only; the classification itself never consults go/ast).
func c18Valid(src string) (ok bool, why string) {
	cs, pkgLine, lexOK := c18Lex(src)
	fset := token.NewFileSet()
	f, err := parser.ParseFile(fset, "gen.go", src, parser.ParseComments|parser.AllErrors)
	if err != nil {
		return false, "unparseable"
	}
	if !lexOK {
		return false, "lexer-rejects-parseable"
	}
	if fset.PositionFor(f.Package, false).Line != pkgLine {
		return false, "lexer-disagree-package"
	}
	n := 0
	for _, g := range f.Comments {
		for _, c := range g.List {
			if c.Pos() > f.Package {
				continue
			}
			p := fset.PositionFor(c.Pos(), false)
			if n >= len(cs) || cs[n].Text != c.Text || cs[n].Line != p.Line || cs[n].Col != p.Column {
				return false, "lexer-disagree-comment"
			}
			n++
		}
	}
	if n != len(cs) {
		return false, "lexer-disagree-count"
	}
	return true, ""
}

// ---------------------------------------------------------------------------
// Marker-free variant

// c18NeutralText replaces every ASCII letter by q/Q (case kept, so that
// go/printer's doc-comment reformatting, which looks at case and punctuation,
// treats both variants alike).
func c18NeutralText(s string) string {
	b := []byte(s)
	for i, ch := range b {
		switch {
		case ch >= 'a' && ch <= 'z':
			b[i] = 'q'
		case ch >= 'A' && ch <= 'Z':
			b[i] = 'Q'
		}
	}
	return string(b)
}

// c18NeutralSrc replaces the marker fragments of the file by innocuous
// comments of the same length.
func c18NeutralSrc(src string, markers []string) string {
	ms := append([]string(nil), markers...)
	sort.SliceStable(ms, func(i, j int) bool { return len(ms[i]) > len(ms[j]) })
	for _, m := range ms {
		if m == "" {
			continue
		}
		src = strings.ReplaceAll(src, m, c18NeutralText(m))
	}
	return src
}

// c18SameModuloLetters compares two texts line by line; lines may differ in
// their letters only ("modulo the marker line").
func c18SameModuloLetters(a, b string) bool {
	if a == b {
		return true
	}
	la, lb := strings.Split(a, "\n"), strings.Split(b, "\n")
	if len(la) != len(lb) {
		return false
	}
	for i := range la {
		if la[i] == lb[i] {
			continue
		}
		if c18NeutralText(la[i]) != c18NeutralText(lb[i]) {
			return false
		}
	}
	return true
}

// ---------------------------------------------------------------------------
// Running gopatch

type c18Out struct {
	StartErr string
	TimedOut bool
	Exit     int
	Stdout   string
	Stderr   string
	Files    map[string]string // *.go files after the run
	GenPre   run.Entry         // gen.go before the run
	GenPost  run.Entry         // gen.go after the run
	Args     []string
}

var (
	c18MemoMu    sync.Mutex
	c18Memo      = map[uint64]*c18Out{}
	c18MemoOrder []uint64
	c18Runs      int
)

var c18Old = time.Date(2001, 2, 3, 4, 5, 6, 0, time.UTC)

// c18Run executes gopatch once on a fresh tree. It is a deterministic
// function of its arguments, so results are memoised (the reference runs are
// shared by neighbouring cases).
func c18Run(cs *c18Case, src string, withGen, flag bool) *c18Out {
	key := evid.Hash(src, fmt.Sprint(withGen, flag, cs.Verbose, cs.Siblings), cs.Mode, cs.Spec)
	c18MemoMu.Lock()
	if o, ok := c18Memo[key]; ok {
		c18MemoMu.Unlock()
		return o
	}
	c18MemoMu.Unlock()

	o := &c18Out{Files: map[string]string{}}
	dir, cleanup := run.TempDir("c18-")
	defer cleanup()
	var names []string
	write := func(name, content string) {
		p := filepath.Join(dir, name)
		if err := os.WriteFile(p, []byte(content), 0o644); err != nil {
			o.StartErr = err.Error()
		}
		_ = os.Chtimes(p, c18Old, c18Old)
		names = append(names, name)
	}
	if cs.Siblings {
		write("aa.go", c18AA)
	}
	if withGen {
		write("gen.go", src)
	}
	if cs.Siblings {
		write("zz.go", c18ZZ)
	}
	if err := os.WriteFile(filepath.Join(dir, "p.patch"), []byte(c18Patch), 0o644); err != nil {
		o.StartErr = err.Error()
	}
	if o.StartErr != "" {
		return o
	}
	var args []string
	if flag {
		args = append(args, "--skip-generated")
	}
	switch cs.Mode {
	case "diff":
		args = append(args, "-d")
	case "print":
		args = append(args, "--print-only")
	}
	if cs.Verbose {
		args = append(args, "-v")
	}
	args = append(args, "-p", "p.patch")
	if cs.Spec == "files" {
		args = append(args, names...)
	} else {
		args = append(args, ".")
	}
	o.Args = args
	o.GenPre = c18Stat(filepath.Join(dir, "gen.go"))
	r := run.CLI(dir, nil, args...)
	o.GenPost = c18Stat(filepath.Join(dir, "gen.go"))
	o.StartErr, o.TimedOut, o.Exit = r.StartErr, r.TimedOut, r.Exit
	o.Stdout = strings.ReplaceAll(string(r.Stdout), dir, "$D")
	o.Stderr = strings.ReplaceAll(string(r.Stderr), dir, "$D")
	for _, n := range names {
		b, err := os.ReadFile(filepath.Join(dir, n))
		if err != nil {
			o.Files[n] = "<unreadable: " + err.Error() + ">"
			continue
		}
		o.Files[n] = string(b)
	}
	if ents, err := os.ReadDir(dir); err == nil {
		for _, e := range ents {
			if _, ok := o.Files[e.Name()]; !ok && e.Name() != "p.patch" {
				o.Files["<created>"+e.Name()] = ""
			}
		}
	}

	c18MemoMu.Lock()
	c18Runs++
	if o.StartErr == "" {
		c18Memo[key] = o
		c18MemoOrder = append(c18MemoOrder, key)
		if len(c18MemoOrder) > 512 {
			delete(c18Memo, c18MemoOrder[0])
			c18MemoOrder = c18MemoOrder[1:]
		}
	}
	c18MemoMu.Unlock()
	return o
}

// c18Stat records identity, times and content of a file ("" entry when absent).
func c18Stat(p string) (e run.Entry) {
	info, err := os.Lstat(p)
	if err != nil {
		return e
	}
	e = run.Entry{Type: "file", Mode: info.Mode(), Size: info.Size(), MTime: info.ModTime().UnixNano()}
	if st, ok := info.Sys().(*syscall.Stat_t); ok {
		e.Inode = st.Ino
	}
	if b, err := os.ReadFile(p); err == nil {
		e.SHA = fmt.Sprintf("%016x", evid.Hash(string(b)))
	} else {
		e.SHA = "unreadable"
	}
	return e
}

// c18DropGenLines removes the -v log lines about gen.go from stdout.
func c18DropGenLines(s string) (kept string, dropped []string) {
	var out []string
	for _, l := range strings.SplitAfter(s, "\n") {
		if strings.Contains(l, "gen.go") {
			dropped = append(dropped, l)
			continue
		}
		out = append(out, l)
	}
	return strings.Join(out, ""), dropped
}

func c18Describe(o *c18Out) string {
	state := "absent"
	if g, ok := o.Files["gen.go"]; ok {
		state = "unchanged"
		if strings.Contains(g, "cnt(0 + 1)") {
			state = "patched"
		}
	}
	return fmt.Sprintf("gopatch %s -> exit %d, gen.go afterwards: %s\nstdout:\n%s\nstderr:\n%s", strings.Join(o.Args, " "), o.Exit, state, trunc(o.Stdout, 1200), trunc(o.Stderr, 600))
}

func c18FilesEqual(a, b map[string]string, eq func(x, y string) bool) (string, bool) {
	var names []string
	for n := range a {
		names = append(names, n)
	}
	for n := range b {
		if _, ok := a[n]; !ok {
			names = append(names, n)
		}
	}
	sort.Strings(names)
	for _, n := range names {
		x, okx := a[n]
		y, oky := b[n]
		if okx != oky || !eq(x, y) {
			return n, false
		}
	}
	return "", true
}

// c18Same compares two runs completely.
func c18Same(a, b *c18Out, eq func(x, y string) bool) (what string, same bool) {
	switch {
	case a.Exit != b.Exit:
		return fmt.Sprintf("exit status %d vs %d", a.Exit, b.Exit), false
	case a.TimedOut != b.TimedOut:
		return "timeout", false
	case !eq(a.Stdout, b.Stdout):
		return "stdout", false
	case !eq(a.Stderr, b.Stderr):
		return "stderr", false
	}
	if n, ok := c18FilesEqual(a.Files, b.Files, eq); !ok {
		return "content of " + n, false
	}
	return "", true
}

func c18Exact(x, y string) bool { return x == y }

// c18SkipCheck judges a run with the flag against "gen.go was left completely
// untouched: no write, no diff, no print, no description".
func c18SkipCheck(cs *c18Case, a *c18Out) (sig, msg string) {
	if a.Exit != 0 {
		return "must-skip/exit", fmt.Sprintf("exit status %d", a.Exit)
	}
	if a.GenPre != a.GenPost {
		what := "rewritten (same bytes, new mtime/inode)"
		if a.GenPre.SHA != a.GenPost.SHA {
			what = "modified"
		}
		return "must-skip/file-touched", fmt.Sprintf("gen.go was %s: %+v -> %+v", what, a.GenPre, a.GenPost)
	}
	for _, l := range strings.Split(a.Stderr, "\n") {
		if strings.HasPrefix(l, "gen.go:") {
			return "must-skip/description", fmt.Sprintf("the change description was printed for the skipped file: %q", l)
		}
	}
	if strings.Contains(a.Stdout, "genOnlyFn") {
		return "must-skip/output", "stdout shows content of the skipped file (diff or print)"
	}
	stdout, dropped := c18DropGenLines(a.Stdout)
	if !cs.Verbose && len(dropped) > 0 {
		return "must-skip/output", fmt.Sprintf("stdout mentions the skipped file without -v: %q", dropped[0])
	}
	for _, l := range dropped {
		if strings.Contains(l, "patched") {
			return "must-skip/verbose-says-patched", fmt.Sprintf("-v reports the skipped file as patched: %q", l)
		}
	}
	if !cs.Siblings {
		if stdout != "" {
			return "must-skip/output", "stdout is not empty although the only file is skipped"
		}
		if a.Stderr != "" {
			return "must-skip/stderr", "stderr is not empty although the only file is skipped"
		}
		return "", ""
	}
	// With siblings: everything else must be exactly what a run without the
	// flag does when gen.go is not there at all.
	ref := c18Run(cs, "", false, false)
	if ref.StartErr != "" {
		return "", ""
	}
	b := *a
	b.Stdout = stdout
	b.Files = map[string]string{}
	for n, c := range a.Files {
		if n != "gen.go" {
			b.Files[n] = c
		}
	}
	if what, same := c18Same(&b, ref, c18Exact); !same {
		return "must-skip/siblings-differ", fmt.Sprintf("the marker-free sibling files were not processed as without the flag (%s differs)\n--- reference (no flag, gen.go absent): %s", what, c18Describe(ref))
	}
	return "", ""
}

type c18Info struct {
	Verdict  c18Verdict
	Invalid  string // non-empty: the case is not a loadable Go file (not judged)
	Observed string // "skipped", "processed", "" (flag off)
	Harness  string // harness trouble, not judged
}

// evalC18 is the oracle: a pure function of the case.
func evalC18(cs *c18Case) (sig, msg string, info c18Info) {
	if ok, why := c18Valid(cs.Src); !ok {
		info.Invalid = why
		return "", "", info
	}
	v, _ := c18Classify(cs.Src)
	info.Verdict = v
	head := func() string {
		return fmt.Sprintf("reference verdict %q (%s); flag=%v mode=%s verbose=%v siblings=%v spec=%s\ngen.go:\n%s\n", v.V, v.Why, cs.Flag, cs.Mode, cs.Verbose, cs.Siblings, cs.Spec, trunc(cs.Src, 900))
	}

	a := c18Run(cs, cs.Src, true, cs.Flag)
	if a.StartErr != "" {
		info.Harness = a.StartErr
		return "", "", info
	}

	if !cs.Flag {
		// Without the flag the markers have no effect: same outcome as for
		// the file with the marker fragments replaced by innocuous text.
		nsrc := c18NeutralSrc(cs.Src, cs.Markers)
		if nsrc == cs.Src {
			return "", "", info
		}
		if ok, _ := c18Valid(nsrc); !ok {
			info.Invalid = "neutral-variant-invalid"
			return "", "", info
		}
		if nv, _ := c18Classify(nsrc); nv.V != "process" {
			info.Invalid = "neutral-variant-not-neutral"
			return "", "", info
		}
		b := c18Run(cs, nsrc, true, false)
		if b.StartErr != "" {
			info.Harness = b.StartErr
			return "", "", info
		}
		if what, same := c18Same(a, b, c18SameModuloLetters); !same {
			return "flag-off/marker-has-effect", head() + fmt.Sprintf("without --skip-generated the outcome depends on the marker text (%s differs)\n--- with marker: %s\n--- marker replaced by %q: %s",
				what, c18Describe(a), c18NeutralText(strings.Join(cs.Markers, " | ")), c18Describe(b)), info
		}
		return "", "", info
	}

	p := c18Run(cs, cs.Src, true, false) // the same file without the flag
	if p.StartErr != "" {
		info.Harness = p.StartErr
		return "", "", info
	}
	what, sameAsNoFlag := c18Same(a, p, c18Exact)
	switch v.V {
	case "process":
		info.Observed = "processed"
		if !sameAsNoFlag {
			if s, _ := c18SkipCheck(cs, a); s == "" {
				info.Observed = "skipped"
			}
			return "must-process/differs-from-no-flag", head() + fmt.Sprintf("the file has no well-formed marker before its package clause, but --skip-generated changed the outcome (%s differs)\n--- with flag: %s\n--- without flag: %s", what, c18Describe(a), c18Describe(p)), info
		}
	case "skip":
		info.Observed = "skipped"
		if s, m := c18SkipCheck(cs, a); s != "" {
			if sameAsNoFlag {
				info.Observed = "processed"
			}
			return s, head() + "the file is generated code but was not left untouched: " + m + "\n--- with flag: " + c18Describe(a), info
		}
	default: // either: one of the two legal outcomes, nothing in between
		if sameAsNoFlag {
			info.Observed = "processed"
			break
		}
		info.Observed = "skipped"
		if s, m := c18SkipCheck(cs, a); s != "" {
			return "either/neither-skipped-nor-processed", head() + fmt.Sprintf("the outcome is neither that of the run without the flag (%s differs) nor a clean skip (%s: %s)\n--- with flag: %s\n--- without flag: %s", what, s, m, c18Describe(a), c18Describe(p)), info
		}
	}
	return "", "", info
}

// ---------------------------------------------------------------------------
// The enumerated table

type c18Marker struct {
	Kind  string
	Lines []string // in // form
}

var c18Markers = []c18Marker{
	{"wf:tool", []string{"// Code generated by protoc-gen-go. DO NOT EDIT."}},
	{"wf:empty", []string{"// Code generated  DO NOT EDIT."}},
	{"wf:quoted", []string{`// Code generated by "stringer -type=Pill"; DO NOT EDIT.`}},
	{"wf:twice", []string{"// Code generated DO NOT EDIT. DO NOT EDIT."}},
	{"near:lower", []string{"// code generated by tool. DO NOT EDIT."}},
	{"near:title", []string{"// Code Generated by tool. DO NOT EDIT."}},
	{"near:dne-case", []string{"// Code generated by tool. Do Not Edit."}},
	{"near:upper", []string{"// CODE GENERATED BY TOOL. DO NOT EDIT."}},
	{"near:noperiod", []string{"// Code generated by tool. DO NOT EDIT"}},
	{"near:trailspace", []string{"// Code generated by tool. DO NOT EDIT. "}},
	{"near:nospace", []string{"//Code generated by tool. DO NOT EDIT."}},
	{"near:2space", []string{"//  Code generated by tool. DO NOT EDIT."}},
	{"near:tab", []string{"//\tCode generated by tool. DO NOT EDIT."}},
	{"near:1space", []string{"// Code generated DO NOT EDIT."}},
	{"near:dne-only", []string{"// DO NOT EDIT."}},
	{"near:split", []string{"// Code generated by tool.", "// DO NOT EDIT."}},
	{"near:trailtext", []string{"// Code generated by tool. DO NOT EDIT. Really."}},
	{"near:bang", []string{"// Code generated by tool. DO NOT EDIT!"}},
	{"near:glued", []string{"// Code generated by tool.DO NOT EDIT."}},
	{"near:is", []string{"// Code is generated by tool. DO NOT EDIT."}},
	{"near:auto", []string{"// Autogenerated by tool. DO NOT EDIT."}},
	{"at:bare", []string{"// @generated"}},
	{"at:sentence", []string{"// This file is @generated by tool"}},
	{"at:nospace", []string{"//@generated"}},
	{"at:glued", []string{"// see tool@generated.example"}},
	{"at:directive-line", []string{"//lint:file-ignore U1000 @generated by wiregen"}},
	{"at:nolint-line", []string{"//nolint:all // @generated"}},
	{"at:after-directive", []string{"//go:generate wiregen", "// @generated by wiregen"}},
	{"near-at:cap", []string{"// @Generated"}},
	{"near-at:space", []string{"// @ generated"}},
	{"near-at:noat", []string{"// generated"}},
	{"near-at:upper", []string{"// @GENERATED"}},
	{"near-at:short", []string{"// @generate"}},
	{"both:dne-then-at", []string{"// Code generated by tool. DO NOT EDIT. @generated"}},
	{"none", []string{"// An ordinary remark about nothing."}},
}

var c18Styles = []string{"line", "block", "blockline"}

// c18Render gives the comment text of a marker in a style, as lines.
func c18Render(m c18Marker, style string) []string {
	switch style {
	case "block":
		out := make([]string, len(m.Lines))
		for i, l := range m.Lines {
			out[i] = l[2:]
		}
		out[0] = "/*" + out[0]
		out[len(out)-1] += " */"
		return out
	case "blockline":
		out := []string{"/*"}
		out = append(out, m.Lines...)
		return append(out, "*/")
	}
	return append([]string(nil), m.Lines...)
}

const (
	c18L  = "// Copyright (c) 2024 Example Authors.\n//\n// Use of this source code is governed by an MIT-style licence.\n"
	c18Lb = "/*\n * Copyright 2024 Example Authors.\n */\n"
	c18B  = "//go:build !c18never\n"
	c18D  = "// Package p counts things.\n"
)

// Long blocks: a generated-code marker may sit behind (or the package clause
// behind) more text than any fixed-size read-ahead buffer holds.
var (
	c18LL = func() string { // about 7 KB of line comments
		var b strings.Builder
		b.WriteString("// Copyright (c) 2024 Example Authors.\n//\n")
		for i := 0; i < 110; i++ {
			fmt.Fprintf(&b, "// Licence paragraph line %03d: permission is hereby granted, free of charge.\n", i)
		}
		return b.String()
	}()
	c18XL = func() string { // about 70 KB
		var b strings.Builder
		b.WriteString("// Copyright (c) 2024 Example Authors.\n//\n")
		for i := 0; i < 1100; i++ {
			fmt.Fprintf(&b, "// Licence paragraph line %04d: permission is hereby granted, free of charge.\n", i)
		}
		return b.String()
	}()
	c18LLb = "/*\n" + strings.Repeat(" * a long block comment line after the package clause, nothing to see here\n", 90) + " */\n"
)

type c18Shape struct {
	Name  string
	Place string
	// Build returns the file; m is the rendered marker (lines). ok=false when
	// the style cannot be put there.
	Build func(m []string, style string) (src string, ok bool)
}

func c18Blk(m []string, indent string) string {
	var sb strings.Builder
	for _, l := range m {
		sb.WriteString(indent + l + "\n")
	}
	return sb.String()
}

func c18Shapes() []c18Shape {
	pkg := "package p\n"
	pre := func(name, place string, f func(M string) string) c18Shape {
		return c18Shape{name, place, func(m []string, style string) (string, bool) {
			return f(c18Blk(m, "")) + c18Tail, true
		}}
	}
	shapes := []c18Shape{
		pre("M__P", "detached", func(M string) string { return M + "\n" + pkg }),
		pre("M_P", "doc", func(M string) string { return M + pkg }),
		pre("L__M__P", "detached", func(M string) string { return c18L + "\n" + M + "\n" + pkg }),
		pre("L__M_P", "doc", func(M string) string { return c18L + "\n" + M + pkg }),
		pre("M__L__P", "detached", func(M string) string { return M + "\n" + c18L + "\n" + pkg }),
		pre("M__L_P", "detached", func(M string) string { return M + "\n" + c18L + pkg }),
		pre("B__M__P", "detached", func(M string) string { return c18B + "\n" + M + "\n" + pkg }),
		pre("B__M_P", "doc", func(M string) string { return c18B + "\n" + M + pkg }),
		pre("M__B__P", "detached", func(M string) string { return M + "\n" + c18B + "\n" + pkg }),
		pre("M_B__P", "detached", func(M string) string { return M + c18B + "\n" + pkg }),
		pre("L__B__M__D_P", "detached", func(M string) string { return c18L + "\n" + c18B + "\n" + M + "\n" + c18D + pkg }),
		pre("M__L__B__D_P", "detached", func(M string) string { return M + "\n" + c18L + "\n" + c18B + "\n" + c18D + pkg }),
		pre("M__D_P", "detached", func(M string) string { return M + "\n" + c18D + pkg }),
		pre("D_M_P", "doc", func(M string) string { return c18D + M + pkg }),
		pre("M_D_P", "doc", func(M string) string { return M + c18D + pkg }),
		pre("D_x_M_P", "doc", func(M string) string { return c18D + "//\n" + M + pkg }),
		pre("M_x_D_P", "doc", func(M string) string { return M + "//\n" + c18D + pkg }),
		pre("L_M__P", "detached", func(M string) string { return c18L + M + "\n" + pkg }),
		pre("L_M_P", "doc", func(M string) string { return c18L + M + pkg }),
		pre("__M__P", "detached", func(M string) string { return "\n\n" + M + "\n" + pkg }),
		pre("M____P", "detached", func(M string) string { return M + "\n\n\n" + pkg }),
		pre("Lb__M__P", "detached", func(M string) string { return c18Lb + "\n" + M + "\n" + pkg }),
		pre("Lb_M_P", "doc", func(M string) string { return c18Lb + M + pkg }),
		pre("L__M__D__P", "detached", func(M string) string { return c18L + "\n" + M + "\n" + c18D + "\n" + pkg }),
		pre("LL__M__P", "detached", func(M string) string { return c18LL + "\n" + M + "\n" + pkg }),
		pre("LL__M_P", "doc", func(M string) string { return c18LL + "\n" + M + pkg }),
		pre("M__LL__P", "detached", func(M string) string { return M + "\n" + c18LL + "\n" + pkg }),
		pre("XL__M__D_P", "detached", func(M string) string { return c18XL + "\n" + M + "\n" + c18D + pkg }),
		pre("M__P_LLb", "detached", func(M string) string { return M + "\n" + "package p " + c18LLb }),
		{"tabM__P", "detached-indented", func(m []string, style string) (string, bool) {
			return c18Blk(m, "\t") + "\n" + pkg + c18Tail, true
		}},
		{"spM_P", "doc-indented", func(m []string, style string) (string, bool) {
			return c18Blk(m, " ") + pkg + c18Tail, true
		}},
		{"cM__P", "detached-after-comment", func(m []string, style string) (string, bool) {
			return "/* note */ " + c18Blk(m, "") + "\n" + pkg + c18Tail, true
		}},
		{"D_cM_P", "doc-after-comment", func(m []string, style string) (string, bool) {
			return c18D + "/* note */ " + c18Blk(m, "") + pkg + c18Tail, true
		}},
		{"MP", "sameline-before", func(m []string, style string) (string, bool) {
			if style == "line" {
				return "", false
			}
			return strings.Join(m, "\n") + " " + pkg + c18Tail, true
		}},
		{"D_MP", "sameline-before", func(m []string, style string) (string, bool) {
			if style == "line" {
				return "", false
			}
			return c18D + strings.Join(m, "\n") + " " + pkg + c18Tail, true
		}},
	}
	// Placements after the package clause, under two different marker-free headers.
	for _, h := range []struct{ name, text string }{{"", ""}, {"L__D_", c18L + "\n" + c18D}, {"B__", c18B + "\n"}} {
		h := h
		if h.name == "B__" {
			// The build-tag header is combined with one placement only.
			shapes = append(shapes, c18Shape{h.name + "P__M", "after", func(m []string, style string) (string, bool) {
				return h.text + pkg + "\n" + c18Blk(m, "") + c18Tail, true
			}})
			continue
		}
		shapes = append(shapes,
			c18Shape{h.name + "PM", "sameline-after", func(m []string, style string) (string, bool) {
				return h.text + "package p " + strings.Join(m, "\n") + "\n" + c18Tail, true
			}},
			c18Shape{h.name + "P__M", "after", func(m []string, style string) (string, bool) {
				return h.text + pkg + "\n" + c18Blk(m, "") + c18Tail, true
			}},
			c18Shape{h.name + "P_M", "after", func(m []string, style string) (string, bool) {
				return h.text + pkg + c18Blk(m, "") + c18Tail, true
			}},
			c18Shape{h.name + "P__M_func", "decl-doc", func(m []string, style string) (string, bool) {
				return h.text + pkg + "\n" + c18Blk(m, "") + c18Tail[1:], true
			}},
			c18Shape{h.name + "P__body", "body", func(m []string, style string) (string, bool) {
				tail := strings.Replace(c18Tail, "\treturn cnt(0)\n", c18Blk(m, "\t")+"\treturn cnt(0)\n", 1)
				return h.text + pkg + tail, true
			}},
			// after the clause, and further down a raw string with a line
			// that reads like another package clause
			c18Shape{h.name + "P__M__rawpkg", "after", func(m []string, style string) (string, bool) {
				return h.text + pkg + "\n" + c18Blk(m, "") + "\nvar c18tmpl = `\npackage q\n\nfunc G() {}\n`\n" + c18Tail, true
			}},
			c18Shape{h.name + "P__eof", "end-of-file", func(m []string, style string) (string, bool) {
				return h.text + pkg + c18Tail + "\n" + c18Blk(m, ""), true
			}},
		)
	}
	return shapes
}

type c18Entry struct {
	Name                        string
	Src                         string
	Markers                     []string
	Shape, Marker, Style, Place string
}

func c18Table() []c18Entry {
	var es []c18Entry
	for _, sh := range c18Shapes() {
		for _, m := range c18Markers {
			for _, st := range c18Styles {
				r := c18Render(m, st)
				src, ok := sh.Build(r, st)
				if !ok {
					continue
				}
				var frags []string
				for _, l := range r {
					if strings.Trim(l, "/* ") != "" {
						frags = append(frags, l)
					}
				}
				es = append(es, c18Entry{Name: sh.Name + "|" + m.Kind + "|" + st, Src: src, Markers: frags, Shape: sh.Name, Marker: m.Kind, Style: st, Place: sh.Place})
			}
		}
	}
	// Controls without any marker block.
	for _, h := range []struct{ name, text string }{{"bare", ""}, {"L__D_", c18L + "\n" + c18D}, {"L__B__D_", c18L + "\n" + c18B + "\n" + c18D}} {
		es = append(es, c18Entry{Name: "nomarker|" + h.name, Src: h.text + "package p\n" + c18Tail, Shape: "nomarker:" + h.name, Marker: "absent", Style: "-", Place: "-"})
	}
	return es
}

var c18Modes = []string{"inplace", "diff", "print"}

// c18Variants lists the configurations evaluated for a table entry.
func c18Variants(e c18Entry, full bool) []*c18Case {
	mk := func(flag bool, mode string, verbose, siblings bool, spec string) *c18Case {
		return &c18Case{Src: e.Src, Markers: e.Markers, Flag: flag, Mode: mode, Verbose: verbose, Siblings: siblings, Spec: spec,
			Shape: e.Shape, Marker: e.Marker, Style: e.Style, Place: e.Place}
	}
	h := evid.Hash("c18", e.Name)
	bit := func(i uint) bool { return h>>i&1 == 1 }
	spec := func(b bool) string {
		if b {
			return "files"
		}
		return "dot"
	}
	if !full {
		// Quick: the table once in place with the flag, plus one other mode
		// with the flag and one mode without the flag, spread by a hash of the
		// entry so that no choice is tied to the style or the marker.
		// The flag-off case reuses the configuration of one of the other two
		// (its first run is their no-flag reference run, which is memoised).
		a := mk(true, "inplace", bit(0) && bit(1), bit(2), spec(bit(3)))
		b := mk(true, c18Modes[1+int(h>>4&1)], bit(5), bit(6), spec(bit(7)))
		off := *b
		if h>>8%3 == 0 {
			off = *a
		}
		off.Flag = false
		// Entries whose reference verdict is must-process (four fifths of the
		// table) get the second mode and the flag-off run for every other
		// entry only; the full cross product is the thorough tier's job.
		out := []*c18Case{a}
		v, _ := c18Classify(e.Src)
		if v.V != "process" || bit(20) {
			out = append(out, b)
		}
		if v.V != "process" || bit(21) {
			out = append(out, &off)
		}
		return out
	}
	var out []*c18Case
	i := uint(0)
	for _, flag := range []bool{true, false} {
		for _, mode := range c18Modes {
			for _, verbose := range []bool{false, true} {
				for _, sib := range []bool{false, true} {
					out = append(out, mk(flag, mode, verbose, sib, spec(bit(i%48))))
					i++
				}
			}
		}
	}
	return out
}

// ---------------------------------------------------------------------------
// Random compositions

var c18TextGen = rapid.StringMatching(`[A-Za-z0-9 .;:"'=/@_-]{0,24}`)

// c18DrawMarker draws a marker in // form (one or two lines) and a label.
func c18DrawMarker(rt *rapid.T) ([]string, string) {
	switch rapid.IntRange(0, 6).Draw(rt, "markerSource") {
	case 0, 1: // from the table
		m := c18Markers[rapid.IntRange(0, len(c18Markers)-1).Draw(rt, "tableMarker")]
		return append([]string(nil), m.Lines...), "table:" + strings.SplitN(m.Kind, ":", 2)[0]
	case 2: // well-formed with drawn text
		return []string{"// Code generated " + c18TextGen.Draw(rt, "text") + " DO NOT EDIT."}, "wf-text"
	case 3, 4: // one-character edit of a well-formed marker
		base := []byte("// Code generated " + rapid.SampledFrom([]string{"by tool.", "", "by a b c;", "x"}).Draw(rt, "base") + " DO NOT EDIT.")
		at := rapid.IntRange(0, len(base)-1).Draw(rt, "editAt")
		switch rapid.IntRange(0, 4).Draw(rt, "editOp") {
		case 0: // delete
			base = append(base[:at:at], base[at+1:]...)
		case 1: // duplicate
			base = append(base[:at+1:at+1], base[at:]...)
		case 2: // flip case
			ch := base[at]
			switch {
			case ch >= 'a' && ch <= 'z':
				base[at] = ch - 32
			case ch >= 'A' && ch <= 'Z':
				base[at] = ch + 32
			default:
				base[at] = ' '
			}
		case 3: // replace
			base[at] = rapid.SampledFrom([]byte(" ._x/!\t")).Draw(rt, "editChar")
		case 4: // insert a space
			base = append(base[:at:at], append([]byte{' '}, base[at:]...)...)
		}
		return []string{string(base)}, "wf-edit"
	case 5: // @generated in context
		tag := rapid.SampledFrom([]string{"@generated", "@generated", "@generated", "@Generated", "@ generated", "generated", "@generatedby", "x@generated", "@generated."}).Draw(rt, "tag")
		pre := rapid.SampledFrom([]string{"", "", "This file is ", "NOTE: ", "@nolint "}).Draw(rt, "tagPre")
		post := rapid.SampledFrom([]string{"", "", " by tool", " SignedSource<<abc>>"}).Draw(rt, "tagPost")
		sp := rapid.SampledFrom([]string{" ", " ", ""}).Draw(rt, "tagSp")
		return []string{"//" + sp + pre + tag + post}, "at-context"
	default: // two well-formed lines or a well-formed line plus @generated
		return []string{"// Code generated by tool. DO NOT EDIT.", "// @generated"}, "wf+at"
	}
}

func c18DrawCase(rt *rapid.T) *c18Case {
	cs := &c18Case{Shape: "random"}
	var src strings.Builder
	var labels []string
	addMarker := func(where string) (lines []string) {
		m, label := c18DrawMarker(rt)
		style := rapid.SampledFrom([]string{"line", "line", "block", "blockline"}).Draw(rt, "style")
		r := c18Render(c18Marker{Lines: m}, style)
		for _, l := range r {
			if strings.Trim(l, "/* \t") != "" {
				cs.Markers = append(cs.Markers, l)
			}
		}
		if where == "sameline-before" && style == "line" {
			where = "sameline-after" // a // comment cannot precede `package` on its line
		}
		labels = append(labels, "where:"+where, "kind:"+label, "style:"+style)
		return r
	}
	nItems := rapid.IntRange(0, 5).Draw(rt, "headerItems")
	for i := 0; i < nItems; i++ {
		switch rapid.IntRange(0, 7).Draw(rt, "item") {
		case 0:
			src.WriteString(c18L)
		case 1:
			src.WriteString(c18Lb)
		case 2:
			src.WriteString(c18B)
		case 3:
			src.WriteString(c18D)
		case 4:
			src.WriteString("// An ordinary remark.\n")
		default:
			r := addMarker("pre")
			indent := rapid.SampledFrom([]string{"", "", "", "", "\t", " "}).Draw(rt, "indent")
			if rapid.IntRange(0, 9).Draw(rt, "afterComment") == 0 {
				src.WriteString("/* note */ ")
			}
			src.WriteString(c18Blk(r, indent))
		}
		src.WriteString(strings.Repeat("\n", rapid.SampledFrom([]int{0, 0, 1, 1, 1, 2}).Draw(rt, "blank")))
	}
	switch rapid.IntRange(0, 9).Draw(rt, "pkgLine") {
	case 0:
		r := addMarker("sameline-before")
		if strings.HasPrefix(r[0], "//") {
			// A // comment cannot precede `package` on its line; put it behind.
			src.WriteString("package p " + strings.Join(r, "\n") + "\n")
		} else {
			src.WriteString(strings.Join(r, "\n") + " package p\n")
		}
	case 1:
		r := addMarker("sameline-after")
		src.WriteString("package p " + strings.Join(r, "\n") + "\n")
	default:
		src.WriteString("package p\n")
	}
	tail := c18Tail
	if rapid.IntRange(0, 3).Draw(rt, "after") == 0 {
		r := addMarker("after")
		src.WriteString(strings.Repeat("\n", rapid.IntRange(0, 1).Draw(rt, "afterBlank")) + c18Blk(r, ""))
	}
	if rapid.IntRange(0, 5).Draw(rt, "body") == 0 {
		r := addMarker("body")
		tail = strings.Replace(tail, "\treturn cnt(0)\n", c18Blk(r, "\t")+"\treturn cnt(0)\n", 1)
	}
	src.WriteString(tail)
	cs.Src = src.String()
	cs.Marker = strings.Join(labels, ",")
	cs.Flag = rapid.IntRange(0, 3).Draw(rt, "flag") != 0
	cs.Mode = rapid.SampledFrom(c18Modes).Draw(rt, "mode")
	cs.Verbose = rapid.IntRange(0, 3).Draw(rt, "verbose") == 0
	cs.Siblings = rapid.Bool().Draw(rt, "siblings")
	cs.Spec = rapid.SampledFrom([]string{"dot", "files"}).Draw(rt, "spec")
	return cs
}

// ---------------------------------------------------------------------------
// Test

// c18HasMarker is the non-trivial rule: the file carries at least one marker
// or near-miss (anything but an ordinary remark).
func c18HasMarker(cs *c18Case) bool {
	for _, m := range cs.Markers {
		if !strings.Contains(m, "ordinary remark") {
			return true
		}
	}
	return false
}

func c18Record(c *evid.Collector, cs *c18Case, info c18Info, part string) {
	if info.Invalid != "" {
		c.Note("discarded:" + info.Invalid)
		return
	}
	if info.Harness != "" {
		c.Note("harness-trouble")
		return
	}
	flag := "off"
	if cs.Flag {
		flag = "on"
	}
	classes := []string{"part:" + part, "verdict:" + info.Verdict.V, "flag:" + flag, "mode:" + cs.Mode,
		"config:flag-" + flag + "/" + info.Verdict.V + "/" + cs.Mode}
	if cs.Verbose {
		classes = append(classes, "verbose")
	}
	if cs.Siblings {
		classes = append(classes, "siblings")
	}
	classes = append(classes, "spec:"+cs.Spec)
	if info.Observed != "" {
		classes = append(classes, "observed:"+info.Verdict.V+"->"+info.Observed)
	}
	if part == "table" {
		classes = append(classes, "place:"+cs.Place, "style:"+cs.Style, "marker:"+cs.Marker)
	} else {
		for _, l := range strings.Split(cs.Marker, ",") {
			if l != "" {
				classes = append(classes, "random:"+l)
			}
		}
		classes = append(classes, fmt.Sprintf("random:markers=%d", strings.Count(cs.Marker, "where:")))
	}
	h := evid.Hash(cs.Src, fmt.Sprint(cs.Flag, cs.Verbose, cs.Siblings), cs.Mode, cs.Spec)
	c.Case(h, c18HasMarker(cs), classes...)
	if c.WantSample() {
		c.Sample(map[string]any{"gen.go": trunc(cs.Src, 400), "flag": cs.Flag, "mode": cs.Mode, "verbose": cs.Verbose, "siblings": cs.Siblings,
			"verdict": info.Verdict.V, "why": info.Verdict.Why, "observed": info.Observed})
	}
}

func TestC18(t *testing.T) {
	c := coll("C18")
	k, n := shard()

	// Part 1: the enumerated table.
	table := c18Table()
	if k == 0 {
		c.ClassN("table-entries-total", len(table))
	}
	for i, e := range table {
		if i%n != k {
			continue
		}
		c.Class("table-entries")
		for _, cs := range c18Variants(e, thorough()) {
			sig, msg, info := evalC18(cs)
			if info.Invalid != "" {
				t.Fatalf("harness bug: table entry %s is not judged (%s):\n%s", e.Name, info.Invalid, cs.Src)
			}
			c18Record(c, cs, info, "table")
			if sig != "" {
				violate(t, "C18", sig, msg, cs)
			}
			// The same file without a site: nothing matches in gen.go. A
			// generated file must still not be echoed by --print-only, and
			// everything else must behave as without the flag.
			if cs.Flag && (cs.Mode == "print" || i%4 == 0) && strings.Contains(cs.Src, "\treturn cnt(0)\n") {
				nm := *cs
				nm.Src = strings.Replace(cs.Src, "\treturn cnt(0)\n", "\treturn other(0)\n", 1)
				nm.Place += "/no-site"
				sig, msg, info := evalC18(&nm)
				if info.Invalid == "" {
					c18Record(c, &nm, info, "table-no-site")
					if sig != "" {
						violate(t, "C18", sig, msg, &nm)
					}
				}
			}
		}
	}
	if t.Failed() {
		return
	}

	// Part 2: random compositions.
	checkN(t, func(rt *rapid.T) {
		cs := c18DrawCase(rt)
		if rapid.IntRange(0, 4).Draw(rt, "noSite") == 0 {
			cs.Src = strings.Replace(cs.Src, "\treturn cnt(0)\n", "\treturn other(0)\n", 1)
			cs.Place += "/no-site"
		}
		sig, msg, info := evalC18(cs)
		c18Record(c, cs, info, "random")
		if sig != "" {
			violate(rt, "C18", sig, msg, cs)
		}
	})
	c.ClassN("cli-runs", c18Runs)
	if t.Failed() {
		return
	}
	// Part 3: several generated files in one run.
	c18nRun(t)
}

func TestReplayC18(t *testing.T) {
	var probe struct {
		Files []c18nFile `json:"files"`
	}
	if !loadReplay(t, "C18", &probe) {
		return
	}
	if len(probe.Files) > 0 {
		var nc c18nCase
		loadReplay(t, "C18", &nc)
		if sig, msg, _, _ := evalC18n(&nc); sig != "" {
			violate(t, "C18", sig, msg, &nc)
		}
		return
	}
	var cs c18Case
	if !loadReplay(t, "C18", &cs) {
		return
	}
	sig, msg, info := evalC18(&cs)
	t.Logf("verdict=%s (%s) observed=%s invalid=%q sig=%q", info.Verdict.V, info.Verdict.Why, info.Observed, info.Invalid, sig)
	if sig != "" {
		violate(t, "C18", sig, msg, &cs)
	}
}

// TestC18Classifier pins the reference predicate on hand-written examples.
func TestC18Classifier(t *testing.T) {
	for _, tc := range []struct{ src, want string }{
		{"// Code generated by x. DO NOT EDIT.\n\npackage p\n", "skip"},
		{"// Code generated  DO NOT EDIT.\npackage p\n", "skip"},
		{"// Code generated DO NOT EDIT.\npackage p\n", "process"},
		{"//go:build x\n\n// Code generated by x. DO NOT EDIT.\n\n// Package p.\npackage p\n", "skip"},
		{"\t// Code generated by x. DO NOT EDIT.\n\npackage p\n", "either"},
		{"/* Code generated by x. DO NOT EDIT. */\n\npackage p\n", "either"},
		{"/*\n// Code generated by x. DO NOT EDIT.\n*/\npackage p\n", "either"},
		{"/* Code generated by x. DO NOT EDIT */\n\npackage p\n", "process"},
		{"// Code generated by x. DO NOT EDIT. \n\npackage p\n", "process"},
		{"// code generated by x. DO NOT EDIT.\n\npackage p\n", "process"},
		{"package p\n// Code generated by x. DO NOT EDIT.\n", "process"},
		{"package p // Code generated by x. DO NOT EDIT.\n", "process"},
		{"// @generated\npackage p\n", "skip"},
		{"// Package p.\n// @generated\npackage p\n", "skip"},
		{"/* @generated */\npackage p\n", "skip"},
		{"// @generated\n\npackage p\n", "either"},
		{"// @generated\n\n// Package p.\npackage p\n", "either"},
		{"/* @generated */ package p\n", "either"},
		{"// @generated\n/* x */ package p\n", "either"},
		{"// x@generated.y\npackage p\n", "either"},
		{"// @Generated\npackage p\n", "process"},
		{"package p // @generated\n", "process"},
		{"package p\n", "process"},
	} {
		v, ok := c18Classify(tc.src)
		if !ok || v.V != tc.want {
			t.Errorf("classify(%q) = %q (%s), ok=%v; want %q", tc.src, v.V, v.Why, ok, tc.want)
		}
		if ok, why := c18Valid(tc.src + "\nfunc f() {}\n"); !ok {
			t.Errorf("valid(%q): %s", tc.src, why)
		}
	}
}
