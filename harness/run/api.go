// Package run executes gopatch, either in-process through the library API
// (behind recover and a watchdog) or as a subprocess built from /repo's
// working tree, and records everything the oracles look at.
package run

import (
	"fmt"
	"runtime"
	"runtime/debug"
	"strings"
	"time"

	"github.com/uber-go/gopatch/patch"
)

// APIResult is the outcome of patch.Parse followed by File.Apply.
type APIResult struct {
	ParseErr string // non-empty: patch.Parse returned an error
	ApplyErr string // non-empty: Apply returned an error
	Out      []byte // Apply's result when both succeeded
	Panic    string // non-empty: a panic was recovered (value + stack)
	PanicIn  string // "parse" or "apply"
	Hang     bool   // the watchdog fired
	Dur      time.Duration
	HeapGrow uint64 // bytes of heap growth observed by the watchdog (approximate)
}

// OK reports whether gopatch produced a result without error, panic or hang.
func (r *APIResult) OK() bool {
	return r.ParseErr == "" && r.ApplyErr == "" && r.Panic == "" && !r.Hang
}

// Failed reports a panic or a hang.
func (r *APIResult) Failed() bool { return r.Panic != "" || r.Hang }

// PanicSite returns the innermost gopatch frame of a recovered panic, as
// "pkg.Func", and the first line of the panic value. It is the signature used
// to tell root causes apart.
func (r *APIResult) PanicSite() (site, msg string) {
	if r.Panic == "" {
		return "", ""
	}
	lines := strings.Split(r.Panic, "\n")
	msg = lines[0]
	for _, l := range lines[1:] {
		l = strings.TrimSpace(l)
		if strings.HasPrefix(l, "github.com/uber-go/gopatch/") && !strings.Contains(l, "/verif/") {
			if i := strings.Index(l, "("); i > 0 {
				l = l[:i]
			}
			l = strings.TrimPrefix(l, "github.com/uber-go/gopatch/")
			return l, msg
		}
	}
	return "?", msg
}

// DefaultTimeout is far above the normal run time of a small case (< 5 ms).
var DefaultTimeout = 10 * time.Second

// API runs Parse and Apply with a watchdog. A hang leaves a goroutine
// spinning; callers must treat the process as tainted and finish quickly.
func API(patchName string, patchSrc []byte, fileName string, fileSrc []byte) *APIResult {
	pf, res := ParseOnly(patchName, patchSrc)
	if pf == nil {
		return res
	}
	r2 := ApplyParsed(pf, fileName, fileSrc)
	r2.Dur += res.Dur
	return r2
}

// ParseOnly runs patch.Parse behind recover and the watchdog.
func ParseOnly(patchName string, patchSrc []byte) (*patch.File, *APIResult) {
	var pf *patch.File
	res := guarded("parse", func(r *APIResult) {
		f, err := patch.Parse(patchName, patchSrc)
		if err != nil {
			r.ParseErr = err.Error()
			if r.ParseErr == "" {
				r.ParseErr = "<empty error text>"
			}
			return
		}
		pf = f
	})
	if res.Failed() || res.ParseErr != "" {
		return nil, res
	}
	return pf, res
}

// ApplyParsed runs Apply on an already parsed patch.
func ApplyParsed(pf *patch.File, fileName string, fileSrc []byte) *APIResult {
	return guarded("apply", func(r *APIResult) {
		out, err := pf.Apply(fileName, fileSrc)
		if err != nil {
			r.ApplyErr = err.Error()
			if r.ApplyErr == "" {
				r.ApplyErr = "<empty error text>"
			}
			return
		}
		r.Out = out
	})
}

func guarded(stage string, f func(*APIResult)) *APIResult {
	res := &APIResult{}
	done := make(chan struct{})
	start := time.Now()
	go func() {
		defer close(done)
		defer func() {
			if p := recover(); p != nil {
				res.Panic = fmt.Sprintf("%v\n%s", p, debug.Stack())
				res.PanicIn = stage
			}
		}()
		f(res)
	}()
	timer := time.NewTimer(DefaultTimeout)
	defer timer.Stop()
	select {
	case <-done:
		res.Dur = time.Since(start)
		return res
	case <-timer.C:
		var ms runtime.MemStats
		runtime.ReadMemStats(&ms)
		return &APIResult{Hang: true, PanicIn: stage, Dur: time.Since(start), HeapGrow: ms.HeapAlloc}
	}
}
