package run

import (
	"bytes"
	"context"
	"crypto/sha256"
	"encoding/hex"
	"errors"
	"fmt"
	"io/fs"
	"os"
	"os/exec"
	"path/filepath"
	"sort"
	"strings"
	"syscall"
	"time"
)

// CLIResult is the outcome of one gopatch subprocess.
type CLIResult struct {
	Exit     int    // exit status; -1 when killed by a signal or not started
	Signal   string // name of the terminating signal, if any
	Stdout   []byte
	Stderr   []byte
	TimedOut bool
	StartErr string
	Dur      time.Duration
}

// Crashed reports a Go runtime panic/fatal error or death by signal.
func (r *CLIResult) Crashed() bool {
	if r.Signal != "" && !r.TimedOut {
		return true
	}
	s := string(r.Stderr)
	return strings.Contains(s, "panic: ") || strings.Contains(s, "fatal error: ") || strings.Contains(s, "goroutine 1 [")
}

// Bin is the gopatch binary under test (built by the driver from /repo).
func Bin() string {
	if b := os.Getenv("VERIF_GOPATCH"); b != "" {
		return b
	}
	return "gopatch"
}

// CLITimeout bounds one subprocess; far above the normal ~10 ms.
var CLITimeout = 60 * time.Second

// CLI runs the gopatch binary.
func CLI(cwd string, stdin []byte, args ...string) *CLIResult {
	return CLIWrapped(nil, cwd, stdin, args...)
}

// CLIWrapped runs the binary under a wrapper command (e.g. prlimit, strace).
func CLIWrapped(wrapper []string, cwd string, stdin []byte, args ...string) *CLIResult {
	return CLIEnv(nil, wrapper, cwd, stdin, args...)
}

// CLIEnv is CLIWrapped with extra environment entries ("K=V").
func CLIEnv(env []string, wrapper []string, cwd string, stdin []byte, args ...string) *CLIResult {
	ctx, cancel := context.WithTimeout(context.Background(), CLITimeout)
	defer cancel()
	argv := append(append([]string{}, wrapper...), Bin())
	argv = append(argv, args...)
	cmd := exec.CommandContext(ctx, argv[0], argv[1:]...)
	cmd.Dir = cwd
	cmd.Stdin = bytes.NewReader(stdin)
	var so, se bytes.Buffer
	cmd.Stdout, cmd.Stderr = &so, &se
	cmd.Env = append(append(os.Environ(), "GOTRACEBACK=all"), env...)
	cmd.WaitDelay = 2 * time.Second
	start := time.Now()
	err := cmd.Run()
	res := &CLIResult{Stdout: so.Bytes(), Stderr: se.Bytes(), Dur: time.Since(start)}
	if ctx.Err() != nil {
		res.TimedOut = true
	}
	if err != nil {
		var ee *exec.ExitError
		if errors.As(err, &ee) {
			res.Exit = ee.ExitCode()
			if ws, ok := ee.Sys().(syscall.WaitStatus); ok && ws.Signaled() {
				res.Signal = ws.Signal().String()
				res.Exit = -1
			}
		} else {
			res.Exit = -1
			res.StartErr = err.Error()
		}
	}
	return res
}

// Entry describes one directory entry in a snapshot.
type Entry struct {
	Type   string // "file", "dir", "symlink", "other"
	Mode   fs.FileMode
	Size   int64
	MTime  int64 // ns
	Inode  uint64
	SHA    string // regular files
	Target string // symlinks
}

// Snapshot records every entry below root (root itself excluded), without
// following symlinks. Keys are slash-separated paths relative to root.
func Snapshot(root string) (map[string]Entry, error) {
	out := map[string]Entry{}
	err := filepath.WalkDir(root, func(p string, d fs.DirEntry, err error) error {
		if err != nil {
			return err
		}
		if p == root {
			return nil
		}
		rel, _ := filepath.Rel(root, p)
		rel = filepath.ToSlash(rel)
		info, err := os.Lstat(p)
		if err != nil {
			return err
		}
		e := Entry{Mode: info.Mode(), Size: info.Size(), MTime: info.ModTime().UnixNano()}
		if st, ok := info.Sys().(*syscall.Stat_t); ok {
			e.Inode = st.Ino
		}
		switch {
		case info.Mode().IsRegular():
			e.Type = "file"
			b, err := os.ReadFile(p)
			if err != nil {
				e.SHA = "unreadable:" + err.Error()
			} else {
				s := sha256.Sum256(b)
				e.SHA = hex.EncodeToString(s[:])
			}
		case info.IsDir():
			e.Type = "dir"
			e.Size = 0
			e.MTime = 0 // directory mtimes change when entries are created; entries are compared instead
		case info.Mode()&fs.ModeSymlink != 0:
			e.Type = "symlink"
			e.Target, _ = os.Readlink(p)
		default:
			e.Type = "other"
		}
		out[rel] = e
		return nil
	})
	return out, err
}

// DiffSnapshots lists the differences between two snapshots, sorted.
func DiffSnapshots(before, after map[string]Entry) []string {
	var d []string
	for k, b := range before {
		a, ok := after[k]
		if !ok {
			d = append(d, "removed "+k)
			continue
		}
		if a != b {
			d = append(d, fmt.Sprintf("changed %s: %+v -> %+v", k, b, a))
		}
	}
	for k := range after {
		if _, ok := before[k]; !ok {
			d = append(d, "created "+k)
		}
	}
	sort.Strings(d)
	return d
}

// WriteTree creates files (path -> content) below root, creating parents.
func WriteTree(root string, files map[string]string) error {
	for p, c := range files {
		full := filepath.Join(root, filepath.FromSlash(p))
		if err := os.MkdirAll(filepath.Dir(full), 0o755); err != nil {
			return err
		}
		if err := os.WriteFile(full, []byte(c), 0o644); err != nil {
			return err
		}
	}
	return nil
}

// TempDir makes a fresh directory for one case below $VERIF_TMP (set by the
// driver to a directory inside /verif/.build) or the system temp directory.
func TempDir(prefix string) (string, func()) {
	base := os.Getenv("VERIF_TMP")
	if base == "" {
		base = os.TempDir()
	}
	_ = os.MkdirAll(base, 0o755)
	d, err := os.MkdirTemp(base, prefix)
	if err != nil {
		panic(err)
	}
	// Resolve symlinks so that absolute paths printed by gopatch compare equal.
	if r, err := filepath.EvalSymlinks(d); err == nil {
		d = r
	}
	return d, func() {
		// Make everything removable again (cases may chmod entries).
		_ = filepath.WalkDir(d, func(p string, de fs.DirEntry, err error) error {
			if err == nil && de.IsDir() {
				_ = os.Chmod(p, 0o755)
			}
			return nil
		})
		_ = os.RemoveAll(d)
	}
}
