// Package evid accumulates what a check run actually covered and writes it
// out as one JSON document per shard process. The driver (cmd/vcheck) merges
// the shard documents into /verif/evidence/<ID>.json.
package evid

import (
	"crypto/sha256"
	"encoding/binary"
	"encoding/json"
	"fmt"
	"os"
	"sort"
	"sync"
)

// Violation is one failing case that is not a listed known finding.
type Violation struct {
	Message string `json:"message"`
	Replay  string `json:"replay"` // path of the replay file written for it
}

// Shard is the document a shard process writes.
type Shard struct {
	Property     string         `json:"property"`
	Evaluations  int            `json:"evaluations"`
	Nontrivial   []uint64       `json:"nontrivial_hashes"`
	Classes      map[string]int `json:"classes"`
	Samples      []any          `json:"samples"`
	Known        map[string]int `json:"known_findings"` // finding id -> hits
	Foreign      map[string]int `json:"foreign"`        // discrepancies that contradict another property
	Notes        map[string]int `json:"notes"`
	Violations   []Violation    `json:"violations"`
	Exhaustive   bool           `json:"exhaustive"`
	Inconclusive string         `json:"inconclusive,omitempty"`
}

// Collector is safe for concurrent use.
type Collector struct {
	mu      sync.Mutex
	s       Shard
	seen    map[uint64]struct{}
	maxSamp int
	sampleN int
}

// New returns a collector for a property.
func New(prop string) *Collector {
	return &Collector{
		s: Shard{
			Property: prop,
			Classes:  map[string]int{},
			Known:    map[string]int{},
			Foreign:  map[string]int{},
			Notes:    map[string]int{},
		},
		seen:    map[uint64]struct{}{},
		maxSamp: 6,
	}
}

// Hash returns a 64-bit digest of the parts, used to count distinct cases.
func Hash(parts ...string) uint64 {
	h := sha256.New()
	for _, p := range parts {
		var l [8]byte
		binary.LittleEndian.PutUint64(l[:], uint64(len(p)))
		h.Write(l[:])
		h.Write([]byte(p))
	}
	return binary.LittleEndian.Uint64(h.Sum(nil)[:8])
}

// Case records one evaluated case. hash identifies it for distinct counting;
// nontrivial says whether it is non-trivial by the property's stated rule.
func (c *Collector) Case(hash uint64, nontrivial bool, classes ...string) {
	c.mu.Lock()
	defer c.mu.Unlock()
	c.s.Evaluations++
	if nontrivial {
		c.seen[hash] = struct{}{}
	}
	for _, cl := range classes {
		c.s.Classes[cl]++
	}
}

// Class bumps class counters without counting an evaluation.
func (c *Collector) Class(classes ...string) {
	c.mu.Lock()
	defer c.mu.Unlock()
	for _, cl := range classes {
		c.s.Classes[cl]++
	}
}

// ClassN adds n to a class counter.
func (c *Collector) ClassN(cl string, n int) {
	c.mu.Lock()
	defer c.mu.Unlock()
	c.s.Classes[cl] += n
}

// Sample keeps a few of the cases (the first ones and then a thinning
// selection, deterministic in the order of calls).
func (c *Collector) Sample(v any) {
	c.mu.Lock()
	defer c.mu.Unlock()
	c.sampleN++
	if len(c.s.Samples) < c.maxSamp {
		c.s.Samples = append(c.s.Samples, v)
		return
	}
	// Replace a slot at exponentially spaced intervals so that later cases
	// are represented too, without any randomness.
	n := c.sampleN
	if n&(n-1) == 0 { // power of two
		c.s.Samples[(bitlen(n))%c.maxSamp] = v
	}
}

// WantSample reports whether a call to Sample now would store the value; it
// lets callers avoid building expensive sample documents.
func (c *Collector) WantSample() bool {
	c.mu.Lock()
	defer c.mu.Unlock()
	n := c.sampleN + 1
	return len(c.s.Samples) < c.maxSamp || n&(n-1) == 0
}

func bitlen(n int) int {
	l := 0
	for n > 0 {
		l++
		n >>= 1
	}
	return l
}

// Known records a hit of a listed known finding.
func (c *Collector) Known(id string) {
	c.mu.Lock()
	defer c.mu.Unlock()
	c.s.Known[id]++
}

// Foreign records a discrepancy that contradicts another property.
func (c *Collector) Foreign(class string) {
	c.mu.Lock()
	defer c.mu.Unlock()
	c.s.Foreign[class]++
}

// Note bumps a free-form counter (rejections, skipped cases, ...).
func (c *Collector) Note(k string) {
	c.mu.Lock()
	defer c.mu.Unlock()
	c.s.Notes[k]++
}

// Violation records a failing case.
func (c *Collector) Violation(msg, replay string) {
	c.mu.Lock()
	defer c.mu.Unlock()
	// Keep the last entry per replay path: rapid re-executes while shrinking
	// and the replay file is overwritten each time.
	for i := range c.s.Violations {
		if c.s.Violations[i].Replay == replay {
			c.s.Violations[i].Message = msg
			return
		}
	}
	c.s.Violations = append(c.s.Violations, Violation{Message: msg, Replay: replay})
}

// SetExhaustive marks the run as a complete enumeration of a finite space.
func (c *Collector) SetExhaustive(v bool) {
	c.mu.Lock()
	defer c.mu.Unlock()
	c.s.Exhaustive = v
}

// Inconclusive marks the shard as not having reached a verdict.
func (c *Collector) Inconclusive(why string) {
	c.mu.Lock()
	defer c.mu.Unlock()
	c.s.Inconclusive = why
}

// Evaluations returns the number of cases recorded so far.
func (c *Collector) Evaluations() int {
	c.mu.Lock()
	defer c.mu.Unlock()
	return c.s.Evaluations
}

// Flush writes the shard document to path.
func (c *Collector) Flush(path string) error {
	c.mu.Lock()
	defer c.mu.Unlock()
	c.s.Nontrivial = c.s.Nontrivial[:0]
	for h := range c.seen {
		c.s.Nontrivial = append(c.s.Nontrivial, h)
	}
	sort.Slice(c.s.Nontrivial, func(i, j int) bool { return c.s.Nontrivial[i] < c.s.Nontrivial[j] })
	b, err := json.Marshal(&c.s)
	if err != nil {
		return fmt.Errorf("marshal shard evidence: %w", err)
	}
	return os.WriteFile(path, b, 0o644)
}
